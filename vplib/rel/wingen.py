"""C04 -- window programs for the end-to-end oracle, on top of vplib/rel/prog.py (imported, not edited).

A window case is (partition, sort keys, frame, functions, placement, context before / after); one abstract
case is printed as PRQL and as a term of PV.Model.Window (`xtransform`: Rel.v's transforms plus window
columns over the extended function type with rank_dense).  `run_cases` evaluates through
vplib/rel/run.py with the model side switched to `runx` of Model/Window.v.

Determinism rule (what makes the documented meaning a function of the input):
  * unique mode: the sort keys end in the unique non-null key `id`: every function/frame is determined;
  * tie mode (sort keys with duplicates, or no sort = all rows of a partition are peers): function
    arguments only mention the partition/sort key columns and the result is projected to those columns
    plus the window columns; as a MULTISET that result does not depend on how an engine orders peers.
Range frames are only generated over one ascending, non-null integer key (the model's domain)."""
import contextlib

from . import prog as P
from . import run as R

FUNCS = ["sum", "min", "max", "average", "count", "lag", "lead", "first", "last", "rank", "rank_dense", "row_number"]
FRAME_SENSITIVE = ["sum", "min", "max", "average", "count", "first", "last"]     # value depends on the frame in SQL and in PRQL
COQ_FN = {"sum": "WB (WAgg ASum)", "min": "WB (WAgg AMin)", "max": "WB (WAgg AMax)", "average": "WB (WAgg AAvg)", "count": "WB (WAgg ACount)",
          "first": "WB WFirst", "last": "WB WLast", "rank": "WB WRank", "rank_dense": "WRankDense", "row_number": "WB WRowNumber"}
BOUNDS = [None, -2, -1, 0, 1, 2]

HEADER = ("From Coq Require Import List ZArith QArith NArith.\nFrom PV Require Import Model.Rel Model.Window.\n"
          "Import ListNotations.\nLocal Open Scope Z_scope.\n")


# ------------------------------------------------------------------ frames
def frame_of(fr):
    """python mirror of the `window` transform's decision, for labelling/classification only
    (the checked mirror is Model/Frame.v frame_of).  fr: ('none',) | ('rows',a,b) | ('range',a,b) | ('rolling',n) | ('expanding',)"""
    k = fr[0]
    if k == "none":
        return ("rows", None, None)
    if k == "expanding":
        return ("rows", None, 0)
    if k == "rolling":
        return ("rows", 1 - fr[1], 0) if fr[1] > 0 else ("rows", None, None)
    a, b = fr[1], fr[2]
    if (a, b) == (0, -1):
        return ("rows", None, None)          # the spelling of the std.prql default: "argument not given"
    if a is not None and b is not None and a > b:
        return None                          # rejected: "window: `rows` is an empty range ..." (/repo 7b31f75)
    return (k, a, b)


def sql_default(sorted_):
    return ("range", None, 0) if sorted_ else ("rows", None, None)


def bound_txt(x, paren):
    if x is None:
        return ""
    if x < 0:
        return "(%d)" % x if paren else "%d" % x
    return str(x)


def frame_prql(fr, paren=True):
    k = fr[0]
    if k == "none":
        return None
    if k == "expanding":
        return "expanding:true"
    if k == "rolling":
        return "rolling:%d" % fr[1]
    return "%s:%s..%s" % (k, bound_txt(fr[1], paren), bound_txt(fr[2], paren))


def coq_oz(x):
    return "None" if x is None else "(Some (%d))" % x


def frame_coq(fr):
    """the DOCUMENTED meaning of the window arguments as a Rel.v frame (book: rolling:n = rows:(1-n)..0, expanding =
    rows:..0, bounds inclusive) -- written from the book, not from the implementation's argument handling: a
    range whose start is after its end denotes the empty segment here"""
    k = fr[0]
    if k == "none":
        return "FNone"
    if k == "expanding":
        return "(FRows None (Some 0))"
    if k == "rolling":
        return "(FRows %s (Some 0))" % coq_oz(1 - fr[1])
    return "(%s %s %s)" % ("FRows" if k == "rows" else "FRange", coq_oz(fr[1]), coq_oz(fr[2]))


def empty_range(fr):
    return fr[0] in ("rows", "range") and fr[1] is not None and fr[2] is not None and fr[1] > fr[2]


def explicit_default(fr):
    """`rows:0..-1` / `range:0..-1` written out: the one empty range the transform still accepts (it cannot tell it from
    "argument not given"); the book's meaning is the empty segment (F54)"""
    return fr[0] in ("rows", "range") and (fr[1], fr[2]) == (0, -1)


def rejected(fr):
    """the argument the `window` transform rejects (python mirror of Model/Frame.v frame_of = WEmptyRange ..), or None"""
    return fr[0] if empty_range(fr) and not explicit_default(fr) else None


EMPTY_RANGE_MSG = "window: `%s` is an empty range (its start is after its end)"


def all_frames(kinds=("rows", "range")):
    out = [("none",), ("expanding",), ("rolling", 1), ("rolling", 2), ("rolling", 3)]
    for k in kinds:
        for a in BOUNDS:
            for b in BOUNDS:
                if a is not None and b is not None and a > b:
                    continue
                out.append((k, a, b))
    return out


# ------------------------------------------------------------------ functions
def fn_prql(f, k, arg):
    a = P.prql_expr(arg)
    if f in ("lag", "lead"):
        return "%s %d %s" % (f, k, a)
    return "%s %s" % (f, a)


def fn_coq(f, k):
    if f == "lag":
        return "WB (WLag (%d))" % k
    if f == "lead":
        return "WB (WLead (%d))" % k
    return COQ_FN[f]


def f22_class(f, fr, sorted_):
    """first/last never get a frame clause (no window_frame=true): wrong whenever the requested frame is
    not SQL's implicit default frame"""
    return f in ("first", "last") and rejected(fr) is None and frame_of(fr) != sql_default(sorted_)


class WProgram(P.Program):
    """steps flagged x=True are already `xtransform` terms; the others are Rel.transform terms"""

    def coq(self):
        return "[" + "; ".join(s.coq if s.info.get("x") else "XT (%s)" % s.coq for s in self.steps) + "]"

    def prql(self, header=None):
        # steps with empty PRQL text are the model-side halves of one PRQL construct (e.g. the filter of
        # `filter (sum b) > 1` = window column, then filter on it)
        if all(s.prql for s in self.steps):
            return super().prql(header)
        lines = (["prql target:%s" % header] if header else []) + ["from t"] + [s.prql for s in self.steps if s.prql]
        return "\n".join(lines)


def xstep(kind, prql, coq, **info):
    return P.Step(kind, prql, coq, x=True, **info)


_run_model_expr = R.model_expr


def model_expr(program, inst):
    """run.py's own term (base relation, U_TABLE / U_COLS / L_COLS placeholders) evaluated by `runx` instead of `run`"""
    if not isinstance(program, WProgram):
        program = WProgram(program.steps, program.ordered, program.final_cols, program.meta)
    txt = _run_model_expr(program, inst)
    assert txt.startswith("(let r := run ")
    return "(let r := runx " + txt[len("(let r := run "):]


@contextlib.contextmanager
def _window_model():
    """vplib/rel/run.py evaluates `run` of Model/Rel.v; C04 programs are `xtransform` lists evaluated by
    `runx` of Model/Window.v.  run.py looks HEADER/model_expr up at call time, so they are switched for
    the duration of one call (nothing is written to the shared module on disk)."""
    old = (R.HEADER, R.model_expr)
    R.HEADER, R.model_expr = HEADER, model_expr
    try:
        yield
    finally:
        R.HEADER, R.model_expr = old


def run_cases(cases, targets=("sql.sqlite", "sql.generic")):
    with _window_model():
        try:
            return R.run_cases(cases, targets=targets)
        except RuntimeError:
            # a coqc shard of coq_eval was killed (overloaded machine): once more
            return R.run_cases(cases, targets=targets)


# ------------------------------------------------------------------ instances
def gen_instance(rng, min_rows=4, max_rows=7):
    """t: id unique non-null with gaps, shuffled insertion order; a, b nullable with duplicates;
    c non-null with duplicates and gaps (the key of range frames and of tie mode); g in {NULL,1,2}.
    u(id, a, d, g): id unique, overlapping t's ids partly (1:1 joins on id keep t's unique key)."""
    n = rng.randint(min_rows, max_rows)
    ids = rng.sample(range(1, 10), n)
    rows = []
    for i in ids:
        rows.append([i, rng.choice([None, 0, 1, 2, 3, -1, 2]), rng.choice([None, 0, 1, 2, 3, -1, 5]), rng.choice([0, 1, 1, 2, 3, 5]),
                     rng.choice([None, 1, 1, 2, 2])])
    uids = rng.sample(range(1, 10), rng.randint(3, 7))
    urows = [[i, rng.choice([None, 0, 1, 2, 3]), rng.choice([None, 0, 1, 2, 3, -1, 5]), rng.choice([None, 1, 2])] for i in uids]
    return {"t": rows, "u": urows}


# ------------------------------------------------------------------ directed cases
SORTS = {
    "none": [],                                   # tie mode: all rows of a partition are peers
    "id": [(False, "id")], "-id": [(True, "id")],
    "c": [(False, "c")], "-c": [(True, "c")],     # tie mode
    "a": [(False, "a")],                          # tie mode, NULL keys
    "c,id": [(False, "c"), (False, "id")], "-c,id": [(True, "c"), (False, "id")], "a,-id": [(False, "a"), (True, "id")],
}
UNIQUE = {"id", "-id", "c,id", "-c,id", "a,-id"}
PLACEMENTS = ["derive", "select", "filter", "sort", "sortdirect"]
PRES = ["none", "filter", "take", "groupagg", "join"]
POSTS = ["none", "filter", "take", "aggregate", "groupagg", "derive", "window2"]


def keys_of(sort):
    return [(d, ("col", None, c)) for d, c in SORTS[sort]]


def range_ok(sort):
    """Rel.v's domain of range frames: one ascending non-null integer key"""
    return sort in ("id", "c")


def offset_free(fr):
    return fr[0] == "range" and fr[1] in (None, 0) and fr[2] in (None, 0)


def range_frame_ok(sort, fr):
    """the generalised domain (Model/Window.v segx, Frame.v range_domain): any range frame over ONE integer key, either
    direction; a range frame without numeric offsets over anything (several keys, NULL keys, no sort)"""
    if fr[0] != "range":
        return True
    return sort in ("id", "c", "-id", "-c") or offset_free(fr)


def range_invalid(sort, fr):
    """a range frame with a numeric offset over several sort keys or none: rejected by translate_windowed (91a6a23; F56) --
    when a function that takes a frame clause uses it"""
    return fr[0] == "range" and not offset_free(fr) and not empty_range(fr) and len(SORTS[sort]) != 1


RANGE_OFFSET_MSG = "RANGE with offset PRECEDING/FOLLOWING requires one ORDER BY expression"      # what SQLite said before 91a6a23
RANGE_KEYS_MSG = "window: a `range` with an offset needs exactly one sort key"                   # what the compiler says now


def win_ctor(fr, sort, by=None):
    """the model term that evaluates the window step: Rel.v's frames on Rel.v's domain, the generalised reading elsewhere"""
    if fr[0] == "range" and not range_ok(sort):
        head = "XWinR" if by is None else "XGroupWinR %s" % P.coq_names(by)
        return "%s %s %s" % (head, coq_oz(fr[1]), coq_oz(fr[2]))
    head = "XWinF" if by is None else "XGroupWinF %s" % P.coq_names(by)
    return "%s %s" % (head, frame_coq(fr))


class Case:
    def __init__(self, part, sort, frame, fns, placement="derive", pre="none", post="none", thr=1, paren=True, side="Inner"):
        self.part, self.sort, self.frame, self.fns, self.placement, self.pre, self.post, self.thr, self.paren = part, sort, frame, fns, placement, pre, post, thr, paren
        self.side = side          # pre == "join": Inner | LeftJ

    def key(self):
        return repr((self.part, self.sort, self.frame, self.fns, self.placement, self.pre, self.post, self.thr, self.side))

    @property
    def unique(self):
        return self.sort in UNIQUE

    @property
    def sorted(self):
        return self.sort != "none"


def arg_choices(case, avail):
    """argument columns that keep the meaning deterministic"""
    if case.unique:
        return [c for c in ("b", "a", "c", "id") if c in avail]
    cols = [c for _, c in SORTS[case.sort]] + ([case.part] if case.part else [])
    return [c for c in cols if c in avail]


def valid(case):
    k = case.frame[0]
    if k == "range":
        if not (range_frame_ok(case.sort, case.frame) or range_invalid(case.sort, case.frame)):
            return False
    if not case.unique:
        if case.placement in ("sort", "sortdirect") or case.post in ("take", "window2", "derive", "groupagg") or case.pre == "take":
            return False
        if case.pre == "groupagg":
            return False
    if not case.unique and case.part is None and case.sort == "none" and case.placement == "filter":
        return False          # nothing deterministic is left to project
    if case.post == "take" and (case.part is not None or case.placement in ("select",)):
        return False
    if case.placement in ("filter", "sortdirect") and case.post != "none":
        return False
    if case.placement == "sort" and case.post not in ("none", "take"):
        return False
    if case.placement == "sortdirect" and (case.part is not None):
        return False
    if case.pre == "groupagg" and any(a and a[1] == "a" for _, _, a in case.fns if a):
        return False
    if case.pre == "groupagg" and "a" in case.sort:
        return False
    if case.pre == "join":
        # sort | join (1:1 on the unique key id) | window: the window's order is the LEFT input's sort, carried through the join
        if case.part is not None or not case.unique or case.placement == "sortdirect" or case.post in ("groupagg", "window2"):
            return False
    return True


def build(case):
    """Case -> WProgram (or None when the combination is outside the deterministic domain)"""
    if not valid(case):
        return None
    steps = []
    avail = ["id", "a", "b", "c", "g"]
    joined = case.pre == "join"
    qual = [joined]     # a `select` of the joined relation yields plain column names again

    def col(c):
        # after a join the base columns are qualified (t.x; u.d), derived columns are not
        if qual[0] and c in ("id", "a", "b", "c", "g"):
            return ("col", "t", c)
        if qual[0] and c == "d":
            return ("col", "u", "d")
        return ("col", None, c)
    # ---- context before the window (a split: the window sees the result of an earlier SELECT)
    if case.pre == "filter":
        e = ("bin", "Ne", col("b"), ("lit", 1))
        steps.append(P.Step("filter", "filter %s" % P.prql_expr(e), "TFilter %s" % P.coq_expr(e)))
    elif case.pre == "take":
        ks = [(False, col("id"))]
        steps.append(P.Step("sort", "sort %s" % P.prql_keys(ks), "TSort %s" % P.coq_keys(ks)))
        steps.append(P.Step("take", "take 2..5", "TTake (Some (2)) (Some (5))", rng=(2, 5)))
    elif case.pre == "groupagg":
        steps.append(P.Step("group_agg", "group {g, c} (aggregate {b = sum b, id = min id})",
                            "TGroupAgg %s [(Some %d%%N, ASum, %s); (Some %d%%N, AMin, %s)]" % (
                                P.coq_names(["g", "c"]), P.nid("b"), P.coq_expr(col("b")), P.nid("id"), P.coq_expr(col("id")))))
        avail = ["g", "c", "b", "id"]
    keys = keys_of(case.sort)
    fns = case.fns
    if joined:
        # the sort comes BEFORE the join; nothing re-sorts after it
        steps.append(P.Step("sort", "sort %s" % P.prql_keys(keys), "TSort %s" % P.coq_keys(keys)))
        on = ("bin", "Eq", ("col", "t", "id"), ("col", "u", "id"))
        steps.append(P.Step("join", "join %su (%s)" % ("side:left " if case.side == "LeftJ" else "", P.prql_expr(on)),
                            "TJoin %s %d%%N U_COLS U_TABLE %s" % (case.side, P.nid("u"), P.coq_expr(on)), side=case.side, one_to_one=True))
        keys = [(d, col(e[2])) for d, e in keys]
        fns = tuple((f, k, (("col", "u", "d") if a[2] == "a" else col(a[2])) if a[0] == "col" else a) for f, k, a in fns)
        avail = avail + ["d"]
    okeys = P.coq_keys(keys)
    ftxt = frame_prql(case.frame, case.paren)
    fcoq = frame_coq(case.frame)
    wnames, items, citems, wmeta = [], [], [], {}
    for i, (f, k, arg) in enumerate(fns):
        nm = "x%d" % (i + 1)
        wnames.append(nm)
        items.append("%s = %s" % (nm, fn_prql(f, k, arg)))
        citems.append("(Some %d%%N, %s, %s)" % (P.nid(nm), fn_coq(f, k), P.coq_expr(arg)))
        wmeta[nm] = {"fn": f, "frame": case.frame, "sorted": case.sorted, "f22": f22_class(f, case.frame, case.sorted),
                     "f54": explicit_default(case.frame) and f in FRAME_SENSITIVE}
    by = [case.part] if case.part else []
    if case.unique:
        keep = [c for c in ("id", "g", "c", "b", "d") if c in avail]
    else:
        keep = by + [c for _, c in SORTS[case.sort] if c not in by]
    pl = case.placement
    thr = case.thr
    if pl in ("derive", "sort"):
        body = "derive {%s}" % ", ".join(items)
        post_model = []
        outcols = keep + wnames
    elif pl == "select":
        body = "select {%s}" % ", ".join([P.prql_expr(col(c)) for c in keep if c not in by] + items)
        post_model = [P.Step("select", "", "TSelect [%s]" % "; ".join(["(None, %s)" % P.coq_expr(col(c)) for c in keep] + ["(None, %s)" % P.coq_expr(col(n)) for n in wnames]), implicit=True)]
        outcols = keep + wnames
    elif pl == "filter":
        f, k, arg = fns[0]
        body = "filter (%s) > %d" % (fn_prql(f, k, arg), thr)
        citems = citems[:1]
        cond = ("bin", "Gt", col("x1"), ("lit", thr))
        post_model = [P.Step("filter", "", "TFilter %s" % P.coq_expr(cond), implicit=True)]
        outcols = keep
        wmeta = {"x1": wmeta["x1"]}
        wmeta["x1"]["consumed"] = True
    elif pl == "sortdirect":
        f, k, arg = fns[0]
        dkeys = "{(%s), id}" % fn_prql(f, k, arg)
        citems = citems[:1]
        wmeta = {"x1": dict(wmeta["x1"], consumed=True, sortdirect=True)}
        post_model = []
        outcols = keep
    else:
        raise ValueError(pl)
    wcoq = "[%s]" % "; ".join(citems)
    info = {"fns": [f for f, _, _ in fns], "frame": case.frame, "part": case.part, "sort": case.sort, "placement": pl}
    if pl == "sortdirect":
        # `sort {(f e), id}` while the sort `keys` is in effect: the documented meaning is f over the whole
        # table in the current order, then a sort by that value
        if keys:
            steps.append(P.Step("sort", "sort %s" % P.prql_keys(keys), "TSort %s" % okeys))
        w = "window %s (sort %s)" % (ftxt, dkeys) if ftxt else "sort %s" % dkeys
        steps.append(xstep("win", w, "%s %s %s" % (win_ctor(case.frame, case.sort), okeys, wcoq), **info))
        sk = [(False, col("x1")), (False, col("id"))]
        steps.append(P.Step("sort", "", "TSort %s" % P.coq_keys(sk), implicit=True))
        steps.append(P.Step("take", "take 3", "TTake None (Some (3))", rng=(None, 3)))
    elif case.part is None:
        if keys and not joined:
            steps.append(P.Step("sort", "sort %s" % P.prql_keys(keys), "TSort %s" % okeys))
        w = "window %s (%s)" % (ftxt, body) if ftxt else body
        steps.append(xstep("win", w, "%s %s %s" % (win_ctor(case.frame, case.sort), okeys, wcoq), **info))
    else:
        inner = ("sort %s | " % P.prql_keys(keys) if keys else "") + ("window %s (%s)" % (ftxt, body) if ftxt else body)
        steps.append(xstep("group_win", "group {%s} (%s)" % (case.part, inner), "%s %s %s" % (win_ctor(case.frame, case.sort, by), okeys, wcoq), **info))
    steps += post_model
    if pl == "select":
        qual[0] = False
    if pl == "sort":
        sk = [(False, col("x1")), (False, col("id"))]
        steps.append(P.Step("sort", "sort %s" % P.prql_keys(sk), "TSort %s" % P.coq_keys(sk)))
    # ---- context after the window
    po = case.post
    x1 = col("x1")
    if po == "filter":
        e = ("bin", "Gt", x1, ("lit", thr))
        steps.append(P.Step("filter", "filter %s" % P.prql_expr(e), "TFilter %s" % P.coq_expr(e)))
        for m in wmeta.values():
            m["consumed"] = True
    elif po == "take":
        steps.append(P.Step("take", "take 3", "TTake None (Some (3))", rng=(None, 3)))
        for m in wmeta.values():
            m["consumed"] = m.get("consumed") or pl == "sort"
    elif po == "aggregate":
        its, cis = [], []
        for n_ in wnames:
            for a_, an in (("AMax", "max"), ("ACount", "count"), ("ASum", "sum")):
                nm = "%s_%s" % (an, n_)
                its.append("%s = %s %s" % (nm, an, n_))
                cis.append("(Some %d%%N, %s, %s)" % (P.nid(nm), a_, P.coq_expr(col(n_))))
        steps.append(P.Step("aggregate", "aggregate {%s}" % ", ".join(its), "TAggregate [%s]" % "; ".join(cis)))
        outcols = None
        for m in wmeta.values():
            m["consumed"] = True
    elif po == "groupagg":
        nm = "m1"
        steps.append(P.Step("group_agg", "group {g} (aggregate {%s = max x1, n1 = count x1})" % nm,
                            "TGroupAgg %s [(Some %d%%N, AMax, %s); (Some %d%%N, ACount, %s)]" % (P.coq_names(["g"]), P.nid(nm), P.coq_expr(x1), P.nid("n1"), P.coq_expr(x1))))
        outcols = None
        for m in wmeta.values():
            m["consumed"] = True
    elif po == "derive":
        e = ("bin", "Add", x1, ("lit", 1))
        steps.append(P.Step("derive", "derive {y1 = %s}" % P.prql_expr(e), "TDerive [(Some %d%%N, %s)]" % (P.nid("y1"), P.coq_expr(e))))
        outcols = outcols + ["y1"]
        wmeta["y1"] = dict(wmeta["x1"])
    elif po == "window2":
        # a second window function over the first one's value: cannot share a SELECT with it
        k2 = [(False, col("id"))]
        if case.part is None:
            steps.append(P.Step("sort", "sort %s" % P.prql_keys(k2), "TSort %s" % P.coq_keys(k2)))
            steps.append(xstep("win", "derive {y1 = lag 1 x1, y2 = sum x1}", "XWinF FNone %s [(Some %d%%N, WB (WLag 1), %s); (Some %d%%N, WB (WAgg ASum), %s)]" % (
                P.coq_keys(k2), P.nid("y1"), P.coq_expr(x1), P.nid("y2"), P.coq_expr(x1)), fns=["lag", "sum"], frame=("none",), part=None, sort="id", placement="derive"))
        else:
            steps.append(xstep("group_win", "group {g} (sort %s | derive {y1 = lag 1 x1, y2 = sum x1})" % P.prql_keys(k2),
                               "XGroupWinF %s FNone %s [(Some %d%%N, WB (WLag 1), %s); (Some %d%%N, WB (WAgg ASum), %s)]" % (
                                   P.coq_names(["g"]), P.coq_keys(k2), P.nid("y1"), P.coq_expr(x1), P.nid("y2"), P.coq_expr(x1)),
                               fns=["lag", "sum"], frame=("none",), part="g", sort="id", placement="derive"))
        outcols = outcols + ["y1", "y2"]
        wmeta["y1"] = dict(wmeta["x1"])
        wmeta["y2"] = dict(wmeta["x1"])
    # ---- final projection (explicit: which columns a wildcard exposes is C05's clause)
    if outcols is not None:
        seen, fc = set(), []
        for c in outcols:
            if c not in seen:
                seen.add(c)
                fc.append(c)
        steps.append(P.Step("select", "select {%s}" % ", ".join(P.prql_expr(col(c)) for c in fc), "TSelect [%s]" % "; ".join("(None, %s)" % P.coq_expr(col(c)) for c in fc), final=True))
    else:
        fc = None
    pg = WProgram(steps, False, fc, {"case": case, "wcols": wmeta, "rejected": rejected(case.frame), "range_invalid": range_invalid(case.sort, case.frame)})
    return pg


def pick_fns(rng, case_proto, avail, m, pool=None):
    """m functions with deterministic arguments; lag/lead offsets 1..2"""
    out = []
    args = arg_choices(case_proto, avail)
    for _ in range(m):
        f = rng.choice(pool or FUNCS)
        k = rng.choice([1, 1, 2]) if f in ("lag", "lead") else None
        arg = ("col", None, rng.choice(args)) if args else ("lit", 1)
        out.append((f, k, arg))
    return tuple(out)


# ------------------------------------------------------------------ random programs (C01's generator with C04's windows)
class WinGen(P.Gen):
    """prog.Gen whose window steps draw from all 12 functions, rows/range/rolling/expanding frames and
    grouped frames; everything else (joins, filters, takes, aggregates around them) is inherited."""

    def program(self, n_steps=None, force=None, final_select=True):
        pg = super().program(n_steps=n_steps, force=force, final_select=final_select)
        wmeta = {}
        for s in pg.steps:
            for nm, m in (s.info.get("wcols") or {}).items():
                wmeta[nm] = m
        return WProgram(pg.steps, pg.ordered, pg.final_cols, dict(pg.meta, wcols=wmeta, tainted=True))

    def t_sort(self, st):
        # a sort key that is syntactically a negation (`(-(b))`) is read by PRQL as "descending b", which is not
        # "ascending -b" (NULLs go to the other end): keep such keys out, the reference semantics sorts by value
        for _ in range(8):
            saved = (st["order"], st.get("uniq_dropped"))
            step = super().t_sort(st)
            if step is None or not any(e[0] == "neg" for _, e in step.info["keys"]):
                return step
            st["order"] = saved[0]
            if saved[1]:
                st["uniq_dropped"] = saved[1]
        return None

    def _frame(self, single_id_key):
        r = self.r
        k = r.random()
        if k < 0.3:
            return ("none",)
        if k < 0.4:
            return ("rolling", r.randint(1, 3))
        if k < 0.5:
            return ("expanding",)
        kind = "range" if (single_id_key and r.random() < 0.35) else "rows"
        a, b = r.choice(BOUNDS), r.choice(BOUNDS)
        if a is not None and b is not None and a > b:
            a, b = b, a
        return (kind, a, b)

    def _wcols(self, cols, fr, sorted_, m):
        r = self.r
        items, citems, meta, names = [], [], {}, []
        for _ in range(m):
            nm = self.newname()
            f = r.choice(FUNCS)
            k = r.choice([1, 1, 2]) if f in ("lag", "lead") else None
            e = self.num(cols, 1)
            items.append("%s = %s" % (nm, fn_prql(f, k, e)))
            citems.append("(Some %d%%N, %s, %s)" % (P.nid(nm), fn_coq(f, k), P.coq_expr(e)))
            meta[nm] = {"fn": f, "frame": fr, "sorted": sorted_, "f22": f22_class(f, fr, sorted_)}
            names.append(nm)
        return items, citems, meta, names

    def t_win(self, st):
        r = self.r
        # after a 1:1 join on the unique key the left input's sort (requalified by prog.Gen.t_join) is still in
        # effect and still ends in a unique key: window functions there take their order from the carried sort
        if st["order"] is None or st.get("outer_right") or st["uniq"] is None or st.get("uniq_dropped") or not self._keys_visible(st):
            return None
        single = st["order"] == [(False, ("col", None, "id"))]
        fr = self._frame(single)
        items, citems, meta, names = self._wcols(st["cols"], fr, True, r.randint(1, 2))
        ftxt = frame_prql(fr, r.random() < 0.5)
        body = "derive {%s}" % ", ".join(items)
        st["cols"] = st["cols"] + [(None, n) for n in names]
        return xstep("win", "window %s (%s)" % (ftxt, body) if ftxt else body,
                     "XWinF %s %s [%s]" % (frame_coq(fr), P.coq_keys(st["order"]), "; ".join(citems)), wcols=meta, fns=[m["fn"] for m in meta.values()], frame=fr)

    def t_group_win(self, st):
        r = self.r
        if st["uniq"] is None or st["joined"] or (None, "id") not in st["cols"] or st.get("uniq_dropped"):
            return None
        by = self._group_by(st)
        if by is None or "id" in by:
            return None
        inner_cols = [c for c in st["cols"] if c[1] not in by]
        ks = [(r.random() < 0.4, st["uniq"])]
        single = ks == [(False, ("col", None, "id"))]
        fr = self._frame(single)
        items, citems, meta, names = self._wcols(inner_cols, fr, True, r.randint(1, 2))
        ftxt = frame_prql(fr, r.random() < 0.5)
        body = "derive {%s}" % ", ".join(items)
        st["order"] = None
        st["cols"] = [(None, b) for b in by] + [c for c in st["cols"] if c[1] not in by] + [(None, n) for n in names]
        return xstep("group_win", "group {%s} (sort %s | %s)" % (", ".join(by), P.prql_keys(ks), "window %s (%s)" % (ftxt, body) if ftxt else body),
                     "XGroupWinF %s %s %s [%s]" % (P.coq_names(by), frame_coq(fr), P.coq_keys(ks), "; ".join(citems)), wcols=meta, by=by,
                     fns=[m["fn"] for m in meta.values()], frame=fr)

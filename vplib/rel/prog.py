"""Abstract PRQL programs of the relational core: generator (with frame tracking), PRQL printer and
Coq printer (terms of PV.Model.Rel).  One abstract program is printed both ways, so the reference
semantics (Coq) and the compiler (PRQL text) see the same program without sharing any compiler code.

Expressions are tuples:
  ('col', qualifier|None, name) ('lit', int|None) ('bin', Op, l, r) ('neg', e) ('not', e)
  ('isnull', e, negated) ('case', [(cond, value)...])   -- a final ('lit',1) condition is `true =>`
"""
import random

NAMES = {}


def nid(n):
    if n not in NAMES:
        NAMES[n] = len(NAMES) + 1
    return NAMES[n]


for _n in ["id", "a", "b", "c", "g", "d", "t", "u"]:
    nid(_n)
TABLES = {"t": ["id", "a", "b", "c", "g"], "u": ["id", "a", "d", "g"]}


def name_of_id(i):
    for k, v in NAMES.items():
        if v == i:
            return k
    return None


def coq_opt(x):
    return "None" if x is None else "(Some %d%%N)" % nid(x)


def coq_val(v):
    if v is None:
        return "VNull"
    if isinstance(v, int):
        return "(VInt (%d))" % v
    raise ValueError(v)


def coq_expr(e):
    k = e[0]
    if k == "col":
        return "(ECol %s %d%%N)" % (coq_opt(e[1]), nid(e[2]))
    if k == "lit":
        return "(ELit %s)" % coq_val(e[1])
    if k == "bin":
        if e[1] in ("Eq", "Ne") and (e[2] == ("lit", None) or e[3] == ("lit", None)):
            other = e[3] if e[2] == ("lit", None) else e[2]
            return "(EIsNull %s %s)" % (coq_expr(other), "true" if e[1] == "Ne" else "false")
        return "(EBin %s %s %s)" % (e[1], coq_expr(e[2]), coq_expr(e[3]))
    if k == "neg":
        return "(ENeg %s)" % coq_expr(e[1])
    if k == "not":
        return "(ENot %s)" % coq_expr(e[1])
    if k == "isnull":
        return "(EIsNull %s %s)" % (coq_expr(e[1]), "true" if e[2] else "false")
    if k == "case":
        return "(ECase [" + "; ".join("(%s, %s)" % (coq_expr(c), coq_expr(v)) for c, v in e[1]) + "])"
    raise ValueError(k)


OPS = {"Add": "+", "Sub": "-", "Mul": "*", "DivF": "/", "DivI": "//", "Mod": "%", "Eq": "==", "Ne": "!=", "Lt": "<", "Le": "<=",
       "Gt": ">", "Ge": ">=", "And": "&&", "Or": "||", "Coalesce": "??"}


def prql_expr(e):
    """fully parenthesised: operator precedence is C02's subject, not this oracle's"""
    k = e[0]
    if k == "col":
        return (e[1] + "." if e[1] else "") + e[2]
    if k == "lit":
        return "null" if e[1] is None else (str(e[1]) if e[1] >= 0 else "(%d)" % e[1])
    if k == "bin":
        return "(%s %s %s)" % (prql_expr(e[2]), OPS[e[1]], prql_expr(e[3]))
    if k == "neg":
        return "(-(%s))" % prql_expr(e[1])
    if k == "not":
        return "(!(%s))" % prql_expr(e[1])
    if k == "isnull":
        return "(%s %s null)" % (prql_expr(e[1]), "!=" if e[2] else "==")
    if k == "case":
        return "(case [" + ", ".join("%s => %s" % ("true" if c == ("lit", 1) else prql_expr(c), prql_expr(v)) for c, v in e[1]) + "])"
    raise ValueError(k)


def expr_cols(e):
    k = e[0]
    if k == "col":
        return {(e[1], e[2])}
    if k == "lit":
        return set()
    if k == "bin":
        return expr_cols(e[2]) | expr_cols(e[3])
    if k in ("neg", "not", "isnull"):
        return expr_cols(e[1])
    if k == "case":
        s = set()
        for c, v in e[1]:
            s |= expr_cols(c) | expr_cols(v)
        return s
    return set()


AGGS = {"ASum": "sum", "ACount": "count", "AMin": "min", "AMax": "max", "AAvg": "average"}
WFNS = {"WRowNumber": "row_number", "WRank": "rank", "WLag 1": "lag 1", "WLead 1": "lead 1", "WLag 2": "lag 2", "WFirst": "first", "WLast": "last",
        "WAgg ASum": "sum", "WAgg ACount": "count", "WAgg AMin": "min", "WAgg AMax": "max", "WAgg AAvg": "average"}


def coq_keys(ks):
    return "[" + "; ".join("(%s, %s)" % ("true" if d else "false", coq_expr(e)) for d, e in ks) + "]"


def prql_keys(ks):
    return "{" + ", ".join(("-" if d else "") + prql_expr(e) for d, e in ks) + "}"


def coq_names(ns):
    return "[" + "; ".join("%d%%N" % nid(b) for b in ns) + "]"


class Step:
    """one transform: kind tag, PRQL text, Coq term text"""

    def __init__(self, kind, prql, coq, **info):
        self.kind, self.prql, self.coq, self.info = kind, prql, coq, info


class Program:
    def __init__(self, steps, ordered, final_cols, meta=None):
        self.steps, self.ordered, self.final_cols, self.meta = steps, ordered, final_cols, meta or {}

    def prql(self, header=None):
        k = self.meta.get("let_at")
        if k:
            body = ["from t"] + [s.prql for s in self.steps[:k]]
            lines = (["prql target:%s" % header] if header else []) + ["let p0 = (", *body, ")", "from p0"] + [s.prql for s in self.steps[k:]]
        else:
            lines = (["prql target:%s" % header] if header else []) + ["from t"] + [s.prql for s in self.steps]
        txt = "\n".join(lines)
        rn = self.meta.get("rename")
        if rn:
            import re as _re
            txt = _re.sub(r"(?<![A-Za-z0-9_`])(%s)(?![A-Za-z0-9_`])" % "|".join(sorted(rn, key=len, reverse=True)), lambda m: rn[m.group(1)], txt)
        return txt

    def coq(self):
        return "[" + "; ".join(s.coq + ("; " + s.info["then"] if s.info.get("then") else "") for s in self.steps) + "]"

    def kinds(self):
        return [s.kind for s in self.steps]


class RawProgram(Program):
    """hand-built program: the PRQL text and the reference term are given directly (directed families whose shape the
    step generator does not produce, e.g. a let-bound relation referenced twice)"""
    def __init__(self, kinds, text, model, ordered, final_cols, meta=None):
        super().__init__([Step(k, "", "") for k in kinds], ordered, final_cols, meta)
        self._text, self._model = text, model

    def prql(self, header=None):
        return ("prql target:%s\n" % header if header else "") + self._text

    def model_expr(self, inst):
        return self._model(inst)


class Gen:
    """Random program generator.  Frame tracking: cols = [(qualifier|None, name)] visible columns;
    order = sort keys in effect (or None); uniq = an expression that is a unique non-null key of the
    current relation (or None): positional transforms (take, lag, row_number…) are only generated
    while the order in effect ends in a unique key, so that the documented meaning is deterministic."""

    def __init__(self, rng, weights=None, max_steps=6, expr_depth=2, ops=None, lets=0.0, rsub=0.0, distinct_n=0.0):
        self.r = rng
        self.lets = lets
        self.distinct_n = distinct_n   # probability that a whole-row group takes n >= 2 rows instead of 1
        self.rsub = rsub     # probability that a 1:1 join's relational argument is a sorted pipeline of its own
        self.fresh = 0
        self.w = {"join": 1.2, "derive": 2, "select": 1.5, "filter": 2.2, "sort": 2, "take": 1.5, "aggregate": 0.7, "group_agg": 0.9,
                  "group_take": 0.8, "group_win": 0.8, "win": 1.0, "distinct": 0.5, "append": 0.25, "alljoin": 0.0, "nested_group": 0.0}
        if weights:
            self.w.update(weights)
        self.max_steps = max_steps
        self.depth = expr_depth
        self.num_ops = ops or ["Add", "Sub", "Mul", "Coalesce"]

    def newname(self):
        self.fresh += 1
        return "x%d" % self.fresh

    # ---- expressions
    def num(self, cols, d):
        r = self.r
        cols = [c for c in cols if not c[1].startswith("?")]     # unnamed frame columns cannot be referenced
        k = r.random()
        if d <= 0 or k < 0.35:
            if cols and r.random() < 0.75:
                q, n = r.choice(cols)
                return ("col", q, n)
            return ("lit", r.choice([0, 1, 2, 3, -1, None]) if r.random() < 0.9 else 5)
        if k < 0.75:
            return ("bin", r.choice(self.num_ops), self.num(cols, d - 1), self.num(cols, d - 1))
        if k < 0.8:
            return ("bin", "DivF", self.num(cols, d - 1), self.num(cols, d - 1))
        if k < 0.88:
            x = self.num(cols, d - 1)
            return x if x[0] == "neg" or (x[0] == "lit" and x[1] is not None and x[1] < 0) else ("neg", x)
        return ("case", [(self.boolean(cols, d - 1), self.num(cols, d - 1)), (("lit", 1), self.num(cols, d - 1))])

    def boolean(self, cols, d):
        r = self.r
        k = r.random()
        if d <= 0 or k < 0.55:
            return ("bin", r.choice(["Eq", "Ne", "Lt", "Le", "Gt", "Ge"]), self.num(cols, d - 1), self.num(cols, d - 1))
        if k < 0.75:
            return ("bin", r.choice(["And", "Or"]), self.boolean(cols, d - 1), self.boolean(cols, d - 1))
        if k < 0.85:
            return ("not", self.boolean(cols, d - 1))
        return ("isnull", self.num(cols, d - 1), r.random() < 0.5)

    def selective_filter(self, cols):
        """a filter that typically keeps some rows and drops some"""
        r = self.r
        cols = [c for c in cols if not c[1].startswith("?")]
        cands = [c for c in cols if c[1] in ("a", "b", "c", "g", "d", "id")]
        if not cands or r.random() < 0.3:
            return self.boolean(cols, self.depth)
        q, n = r.choice(cands)
        return ("bin", r.choice(["Gt", "Ge", "Lt", "Ne", "Le"]), ("col", q, n), ("lit", r.choice([0, 1, 2, 3])))

    # ---- program
    def program(self, n_steps=None, force=None, final_select=True):
        """force: list of kind names to try (in order) before free choice"""
        r = self.r
        st = {"cols": [(None, c) for c in TABLES["t"]], "order": None, "uniq": ("col", None, "id"), "joined": False, "steps": [], "n": 0,
              "group_reset": False}
        n = n_steps or r.randint(1, self.max_steps)
        force = list(force or [])
        tries = 0
        while len(st["steps"]) < n and tries < 60:
            tries += 1
            if force:
                kind = force[0]
            else:
                kinds = list(self.w.keys())
                kind = r.choices(kinds, weights=[self.w[k] for k in kinds])[0]
            step = getattr(self, "t_" + kind)(st)
            if step is None:
                if force and tries % 6 == 0:
                    force.pop(0)
                continue
            if force:
                force.pop(0)
            st["steps"].append(step)
            if st.get("stop"):
                break
        if final_select and not st.get("stop"):
            seen, its, cis, fc = set(), [], [], []
            for q, c in st["cols"]:
                if c in seen or c.startswith("?"):
                    continue
                seen.add(c)
                its.append((q + "." if q else "") + c)
                cis.append("(None, ECol %s %d%%N)" % (coq_opt(q), nid(c)))
                fc.append(c)
            st["steps"].append(Step("select", "select {%s}" % ", ".join(its), "TSelect [%s]" % "; ".join(cis), final=True))
            st["cols"] = [(None, c) for c in fc]
        ordered = st["order"] is not None and st["uniq"] is not None
        # positions (in the final frame) of the sort keys in effect, when they are plain columns that survive
        key_pos = None
        if st["order"] is not None and final_select:
            names = [c for _, c in st["cols"]]
            kp = []
            shared = set(TABLES["t"]) & set(TABLES["u"])
            for d, e in st["order"]:
                # after a join a bare name shared by both tables may denote the other side's column: not usable as a key
                if e[0] == "col" and e[2] in names and (e[1] in (None, "t")) and not (st["joined"] and e[2] in shared) and names.count(e[2]) == 1:
                    kp.append((names.index(e[2]), d))
                else:
                    kp = None
                    break
            key_pos = kp
        meta = {"order": st["order"], "key_pos": key_pos, "outer_right": bool(st.get("outer_right"))}
        if st.get("nested_group"):
            meta["nested_group"] = True
        kinds = [x.kind for x in st["steps"]]
        if self.lets and "join" not in kinds and len(st["steps"]) >= 2 and r.random() < self.lets and not any(k in kinds for k in ("knownjoin", "joinpick", "append")):
            meta["let_at"] = r.randint(1, len(st["steps"]) - 1)       # name a pipeline prefix with `let` and continue from the name
        return Program(st["steps"], ordered, [c for _, c in st["cols"]], meta)

    # each t_* returns a Step or None (not applicable in the current state)
    def t_join(self, st):
        r = self.r
        if st["joined"] or st["cols"] != [(None, c) for c in TABLES["t"]] or any(x.kind not in ("sort", "filter", "take") for x in st["steps"]):
            return None
        side = r.choices(["Inner", "LeftJ", "RightJ", "FullJ"], weights=[4, 4, 1.5, 1.5])[0]
        one_to_one = r.random() < 0.4
        if one_to_one:
            on = ("bin", "Eq", ("col", "t", "id"), ("col", "u", "id"))     # ids are unique on both sides: at most one match
        else:
            on = ("bin", "Eq", ("col", "t", "g"), ("col", "u", "g"))
            if r.random() < 0.4:
                on = ("bin", "And", on, ("bin", r.choice(["Lt", "Ge"]), ("col", "t", "a"), ("col", "u", "d")))
        lcols = list(st["cols"])
        st["cols"] = [("t", c) for c in TABLES["t"]] + [("u", c) for c in TABLES["u"]]
        st["joined"] = True
        outer_right = side in ("RightJ", "FullJ")

        def requal(e):
            if e[0] == "col":
                return ("col", "t", e[2])
            if e[0] == "bin":
                return ("bin", e[1], requal(e[2]), requal(e[3]))
            if e[0] in ("neg", "not"):
                return (e[0], requal(e[1]))
            if e[0] == "isnull":
                return ("isnull", requal(e[1]), e[2])
            if e[0] == "case":
                return ("case", [(requal(c), requal(v)) for c, v in e[1]])
            return e
        # the left input's order is retained by join; its keys are now qualified
        if st["order"] is not None:
            st["order"] = [(d, requal(e)) for d, e in st["order"]]
        if one_to_one and not outer_right and st["uniq"] is not None:
            st["uniq"] = requal(st["uniq"])           # still a unique key: positional transforms stay deterministic
        else:
            st["uniq"] = None
        if outer_right:
            st["outer_right"] = True                   # rows without a left partner have NULL left keys: their position is unspecified
        sidetxt = {"Inner": "", "LeftJ": "side:left ", "RightJ": "side:right ", "FullJ": "side:full "}[side]
        if outer_right:
            lc = "[" + "; ".join("(Some %d%%N, Some %d%%N)" % (nid("t"), nid(c)) for _, c in lcols) + "]"
            coq = "TJoinX %s %d%%N L_COLS U_COLS U_TABLE %s" % (side, nid("u"), coq_expr(on))
        else:
            coq = "TJoin %s %d%%N U_COLS U_TABLE %s" % (side, nid("u"), coq_expr(on))
        # the relational argument as a pipeline of its own with a sort: the argument's order is not the left
        # input's (join retains the LEFT order), so the reference term is unchanged; only with a 1:1 condition,
        # where the order of the right side cannot show in the order of the matches of one left row
        rsub, utxt = None, "u"
        if one_to_one and self.rsub and r.random() < self.rsub:
            rsub = [(r.random() < 0.5, ("col", None, c)) for c in r.sample(TABLES["u"], r.choice([1, 2, 2, 3]))]
            utxt = "u=(from u | sort %s)" % prql_keys(rsub)
        return Step("join", "join %s%s (%s)" % (sidetxt, utxt, prql_expr(on)), coq, side=side, one_to_one=one_to_one, rsub=rsub)

    def t_alljoin(self, st):
        """join on ALL columns of both (narrowed) sides, keeping only the left columns: the shape the back end may
        rewrite into a set operation"""
        r = self.r
        if st["joined"] or st["cols"] != [(None, c) for c in TABLES["t"]] or any(x.kind not in ("sort", "filter", "take") for x in st["steps"]):
            return None
        side = r.choice(["Inner", "LeftJ", "Inner", "LeftJ", "RightJ", "FullJ"])
        others = [c for c in TABLES["t"] if c not in ("a", "b")] + ["zz"]
        st["steps"].append(Step("select", "select {a, b}", "TExclude [%s]" % "; ".join("(None, %d%%N)" % nid(c) for c in others)))
        if r.random() < 0.4:
            st["steps"].append(Step("distinct", "group {a, b} (take 1)", "TDistinct", nkeys=2))
        on = ("bin", "And", ("bin", "Eq", ("col", "t", "a"), ("col", "u", "a")), ("bin", "Eq", ("col", "t", "b"), ("col", "u", "d")))
        usel = "(Rel.apply (TSelect [(None, ECol None %d%%N); (None, ECol None %d%%N)]) U_TABLE)" % (nid("a"), nid("d"))
        sidetxt = {"Inner": "", "LeftJ": "side:left ", "RightJ": "side:right ", "FullJ": "side:full "}[side]
        if side in ("RightJ", "FullJ"):
            coq = "TJoinX %s %d%%N [(Some %d%%N, Some %d%%N); (Some %d%%N, Some %d%%N)] %s %s %s" % (side, nid("u"), nid("t"), nid("a"), nid("t"), nid("b"), coq_names(["a", "d"]), usel, coq_expr(on))
        else:
            coq = "TJoin %s %d%%N %s %s %s" % (side, nid("u"), coq_names(["a", "d"]), usel, coq_expr(on))
        st["steps"].append(Step("join", "join %su=(from u | select {a, d}) (%s)" % (sidetxt, prql_expr(on)), coq, side=side, alljoin=True))
        st["joined"] = True
        st["cols"] = [(None, "a"), (None, "b")]
        st["uniq"] = None
        st["order"] = None
        return Step("select", "select {t.a, t.b}", "TSelect [(None, ECol (Some %d%%N) %d%%N); (None, ECol (Some %d%%N) %d%%N)]" % (nid("t"), nid("a"), nid("t"), nid("b")))

    def t_derive(self, st):
        nm = self.newname()
        e = self.num(st["cols"], self.depth)
        st["cols"] = st["cols"] + [(None, nm)]
        return Step("derive", "derive {%s = %s}" % (nm, prql_expr(e)), "TDerive [(Some %d%%N, %s)]" % (nid(nm), coq_expr(e)))

    def t_select(self, st):
        r = self.r
        cols = [c for c in st["cols"] if not c[1].startswith("?")]
        if not cols:
            return None
        keep = [c for c in cols if r.random() < 0.6] or [cols[0]]
        # keep what the order in effect / the unique key need?  No: dropping them is exactly the C03 case
        items, citems, newcols = [], [], []
        for q, c in keep:
            items.append((q + "." if q else "") + c)
            citems.append("(None, ECol %s %d%%N)" % (coq_opt(q), nid(c)))
            newcols.append((None, c))
        if r.random() < 0.7:
            nm = self.newname()
            e = self.num(cols, self.depth)
            items.append("%s = %s" % (nm, prql_expr(e)))
            citems.append("(Some %d%%N, %s)" % (nid(nm), coq_expr(e)))
            newcols.append((None, nm))
        seen, f_items, f_c, f_cols = set(), [], [], []
        for it, ci, nc in zip(items, citems, newcols):
            if nc[1] in seen:
                continue
            seen.add(nc[1])
            f_items.append(it); f_c.append(ci); f_cols.append(nc)
        had_qualifiers = any(c[0] is not None for c in cols)
        st["cols"] = f_cols
        if had_qualifiers:
            # names lose their table qualifier here: the tracked key expressions (t.id ...) can no longer be written
            st["uniq"] = None
            st["order"] = None
        # the sort stays in effect even when its key columns are dropped; later positional transforms
        # need the key expression to be evaluable by the reference semantics, so forget uniq if dropped
        if st["order"] is not None:
            vis = set(f_cols)
            for _, e in st["order"]:
                if not all(((None, c[1]) in vis) for c in expr_cols(e)):
                    st["uniq_dropped"] = True
        return Step("select", "select {%s}" % ", ".join(f_items), "TSelect [%s]" % "; ".join(f_c))

    def t_filter(self, st):
        e = self.selective_filter(st["cols"])
        return Step("filter", "filter %s" % prql_expr(e), "TFilter %s" % coq_expr(e))

    def _keys_visible(self, st):
        vis = set(st["cols"])
        return st["order"] is not None and all(all((c in vis) for c in expr_cols(e)) for _, e in st["order"])

    def t_sort(self, st):
        r = self.r
        if st["uniq"] is None or not all(c in set(st["cols"]) for c in expr_cols(st["uniq"])):
            return None
        ks = []
        if r.random() < 0.65:
            q, c = r.choice([x for x in st["cols"] if not x[1].startswith("?")])
            ks.append((r.random() < 0.4, ("col", q, c)))
        if r.random() < 0.2:
            e = self.num(st["cols"], 1)
            if e[0] == "lit" or not expr_cols(e):
                # a constant (literal or column-free expression, which the compiler folds) is no sort key
                e = ("bin", "Add", ("col",) + r.choice([x for x in st["cols"] if not x[1].startswith("?")]), e)
            if e[0] == "neg":
                # in a sort list a leading unary minus (even parenthesised) is the DIRECTION marker, not arithmetic
                e = ("bin", "Sub", ("lit", 0), e[1])
            ks.append((r.random() < 0.5, e))
        ks.append((r.random() < 0.4, st["uniq"]))
        st["order"] = ks
        st.pop("uniq_dropped", None)
        return Step("sort", "sort %s" % prql_keys(ks), "TSort %s" % coq_keys(ks), keys=ks)

    def t_take(self, st):
        r = self.r
        if st["order"] is None or st["uniq"] is None or st.get("uniq_dropped"):
            return None
        if r.random() < 0.5:
            s_, e_ = None, r.randint(1, 4)
            txt = "take %d" % e_
        else:
            s_ = r.randint(1, 3)
            e_ = s_ + r.randint(0, 3)
            txt = "take %d..%d" % (s_, e_)
            if r.random() < 0.25:
                e_ = None
                txt = "take %d.." % s_
        return Step("take", txt, "TTake %s %s" % ("None" if s_ is None else "(Some (%d))" % s_, "None" if e_ is None else "(Some (%d))" % e_), rng=(s_, e_))

    def _aggs(self, cols, m):
        r = self.r
        items, ci, newcols = [], [], []
        for _ in range(m):
            nm = self.newname()
            a = r.choice(list(AGGS))
            e = self.num(cols, 1)
            items.append("%s = %s %s" % (nm, AGGS[a], prql_expr(e)))
            ci.append("(Some %d%%N, %s, %s)" % (nid(nm), a, coq_expr(e)))
            newcols.append((None, nm))
        return items, ci, newcols

    def t_aggregate(self, st):
        items, ci, newcols = self._aggs(st["cols"], self.r.randint(1, 3))
        st["cols"] = newcols
        st["order"] = None
        st["uniq"] = None
        return Step("aggregate", "aggregate {%s}" % ", ".join(items), "TAggregate [%s]" % "; ".join(ci))

    def _qualified(self, st):
        return st["joined"] and any(c[0] is not None for c in st["cols"])

    def t_group_agg(self, st):
        r = self.r
        if self._qualified(st):
            return None
        cols = [c for c in st["cols"] if not c[1].startswith("?")]
        if not cols or len(cols) != len(st["cols"]):
            return None
        by = [c for q, c in cols if c in ("g", "a", "b")][: r.randint(1, 2)] or [cols[0][1]]
        inner = [c for c in cols if c[1] not in by]
        items, ci, newcols = self._aggs(inner, r.randint(1, 3))
        st["cols"] = [(None, b) for b in by] + newcols
        st["order"] = None
        st["uniq"] = None
        return Step("group_agg", "group {%s} (aggregate {%s})" % (", ".join(by), ", ".join(items)),
                    "TGroupAgg %s [%s]" % (coq_names(by), "; ".join(ci)), by=by)

    def _group_by(self, st):
        cols = st["cols"]
        if len(cols) < 2 or any(c[1].startswith("?") for c in cols):
            return None
        by = [c for q, c in cols if c in ("g", "a")][:1] or [[c for q, c in cols if c != "id"][0]]
        return by

    def t_group_take(self, st):
        r = self.r
        if st["uniq"] is None or self._qualified(st) or (None, "id") not in st["cols"] or st.get("uniq_dropped"):
            return None
        by = self._group_by(st)
        if by is None or "id" in by:
            return None
        ks = [(r.random() < 0.4, st["uniq"])]
        e_ = r.randint(1, 2)
        st["order"] = None
        # group puts key columns first
        st["cols"] = [(None, b) for b in by] + [c for c in st["cols"] if c[1] not in by]
        return Step("group_take", "group {%s} (sort %s | take %d)" % (", ".join(by), prql_keys(ks), e_),
                    "TGroupTake %s %s None (Some (%d))" % (coq_names(by), coq_keys(ks), e_), by=by, keys=ks)

    def t_group_win(self, st):
        r = self.r
        if st["uniq"] is None or st["joined"] or (None, "id") not in st["cols"] or st.get("uniq_dropped"):
            return None
        by = self._group_by(st)
        if by is None or "id" in by:
            return None
        inner_cols = [c for c in st["cols"] if c[1] not in by]
        ks = [(r.random() < 0.4, st["uniq"])]
        nm = self.newname()
        w = r.choice(["WRowNumber", "WRank", "WLag 1", "WLead 1", "WFirst", "WAgg ASum", "WAgg ACount", "WAgg AMax", "WAgg AMin"])
        e = self.num(inner_cols, 1)
        st["order"] = None
        st["cols"] = [(None, b) for b in by] + [c for c in st["cols"] if c[1] not in by] + [(None, nm)]
        return Step("group_win", "group {%s} (sort %s | derive {%s = %s %s})" % (", ".join(by), prql_keys(ks), nm, WFNS[w], prql_expr(e)),
                    "TGroupWin %s %s [(Some %d%%N, %s, %s)]" % (coq_names(by), coq_keys(ks), nid(nm), w, coq_expr(e)), by=by, fn=w, keys=ks)

    def t_nested_group(self, st):
        """a group nested in the body of a group, followed by another transform of the outer body (a nested group that ends the
        outer body is a compile error, upstream's #3870).  Meaning: the inner group splits every chunk of the outer one, i.e.
        grouping by both keys -- which Model/Rel.v expresses with the merged key list"""
        r = self.r
        if self._qualified(st) or st["joined"] or any(c[1].startswith("?") for c in st["cols"]):
            return None
        cand = [c for q, c in st["cols"] if c in ("a", "g", "b", "c")]
        if len(cand) < 2:
            return None
        k1, k2 = r.sample(cand, 2)
        rest = [c for c in st["cols"] if c[1] not in (k1, k2)]
        if r.random() < 0.5 and st["uniq"] is not None and (None, "id") in st["cols"] and not st.get("uniq_dropped"):
            ks = [(r.random() < 0.4, st["uniq"])]
            n_ = r.randint(1, 2)
            f = self.selective_filter(rest)
            st["cols"] = [(None, k1), (None, k2)] + rest
            st["order"] = None
            st["nested_group"] = True
            return Step("nested_group", "group {%s} (group {%s} (sort %s | take %d) | filter %s)" % (k1, k2, prql_keys(ks), n_, prql_expr(f)),
                        "TGroupTake %s %s None (Some (%d))" % (coq_names([k1, k2]), coq_keys(ks), n_), by=[k1, k2], keys=ks,
                        then="TFilter %s" % coq_expr(f), flat="PGroup 1 [PGroup 1 [PSort [%s]; PTake]; POther]" % ("true" if ks[0][0] else "false"))
        items, ci, newcols = self._aggs(rest, r.randint(1, 2))
        f = self.selective_filter(newcols)
        st["cols"] = [(None, k1), (None, k2)] + newcols
        st["order"] = None
        st["uniq"] = None
        st["nested_group"] = True
        return Step("nested_group", "group {%s} (group {%s} (aggregate {%s}) | filter %s)" % (k1, k2, ", ".join(items), prql_expr(f)),
                    "TGroupAgg %s [%s]" % (coq_names([k1, k2]), "; ".join(ci)), by=[k1, k2],
                    then="TFilter %s" % coq_expr(f), flat="PGroup 1 [PGroup 1 [PAgg]; POther]")

    def t_win(self, st):
        r = self.r
        if st["order"] is None or st["joined"] or st["uniq"] is None or st.get("uniq_dropped") or not self._keys_visible(st):
            return None
        nm = self.newname()
        w = r.choice(["WRowNumber", "WLag 1", "WAgg ASum", "WAgg AMin", "WAgg ACount", "WAgg AAvg", "WAgg AMax"])
        e = self.num(st["cols"], 1)
        okeys = coq_keys(st["order"])
        fk = r.random()
        if fk < 0.45:
            step = Step("win", "derive {%s = %s %s}" % (nm, WFNS[w], prql_expr(e)), "TWin %s [(Some %d%%N, %s, %s)]" % (okeys, nid(nm), w, coq_expr(e)), fn=w)
        else:
            def b():
                return r.choice([None, -2, -1, 0, 1, 2])
            if fk < 0.6:
                n_ = r.randint(1, 3)
                ptxt = "rolling:%d" % n_
                fr = "(FRows (Some (%d)) (Some 0))" % (1 - n_)
            elif fk < 0.7:
                ptxt = "expanding:true"
                fr = "(FRows None (Some 0))"
            else:
                a_, b_ = b(), b()
                if a_ is not None and b_ is not None and a_ > b_:
                    a_, b_ = b_, a_

                def rb(x):
                    return "" if x is None else ("(%d)" % x if x < 0 else str(x))
                ptxt = "rows:%s..%s" % (rb(a_), rb(b_))
                if a_ is None and b_ is None:
                    fr = "FNone"
                else:
                    fr = "(FRows %s %s)" % ("None" if a_ is None else "(Some (%d))" % a_, "None" if b_ is None else "(Some (%d))" % b_)
            step = Step("win", "window %s (derive {%s = %s %s})" % (ptxt, nm, WFNS[w], prql_expr(e)),
                        "TWinF %s %s [(Some %d%%N, %s, %s)]" % (fr, okeys, nid(nm), w, coq_expr(e)), fn=w, frame=ptxt)
        st["cols"] = st["cols"] + [(None, nm)]
        return step

    def t_distinct(self, st):
        if st["joined"] or not all(c[0] is None for c in st["cols"]):
            return None
        keep = [c for c in st["cols"] if c[1] in ("a", "g", "b")][:2] or [c for c in st["cols"] if not c[1].startswith("?")][:1]
        if not keep:
            return None
        sel = Step("select", "select {%s}" % ", ".join(c for _, c in keep), "TSelect [%s]" % "; ".join("(None, ECol None %d%%N)" % nid(c) for _, c in keep))
        st["steps"].append(sel)
        st["cols"] = [(None, c) for _, c in keep]
        st["order"] = None
        st["uniq"] = None
        if self.distinct_n and self.r.random() < self.distinct_n:
            # the first n (>= 2) rows of every group of identical rows: NOT a distinct
            k = self.r.randint(2, 3)
            return Step("distinct", "group {%s} (take %d)" % (", ".join(c for _, c in keep), k),
                        "TGroupTake %s [] None (Some (%d))" % (coq_names([c for _, c in keep]), k), take_n=k, nkeys=len(keep))
        return Step("distinct", "group {%s} (take 1)" % ", ".join(c for _, c in keep), "TDistinct", nkeys=len(keep))

    def t_append(self, st):
        if st["joined"] or st["cols"] != [(None, c) for c in TABLES["t"]] or any(x.kind not in ("sort", "filter", "take") for x in st["steps"]):
            return None          # both operands must still be the bare table (an explicit select fixes the arity)
        st["order"] = None
        st["uniq"] = None
        return Step("append", "append t", "TAppend T_TABLE")


def gen_instance(rng, max_rows=6, min_rows=0, extra=()):
    """rows are inserted in an order unrelated to id, so that insertion order never equals a sort order by accident.
    extra: names of additional table columns the PRQL program never mentions (run-time expansion of `*`)"""
    inst = {}
    for t, cs in TABLES.items():
        n = rng.randint(min_rows, max_rows)
        ids = list(range(1, n + 1))
        rng.shuffle(ids)
        rows = []
        for i in ids:
            rows.append([i] + [rng.choice([None, 0, 1, 2, 3, -1, 2]) for _ in cs[1:]] + [rng.choice([7, 8, 9]) for _ in extra])
        inst[t] = rows
    if extra:
        inst["__extra__"] = list(extra)
    return inst


def inst_cols(inst, t):
    return TABLES[t] + list(inst.get("__extra__", []))


def coq_rel(t, rows, qual, cols=None):
    cs = cols or TABLES[t]
    return "[" + "; ".join("[" + "; ".join("(%s, Some %d%%N, %s)" % (qual, nid(c), coq_val(v)) for c, v in zip(cs, row)) + "]" for row in rows) + "]"


def sql_setup(inst):
    out = []
    rn = inst.get("__rename__", {})
    for t in TABLES:
        cs = [rn.get(c, c) for c in inst_cols(inst, t)]
        out.append("create table %s(%s)" % (t, ", ".join('"%s"' % c for c in cs)))
        for row in inst[t]:
            out.append("insert into %s values (%s)" % (t, ", ".join("NULL" if v is None else str(v) for v in row)))
    return out

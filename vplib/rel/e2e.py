"""Shared end-to-end streams and known-finding classifiers for the relational-core properties
(C01 rows, C03 order, C05 columns, C06 rewrites, C04 windows)."""
import json
import re

from . import prog as P
from . import run as R

KINDS = ["join", "derive", "select", "filter", "sort", "take", "aggregate", "group_agg", "group_take", "group_win", "win", "distinct", "append"]


def has_neg(prql):
    return "(-(" in prql


def folded_null_comparison(prql):
    """`==` / `!=` with an operand that is a column-free expression mentioning null but is not the literal `null`
    (e.g. `(null ?? null) == x`): the compiler folds the operand to NULL and then reads the comparison as IS [NOT] NULL"""
    for m in re.finditer(r"\(([^()]*)\)", prql):
        inner = m.group(1)
        if "null" not in inner or inner.strip() == "null" or re.search(r"[A-Za-z_]", inner.replace("null", "")):
            continue
        before, after = prql[:m.start()].rstrip(), prql[m.end():].lstrip()
        if before.endswith("==") or before.endswith("!=") or after.startswith("==") or after.startswith("!="):
            return True
    return False


def takes_across_sort_before_group(pg):
    """two takes with a sort between them, and a group / window over groups later on"""
    ks = pg.kinds()
    for i, k in enumerate(ks):
        if k != "take":
            continue
        for j in range(i + 1, len(ks)):
            if ks[j] == "take" and "sort" in ks[i + 1:j] and any(x in ("group_agg", "group_take", "group_win", "aggregate", "distinct") for x in ks[j + 1:]):
                return True
    return False


def sort_key_dropped(pg):
    """some key of a sort (or of the sort inside a group) is a computed expression, or a column that is not
    among the final columns under its own name -- the situation in which the back end has to carry a column
    the query does not select"""
    final = set(pg.final_cols or [])
    for st in pg.steps:
        for _, e in (st.info.get("keys") or []):
            if e[0] != "col" or e[2] not in final:
                return True
    return False


def let_then_window(pg):
    k = pg.meta.get("let_at")
    if not k:
        return False
    ks = pg.kinds()
    return any(x in ("win", "group_win") for x in ks[k:])


def classify_common(rec):
    """Known defects of the unchanged tree that any relational program can run into (recorded under the
    property whose clause they break; other properties' oracles skip such cases, see `skip_reason`)."""
    v = rec["verdict"]
    kinds = rec["program"].kinds()
    sql = rec.get("sql") or ""
    if v == "sql-err":
        msg = (rec.get("sqlite") or {}).get("exec_err", "")
        if rec["target"] == "sql.generic" and re.search(r'near "(ALL|DISTINCT)": syntax error', msg) and re.search(r"(INTERSECT|EXCEPT|UNION) (ALL|DISTINCT)", sql):
            return "oracle-generic-setop"      # generic spells set operations with ALL/DISTINCT, which SQLite does not parse
        if "same number of result columns" in msg and "append" in kinds:
            return "F28-append-prune"
        if "syntax error" in msg and bare_offset(sql) and rec["target"] == "sql.generic" \
                and any(s.kind == "take" and s.info.get("rng", (None, 0))[1] is None for s in rec["program"].steps):
            return "oracle-generic-offset"     # generic SQL may use OFFSET without LIMIT; SQLite cannot run it (F27 is repaired for sql.sqlite)
    # F29 (panic `name of this column has not been to be set`, gen_expr.rs) is FIXED (456bdcd, c83467e), and so is its recurrence
    # F47r (21fe768 -> d060422): a panic is never excused
    if v == "sql-err" and re.search(r"no such column: _expr_\d+", str(rec.get("sqlite"))) and re.search(r" AS _expr_\d+", sql):
        return "F24-dangling-generated-alias"
    if v == "sql-err" and rec["program"].meta.get("let_at") and re.search(r"no such column: x\d+", str(rec.get("sqlite"))) and re.search(r"p0 AS \(SELECT \*", sql):
        return "F36-let-table-star-loses-derived-name"
    if v == "sql-err" and rec["program"].meta.get("let_at"):
        m = re.search(r"no such column: (x\d+)\b", str(rec.get("sqlite")))
        if m and re.search(r" AS %s\b" % m.group(1), sql) and re.search(r"\) SELECT (?:(?!SELECT ).)* ORDER BY (?:(?!SELECT ).)*\b%s\b" % m.group(1), sql):
            return "F46-order-by-unexported-alias"
    if v == "sql-err" and "join" in kinds and re.search(r"no such column: \w+\._expr_\d+", str(rec.get("sqlite"))) and re.search(r"ORDER BY [^()]*\b\w+\._expr_\d+", sql):
        return "F38-order-by-qualified-generated-alias"
    if v == "sql-err" and rec["program"].meta.get("let_at") and re.search(r"no such column: [a-z]+\b", str(rec.get("sqlite"))) and re.search(r"WITH p0 AS \(SELECT (?!\*)", sql):
        return "F39-let-sort-key-expression-reinlined"
    if v == "sql-err" and rec["program"].meta.get("let_at") and "join" in kinds:
        m = re.search(r"no such column: (\w+)\.(\w+)", str(rec.get("sqlite")))
        if m and re.search(r"ORDER BY [^()]*\b%s\.%s\b" % (re.escape(m.group(1)), re.escape(m.group(2))), sql):
            return "C07-N1-order-by-inner-relation"
    if v == "rows" and folded_null_comparison(rec["prql"]) and " IS " in sql:
        return "F49r-folded-null-comparison"
    if v == "rows" and rec["program"].meta.get("nested_group"):
        return "F45-nested-group-partition"
    if v == "rows" and " INTERSECT " in sql and any(st.info.get("alljoin") and st.info.get("side") == "Inner" for st in rec["program"].steps):
        return "F41-inner-join-rewritten-to-intersect"
    if v in ("rows", "names", "sql-err"):
        if v == "rows" and takes_across_sort_before_group(rec["program"]) and len(re.findall(r"\bLIMIT\b", sql)) < sum(1 for k in kinds if k == "take"):
            return "F37-takes-merged-across-sort-before-group"
        if v == "rows" and let_then_window(rec["program"]):
            return "F35-let-boundary-hides-order-from-window"
        if rec["target"] == "sql.generic" and " / " in rec["prql"]:
            return "oracle-generic-divf"      # generic `/` is emitted without `* 1.0`; SQLite then divides integers (F16: an artefact of running generic SQL on SQLite)
        if "append" in kinds and append_pruned(sql):
            return "F28-append-prune"
        if "group_agg" in kinds and re.search(r"GROUP BY (?:[^,()]+, )*-?\d+(?:,| |$)", sql):
            return "F32-group-by-constant"
        if re.search(r"SELECT NULL FROM", sql) and "aggregate" in kinds:
            return "F25-dropped-aggregate"
        # a take and a later distinct share ONE SELECT: `SELECT DISTINCT .. LIMIT n`.  (The variant where the take's sort key became
        # a column of the SELECT DISTINCT -- a regression of 456bdcd -- is FIXED by 21fe768: `take 1.. | distinct` excuses nothing)
        if "distinct" in kinds and "take" in kinds and re.search(r"SELECT DISTINCT [^()]* LIMIT", sql) and take_before_distinct(rec["program"]):
            return "F19-take-then-distinct"
    return None


def directed_known(rng=None):
    """Hand-built programs (PRQL text + reference term, evaluated like any generated program) that land in the open
    findings the random streams seldom hit, so that every open entry is reproduced in the quick tier.
    Returns [(finding id, Program, instance | None)]; None = the caller supplies instances (>= 4 rows)."""
    n = P.nid
    S = P.Step

    def col(c, q=None):
        return "ECol %s %d%%N" % ("None" if q is None else "(Some %d%%N)" % n(q), n(c))

    def sel(names):
        return S("select", "select {%s}" % ", ".join(names), "TSelect [%s]" % "; ".join("(None, %s)" % col(c) for c in names), final=True)
    out = []
    # F19: a take in front of a distinct shares its SELECT (`SELECT DISTINCT a FROM p0 LIMIT 3`: DISTINCT is evaluated first, and the
    # ORDER BY is gone).  Since d060422 only a take WITHOUT a sort of its own does; its rows are determined when the order comes
    # from a let-bound table
    out.append(("F19-take-then-distinct", P.Program([
        S("sort", "sort {id}", "TSort [(false, %s)]" % col("id"), keys=[(False, ("col", None, "id"))]),
        S("select", "select {a}", "TSelect [(None, %s)]" % col("a")),
        S("take", "take 3", "TTake None (Some (3))", rng=(None, 3)),
        S("distinct", "group {a} (take 1)", "TDistinct", nkeys=1)], False, ["a"], {"let_at": 1}),
        {"t": [[1, 1, 0, 0, 0], [2, 1, 0, 0, 0], [3, 1, 0, 0, 0], [4, 2, 0, 0, 0], [5, 3, 0, 0, 0]], "u": [[1, 0, 0, 0]]}))
    # F49r: a comparison with a column-free operand that folds to null is read as IS NULL
    out.append(("F49r-folded-null-comparison", P.Program([
        S("filter", "filter ((null ?? null) == (a - null))", "TFilter (EBin Eq (EBin Coalesce (ELit VNull) (ELit VNull)) (EBin Sub (%s) (ELit VNull)))" % col("a")),
        sel(["id", "a"])], False, ["id", "a"])))
    # F32: a group key defined as an integer literal
    out.append(("F32-group-by-constant", P.Program([
        S("derive", "derive {k9 = 2}", "TDerive [(Some %d%%N, ELit (VInt 2))]" % n("k9")),
        S("group_agg", "group {k9} (aggregate {n9 = count this, m9 = max a})",
          "TGroupAgg [%d%%N] [(Some %d%%N, ACount, ELit (VInt 1)); (Some %d%%N, AMax, %s)]" % (n("k9"), n("n9"), n("m9"), col("a")), by=["k9"]),
        sel(["k9", "n9", "m9"])], False, ["k9", "n9", "m9"])))
    # F25: an ungrouped aggregate whose outputs are only counted
    out.append(("F25-dropped-aggregate", P.Program([
        S("aggregate", "aggregate {x901 = min a}", "TAggregate [(Some %d%%N, AMin, %s)]" % (n("x901"), col("a"))),
        S("aggregate", "aggregate {n9 = count x901}", "TAggregate [(Some %d%%N, ACount, %s)]" % (n("n9"), col("x901"))),
        sel(["n9"])], False, ["n9"])))
    # F35: the order of a let-bound prefix does not reach a window function behind the boundary
    out.append(("F35-let-boundary-hides-order-from-window", P.Program([
        S("sort", "sort {-id}", "TSort [(true, %s)]" % col("id"), keys=[(True, ("col", None, "id"))]),
        S("win", "window rolling:3 (derive {x902 = min c})",
          "TWinF (FRows (Some (-2)) (Some 0)) [(true, %s)] [(Some %d%%N, WAgg AMin, %s)]" % (col("id"), n("x902"), col("c")), fn="WAgg AMin", frame="rolling:3"),
        sel(["id", "x902"])], True, ["id", "x902"], {"let_at": 1, "order": [(True, ("col", None, "id"))], "key_pos": [(0, True)]}),
        # insertion order differs from the sort order and the rolling minimum depends on it
        {"t": [[2, 0, 0, 3, 0], [5, 0, 0, 0, 0], [1, 0, 0, 2, 0], [4, 0, 0, 1, 0], [3, 0, 0, -1, 0]], "u": [[1, 0, 0, 0]]}))
    # F36: a let-bound wildcard pipeline that needs a sub-query loses the name of its derived column
    out.append(("F36-let-table-star-loses-derived-name", P.Program([
        S("derive", "derive {x903 = (a + 1)}", "TDerive [(Some %d%%N, EBin Add (%s) (ELit (VInt 1)))]" % (n("x903"), col("a"))),
        S("filter", "filter (g <= 2)", "TFilter (EBin Le (%s) (ELit (VInt 2)))" % col("g")),
        S("group_win", "group {a} (sort {id} | derive {n9 = row_number this})",
          "TGroupWin [%d%%N] [(false, %s)] [(Some %d%%N, WRowNumber, ELit (VInt 1))]" % (n("a"), col("id"), n("n9")), by=["a"], fn="WRowNumber",
          keys=[(False, ("col", None, "id"))]),
        sel(["x903", "n9"])], False, ["x903", "n9"], {"let_at": 2})))
    # F39: readers of a let-bound pipeline sorted by a computed column re-inline the key's definition
    out.append(("F39-let-sort-key-expression-reinlined", P.Program([
        S("select", "select {id, a, x904 = (a + c)}",
          "TSelect [(None, %s); (None, %s); (Some %d%%N, EBin Add (%s) (%s))]" % (col("id"), col("a"), n("x904"), col("a"), col("c"))),
        S("sort", "sort {-x904, id}", "TSort [(true, %s); (false, %s)]" % (col("x904"), col("id")),
          keys=[(True, ("col", None, "x904")), (False, ("col", None, "id"))]),
        S("group_take", "group {a} (sort {id} | take 2)", "TGroupTake [%d%%N] [(false, %s)] None (Some (2))" % (n("a"), col("id")), by=["a"],
          keys=[(False, ("col", None, "id"))]),
        sel(["id"])], False, ["id"], {"let_at": 2})))
    # F24: a generated alias (`id AS _expr_0` for the alias x905 = id) is referenced by the final ORDER BY two sub-queries later
    out.append(("F24-dangling-generated-alias", P.Program([
        S("select", "select {id, b, c, x905 = id}",
          "TSelect [(None, %s); (None, %s); (None, %s); (Some %d%%N, %s)]" % (col("id"), col("b"), col("c"), n("x905"), col("id"))),
        S("group_win", "group {b} (sort {id} | derive {x906 = lag 1 x905})",
          "TGroupWin [%d%%N] [(false, %s)] [(Some %d%%N, WLag 1, %s)]" % (n("b"), col("id"), n("x906"), col("x905")), by=["b"], fn="WLag 1",
          keys=[(False, ("col", None, "id"))]),
        S("sort", "sort {id}", "TSort [(false, %s)]" % col("id"), keys=[(False, ("col", None, "id"))]),
        S("win", "derive {x907 = lag 1 x906}", "TWin [(false, %s)] [(Some %d%%N, WLag 1, %s)]" % (col("id"), n("x907"), col("x906")), fn="WLag 1"),
        S("filter", "filter (c < 3)", "TFilter (EBin Lt (%s) (ELit (VInt 3)))" % col("c")),
        sel(["b", "x906", "x907"])], True, ["b", "x906", "x907"], {"order": [(False, ("col", None, "id"))], "key_pos": None})))
    # F46: the final ORDER BY is re-targeted to a user alias of the sort column (x915 = id) defined inside a let-bound prefix,
    # which the CTEs between the let and the main query do not carry (residue of the class repaired by c83467e)
    out.append(("F46-order-by-unexported-alias", P.Program([
        S("select", "select {id, b, x915 = id}", "TSelect [(None, %s); (None, %s); (Some %d%%N, %s)]" % (col("id"), col("b"), n("x915"), col("id"))),
        S("filter", "filter (id != 0)", "TFilter (EBin Ne (%s) (ELit (VInt 0)))" % col("id")),
        S("sort", "sort {b, id}", "TSort [(false, %s); (false, %s)]" % (col("b"), col("id")), keys=[(False, ("col", None, "b")), (False, ("col", None, "id"))]),
        S("select", "select {b, x916 = (b + 1)}", "TSelect [(None, %s); (Some %d%%N, EBin Add (%s) (ELit (VInt 1)))]" % (col("b"), n("x916"), col("b"))),
        S("filter", "filter (b > 0)", "TFilter (EBin Gt (%s) (ELit (VInt 0)))" % col("b")),
        sel(["b", "x916"])], False, ["b", "x916"], {"let_at": 3})))
    # F45: a group nested in a group is partitioned by its own key only (compiles since fix 592b6f8; was an error before).
    # Reference: the inner group splits every chunk of the outer one = grouping by both keys
    out.append(("F45-nested-group-partition", P.Program([
        S("select", "select {id, a, c}", "TSelect [(None, %s); (None, %s); (None, %s)]" % (col("id"), col("a"), col("c"))),
        S("group_body", "group {a} (group {c} (sort {id} | take 1) | filter (id != 99))",
          "TGroupTake [%d%%N; %d%%N] [(false, %s)] None (Some (1))" % (n("a"), n("c"), col("id")), by=["a"],
          flat="PGroup 1 [PGroup 1 [PSort [false]; PTake]; POther]"),
        sel(["a", "c", "id"])], False, ["a", "c", "id"], {"nested_group": True}),
        # two rows with the same inner key in different outer groups
        {"t": [[1, 1, 0, 1, 0], [2, 2, 0, 1, 0], [3, 1, 0, 2, 0], [4, 2, 0, 1, 0]], "u": [[1, 0, 0, 0]]}))
    out.append(("F45-nested-group-partition", P.Program([
        S("select", "select {id, a, c}", "TSelect [(None, %s); (None, %s); (None, %s)]" % (col("id"), col("a"), col("c"))),
        S("group_body", "group {a} (group {c} (aggregate {m9 = max id}) | filter (m9 != 99))",
          "TGroupAgg [%d%%N; %d%%N] [(Some %d%%N, AMax, %s)]" % (n("a"), n("c"), n("m9"), col("id")), by=["a"],
          flat="PGroup 1 [PGroup 1 [PAgg]; POther]"),
        sel(["a", "c", "m9"])], False, ["a", "c", "m9"], {"nested_group": True}),
        {"t": [[1, 1, 0, 1, 0], [2, 2, 0, 1, 0], [3, 1, 0, 2, 0], [4, 2, 0, 1, 0]], "u": [[1, 0, 0, 0]]}))
    # F41: an inner join on all columns of both sides keeping the left columns is rewritten to INTERSECT
    on = "EBin And (EBin Eq (%s) (%s)) (EBin Eq (%s) (%s))" % (col("a", "t"), col("a", "u"), col("b", "t"), col("d", "u"))
    out.append(("F41-inner-join-rewritten-to-intersect", P.Program([
        S("select", "select {a, b}", "TExclude [%s]" % "; ".join("(None, %d%%N)" % n(c) for c in ("id", "c", "g"))),   # keeps the qualifier t
        S("distinct", "group {a, b} (take 1)", "TDistinct", nkeys=2),
        S("join", "join u=(from u | select {a, d}) (t.a == u.a && t.b == u.d)",
          "TJoin Inner %d%%N %s (Rel.apply (TSelect [(None, %s); (None, %s)]) U_TABLE) (%s)" % (n("u"), P.coq_names(["a", "d"]), col("a"), col("d"), on),
          side="Inner", alljoin=True),
        S("select", "select {t.a, t.b}", "TSelect [(None, %s); (None, %s)]" % (col("a", "t"), col("b", "t")), final=True)],
        False, ["a", "b"]),
        # a left row matched by two right rows (multiplicity) and a NULL key (`==` never matches NULL, INTERSECT does)
        {"t": [[1, 1, 1, 0, 0], [2, 1, 1, 0, 0], [3, 2, None, 0, 0]], "u": [[1, 1, 1, 0], [2, 1, 1, 0], [3, 2, None, 0]]}))
    # C07-N1: a sorted let-bound relation that keeps its sort column, then joined
    s_, u_ = n("s9"), n("u")

    def n1_model(inst):
        base = P.coq_rel("t", inst["t"], "(Some %d%%N)" % n("t"), P.inst_cols(inst, "t"))
        ut = P.coq_rel("u", inst["u"], "None", P.inst_cols(inst, "u"))
        return ("(let p := run %s [TSort [(true, %s)]; TSelect [(None, %s); (None, %s)]] in "
                "let r := run (map (requalify %d%%N) p) [TJoin Inner %d%%N %s %s (EBin Eq (%s) (%s)); TSelect [(None, %s); (Some %d%%N, %s)]] in (show r, names r))"
                % (base, col("id"), col("id"), col("b"), s_, u_, P.coq_names(P.inst_cols(inst, "u")), ut, col("b", "s9"), col("id", "u"),
                   col("id", "s9"), n("k9"), col("d", "u")))
    out.append(("C07-N1-order-by-inner-relation", P.RawProgram(
        ["sort", "select", "join", "select"],
        "let s9 = (\nfrom t\nsort {-id}\nselect {id, b}\n)\nfrom s9\njoin u (s9.b == u.id)\nselect {s9.id, k9 = u.d}",
        n1_model, True, ["id", "k9"], {"let_at": 2, "key_pos": [(0, True)]})))
    return [(e[0], e[1], e[2] if len(e) > 2 else None) for e in out]


def directed_fixed():
    """Hand-built programs that failed before a `fix:` commit of /repo and run right since (replays of the FIXED entries
    of relational.json and of fixes in the relational core that had no entry).  Nothing excuses them: a recurrence is a
    VIOLATION with this input.  Returns [(label, Program)]; the caller supplies instances."""
    n = P.nid
    S = P.Step

    def col(c, q=None):
        return "ECol %s %d%%N" % ("None" if q is None else "(Some %d%%N)" % n(q), n(c))

    def sel(names):
        return S("select", "select {%s}" % ", ".join(names), "TSelect [%s]" % "; ".join("(None, %s)" % col(c) for c in names), final=True)
    out = []
    # F29 (456bdcd): sort | select dropping the key | take | group: panicked `name of this column has not been to be set`
    out.append(("F29/456bdcd", P.Program([
        S("sort", "sort {id}", "TSort [(false, %s)]" % col("id"), keys=[(False, ("col", None, "id"))]),
        S("select", "select {a, b}", "TSelect [(None, %s); (None, %s)]" % (col("a"), col("b"))),
        S("take", "take 2", "TTake None (Some (2))", rng=(None, 2)),
        S("group_agg", "group {a} (aggregate {n9 = count b})", "TGroupAgg [%d%%N] [(Some %d%%N, ACount, %s)]" % (n("a"), n("n9"), col("b")), by=["a"]),
        sel(["a", "n9"])], False, ["a", "n9"])))
    # F29 / former F24 replay (c83467e): the final ORDER BY was re-targeted to a dead alias of the sort column
    out.append(("F29/c83467e", P.Program([
        S("sort", "sort {-g, id}", "TSort [(true, %s); (false, %s)]" % (col("g"), col("id")), keys=[(True, ("col", None, "g")), (False, ("col", None, "id"))]),
        S("join", "join u (t.id == u.id)", "TJoin Inner %d%%N U_COLS U_TABLE (EBin Eq (%s) (%s))" % (n("u"), col("id", "t"), col("id", "u")), side="Inner", one_to_one=True),
        S("take", "take 1", "TTake None (Some (1))", rng=(None, 1)),
        S("select", "select {t.id, t.a, t.g, x910 = t.id}",
          "TSelect [(None, %s); (None, %s); (None, %s); (Some %d%%N, %s)]" % (col("id", "t"), col("a", "t"), col("g", "t"), n("x910"), col("id", "t"))),
        S("select", "select {id, g, x911 = a}", "TSelect [(None, %s); (None, %s); (Some %d%%N, %s)]" % (col("id"), col("g"), n("x911"), col("a")), final=True)],
        True, ["id", "g", "x911"], {"key_pos": None})))
    # 8d54bf7: an aggregate ends the sort (its key used to leak into the aggregating SELECT as a bare column)
    out.append(("8d54bf7", P.Program([
        S("sort", "sort {b, id}", "TSort [(false, %s); (false, %s)]" % (col("b"), col("id")), keys=[(False, ("col", None, "b")), (False, ("col", None, "id"))]),
        S("aggregate", "aggregate {x912 = sum c}", "TAggregate [(Some %d%%N, ASum, %s)]" % (n("x912"), col("c"))),
        S("take", "take 1", "TTake None (Some (1))", rng=(None, 1)),
        sel(["x912"])], False, ["x912"])))
    # bc8ad7d: `group {a} (take 1)` is a DISTINCT only if nothing behind it uses another column
    out.append(("bc8ad7d", P.Program([
        S("select", "select {a, b}", "TSelect [(None, %s); (None, %s)]" % (col("a"), col("b"))),
        S("group_take1", "group {a} (take 1)", "TGroupTake [%d%%N] [] None (Some (1))" % n("a"), by=["a"], flat="PGroup 1 [PTake]"),
        S("sort", "sort {b}", "TSort [(false, %s)]" % col("b"), keys=[(False, ("col", None, "b"))]),
        sel(["a"])], False, ["a"])))
    # 21fe768 (regression of 456bdcd): the take's sort key was a column of the SELECT DISTINCT, duplicates survived even when
    # the take cuts nothing (`take 1..`)
    out.append(("F72b/21fe768", P.Program([
        S("sort", "sort {id}", "TSort [(false, %s)]" % col("id"), keys=[(False, ("col", None, "id"))]),
        S("take", "take 1..", "TTake (Some (1)) None", rng=(1, None)),
        S("select", "select {a, b}", "TSelect [(None, %s); (None, %s)]" % (col("a"), col("b"))),
        S("distinct", "group {a, b} (take 1)", "TDistinct", nkeys=2)], False, ["a", "b"]),
        {"t": [[1, 1, 1, 0, 0], [2, 1, 1, 0, 0], [3, 2, 1, 0, 0]], "u": [[1, 0, 0, 0]]}))
    # F44: inside a group body the sort survives an aggregate; what follows the aggregate drags the sort column into the
    # aggregating SELECT (a bare column next to GROUP BY: SQLite picks an arbitrary row, stricter engines reject the query)
    out.append(("F44/f809321", P.Program([
        S("group_body", "group {a} (sort {b, id} | aggregate {x908 = sum c} | take 1)",
          "TGroupAgg [%d%%N] [(Some %d%%N, ASum, %s)]" % (n("a"), n("x908"), col("c")), by=["a"],
          flat="PGroup 1 [PSort [false; false]; PAgg; PTake]"),
        sel(["a", "x908"])], False, ["a", "x908"])))
    # d060422: a take that carries a sort no longer shares the SELECT of a following distinct
    out.append(("F19-sorted/d060422", P.Program([
        S("select", "select {a}", "TSelect [(None, %s)]" % col("a")),
        S("sort", "sort {a}", "TSort [(false, %s)]" % col("a"), keys=[(False, ("col", None, "a"))]),
        S("take", "take 3", "TTake None (Some (3))", rng=(None, 3)),
        S("distinct", "group {a} (take 1)", "TDistinct", nkeys=1)], False, ["a"]),
        {"t": [[1, 1, 0, 0, 0], [2, 1, 0, 0, 0], [3, 1, 0, 0, 0], [4, 2, 0, 0, 0], [5, 3, 0, 0, 0]], "u": [[1, 0, 0, 0]]}))
    # F47r (regression of 21fe768): sorted take | distinct inside a let-bound relation: the ORDER BY in front of the LIMIT names a
    # column the SELECT DISTINCT does not select -- panic
    out.append(("F47r/d060422", P.Program([
        S("sort", "sort {id}", "TSort [(false, %s)]" % col("id"), keys=[(False, ("col", None, "id"))]),
        S("take", "take 2", "TTake None (Some (2))", rng=(None, 2)),
        S("select", "select {a, b}", "TSelect [(None, %s); (None, %s)]" % (col("a"), col("b"))),
        S("distinct", "group {a, b} (take 1)", "TDistinct", nkeys=2),
        sel(["a", "b"])], False, ["a", "b"], {"let_at": 4})))
    # shapes the independently seeded changes C01/4 and C01/5 need (both right on HEAD):
    # a windowed derive behind a distinct, used by a filter and then dropped (it must not be evaluated inside the SELECT DISTINCT)
    out.append(("distinct-then-window", P.Program([
        S("select", "select {a, b}", "TSelect [(None, %s); (None, %s)]" % (col("a"), col("b"))),
        S("distinct", "group {a, b} (take 1)", "TDistinct", nkeys=2),
        S("win", "derive {n9 = count this}", "TWin [] [(Some %d%%N, WAgg ACount, ELit (VInt 1))]" % n("n9"), fn="WAgg ACount"),
        S("filter", "filter (n9 < 3)", "TFilter (EBin Lt (%s) (ELit (VInt 3)))" % col("n9")),
        sel(["a", "b"])], False, ["a", "b"]),
        {"t": [[1, 1, 1, 0, 0], [2, 1, 1, 0, 0], [3, 2, 1, 0, 0], [4, 2, 1, 0, 0]], "u": [[1, 0, 0, 0]]}))
    # a group whose only key is the literal 1 (position 1 of the select list is the key itself): no rows on empty input
    out.append(("group-by-literal-one-empty-input", P.Program([
        S("derive", "derive {k9 = 1}", "TDerive [(Some %d%%N, ELit (VInt 1))]" % n("k9")),
        S("select", "select {k9, a}", "TSelect [(None, %s); (None, %s)]" % (col("k9"), col("a"))),
        S("group_agg", "group {k9} (aggregate {n9 = count this, m9 = max a})",
          "TGroupAgg [%d%%N] [(Some %d%%N, ACount, ELit (VInt 1)); (Some %d%%N, AMax, %s)]" % (n("k9"), n("n9"), n("m9"), col("a")), by=["k9"]),
        sel(["k9", "n9", "m9"])], False, ["k9", "n9", "m9"]),
        {"t": [], "u": []}))
    # 3561315: DISTINCT ON and DISTINCT never share a SELECT (judged on the PQ of sql.postgres by the segment validator)
    out.append(("3561315", P.Program([
        S("select", "select {id, a, b}", "TSelect [(None, %s); (None, %s); (None, %s)]" % (col("id"), col("a"), col("b"))),
        S("group_take", "group {a} (sort {b, id} | take 1)", "TGroupTake [%d%%N] [(false, %s); (false, %s)] None (Some (1))" % (n("a"), col("b"), col("id")),
          by=["a"], keys=[(False, ("col", None, "b")), (False, ("col", None, "id"))]),
        S("select", "select {a, b}", "TSelect [(None, %s); (None, %s)]" % (col("a"), col("b"))),
        S("distinct", "group {a, b} (take 1)", "TDistinct", nkeys=2)], False, ["a", "b"])))
    for e in out:
        if len(e) > 2:
            e[1].meta["instance"] = e[2]      # a telling instance, for callers that want it (they supply random ones otherwise)
    return [(e[0], e[1]) for e in out]


def append_pruned(sql):
    """the top operand of a UNION ALL has an explicit column list while the bottom operand is `SELECT *`"""
    for m in re.finditer(r"UNION ALL SELECT \* FROM", sql):
        head = sql[:m.start()]
        cut = head.rfind(" AS (SELECT")
        top = head[cut + 5:] if cut >= 0 else head
        # innermost operand directly in front of UNION ALL: a wrapped `(SELECT ...) AS x` or the operand itself
        sel = top[top.find("SELECT ") + 7:]
        lst = sel[:sel.find(" FROM ")] if " FROM " in sel else sel
        if lst.strip() == "*" and "(SELECT " in sel:
            inner = sel[sel.find("(SELECT ") + 8:]
            lst = inner[:inner.find(" FROM ")] if " FROM " in inner else inner
        if lst.strip() not in ("*", ""):
            return True
    return False


def bare_offset(sql):
    """some OFFSET in the text is not preceded by a LIMIT"""
    for m in re.finditer(r" OFFSET \d+", sql):
        if not re.search(r"LIMIT -?\d+$", sql[:m.start()]):
            return True
    return False


def take_before_distinct(pg):
    ks = pg.kinds()
    for i, k in enumerate(ks):
        if k == "take" and "distinct" in ks[i + 1:]:
            return True
    return False


def summarize(rec):
    return {"prql": rec["prql"], "target": rec["target"], "verdict": rec["verdict"], "rows": len(rec.get("sqlite_rows") or []),
            "sql": (rec.get("sql") or "")[:300]}


def run_stream(ck, stream, cases, targets, judge, classify, sample_every=97):
    """judge(rec) -> None (fine) | text describing the failure.  classify(rec) -> finding id | None."""
    recs = R.run_cases(cases, targets=targets)
    for i, rec in enumerate(recs):
        pg = rec["program"]
        ck.count(stream, json.dumps([rec["prql"], rec["target"], rec["instance"]], sort_keys=True),
                 nontrivial=bool(rec.get("sqlite_rows")) or rec["verdict"] != "ok")
        ck.stat(stream, "verdict:" + rec["verdict"])
        for k in set(pg.kinds()):
            ck.stat(stream, "kind:" + k)
        ks = pg.kinds()
        for a, b in zip(ks, ks[1:]):
            ck.stat(stream + "-adjacency", a + ">" + b)
        ck.stat(stream, "rows:%d" % min(len(rec.get("model_rows") or []), 9))
        why = judge(rec)
        if i % sample_every == 0:
            ck.sample(summarize(rec))
        if why is None:
            continue
        fid = classify(rec)
        if fid is not None and fid.startswith("oracle-"):
            ck.stat(stream, "skipped:" + fid)
            continue
        ck.disagreement("%s: %s [%s]" % (why, rec["prql"].replace("\n", " | ")[:300], rec["target"]), R.replay_of(rec), lambda _c, f=fid: f)
    return recs

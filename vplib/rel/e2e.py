"""Shared end-to-end streams and known-finding classifiers for the relational-core properties
(C01 rows, C03 order, C05 columns, C06 rewrites, C04 windows)."""
import json
import re

from . import prog as P
from . import run as R

KINDS = ["join", "derive", "select", "filter", "sort", "take", "aggregate", "group_agg", "group_take", "group_win", "win", "distinct", "append"]


def has_neg(prql):
    return "(-(" in prql


def classify_common(rec):
    """Known defects of the unchanged tree that any relational program can run into (recorded under the
    property whose clause they break; other properties' oracles skip such cases, see `skip_reason`)."""
    v = rec["verdict"]
    kinds = rec["program"].kinds()
    sql = rec.get("sql") or ""
    if v == "sql-err":
        msg = (rec.get("sqlite") or {}).get("exec_err", "")
        if "same number of result columns" in msg and "append" in kinds:
            return "F28-append-prune"
        if "syntax error" in msg and re.search(r"(?<!LIMIT \d)(?<!LIMIT \d\d) OFFSET \d+", sql) and not re.search(r"LIMIT -?\d+ OFFSET", sql[max(0, sql.rfind(" OFFSET") - 12):]) \
                and any(s.kind == "take" and s.info.get("rng", (None, 0))[1] is None for s in rec["program"].steps):
            return "F27-offset-without-limit" if rec["target"] == "sql.sqlite" else "oracle-generic-offset"
        if "--" in sql and has_neg(rec["prql"]):
            return "F03-double-minus"
    if v == "panic":
        p = (rec.get("compile") or {}).get("panic", {})
        if "name of this column has not been to be set" in p.get("msg", "") and "gen_expr.rs" in p.get("loc", ""):
            return "F29-unnamed-column-panic"
    if v in ("rows", "names", "sql-err"):
        if rec["target"] == "sql.generic" and " / " in rec["prql"]:
            return "oracle-generic-divf"      # generic `/` is emitted without `* 1.0`; SQLite then divides integers (F16: an artefact of running generic SQL on SQLite)
        if "append" in kinds and append_pruned(sql):
            return "F28-append-prune"
        if "--" in sql and has_neg(rec["prql"]):
            return "F03-double-minus"
        if "group_agg" in kinds and re.search(r"GROUP BY (?:[^,()]+, )*-?\d+(?:,| |$)", sql):
            return "F32-group-by-constant"
        if re.search(r"SELECT NULL FROM", sql) and "aggregate" in kinds:
            return "F25-dropped-aggregate"
        if "distinct" in kinds and "take" in kinds and re.search(r"SELECT DISTINCT [^()]* LIMIT", sql) and take_before_distinct(rec["program"]):
            return "F19-take-then-distinct"
    return None


def append_pruned(sql):
    """the top operand of a UNION ALL has an explicit column list while the bottom operand is `SELECT *`"""
    for m in re.finditer(r"UNION ALL SELECT \* FROM", sql):
        head = sql[:m.start()]
        cut = max(head.rfind(" AS (SELECT"), 0)
        top = head[cut:]
        if re.search(r"SELECT (?!\* FROM)(?!\*,)", top) and re.search(r"SELECT (?!\*)[^*]*? FROM t\b", top):
            return True
    return False


def take_before_distinct(pg):
    ks = pg.kinds()
    for i, k in enumerate(ks):
        if k == "take" and "distinct" in ks[i + 1:]:
            return True
    return False


def summarize(rec):
    return {"prql": rec["prql"], "target": rec["target"], "verdict": rec["verdict"], "rows": len(rec.get("sqlite_rows") or []),
            "sql": (rec.get("sql") or "")[:300]}


def run_stream(ck, stream, cases, targets, judge, classify, sample_every=97):
    """judge(rec) -> None (fine) | text describing the failure.  classify(rec) -> finding id | None."""
    recs = R.run_cases(cases, targets=targets)
    for i, rec in enumerate(recs):
        pg = rec["program"]
        ck.count(stream, json.dumps([rec["prql"], rec["target"], rec["instance"]], sort_keys=True),
                 nontrivial=bool(rec.get("sqlite_rows")) or rec["verdict"] != "ok")
        ck.stat(stream, "verdict:" + rec["verdict"])
        for k in set(pg.kinds()):
            ck.stat(stream, "kind:" + k)
        ks = pg.kinds()
        for a, b in zip(ks, ks[1:]):
            ck.stat(stream + "-adjacency", a + ">" + b)
        ck.stat(stream, "rows:%d" % min(len(rec.get("model_rows") or []), 9))
        why = judge(rec)
        if i % sample_every == 0:
            ck.sample(summarize(rec))
        if why is None:
            continue
        fid = classify(rec)
        if fid is not None and fid.startswith("oracle-"):
            ck.stat(stream, "skipped:" + fid)
            continue
        ck.disagreement("%s: %s [%s]" % (why, rec["prql"].replace("\n", " | ")[:300], rec["target"]), R.replay_of(rec), lambda _c, f=fid: f)
    return recs

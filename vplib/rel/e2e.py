"""Shared end-to-end streams and known-finding classifiers for the relational-core properties
(C01 rows, C03 order, C05 columns, C06 rewrites, C04 windows)."""
import json
import re

from . import prog as P
from . import run as R

KINDS = ["join", "derive", "select", "filter", "sort", "take", "aggregate", "group_agg", "group_take", "group_win", "win", "distinct", "append"]


def has_neg(prql):
    return "(-(" in prql


def takes_across_sort_before_group(pg):
    """two takes with a sort between them, and a group / window over groups later on"""
    ks = pg.kinds()
    for i, k in enumerate(ks):
        if k != "take":
            continue
        for j in range(i + 1, len(ks)):
            if ks[j] == "take" and "sort" in ks[i + 1:j] and any(x in ("group_agg", "group_take", "group_win", "aggregate", "distinct") for x in ks[j + 1:]):
                return True
    return False


def sort_key_dropped(pg):
    """some key of a sort (or of the sort inside a group) is a computed expression, or a column that is not
    among the final columns under its own name -- the situation in which the back end has to carry a column
    the query does not select"""
    final = set(pg.final_cols or [])
    for st in pg.steps:
        for _, e in (st.info.get("keys") or []):
            if e[0] != "col" or e[2] not in final:
                return True
    return False


def let_then_window(pg):
    k = pg.meta.get("let_at")
    if not k:
        return False
    ks = pg.kinds()
    return any(x in ("win", "group_win") for x in ks[k:])


def classify_common(rec):
    """Known defects of the unchanged tree that any relational program can run into (recorded under the
    property whose clause they break; other properties' oracles skip such cases, see `skip_reason`)."""
    v = rec["verdict"]
    kinds = rec["program"].kinds()
    sql = rec.get("sql") or ""
    if v == "sql-err":
        msg = (rec.get("sqlite") or {}).get("exec_err", "")
        if rec["target"] == "sql.generic" and re.search(r'near "(ALL|DISTINCT)": syntax error', msg) and re.search(r"(INTERSECT|EXCEPT|UNION) (ALL|DISTINCT)", sql):
            return "oracle-generic-setop"      # generic spells set operations with ALL/DISTINCT, which SQLite does not parse
        if "same number of result columns" in msg and "append" in kinds:
            return "F28-append-prune"
        if "syntax error" in msg and bare_offset(sql) and rec["target"] == "sql.generic" \
                and any(s.kind == "take" and s.info.get("rng", (None, 0))[1] is None for s in rec["program"].steps):
            return "oracle-generic-offset"     # generic SQL may use OFFSET without LIMIT; SQLite cannot run it (F27 is repaired for sql.sqlite)
    if v == "panic":
        p = (rec.get("compile") or {}).get("panic", {})
        if "name of this column has not been to be set" in p.get("msg", "") and "gen_expr.rs" in p.get("loc", "") and sort_key_dropped(rec["program"]):
            return "F29-unnamed-column-panic"
    if v == "sql-err" and re.search(r"no such column: _expr_\d+", str(rec.get("sqlite"))) and re.search(r" AS _expr_\d+", sql):
        return "F24-dangling-generated-alias"
    if v == "sql-err" and rec["program"].meta.get("let_at") and re.search(r"no such column: x\d+", str(rec.get("sqlite"))) and re.search(r"p0 AS \(SELECT \*", sql):
        return "F36-let-table-star-loses-derived-name"
    if v == "sql-err" and "join" in kinds and re.search(r"no such column: \w+\._expr_\d+", str(rec.get("sqlite"))) and re.search(r"ORDER BY [^()]*\b\w+\._expr_\d+", sql):
        return "F38-order-by-qualified-generated-alias"
    if v == "sql-err" and rec["program"].meta.get("let_at") and re.search(r"no such column: [a-z]+\b", str(rec.get("sqlite"))) and re.search(r"WITH p0 AS \(SELECT (?!\*)", sql):
        return "F39-let-sort-key-expression-reinlined"
    if v == "sql-err" and rec["program"].meta.get("let_at") and "join" in kinds:
        m = re.search(r"no such column: (\w+)\.(\w+)", str(rec.get("sqlite")))
        if m and re.search(r"ORDER BY [^()]*\b%s\.%s\b" % (re.escape(m.group(1)), re.escape(m.group(2))), sql):
            return "C07-N1-order-by-inner-relation"
    if v == "rows" and " INTERSECT " in sql and any(st.info.get("alljoin") and st.info.get("side") == "Inner" for st in rec["program"].steps):
        return "F41-inner-join-rewritten-to-intersect"
    if v in ("rows", "names", "sql-err"):
        if v == "rows" and takes_across_sort_before_group(rec["program"]) and len(re.findall(r"\bLIMIT\b", sql)) < sum(1 for k in kinds if k == "take"):
            return "F37-takes-merged-across-sort-before-group"
        if v == "rows" and let_then_window(rec["program"]):
            return "F35-let-boundary-hides-order-from-window"
        if rec["target"] == "sql.generic" and " / " in rec["prql"]:
            return "oracle-generic-divf"      # generic `/` is emitted without `* 1.0`; SQLite then divides integers (F16: an artefact of running generic SQL on SQLite)
        if "append" in kinds and append_pruned(sql):
            return "F28-append-prune"
        if "group_agg" in kinds and re.search(r"GROUP BY (?:[^,()]+, )*-?\d+(?:,| |$)", sql):
            return "F32-group-by-constant"
        if re.search(r"SELECT NULL FROM", sql) and "aggregate" in kinds:
            return "F25-dropped-aggregate"
        if "distinct" in kinds and "take" in kinds and re.search(r"SELECT DISTINCT [^()]* LIMIT", sql) and take_before_distinct(rec["program"]):
            return "F19-take-then-distinct"
    return None


def append_pruned(sql):
    """the top operand of a UNION ALL has an explicit column list while the bottom operand is `SELECT *`"""
    for m in re.finditer(r"UNION ALL SELECT \* FROM", sql):
        head = sql[:m.start()]
        cut = head.rfind(" AS (SELECT")
        top = head[cut + 5:] if cut >= 0 else head
        # innermost operand directly in front of UNION ALL: a wrapped `(SELECT ...) AS x` or the operand itself
        sel = top[top.find("SELECT ") + 7:]
        lst = sel[:sel.find(" FROM ")] if " FROM " in sel else sel
        if lst.strip() == "*" and "(SELECT " in sel:
            inner = sel[sel.find("(SELECT ") + 8:]
            lst = inner[:inner.find(" FROM ")] if " FROM " in inner else inner
        if lst.strip() not in ("*", ""):
            return True
    return False


def bare_offset(sql):
    """some OFFSET in the text is not preceded by a LIMIT"""
    for m in re.finditer(r" OFFSET \d+", sql):
        if not re.search(r"LIMIT -?\d+$", sql[:m.start()]):
            return True
    return False


def take_before_distinct(pg):
    ks = pg.kinds()
    for i, k in enumerate(ks):
        if k == "take" and "distinct" in ks[i + 1:]:
            return True
    return False


def summarize(rec):
    return {"prql": rec["prql"], "target": rec["target"], "verdict": rec["verdict"], "rows": len(rec.get("sqlite_rows") or []),
            "sql": (rec.get("sql") or "")[:300]}


def run_stream(ck, stream, cases, targets, judge, classify, sample_every=97):
    """judge(rec) -> None (fine) | text describing the failure.  classify(rec) -> finding id | None."""
    recs = R.run_cases(cases, targets=targets)
    for i, rec in enumerate(recs):
        pg = rec["program"]
        ck.count(stream, json.dumps([rec["prql"], rec["target"], rec["instance"]], sort_keys=True),
                 nontrivial=bool(rec.get("sqlite_rows")) or rec["verdict"] != "ok")
        ck.stat(stream, "verdict:" + rec["verdict"])
        for k in set(pg.kinds()):
            ck.stat(stream, "kind:" + k)
        ks = pg.kinds()
        for a, b in zip(ks, ks[1:]):
            ck.stat(stream + "-adjacency", a + ">" + b)
        ck.stat(stream, "rows:%d" % min(len(rec.get("model_rows") or []), 9))
        why = judge(rec)
        if i % sample_every == 0:
            ck.sample(summarize(rec))
        if why is None:
            continue
        fid = classify(rec)
        if fid is not None and fid.startswith("oracle-"):
            ck.stat(stream, "skipped:" + fid)
            continue
        ck.disagreement("%s: %s [%s]" % (why, rec["prql"].replace("\n", " | ")[:300], rec["target"]), R.replay_of(rec), lambda _c, f=fid: f)
    return recs

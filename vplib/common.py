"""Shared machinery of the prql verification framework (python3 stdlib only).

One check = one property.  See DESIGN.md section 2.  Steps: build harness from /repo's
working tree -> regenerate coq/Gen from /repo -> (re)check the property's theorems with coqc
-> correspondence / end-to-end streams -> classify vs known_findings.json -> evidence.
"""
import concurrent.futures as cf
import fcntl
import hashlib
import json
import os
import random
import re
import subprocess
import sys
import time

ROOT = os.path.dirname(os.path.dirname(os.path.abspath(__file__)))
REPO = os.path.abspath(os.environ.get("VERIF_REPO", "/repo"))
CACHE = os.path.join(ROOT, ".cache")
NPROC = min(16, os.cpu_count() or 4)
# development-time override (many checks running at once on one machine): VERIF_NPROC or the untracked file .cache/nproc
try:
    NPROC = max(1, int(os.environ.get("VERIF_NPROC") or open(os.path.join(CACHE, "nproc")).read().strip()))
except (OSError, ValueError):
    pass
GUARD = "prqlc_verif"
os.makedirs(CACHE, exist_ok=True)

# Normal mode: everything runs in /verif against /repo.
# Scratch mode (VERIF_REPO=<another checkout>, used only for mutation experiments): the Coq tree and the
# harness are copied to .cache/alt-<hash>/ so that generated tables, build output, evidence and replays
# of the experiment never touch the registered state.
ALT = REPO != "/repo"
if ALT:
    STATE = os.path.join(CACHE, "alt-" + hashlib.sha1(REPO.encode()).hexdigest()[:10])
    os.makedirs(STATE, exist_ok=True)
    subprocess.run(["rsync", "-a", "--delete", "--exclude", "Gen/", os.path.join(ROOT, "coq") + "/", os.path.join(STATE, "coq") + "/"], check=True)
    os.makedirs(os.path.join(STATE, "harness"), exist_ok=True)
    subprocess.run(["rsync", "-a", "--delete", "--exclude", ".cargo/", "--exclude", "Cargo.toml", os.path.join(ROOT, "harness") + "/", os.path.join(STATE, "harness") + "/"], check=True)
    _ct = open(os.path.join(ROOT, "harness", "Cargo.toml")).read().replace('"/repo/', '"%s/' % REPO)
    _cp = os.path.join(STATE, "harness", "Cargo.toml")
    if not os.path.exists(_cp) or open(_cp).read() != _ct:
        open(_cp, "w").write(_ct)
    os.makedirs(os.path.join(STATE, "harness", ".cargo"), exist_ok=True)
    open(os.path.join(STATE, "harness", ".cargo", "config.toml"), "w").write(
        '[net]\noffline = true\n[build]\ntarget-dir = "%s"\n' % os.path.join(STATE, "target"))
    HARNESS_DIR = os.path.join(STATE, "harness")
    HARNESS_BIN = os.path.join(STATE, "target", "debug", "vharness")
    if not os.path.exists(os.path.join(STATE, "target")) and os.path.exists(os.path.join(CACHE, "target")):
        subprocess.run(["cp", "-a", os.path.join(CACHE, "target"), os.path.join(STATE, "target")])  # warm start
else:
    STATE = ROOT
    HARNESS_DIR = os.path.join(ROOT, "harness")
    HARNESS_BIN = os.path.join(CACHE, "target", "debug", "vharness")
COQ = os.path.join(STATE, "coq")


class Lock:
    def __init__(self, name):
        self.path = os.path.join(STATE if ALT else CACHE, name + ".lock")

    def __enter__(self):
        self.f = open(self.path, "w")
        fcntl.flock(self.f, fcntl.LOCK_EX)
        return self

    def __exit__(self, *a):
        fcntl.flock(self.f, fcntl.LOCK_UN)
        self.f.close()


def sh(cmd, timeout=None, cwd=None, env=None, input=None):
    e = dict(os.environ)
    e.update({"CARGO_NET_OFFLINE": "true"})
    if env:
        e.update(env)
    try:
        r = subprocess.run(cmd, cwd=cwd, env=e, input=input, capture_output=True, text=True, timeout=timeout)
        return r.returncode, r.stdout, r.stderr
    except subprocess.TimeoutExpired as ex:
        out = ex.stdout.decode() if isinstance(ex.stdout, bytes) else (ex.stdout or "")
        err = ex.stderr.decode() if isinstance(ex.stderr, bytes) else (ex.stderr or "")
        return 124, out, err + "\nTIMEOUT"


# ----------------------------------------------------------------------------- harness

_harness_built = False


def harness_build():
    """cargo build of the harness against /repo's current working tree (hooks cfg on)."""
    global _harness_built
    if _harness_built:
        return
    with Lock("cargo"):
        flags = os.environ.get("RUSTFLAGS", "")
        rc, out, err = sh(
            ["cargo", "+1.91.1", "build", "--offline", "--quiet", "--target-dir", os.path.dirname(os.path.dirname(HARNESS_BIN))],
            cwd=HARNESS_DIR,
            timeout=1500,
            env={"RUSTFLAGS": (flags + " --cfg " + GUARD).strip()},
        )
    if rc != 0:
        print("harness build failed (does /repo compile?)\n" + err[-4000:])
        sys.exit(2)
    _harness_built = True


def _run_batch(args, timeout=1800):
    cmd, lines = args
    try:
        p = subprocess.run([HARNESS_BIN, cmd], input="\n".join(lines) + "\n", capture_output=True, text=True, timeout=timeout)
        out, err, rc = p.stdout, p.stderr, p.returncode
    except subprocess.TimeoutExpired as ex:
        out = ex.stdout.decode("utf-8", "replace") if isinstance(ex.stdout, bytes) else (ex.stdout or "")
        err, rc = "TIMEOUT", -9
    outs = [l for l in out.split("\n") if l.strip()]
    # a line cut off by the kill is not an answer
    if rc == -9 and outs:
        try:
            json.loads(outs[-1])
        except ValueError:
            outs = outs[:-1]
    return rc, outs, err[-2000:]


def harness(cmd, reqs, shards=None, timeout_each=None):
    """Run requests through the harness; returns list of answers (dict).  A process abort or a
    short answer list is attributed to single requests by re-running them one at a time:
    the culprit gets {"abort": rc}."""
    harness_build()
    if not reqs:
        return []
    shards = shards or NPROC
    lines = [json.dumps(r) for r in reqs]
    n = len(lines)
    size = max(1, (n + shards - 1) // shards)
    chunks = [(i, lines[i:i + size]) for i in range(0, n, size)]
    res = [None] * n
    with cf.ThreadPoolExecutor(max_workers=shards) as ex:
        futs = {ex.submit(_run_batch, (cmd, c)): (i, c) for i, c in chunks}
        for f in cf.as_completed(futs):
            i, c = futs[f]
            rc, outs, err = f.result()
            if len(outs) == len(c):
                for k, o in enumerate(outs):
                    res[i + k] = json.loads(o)
            else:
                # abort (stack overflow, SIGSEGV, ...): answers up to the culprit are valid
                for k, o in enumerate(outs):
                    res[i + k] = json.loads(o)
                k = len(outs)
                while k < len(c):
                    rc1, o1, e1 = _run_batch((cmd, [c[k]]), timeout=timeout_each or 120)
                    if len(o1) == 1:
                        res[i + k] = json.loads(o1[0])
                    elif rc1 == -9:
                        res[i + k] = {"hang": (timeout_each or 120) * 1000}
                    else:
                        res[i + k] = {"abort": rc1, "stderr": e1[-300:]}
                    k += 1
    return res


def harness1(cmd, req):
    return harness(cmd, [req], shards=1)[0]


# ----------------------------------------------------------------------------- coq

COQ_SUBDIRS = ["Lib", "Gen", "Model", "Proofs", "Props"]


def gen_write(name, content):
    """Write coq/Gen/<name>.v only when its content changed (keeps make incremental)."""
    os.makedirs(os.path.join(COQ, "Gen"), exist_ok=True)
    p = os.path.join(COQ, "Gen", name + ".v")
    old = None
    if os.path.exists(p):
        old = open(p).read()
    if old != content:
        with open(p, "w") as f:
            f.write(content)
        return True
    return False


def coq_makefile():
    files = []
    for d in COQ_SUBDIRS:
        dd = os.path.join(COQ, d)
        if os.path.isdir(dd):
            for f in sorted(os.listdir(dd)):
                if f.endswith(".v"):
                    files.append(d + "/" + f)
    proj = "-Q . PV\n-arg -w -arg -notation-overridden,-deprecated-hint-without-locality,-deprecated-instance-without-locality,-ambiguous-paths\n" + "\n".join(files) + "\n"
    pp = os.path.join(COQ, "_CoqProject")
    old = open(pp).read() if os.path.exists(pp) else None
    if old != proj or not os.path.exists(os.path.join(COQ, "Makefile")):
        open(pp, "w").write(proj)
        rc, out, err = sh(["coq_makefile", "-f", "_CoqProject", "-o", "Makefile"], cwd=COQ, timeout=120)
        if rc != 0:
            print("coq_makefile failed\n" + err)
            sys.exit(2)


def coq_make(targets, timeout=1500):
    coq_makefile()
    rc, out, err = sh(["make", "-j%d" % NPROC] + targets, cwd=COQ, timeout=timeout)
    return rc, out, err


FORBIDDEN = re.compile(
    r"\b(Admitted|admit|Axiom|Axioms|Parameter|Parameters|Conjecture|Hypothesis|Hypotheses|Variable|Variables|Unset\s+Guard|bypass_check|Admit\s+Obligations|type-in-type|impredicative-set|Unset\s+Universe\s+Checking|Unset\s+Positivity)\b"
)


def strip_coq_comments(t):
    out = []
    depth = 0
    i = 0
    n = len(t)
    instr = False
    while i < n:
        if depth == 0 and t[i] == '"':
            instr = not instr
            out.append(t[i]); i += 1; continue
        if not instr and t.startswith("(*", i):
            depth += 1; i += 2; continue
        if not instr and depth > 0 and t.startswith("*)", i):
            depth -= 1; i += 2; continue
        if depth == 0:
            out.append(t[i])
        i += 1
    return "".join(out)


def dep_closure(pid):
    """.v files Props/<pid>.v transitively depends on (from coq_makefile's dependency file)"""
    dep = os.path.join(COQ, ".Makefile.d")
    if not os.path.exists(dep):
        return None
    g = {}
    for line in open(dep).read().replace("\\\n", " ").split("\n"):
        if ":" not in line:
            continue
        lhs, rhs = line.split(":", 1)
        tgt = [x for x in lhs.split() if x.endswith(".vo")]
        if not tgt:
            continue
        g[tgt[0][:-1]] = [x[:-1] for x in rhs.split() if x.endswith(".vo") and not x.startswith("/")]
    seen, todo = set(), ["Props/%s.v" % pid]
    while todo:
        f = todo.pop()
        if f in seen:
            continue
        seen.add(f)
        todo += g.get(f, [])
    return seen


def grep_gate(only=None):
    """No Admitted/admit/Axiom/Parameter/... ; Variable/Hypothesis only inside a Section.
    only = set of relative .v paths to look at (a property's dependency closure); None = the whole development."""
    bad = []
    for d in COQ_SUBDIRS:
        dd = os.path.join(COQ, d)
        if not os.path.isdir(dd):
            continue
        for f in sorted(os.listdir(dd)):
            if not f.endswith(".v"):
                continue
            if only is not None and (d + "/" + f) not in only:
                continue
            txt = strip_coq_comments(open(os.path.join(dd, f)).read())
            depth = 0
            for ln, line in enumerate(txt.split("\n"), 1):
                if re.match(r"\s*Section\b", line):
                    depth += 1
                if re.match(r"\s*End\b", line) and depth > 0:
                    depth -= 1
                for m in FORBIDDEN.finditer(line):
                    w = m.group(1)
                    if w in ("Variable", "Variables", "Hypothesis", "Hypotheses") and depth > 0:
                        continue
                    if w == "admit" and re.search(r"[A-Za-z_]admit|admit[A-Za-z_]", line):
                        continue
                    bad.append("%s/%s:%d: %s" % (d, f, ln, w))
    return bad


ALLOWED_AXIOMS = set()  # none: every property theorem is expected "Closed under the global context"


def coq_props(pid, extra_targets=()):
    """(Re)compile Props/<pid>.v and everything it depends on.  Returns dict:
    ok, obligations, discharged, theorems, assumptions, log, failed (name of first failing file/line)."""
    props = os.path.join(COQ, "Props", pid + ".v")
    src = strip_coq_comments(open(props).read())
    theorems = re.findall(r"^\s*(?:Theorem|Lemma|Corollary)\s+([A-Za-z0-9_']+)", src, re.M)
    prints = re.findall(r"Print\s+Assumptions\s+([A-Za-z0-9_']+)", src)
    with Lock("coq"):
        for ext in (".vo", ".glob", ".vos", ".vok"):
            try:
                os.remove(os.path.join(COQ, "Props", pid + ext))
            except FileNotFoundError:
                pass
        t0 = time.time()
        rc, out, err = coq_make(["Props/%s.vo" % pid] + list(extra_targets))
        dt = time.time() - t0
    gate = grep_gate(dep_closure(pid))
    res = {
        "ok": rc == 0 and not gate,
        "theorems": theorems,
        "obligations": len(theorems),
        "discharged": 0,
        "assumptions": {},
        "gate": gate,
        "log": (out + "\n" + err)[-6000:],
        "failed": None,
        "seconds": dt,
        "checker_cmd": "cd coq && coq_makefile -f _CoqProject -o Makefile && make -j%d Props/%s.vo  (coqc 8.16.1, full .vo build)" % (NPROC, pid),
    }
    if rc != 0:
        m = re.search(r'File "\./([^"]+)", line (\d+)', out + err)
        res["failed"] = "%s:%s" % (m.group(1), m.group(2)) if m else "make rc=%d" % rc
        m2 = re.search(r"Error:(.*?)(?:\n\n|\Z)", out + err, re.S)
        res["error"] = (m2.group(1).strip()[:600] if m2 else "")
        return res
    # parse Print Assumptions blocks (in order of the Print commands)
    blocks = re.split(r"(?m)^(?=Closed under the global context|Axioms:)", out)
    blocks = [b for b in blocks if b.startswith("Closed under") or b.startswith("Axioms:")]
    closed = 0
    for name, b in zip(prints, blocks):
        if b.startswith("Closed under"):
            res["assumptions"][name] = []
            closed += 1
        else:
            ax = re.findall(r"(?m)^([A-Za-z0-9_.']+)\s*:", b)
            res["assumptions"][name] = ax
            if all(a in ALLOWED_AXIOMS for a in ax):
                closed += 1
    missing = [t for t in theorems if t not in prints]
    if missing or len(blocks) != len(prints):
        res["ok"] = False
        res["failed"] = "Print Assumptions missing for %s (blocks=%d prints=%d)" % (missing, len(blocks), len(prints))
        return res
    res["discharged"] = closed if not gate else 0
    if closed != len(prints):
        res["ok"] = False
        res["failed"] = "axioms: %s" % {k: v for k, v in res["assumptions"].items() if v}
    if gate:
        res["failed"] = "forbidden vernacular: %s" % gate[:5]
    return res


# --- evaluating model definitions inside Coq (Tie B, `Eval vm_compute`) ---

def _coq_eval_shard(args):
    idx, header, exprs, workdir = args
    name = "Cases%d" % idx
    path = os.path.join(workdir, name + ".v")
    with open(path, "w") as f:
        f.write("From Coq Require Import NArith.\n" + header + "\n")
        for k, e in exprs:
            f.write('Eval vm_compute in (%d%%N, %s).\n' % (k, e))
    rc, out, err = sh(["coqc", "-q", "-noglob", "-Q", COQ, "PV", path], timeout=1200, cwd=workdir)
    for ext in (".v", ".vo", ".vok", ".vos", ".glob"):
        try:
            os.remove(os.path.join(workdir, name + ext))
        except FileNotFoundError:
            pass
    try:
        os.remove(os.path.join(workdir, "." + name + ".aux"))
    except FileNotFoundError:
        pass
    return rc, out, err


def coq_eval(header, exprs, shards=None):
    """exprs: list of Coq expression strings.  Returns list of parsed values (see parse_term), same order.
    The needed .vo files must have been built (coq_props / coq_make)."""
    if not exprs:
        return []
    shards = shards or NPROC
    workdir = os.path.join(CACHE, "cases", "%d_%d" % (os.getpid(), int(time.time() * 1000) % 100000))
    os.makedirs(workdir, exist_ok=True)
    n = len(exprs)
    size = max(1, (n + shards - 1) // shards)
    jobs = []
    for s, i in enumerate(range(0, n, size)):
        jobs.append((s, header, [(k, exprs[k]) for k in range(i, min(n, i + size))], workdir))
    res = [None] * n
    with cf.ThreadPoolExecutor(max_workers=shards) as ex:
        for rc, out, err in ex.map(_coq_eval_shard, jobs):
            if rc != 0:
                raise RuntimeError("coq_eval failed: " + (err or out)[-3000:])
            for m in re.finditer(r"(?ms)^\s*= \((\d+)(?:%N)?,\s*(.*?)\)\s*\n\s*: ", out):
                res[int(m.group(1))] = parse_term(m.group(2))
    try:
        os.rmdir(workdir)
    except OSError:
        pass
    return res


_tok = re.compile(r'\s*(?:%[A-Za-z_]+\s*)*(?:("(?:[^"]|"")*")|(-?\d+)(?:%[A-Za-z_]+)?|([A-Za-z_][A-Za-z0-9_.\']*)|(.))', re.S)


def parse_term(t):
    """Parse Coq's printing of a closed data term: numbers (scope suffix dropped), strings,
    lists [a; b], tuples (a, b), constructor applications `C a b` -> ("C", a, b), bare `C` -> "C"."""
    toks = []
    pos = 0
    t = t.strip()
    while pos < len(t):
        m = _tok.match(t, pos)
        if not m:
            break
        pos = m.end()
        if m.group(1) is not None:
            toks.append(("s", m.group(1)[1:-1].replace('""', '"')))
        elif m.group(2) is not None:
            toks.append(("n", int(m.group(2))))
        elif m.group(3) is not None:
            toks.append(("i", m.group(3)))
        elif m.group(4) is not None and m.group(4).strip():
            toks.append(("p", m.group(4)))
    i = [0]

    def peek():
        return toks[i[0]] if i[0] < len(toks) else ("e", None)

    def atom():
        k, v = peek()
        if k == "n" or k == "s":
            i[0] += 1
            return v if k == "n" else ("str", v)
        if k == "i":
            i[0] += 1
            return {"true": True, "false": False}.get(v, v)
        if k == "p" and v == "[":
            i[0] += 1
            xs = []
            if peek() == ("p", "]"):
                i[0] += 1
                return xs
            while True:
                xs.append(app())
                k2, v2 = peek()
                i[0] += 1
                if v2 == "]":
                    return xs
                if v2 != ";":
                    raise ValueError("list syntax near %r" % (toks[max(0, i[0] - 5):i[0] + 3],))
        if k == "p" and v == "(":
            i[0] += 1
            xs = [app()]
            while peek() == ("p", ","):
                i[0] += 1
                xs.append(app())
            if peek() != ("p", ")"):
                raise ValueError("paren syntax near %r" % (toks[max(0, i[0] - 5):i[0] + 3],))
            i[0] += 1
            return xs[0] if len(xs) == 1 else tuple(xs)
        raise ValueError("unexpected token %r" % (peek(),))

    def app():
        k, v = peek()
        if k == "p" and v == "-":
            i[0] += 1
            return -atom()
        head = atom()
        args = []
        while True:
            k, v = peek()
            if k in ("n", "s", "i") or (k == "p" and v in "[("):
                args.append(atom())
            else:
                break
        if args:
            return (head,) + tuple(args)
        return head

    r = app()
    return r


def coq_str(s):
    return '"' + s.replace('"', '""') + '"'


def coq_codes(s):
    """python str -> Coq `list N` of code points"""
    return "[" + ";".join(str(ord(c)) for c in s) + "]%N"


def coq_list(xs):
    return "[" + "; ".join(xs) + "]"


# ----------------------------------------------------------------------------- findings / outcome

def load_findings(pid):
    out = []
    paths = [os.path.join(ROOT, "known_findings.json")]
    d = os.path.join(ROOT, "known_findings.d")
    if os.path.isdir(d):
        paths += [os.path.join(d, f) for f in sorted(os.listdir(d)) if f.endswith(".json")]
    for p in paths:
        if os.path.exists(p):
            out += [f for f in json.load(open(p)).get("findings", []) if f.get("property") == pid or pid in f.get("properties", [])]
    return out


class Check:
    """Collects what a run did; writes evidence; prints KNOWN-FINDING / VIOLATION lines; exit code."""

    def __init__(self, pid, level="proof"):
        self.pid = pid
        self.tier = os.environ.get("VERIF_TIER", "quick")
        self.seed = int(os.environ.get("VERIF_SEED", "1") or 1)
        self.rng = random.Random(self.seed * 1000003 + int(hashlib.sha1(pid.encode()).hexdigest()[:6], 16))
        self.level = level
        self.t0 = time.time()
        self.findings = load_findings(pid)
        self.known_hits = {}      # finding id -> count
        self.violations = []      # (what, replay dict)
        self.coverage = {"samples": [], "streams": {}}
        self.assumptions = []
        self.evaluations = 0
        self.distinct = set()
        self.proof = None

    @property
    def thorough(self):
        return self.tier == "thorough"

    def n(self, quick, thorough):
        return thorough if self.thorough else quick

    # --- bookkeeping
    def count(self, stream, case_key, nontrivial=True):
        self.evaluations += 1
        st = self.coverage["streams"].setdefault(stream, {"evaluations": 0})
        st["evaluations"] += 1
        if nontrivial:
            self.distinct.add(hashlib.sha1((stream + "|" + case_key).encode()).hexdigest()[:16])

    def sample(self, x, cap=12):
        if len(self.coverage["samples"]) < cap:
            self.coverage["samples"].append(x)

    def stat(self, stream, key, inc=1):
        st = self.coverage["streams"].setdefault(stream, {"evaluations": 0})
        h = st.setdefault("hist", {})
        h[key] = h.get(key, 0) + inc

    # --- proof step
    def prove(self):
        r = coq_props(self.pid)
        self.proof = r
        self.coverage["obligations"] = r["obligations"]
        self.coverage["discharged"] = r["discharged"]
        self.coverage["checker_cmd"] = r["checker_cmd"]
        self.coverage["theorems"] = r["theorems"]
        self.coverage["assumptions_by_theorem"] = r["assumptions"]
        self.coverage["coq_seconds"] = round(r["seconds"], 1)
        if self.thorough and r["ok"]:
            # independent re-check of the compiled files (and everything they depend on) + axiom listing
            with Lock("coq"):
                rc, out, err = sh(["coqchk", "-silent", "-o", "-Q", ".", "PV", "PV.Props." + self.pid], cwd=COQ, timeout=1800)
            txt = out + err
            m = re.search(r"\* Axioms:(.*?)\n\s*\n\s*\*", txt, re.S)
            axioms = m.group(1).strip() if m else "?"
            self.coverage["coqchk"] = {"rc": rc, "axioms": axioms,
                                       "type_in_type": "<none>" in (re.search(r"type-in-type:(.*)", txt) or [None, ""])[1] if re.search(r"type-in-type:(.*)", txt) else None}
            if rc != 0 or axioms != "<none>":
                r["ok"] = False
                r["failed"] = "coqchk: rc=%d axioms=%s" % (rc, axioms[:200])
                self.coverage["discharged"] = 0
        return r

    def proof_broken_violation(self, found_input):
        """call after the search: the proof (or a translator) is broken and no concrete failing input exists."""
        r = self.proof
        if r and not r["ok"] and not found_input:
            self.violation(
                "proof obligation no longer checks: %s" % r["failed"],
                {"kind": "broken-obligation", "failed": r["failed"], "error": r.get("error", ""), "log_tail": r["log"][-1500:]},
                no_input=True,
            )

    # --- classification
    def disagreement(self, what, case, classify=None):
        """A concrete failing case.  classify(case) -> known finding id or None."""
        fid = classify(case) if classify else None
        if fid is not None and any(f["id"] == fid and f.get("status", "open") == "open" for f in self.findings):
            self.known_hits[fid] = self.known_hits.get(fid, 0) + 1
            return fid
        self.violation(what, case)
        return None

    def violation(self, what, replay, no_input=False):
        self.violations.append((what, replay, no_input))

    # --- finish
    def finish(self, trusted_base, rule, extra_cov=None):
        os.makedirs(os.path.join(STATE, "evidence"), exist_ok=True)
        os.makedirs(os.path.join(STATE, "replays"), exist_ok=True)
        cov = self.coverage
        cov["evaluations"] = self.evaluations
        cov["distinct_nontrivial"] = len(self.distinct)
        cov["rule"] = rule
        cov["trusted_base"] = trusted_base
        cov["known_findings_hit"] = self.known_hits
        if extra_cov:
            cov.update(extra_cov)
        lines = []
        for f in self.findings:
            if f.get("status", "open") != "open":
                continue
            hit = self.known_hits.get(f["id"], 0)
            lines.append("KNOWN-FINDING: property=%s %s [%s; reproduced %d time(s) in this run]" % (self.pid, f["what"], f["id"], hit))
        vio_lines = []
        seen = set()
        for what, replay, no_input in self.violations:
            key = hashlib.sha1(json.dumps(replay, sort_keys=True, default=str).encode()).hexdigest()[:12]
            if key in seen:
                continue
            seen.add(key)
            if len(vio_lines) >= 20:
                break
            path = os.path.join(STATE, "replays", "%s-%s.json" % (self.pid, key))
            with open(path, "w") as fh:
                json.dump({"property": self.pid, "what": what, "replay": replay, "seed": self.seed, "tier": self.tier}, fh, indent=1, default=str)
            vio_lines.append("VIOLATION property=%s replay=%s%s" % (self.pid, path, " no-failing-input-found" if no_input else ""))
            print("  -> " + what[:400])
        # keep schema-typed coverage keys well-typed (a detail dict under such a key moves to <key>_detail)
        typed = {"evaluations": int, "distinct_nontrivial": int, "states": int, "transitions": int, "traces_validated_against_impl": int,
                 "obligations": int, "discharged": int, "programs": int, "disagreements_checked": int, "exhaustive": bool,
                 "samples": list, "rule": str, "checker_cmd": str, "explanation": str, "trusted_base": list}
        for k, ty in typed.items():
            if k in cov and (not isinstance(cov[k], ty) or (ty is int and isinstance(cov[k], bool))):
                cov[k + "_detail"] = cov.pop(k)
        if cov.get("discharged") == 0:
            # schema: a proof-level coverage needs discharged >= 1; a broken proof is reported through the generic keys
            cov["discharged_count"] = cov.pop("discharged")
            cov["obligations_count"] = cov.pop("obligations", None)
        if self.level not in ("exploration", "fault_enumeration", "model_checking", "proof", "translation_validation", "other"):
            cov["level_detail"] = self.level
            self.level = "proof"
        ev = {
            "property_id": self.pid,
            "tier": self.tier,
            "seed": self.seed,
            "level": self.level,
            "coverage": cov,
            "assumptions": self.assumptions,
            "wall_s": round(time.time() - self.t0, 2),
            "violations": len(vio_lines),
        }
        with open(os.path.join(STATE, "evidence", self.pid + ".json"), "w") as fh:
            json.dump(ev, fh, indent=1, default=str)
        for l in lines:
            print(l)
        for l in vio_lines:
            print(l)
        print("%s %s: theorems %s/%s, %d evaluations (%d distinct), %d known-finding hits, %d violations, %.1fs" % (
            self.pid, self.tier, cov.get("discharged", "-"), cov.get("obligations", "-"), self.evaluations,
            len(self.distinct), sum(self.known_hits.values()), len(vio_lines), time.time() - self.t0))
        sys.exit(1 if vio_lines else 0)

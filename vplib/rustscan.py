"""Small comment/string-aware scanners over Rust source, used by the translators (Tie A).
They fail closed: every function raises ExtractError when the block it targets is not found
or is not consumed completely."""
import os
import re

from .common import REPO


class ExtractError(Exception):
    pass


def read(rel):
    p = os.path.join(REPO, rel)
    try:
        return open(p, encoding="utf-8").read()
    except OSError as e:
        raise ExtractError("cannot read %s: %s" % (rel, e))


def mask(src):
    """Replace comments by spaces and string/char literal *contents* by spaces (same length),
    so that brace matching and regexes see code only.  Returns masked text (same offsets)."""
    out = list(src)
    i, n = 0, len(src)
    while i < n:
        c = src[i]
        if src.startswith("//", i):
            j = src.find("\n", i)
            j = n if j < 0 else j
            for k in range(i, j):
                out[k] = " "
            i = j
        elif src.startswith("/*", i):
            depth, j = 1, i + 2
            while j < n and depth:
                if src.startswith("/*", j):
                    depth += 1; j += 2
                elif src.startswith("*/", j):
                    depth -= 1; j += 2
                else:
                    j += 1
            for k in range(i, j):
                if out[k] != "\n":
                    out[k] = " "
            i = j
        elif c == '"' or (c == "r" and re.match(r'r#*"', src[i:i + 8]) and (i == 0 or not (src[i - 1].isalnum() or src[i - 1] == "_"))):
            if c == "r":
                m = re.match(r'r(#*)"', src[i:])
                hashes = m.group(1)
                start = i + len(m.group(0))
                end = src.find('"' + hashes, start)
                if end < 0:
                    raise ExtractError("unterminated raw string")
                for k in range(start, end):
                    if out[k] != "\n":
                        out[k] = " "
                i = end + 1 + len(hashes)
            else:
                j = i + 1
                while j < n and src[j] != '"':
                    j += 2 if src[j] == "\\" else 1
                for k in range(i + 1, min(j, n)):
                    if out[k] != "\n":
                        out[k] = " "
                i = j + 1
        elif c == "'":
            # char literal or lifetime
            m = re.match(r"'(\\.[^']*|[^'\\])'", src[i:i + 12])
            if m:
                for k in range(i + 1, i + len(m.group(0)) - 1):
                    out[k] = " "
                i += len(m.group(0))
            else:
                i += 1
        else:
            i += 1
    return "".join(out)


def match_brace(masked, open_idx):
    """index of the bracket closing the one at open_idx"""
    pairs = {"{": "}", "(": ")", "[": "]"}
    o = masked[open_idx]
    c = pairs[o]
    depth = 0
    for i in range(open_idx, len(masked)):
        ch = masked[i]
        if ch == o:
            depth += 1
        elif ch == c:
            depth -= 1
            if depth == 0:
                return i
    raise ExtractError("unbalanced %s at %d" % (o, open_idx))


def block_after(src, masked, pattern, which="{"):
    """(start, end) offsets of the body (exclusive of brackets) of the first bracket `which`
    that follows the first regex match of `pattern` in masked source."""
    m = re.search(pattern, masked)
    if not m:
        raise ExtractError("pattern not found: %s" % pattern)
    i = masked.find(which, m.end() - 1 if masked[m.end() - 1] == which else m.end())
    if i < 0:
        raise ExtractError("no %s after %s" % (which, pattern))
    j = match_brace(masked, i)
    return i + 1, j


def split_top(src, masked, start, end, sep=","):
    """split src[start:end] at top-level separators; returns list of (text, masked_text)"""
    parts = []
    depth = 0
    last = start
    i = start
    while i < end:
        ch = masked[i]
        if ch in "{([":
            depth += 1
        elif ch in "})]":
            depth -= 1
        elif ch == sep and depth == 0:
            parts.append((src[last:i], masked[last:i]))
            last = i + 1
        i += 1
    if src[last:end].strip():
        parts.append((src[last:end], masked[last:end]))
    return parts


def match_arms(src, masked, start, end):
    """Arms of a `match` body: list of (pattern_text, body_text).  An arm ends at a top-level
    ',' or at the brace closing a block body.  Fails closed if the number of arms differs from
    the number of top-level `=>`."""
    arms = []
    i = start
    n_arrows = 0
    depth = 0
    for k in range(start, end):
        ch = masked[k]
        if ch in "{([":
            depth += 1
        elif ch in "})]":
            depth -= 1
        elif depth == 0 and masked.startswith("=>", k):
            n_arrows += 1
    while i < end:
        # skip whitespace
        while i < end and masked[i].isspace():
            i += 1
        if i >= end:
            break
        # pattern up to top-level =>
        depth = 0
        k = i
        while k < end:
            ch = masked[k]
            if ch in "{([":
                depth += 1
            elif ch in "})]":
                depth -= 1
            elif depth == 0 and masked.startswith("=>", k):
                break
            k += 1
        if k >= end:
            if src[i:end].strip():
                raise ExtractError("trailing text in match body: %r" % src[i:end][:60])
            break
        pat = src[i:k].strip()
        b = k + 2
        while b < end and masked[b].isspace():
            b += 1
        if b < end and masked[b] == "{":
            e = match_brace(masked, b)
            body = src[b:e + 1]
            i = e + 1
            while i < end and masked[i].isspace():
                i += 1
            if i < end and masked[i] == ",":
                i += 1
        else:
            depth = 0
            e = b
            while e < end:
                ch = masked[e]
                if ch in "{([":
                    depth += 1
                elif ch in "})]":
                    depth -= 1
                elif ch == "," and depth == 0:
                    break
                e += 1
            body = src[b:e].strip()
            i = e + 1
        arms.append((pat, body))
    if len(arms) != n_arrows:
        raise ExtractError("arm count %d != number of top-level => %d" % (len(arms), n_arrows))
    return arms


def enum_variants(rel, name):
    """[(variant, attrs_text)] of `enum name { ... }` (unit variants and variants with payload)"""
    src = read(rel)
    m = mask(src)
    s, e = block_after(src, m, r"\benum\s+%s\b[^{;]*\{" % re.escape(name))
    out = []
    for text, mtext in split_top(src, m, s, e):
        t = mtext.strip()
        if not t:
            continue
        attrs = " ".join(re.findall(r"#\[[^\]]*\]", text))
        t2 = re.sub(r"#\[[^\]]*\]", "", mtext).strip()
        mm = re.match(r"([A-Za-z_][A-Za-z0-9_]*)", t2)
        if not mm:
            raise ExtractError("cannot read variant of %s: %r" % (name, text[:60]))
        out.append((mm.group(1), attrs))
    if not out:
        raise ExtractError("enum %s has no variants" % name)
    return out


def fn_body(rel, pattern):
    src = read(rel)
    m = mask(src)
    s, e = block_after(src, m, pattern)
    return src, m, s, e


def strip_comments(src):
    """remove // and /* */ comments, keeping string literals intact (same line structure not preserved)"""
    out = []
    i, n = 0, len(src)
    while i < n:
        if src.startswith("//", i):
            j = src.find("\n", i)
            i = n if j < 0 else j
        elif src.startswith("/*", i):
            depth, j = 1, i + 2
            while j < n and depth:
                if src.startswith("/*", j):
                    depth += 1; j += 2
                elif src.startswith("*/", j):
                    depth -= 1; j += 2
                else:
                    j += 1
            i = j
            out.append(" ")
        elif src[i] == '"':
            j = i + 1
            while j < n and src[j] != '"':
                j += 2 if src[j] == "\\" else 1
            out.append(src[i:j + 1])
            i = j + 1
        else:
            out.append(src[i])
            i += 1
    return "".join(out)

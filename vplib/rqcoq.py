"""RQ JSON (harness `rq`, i.e. prqlc::json::from_rq) -> normal form -> Coq term of PV.Model.Rq.rq.

The normal form is plain python data (tuples/lists/ints/str) mirroring coq/Model/Rq.v constructor by
constructor; `to_coq` prints it, vplib/props/c16_wf.py evaluates the python mirror of rq_wf on it.
Every unknown node kind, missing field or unexpected JSON shape raises RqConvError (fail loudly): a
change of the RQ definition must be looked at, not silently skipped.

normal form
  rq        = ("Rq", [table...], relation)
  table     = ("Table", tid, name|None, relation)
  relation  = ("Rel", kind, [relcol...])
  kind      = ("KExternRef", [str...]) | ("KExternParam", str) | ("KPipeline", [transform...])
            | ("KLiteral", [str...], nrows) | ("KSString", [expr...]) | ("KBuiltIn", name, [expr...])
  relcol    = ("RSingle", name|None) | ("RWildcard",)
  tableref  = ("TRef", tid, [(relcol, cid)...], name|None)
  transform = ("TFrom", tableref) | ("TCompute", cid, expr, window|None, is_agg) | ("TSelect", [cid])
            | ("TFilter", expr) | ("TAggregate", [cid], [cid]) | ("TSort", [(dir, cid)])
            | ("TTake", (expr|None, expr|None), [cid], [(dir, cid)]) | ("TJoin", side, tableref, expr)
            | ("TAppend", tableref) | ("TLoop", [transform...])
  window    = ("Window", framekind, (expr|None, expr|None), [cid], [(dir, cid)])
  expr      = ("ERef", cid) | ("ELit",) | ("EParam",) | ("ENode", ekind, [expr...])
  ekind     = ("KSStr",) | ("KCase",) | ("KOp", name) | ("KArray",)
"""


class RqConvError(Exception):
    pass


def _bad(what, j):
    raise RqConvError("%s: %r" % (what, str(j)[:200]))


def _one(j, what):
    """externally tagged enum value {Tag: payload} -> (Tag, payload); bare string -> (Tag, None)"""
    if isinstance(j, str):
        return j, None
    if isinstance(j, dict) and len(j) == 1:
        (k, v), = j.items()
        return k, v
    _bad("expected an externally tagged " + what, j)


def _fields(j, req, opt=(), what=""):
    if not isinstance(j, dict):
        _bad("expected object for " + what, j)
    for k in req:
        if k not in j:
            _bad("missing field %s in %s" % (k, what), j)
    for k in j:
        if k not in req and k not in opt:
            _bad("unknown field %s in %s" % (k, what), j)
    return j


def _cid(j):
    if not isinstance(j, int) or isinstance(j, bool) or j < 0:
        _bad("expected an id", j)
    return j


def _name(j):
    if j is None or isinstance(j, str):
        return j
    _bad("expected string or null", j)


def relcol(j):
    tag, v = _one(j, "RelationColumn")
    if tag == "Wildcard" and v is None:
        return ("RWildcard",)
    if tag == "Single":
        return ("RSingle", _name(v))
    _bad("unknown RelationColumn", j)


def expr(j):
    j = _fields(j, ("kind",), ("span",), "Expr")
    tag, v = _one(j["kind"], "ExprKind")
    if tag == "ColumnRef":
        return ("ERef", _cid(v))
    if tag == "Literal":
        return ("ELit",)
    if tag == "Param":
        return ("EParam",)
    if tag == "SString":
        return ("ENode", ("KSStr",), interp(v))
    if tag == "Case":
        out = []
        for c in v:
            c = _fields(c, ("condition", "value"), (), "SwitchCase")
            out.append(expr(c["condition"]))
            out.append(expr(c["value"]))
        return ("ENode", ("KCase",), out)
    if tag == "Operator":
        v = _fields(v, ("name", "args"), (), "Operator")
        return ("ENode", ("KOp", v["name"]), [expr(a) for a in v["args"]])
    if tag == "Array":
        return ("ENode", ("KArray",), [expr(a) for a in v])
    _bad("unknown ExprKind", j["kind"])


def interp(items):
    out = []
    if not isinstance(items, list):
        _bad("expected list of InterpolateItem", items)
    for it in items:
        tag, v = _one(it, "InterpolateItem")
        if tag == "String":
            continue
        if tag == "Expr":
            v = _fields(v, ("expr",), ("format",), "InterpolateItem::Expr")
            out.append(expr(v["expr"]))
        else:
            _bad("unknown InterpolateItem", it)
    return out


def sorts(js):
    out = []
    for s in js:
        s = _fields(s, ("direction", "column"), (), "ColumnSort")
        if s["direction"] not in ("Asc", "Desc"):
            _bad("unknown SortDirection", s)
        out.append((s["direction"], _cid(s["column"])))
    return out


def rng(j):
    j = _fields(j, ("start", "end"), (), "Range")
    return (None if j["start"] is None else expr(j["start"]), None if j["end"] is None else expr(j["end"]))


def tableref(j):
    j = _fields(j, ("source", "columns", "name", "prefer_cte"), (), "TableRef")
    cols = []
    for c in j["columns"]:
        if not isinstance(c, list) or len(c) != 2:
            _bad("TableRef column", c)
        cols.append((relcol(c[0]), _cid(c[1])))
    return ("TRef", _cid(j["source"]), cols, _name(j["name"]))


def window(j):
    j = _fields(j, ("frame", "partition", "sort"), (), "Window")
    f = _fields(j["frame"], ("kind", "range"), (), "WindowFrame")
    if f["kind"] not in ("Rows", "Range"):
        _bad("unknown WindowKind", f)
    return ("Window", f["kind"], rng(f["range"]), [_cid(c) for c in j["partition"]], sorts(j["sort"]))


def transform(j):
    tag, v = _one(j, "Transform")
    if tag == "From":
        return ("TFrom", tableref(v))
    if tag == "Compute":
        v = _fields(v, ("id", "expr"), ("window", "is_aggregation"), "Compute")
        w = v.get("window")
        return ("TCompute", _cid(v["id"]), expr(v["expr"]), None if w is None else window(w), bool(v.get("is_aggregation", False)))
    if tag == "Select":
        return ("TSelect", [_cid(c) for c in v])
    if tag == "Filter":
        return ("TFilter", expr(v))
    if tag == "Aggregate":
        v = _fields(v, ("partition", "compute"), (), "Aggregate")
        return ("TAggregate", [_cid(c) for c in v["partition"]], [_cid(c) for c in v["compute"]])
    if tag == "Sort":
        return ("TSort", sorts(v))
    if tag == "Take":
        v = _fields(v, ("range", "partition", "sort"), (), "Take")
        return ("TTake", rng(v["range"]), [_cid(c) for c in v["partition"]], sorts(v["sort"]))
    if tag == "Join":
        v = _fields(v, ("side", "with", "filter"), (), "Join")
        if v["side"] not in ("Inner", "Left", "Right", "Full"):
            _bad("unknown JoinSide", v["side"])
        return ("TJoin", v["side"], tableref(v["with"]), expr(v["filter"]))
    if tag == "Append":
        return ("TAppend", tableref(v))
    if tag == "Loop":
        return ("TLoop", [transform(t) for t in v])
    _bad("unknown Transform", j)


def relation(j):
    j = _fields(j, ("kind", "columns"), (), "Relation")
    tag, v = _one(j["kind"], "RelationKind")
    cols = [relcol(c) for c in j["columns"]]
    if tag == "ExternRef":
        t2, v2 = _one(v, "TableExternRef")
        if t2 == "LocalTable":
            if not (isinstance(v2, list) and all(isinstance(x, str) for x in v2)):
                _bad("LocalTable ident", v2)
            k = ("KExternRef", list(v2))
        elif t2 == "Param":
            k = ("KExternParam", v2)
        else:
            _bad("unknown TableExternRef", v)
    elif tag == "Pipeline":
        k = ("KPipeline", [transform(t) for t in v])
    elif tag == "Literal":
        v = _fields(v, ("columns", "rows"), (), "RelationLiteral")
        k = ("KLiteral", list(v["columns"]), len(v["rows"]))
    elif tag == "SString":
        k = ("KSString", interp(v))
    elif tag == "BuiltInFunction":
        v = _fields(v, ("name", "args"), (), "BuiltInFunction")
        k = ("KBuiltIn", v["name"], [expr(a) for a in v["args"]])
    else:
        _bad("unknown RelationKind", j["kind"])
    return ("Rel", k, cols)


def norm(j):
    """RQ JSON (python object) -> normal form"""
    j = _fields(j, ("def", "tables", "relation"), (), "RelationalQuery")
    tabs = []
    for t in j["tables"]:
        t = _fields(t, ("id", "name", "relation"), (), "TableDecl")
        tabs.append(("Table", _cid(t["id"]), _name(t["name"]), relation(t["relation"])))
    return ("Rq", tabs, relation(j["relation"]))


# ------------------------------------------------------------------------------------------------ renaming identifiers

def rename_ids(j, fc, ft):
    """RQ JSON -> RQ JSON with every column id c replaced by fc(c) and every table id t by ft(t); everything else (literals,
    spans, names) is copied.  Walks the same structure as norm() and fails as loudly on anything unknown."""
    import copy

    def r_expr(e):
        e = dict(_fields(e, ("kind",), ("span",), "Expr"))
        tag, v = _one(e["kind"], "ExprKind")
        if tag == "ColumnRef":
            e["kind"] = {"ColumnRef": fc(_cid(v))}
        elif tag in ("Literal", "Param"):
            e["kind"] = copy.deepcopy(e["kind"])
        elif tag == "SString":
            e["kind"] = {"SString": r_interp(v)}
        elif tag == "Case":
            e["kind"] = {"Case": [{"condition": r_expr(c["condition"]), "value": r_expr(c["value"])} for c in v]}
        elif tag == "Operator":
            e["kind"] = {"Operator": {"name": v["name"], "args": [r_expr(a) for a in v["args"]]}}
        elif tag == "Array":
            e["kind"] = {"Array": [r_expr(a) for a in v]}
        else:
            _bad("unknown ExprKind", e["kind"])
        return e

    def r_interp(items):
        out = []
        for it in items:
            tag, v = _one(it, "InterpolateItem")
            if tag == "String":
                out.append(copy.deepcopy(it))
            elif tag == "Expr":
                v = dict(_fields(v, ("expr",), ("format",), "InterpolateItem::Expr"))
                v["expr"] = r_expr(v["expr"])
                out.append({"Expr": v})
            else:
                _bad("unknown InterpolateItem", it)
        return out

    def r_sorts(js):
        return [{"direction": s_["direction"], "column": fc(_cid(s_["column"]))} for s_ in js]

    def r_range(r):
        r = _fields(r, ("start", "end"), (), "Range")
        return {"start": None if r["start"] is None else r_expr(r["start"]), "end": None if r["end"] is None else r_expr(r["end"])}

    def r_tref(t):
        t = dict(_fields(t, ("source", "columns", "name", "prefer_cte"), (), "TableRef"))
        t["source"] = ft(_cid(t["source"]))
        t["columns"] = [[copy.deepcopy(c[0]), fc(_cid(c[1]))] for c in t["columns"]]
        return t

    def r_window(w):
        w = _fields(w, ("frame", "partition", "sort"), (), "Window")
        f = _fields(w["frame"], ("kind", "range"), (), "WindowFrame")
        return {"frame": {"kind": f["kind"], "range": r_range(f["range"])}, "partition": [fc(_cid(c)) for c in w["partition"]], "sort": r_sorts(w["sort"])}

    def r_transform(t):
        tag, v = _one(t, "Transform")
        if tag == "From":
            return {"From": r_tref(v)}
        if tag == "Compute":
            v = dict(_fields(v, ("id", "expr"), ("window", "is_aggregation"), "Compute"))
            v["id"] = fc(_cid(v["id"]))
            v["expr"] = r_expr(v["expr"])
            if v.get("window") is not None:
                v["window"] = r_window(v["window"])
            return {"Compute": v}
        if tag == "Select":
            return {"Select": [fc(_cid(c)) for c in v]}
        if tag == "Filter":
            return {"Filter": r_expr(v)}
        if tag == "Aggregate":
            return {"Aggregate": {"partition": [fc(_cid(c)) for c in v["partition"]], "compute": [fc(_cid(c)) for c in v["compute"]]}}
        if tag == "Sort":
            return {"Sort": r_sorts(v)}
        if tag == "Take":
            return {"Take": {"range": r_range(v["range"]), "partition": [fc(_cid(c)) for c in v["partition"]], "sort": r_sorts(v["sort"])}}
        if tag == "Join":
            return {"Join": {"side": v["side"], "with": r_tref(v["with"]), "filter": r_expr(v["filter"])}}
        if tag == "Append":
            return {"Append": r_tref(v)}
        if tag == "Loop":
            return {"Loop": [r_transform(x) for x in v]}
        _bad("unknown Transform", t)

    def r_relation(r):
        r = _fields(r, ("kind", "columns"), (), "Relation")
        tag, v = _one(r["kind"], "RelationKind")
        if tag == "Pipeline":
            k = {"Pipeline": [r_transform(t) for t in v]}
        elif tag == "SString":
            k = {"SString": r_interp(v)}
        elif tag == "BuiltInFunction":
            k = {"BuiltInFunction": {"name": v["name"], "args": [r_expr(a) for a in v["args"]]}}
        elif tag in ("ExternRef", "Literal"):
            k = copy.deepcopy(r["kind"])
        else:
            _bad("unknown RelationKind", r["kind"])
        return {"kind": k, "columns": copy.deepcopy(r["columns"])}

    j = _fields(j, ("def", "tables", "relation"), (), "RelationalQuery")
    return {"def": copy.deepcopy(j["def"]),
            "tables": [{"id": ft(_cid(t["id"])), "name": t["name"], "relation": r_relation(t["relation"])} for t in j["tables"]],
            "relation": r_relation(j["relation"])}


# ------------------------------------------------------------------------------------------------ printing

def _s(s):
    return "[" + ";".join(str(ord(c)) for c in s) + "]"


def _os(s):
    return "None" if s is None else "(Some %s)" % _s(s)


def _l(xs):
    return "[" + "; ".join(xs) + "]"


def _n(n):
    return str(n)


def c_relcol(c):
    return "RWildcard" if c[0] == "RWildcard" else "(RSingle %s)" % _os(c[1])


def c_expr(e):
    if e[0] == "ERef":
        return "(ERef %d)" % e[1]
    if e[0] == "ELit":
        return "ELit"
    if e[0] == "EParam":
        return "EParam"
    k = e[1]
    kc = {"KSStr": "KSStr", "KCase": "KCase", "KArray": "KArray"}.get(k[0]) or "(KOp %s)" % _s(k[1])
    return "(ENode %s %s)" % (kc, _l([c_expr(a) for a in e[2]]))


def c_oexpr(e):
    return "None" if e is None else "(Some %s)" % c_expr(e)


def c_sorts(ss):
    return _l(["(%s, %d)" % (d, c) for d, c in ss])


def c_cids(cs):
    return _l([_n(c) for c in cs])


def c_tref(r):
    return "(mkTRef %d %s %s)" % (r[1], _l(["(%s, %d)" % (c_relcol(rc), c) for rc, c in r[2]]), _os(r[3]))


def c_window(w):
    if w is None:
        return "None"
    return "(Some (mkWindow %s (%s, %s) %s %s))" % ("FRows" if w[1] == "Rows" else "FRange", c_oexpr(w[2][0]), c_oexpr(w[2][1]), c_cids(w[3]), c_sorts(w[4]))


def c_transform(t):
    k = t[0]
    if k == "TFrom":
        return "(TFrom %s)" % c_tref(t[1])
    if k == "TCompute":
        return "(TCompute %d %s %s %s)" % (t[1], c_expr(t[2]), c_window(t[3]), "true" if t[4] else "false")
    if k == "TSelect":
        return "(TSelect %s)" % c_cids(t[1])
    if k == "TFilter":
        return "(TFilter %s)" % c_expr(t[1])
    if k == "TAggregate":
        return "(TAggregate %s %s)" % (c_cids(t[1]), c_cids(t[2]))
    if k == "TSort":
        return "(TSort %s)" % c_sorts(t[1])
    if k == "TTake":
        return "(TTake (%s, %s) %s %s)" % (c_oexpr(t[1][0]), c_oexpr(t[1][1]), c_cids(t[2]), c_sorts(t[3]))
    if k == "TJoin":
        return "(TJoin J%s %s %s)" % (t[1], c_tref(t[2]), c_expr(t[3]))
    if k == "TAppend":
        return "(TAppend %s)" % c_tref(t[1])
    if k == "TLoop":
        return "(TLoop %s)" % _l([c_transform(x) for x in t[1]])
    raise RqConvError("c_transform: %r" % (k,))


def c_relation(r):
    k = r[1]
    if k[0] == "KExternRef":
        kc = "(KExternRef %s)" % _l([_s(x) for x in k[1]])
    elif k[0] == "KExternParam":
        kc = "(KExternParam %s)" % _s(k[1])
    elif k[0] == "KPipeline":
        kc = "(KPipeline %s)" % _l([c_transform(t) for t in k[1]])
    elif k[0] == "KLiteral":
        kc = "(KLiteral %s %d)" % (_l([_s(x) for x in k[1]]), k[2])
    elif k[0] == "KSString":
        kc = "(KSString %s)" % _l([c_expr(e) for e in k[1]])
    elif k[0] == "KBuiltIn":
        kc = "(KBuiltIn %s %s)" % (_s(k[1]), _l([c_expr(e) for e in k[2]]))
    else:
        raise RqConvError("c_relation: %r" % (k[0],))
    return "(mkRel %s %s)" % (kc, _l([c_relcol(c) for c in r[2]]))


def to_coq(q):
    tabs = _l(["(mkTable %d %s %s)" % (t[1], _os(t[2]), c_relation(t[3])) for t in q[1]])
    return "(mkRq %s %s)" % (tabs, c_relation(q[2]))


COQ_HEADER = ("From Coq Require Import List NArith Bool.\nFrom PV Require Import Lib.ListX Model.Rq Model.RqWf.\n"
              "Import ListNotations.\nLocal Open Scope N_scope.\n")

(* C17 -- tokens tile the source and re-lex to themselves.
   Only statements here; proofs are in Proofs/LexProofs.v, Proofs/LexTile.v, Proofs/LexTrunc.v, Proofs/LexHeads.v, Proofs/LexRelex.v.
   The model is Model/Lexer.v; its tables are Gen/GenLexTables.v, regenerated from
   /repo/prqlc/prqlc-parser/src/lexer/mod.rs on every run and packed by Model/LexerGen.v.
   All theorems are for ALL strings (lists of code points) and for ALL character-class functions
   is_alpha / is_alnum (Rust's char::is_alphabetic / is_alphanumeric), except where [class_ok] is assumed. *)
From Coq Require Import List NArith Bool.
From PV Require Import Lib.ListX Model.Lexer Model.LexerGen Model.LexerExec Proofs.LexProofs Proofs.LexTile
  Proofs.LexRelexDefs Proofs.LexRelex Proofs.LexExecOk Model.LexerInterp Proofs.LexInterp Proofs.LexForward.
Import ListNotations.
Local Open Scope N_scope.

Notation T := LexerGen.gen_tables.

(* table obligation on what the source says now: keywords, operator texts, true/false/null are non-empty
   (otherwise a token could be empty and lexing would not terminate) *)
Theorem c17_tables_wf : tables_wf T = true.
Proof. vm_compute. reflexivity. Qed.
Print Assumptions c17_tables_wf.

(* Termination: the lexer loop is run with fuel = length + 1; this is always enough -- any larger fuel gives the
   same answer, because every token consumes at least one character. *)
Theorem c17_lex_terminates : forall ia ian s f pos, (List.length s < f)%nat ->
  lex_loop ia ian T f pos s = lex_loop ia ian T (S (List.length s)) pos s.
Proof. exact (fun ia ian => lex_terminates ia ian T c17_tables_wf). Qed.
Print Assumptions c17_lex_terminates.

(* Accepted input: the first token is the synthetic Start token 0..0. *)
Theorem c17_first_is_start : forall ia ian s ts, lex ia ian T s = Some ts -> exists ts', ts = start_token :: ts'.
Proof. exact (fun ia ian => first_is_start ia ian T c17_tables_wf). Qed.
Print Assumptions c17_first_is_start.

(* Spans lie within the source: start <= end <= byte length. *)
Theorem c17_spans_in_bounds : forall ia ian s ts t, lex ia ian T s = Some ts -> In t ts ->
  tstart t <= tend t /\ tend t <= blen s.
Proof. exact (fun ia ian => spans_in_bounds ia ian T c17_tables_wf). Qed.
Print Assumptions c17_spans_in_bounds.

(* Every token other than Start covers at least one byte. *)
Theorem c17_tokens_nonempty : forall ia ian s ts' t, lex ia ian T s = Some (start_token :: ts') -> In t ts' ->
  tstart t < tend t.
Proof. exact (fun ia ian => tokens_nonempty ia ian T c17_tables_wf). Qed.
Print Assumptions c17_tokens_nonempty.

(* Spans start and end on code-point boundaries (the byte offset of a prefix of the source). *)
Theorem c17_spans_on_boundaries : forall ia ian s ts t, lex ia ian T s = Some ts -> In t ts ->
  boundary s (tstart t) /\ boundary s (tend t).
Proof. exact (fun ia ian => spans_on_boundaries ia ian T c17_tables_wf). Qed.
Print Assumptions c17_spans_on_boundaries.

(* Ordered and non-overlapping: a token ends before any later token starts. *)
Theorem c17_spans_ordered_disjoint : forall ia ian s l1 t1 l2 t2 l3,
  lex ia ian T s = Some (l1 ++ t1 :: l2 ++ t2 :: l3) -> tend t1 <= tstart t2.
Proof. exact (fun ia ian => spans_ordered_disjoint ia ian T c17_tables_wf). Qed.
Print Assumptions c17_spans_ordered_disjoint.

(* The text between two consecutive tokens (Start included, so also the text before the first token)
   is spaces and tabs only. *)
Theorem c17_gaps_are_inline_whitespace : forall ia ian s l1 t1 t2 l2,
  lex ia ian T s = Some (l1 ++ t1 :: t2 :: l2) -> forallb is_iws (bslice s (tend t1) (tstart t2)) = true.
Proof. exact (fun ia ian => gaps_inline_ws ia ian T c17_tables_wf). Qed.
Print Assumptions c17_gaps_are_inline_whitespace.

(* ... and so is the text after the last token. *)
Theorem c17_tail_is_inline_whitespace : forall ia ian s l1 t,
  lex ia ian T s = Some (l1 ++ [t]) -> forallb is_iws (bslice s (tend t) (blen s)) = true.
Proof. exact (fun ia ian => tail_gap_inline_ws ia ian T c17_tables_wf). Qed.
Print Assumptions c17_tail_is_inline_whitespace.

(* Rejected input yields no tokens: the result is either None (= Err(errors); that the implementation reports
   at least one error is checked on the implementation) or a token list; there is no partial list. *)
Theorem c17_reject_no_tokens : forall ia ian s, lex ia ian T s = None -> forall ts, lex ia ian T s <> Some ts.
Proof. exact (fun ia ian => reject_no_tokens ia ian T). Qed.
Print Assumptions c17_reject_no_tokens.

(* An accepted source contains no number literal whose value is not a finite 64-bit float (such a source is rejected as a
   whole, so it has no tokens): [float_nonfinite] decides, on the literal's decimal text, whether str::parse::<f64> gives infinity. *)
Theorem c17_accepted_literals_finite : forall ia ian s ts t, lex ia ian T s = Some ts -> In t ts -> tok_finite t = true.
Proof. exact (fun ia ian => lex_tokens_finite ia ian T). Qed.
Print Assumptions c17_accepted_literals_finite.
Example c17_nonfinite_rejected : lex alpha_exec alnum_exec T [120; 32; 61; 32; 49; 101; 52; 48; 48] (* x = 1e400 *) = None.
Proof. vm_compute. reflexivity. Qed.

(* ---------------------------------------------------------------------------------------------------------------
   Re-lexing.  FULL STATEMENT (false of the faithful model -- finding F12):

     forall ia ian, class_ok ia ian -> forall s ts' t,
       lex ia ian T s = Some (start_token :: ts') -> In t ts' ->
       lex ia ian T (bslice s (tstart t) (tend t))
         = Some [start_token; {| tkind := tkind t; tstart := 0; tend := tend t - tstart t |}]

   i.e. the source slice of every token, lexed on its own, is accepted and yields exactly Start plus that same
   token (same kind and payload, span shifted to 0).  It fails for an identifier spelled like a keyword or like
   true / false / null that is followed by a non-terminator: `case(` lexes as Ident "case", Control '(' but the
   slice `case` alone lexes as Keyword "case".  Below: the refutation (by computation, with the executable
   character classes, which satisfy class_ok) and the theorem for every token outside that class. *)

(* table obligation for the re-lex theorem (order of the alternatives of token()/literal(), keywords/words/units
   are lower-case words, operators are two punctuation characters and pairwise distinct, control and end_expr
   characters are ASCII punctuation, no keyword starts with true/false/null, 0b/0x/0o shape, digit counts) *)
Theorem c17_relex_tables_ok : relex_tables_ok T = true.
Proof. vm_compute. reflexivity. Qed.
Print Assumptions c17_relex_tables_ok.

Theorem c17_relex_refuted : exists s ts' t,
  lex alpha_exec alnum_exec T s = Some (start_token :: ts') /\ In t ts' /\
  lex alpha_exec alnum_exec T (bslice s (tstart t) (tend t))
    <> Some [start_token; {| tkind := tkind t; tstart := 0; tend := tend t - tstart t |}].
Proof.
  exists [99; 97; 115; 101; 40] (* case( *),
         [{| tkind := KIdent [99; 97; 115; 101]; tstart := 0; tend := 4 |}; {| tkind := KControl 40; tstart := 4; tend := 5 |}],
         {| tkind := KIdent [99; 97; 115; 101]; tstart := 0; tend := 4 |}.
  split; [vm_compute; reflexivity|]. split; [left; reflexivity|]. vm_compute. discriminate.
Qed.
Print Assumptions c17_relex_refuted.

(* Every token that is NOT (an identifier whose own text is a keyword or true/false/null) re-lexes to itself:
   its slice alone is accepted and gives Start plus the same kind and payload with the span moved to 0.
   This covers every token kind (ranges with their whitespace, line wraps with their comments, strings with
   escapes, numbers, dates, ...), for all strings and all character classes satisfying class_ok. *)
Theorem c17_relex_partial : forall ia ian, class_ok ia ian -> forall s ts' t,
  lex ia ian T s = Some (start_token :: ts') -> In t ts' -> ~ KeywordLikeIdent T s t ->
  lex ia ian T (bslice s (tstart t) (tend t))
    = Some [start_token; {| tkind := tkind t; tstart := 0; tend := tend t - tstart t |}].
Proof. exact (fun ia ian CK => relex_partial ia ian T c17_tables_wf CK c17_relex_tables_ok). Qed.
Print Assumptions c17_relex_partial.

(* the hypothesis of c17_relex_partial is satisfiable: the executable classes used in the correspondence run *)
Example c17_class_ok_exec : class_ok alpha_exec alnum_exec.
Proof. exact class_ok_exec. Qed.
(* the known class is narrow: it only contains Ident tokens whose text is one of the 13 reserved words *)
Example c17_known_is_ident : forall s t, KeywordLikeIdent T s t -> exists w, tkind t = KIdent w /\ (In w (t_keywords T) \/ In w (words T)).
Proof. exact (known_is_ident T). Qed.

(* ---------------------------------------------------------------------------------------------------------------
   The INNER structure of s-/f-strings: interpolation::parse (Model/LexerInterp.v) cuts the content of an Interpolation
   token into String and Expr items.  The same clauses as for tokens, at FULL strength, for all contents and ALL
   character-class functions (no table and no class hypothesis is needed: the inner lexer has no keywords). *)

(* fuel length + 1 is always enough *)
Theorem c17_interp_terminates : forall ia ian s f pos, (List.length s < f)%nat ->
  interp_loop ia ian f pos s = interp_loop ia ian (S (List.length s)) pos s.
Proof. exact interp_terminates. Qed.
Print Assumptions c17_interp_terminates.

(* every item covers at least one byte and lies within the content *)
Theorem c17_interp_items_in_bounds : forall ia ian s its t, interp_lex ia ian s = Some its -> In t its ->
  istart t < iend t /\ iend t <= blen s.
Proof. exact interp_items_in_bounds. Qed.
Print Assumptions c17_interp_items_in_bounds.

(* the items partition the content: the first starts at 0, each one starts where the previous one ends (no gap at all, no
   overlap), the last one ends at the end; an accepted content with no item is empty *)
Theorem c17_interp_items_tile : forall ia ian s its, interp_lex ia ian s = Some its ->
  (forall t ts, its = t :: ts -> istart t = 0) /\
  (forall l1 t1 t2 l2, its = l1 ++ t1 :: t2 :: l2 -> iend t1 = istart t2) /\
  (forall l t, its = l ++ [t] -> iend t = blen s) /\
  (its = [] -> s = []).
Proof. exact interp_items_tile. Qed.
Print Assumptions c17_interp_items_tile.

(* the span reported for the identifier path of an Expr item lies strictly inside the item's braces *)
Theorem c17_interp_path_inside_braces : forall ia ian s its t p a b f, interp_lex ia ian s = Some its -> In t its ->
  ikind t = IExpr p a b f -> a = istart t + 1 /\ a < b /\ b < iend t.
Proof. exact interp_path_inside. Qed.
Print Assumptions c17_interp_path_inside_braces.

(* RE-LEXING, full strength: the slice of every item, parsed on its own, is accepted and yields exactly that item (same
   kind, same text / path / format, spans moved to 0) *)
Theorem c17_interp_relex : forall ia ian s its t, interp_lex ia ian s = Some its -> In t its ->
  interp_lex ia ian (bslice s (istart t) (iend t))
    = Some [{| ikind := shift_item (istart t) (ikind t); istart := 0; iend := iend t - istart t |}].
Proof. exact interp_relex. Qed.
Print Assumptions c17_interp_relex.

(* rejected content yields no items at all *)
Theorem c17_interp_reject_no_items : forall ia ian s, interp_lex ia ian s = None -> forall its, interp_lex ia ian s <> Some its.
Proof. intros ia ian s H its E. rewrite H in E. discriminate. Qed.
Print Assumptions c17_interp_reject_no_items.

(* non-vacuity: the content of f"a{b.c:>5}d{{e}}" *)
Example c17_interp_example :
  interp_lex alpha_exec alnum_exec [97;123;98;46;99;58;62;53;125;100;123;123;101;125;125]
  = Some [ {| ikind := IString [97]; istart := 0; iend := 1 |};
           {| ikind := IExpr [[98]; [99]] 2 5 (Some [62; 53]); istart := 1; iend := 9 |};
           {| ikind := IString [100; 123; 101; 125]; istart := 9; iend := 15 |} ].
Proof. vm_compute. reflexivity. Qed.

(* ---------------------------------------------------------------------------------------------------------------
   FORWARD lexing (Proofs/LexForward.v): "this text lexes to this token", the direction a printer needs.
   [lexes_as ia ian T x k]: the text x is non-empty, does not start with a space or tab, and for EVERY continuation [rest] that is
   empty or starts with a space, `x ++ rest` does not start a range and token() returns (k, rest).
   [join_sp xs] writes the texts with ONE space between consecutive ones; [spans_from 0 xs ks] are the tokens of kinds ks with the
   byte spans of the texts in that rendering. *)

(* table obligation for the forward lemmas: a space ends an expression; no operator contains a space, starts with white space or
   with '.'; no control character is white space; among keywords and true / false / null none is a proper prefix of another *)
Theorem c17_forward_tables_ok : forward_tables_ok T = true.
Proof. vm_compute. reflexivity. Qed.
Print Assumptions c17_forward_tables_ok.

(* composition, full strength: token texts that each lex as their kind, rendered with single spaces, lex back to exactly that
   token list (kinds, payloads and spans), provided no kind is a non-finite number literal *)
Theorem c17_render_lex_roundtrip : forall ia ian xs ks,
  Forall2 (lexes_as ia ian T) xs ks -> forallb kind_finite ks = true ->
  lex ia ian T (join_sp xs) = Some (start_token :: spans_from 0 xs ks).
Proof. exact (fun ia ian => render_lex ia ian T c17_tables_wf). Qed.
Print Assumptions c17_render_lex_roundtrip.

(* the token classes a printer emits, each with its precise side condition ([class_ok] only where the class functions matter:
   identifiers and parameters) *)
Theorem c17_ident_lexes : forall ia ian, class_ok ia ian -> forall w,
  plain_ident ia ian w -> ~ kwlike T w -> lexes_as ia ian T w (KIdent w).
Proof. exact (fun ia ian CK => ident_lexes ia ian T CK c17_relex_tables_ok). Qed.
Print Assumptions c17_ident_lexes.

Theorem c17_keyword_lexes : forall ia ian k, In k (t_keywords T) -> lexes_as ia ian T k (KKeyword k).
Proof. exact (fun ia ian => keyword_lexes ia ian T c17_relex_tables_ok c17_forward_tables_ok). Qed.
Print Assumptions c17_keyword_lexes.

Theorem c17_word_lexes : forall ia ian w, In w (words T) -> lexes_as ia ian T w (KLiteral (word_lit T w)).
Proof. exact (fun ia ian => word_lexes ia ian T c17_relex_tables_ok c17_forward_tables_ok). Qed.
Print Assumptions c17_word_lexes.

(* digit text without a leading zero whose value fits an i64 *)
Theorem c17_int_lexes : forall ia ian ds, int_text ds -> lexes_as ia ian T ds (KLiteral (LInt (dec_val ds))).
Proof. exact (fun ia ian => int_lexes ia ian T c17_relex_tables_ok). Qed.
Print Assumptions c17_int_lexes.

Theorem c17_control_lexes : forall ia ian (c : N), c_in c (t_controls T) = true -> lexes_as ia ian T [c] (KControl c).
Proof. exact (fun ia ian => control_lexes ia ian T c17_relex_tables_ok c17_forward_tables_ok). Qed.
Print Assumptions c17_control_lexes.

Theorem c17_op_lexes : forall ia ian (a b : N) name ne,
  In ([a; b], (name, ne)) (t_ops T) -> lexes_as ia ian T [a; b] (KOp name).
Proof. exact (fun ia ian => op_lexes ia ian T c17_relex_tables_ok c17_forward_tables_ok). Qed.
Print Assumptions c17_op_lexes.

(* a double-quoted string whose content has no double quote and no backslash (any other character, newlines included) *)
Theorem c17_string_lexes : forall ia ian body, plain_body body ->
  lexes_as ia ian T (34 :: body ++ [34]) (KLiteral (LString body)).
Proof. exact (fun ia ian => string_lexes ia ian T c17_relex_tables_ok). Qed.
Print Assumptions c17_string_lexes.

Theorem c17_param_lexes : forall ia ian, class_ok ia ian -> forall s : list N, forallb (is_param_char ian) s = true ->
  lexes_as ia ian T (36 :: s) (KParam s).
Proof. exact (fun ia ian CK => param_lexes ia ian T CK c17_relex_tables_ok). Qed.
Print Assumptions c17_param_lexes.

(* the kinds whose text is a function of the kind: rendering and lexing is the identity on token lists *)
Theorem c17_render_kinds_roundtrip : forall ia ian, class_ok ia ian -> forall ks, Forall (renderable ia ian T) ks ->
  exists xs, Forall2 (fun k x => kind_text T k = Some x) ks xs /\
    lex ia ian T (join_sp xs) = Some (start_token :: spans_from 0 xs ks) /\ map tkind (spans_from 0 xs ks) = ks.
Proof. exact (fun ia ian CK => render_kinds ia ian T c17_tables_wf CK c17_relex_tables_ok c17_forward_tables_ok). Qed.
Print Assumptions c17_render_kinds_roundtrip.

(* non-vacuity: `let x = 42 == "s"` *)
Example c17_forward_example :
  lex alpha_exec alnum_exec T (join_sp [[108;101;116]; [120]; [61]; [52;50]; [61;61]; [34;115;34]])
  = Some (start_token :: spans_from 0 [[108;101;116]; [120]; [61]; [52;50]; [61;61]; [34;115;34]]
            [KKeyword [108;101;116]; KIdent [120]; KControl 61; KLiteral (LInt 42); KOp [69;113]; KLiteral (LString [115])]).
Proof. vm_compute. reflexivity. Qed.


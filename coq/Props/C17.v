(* C17 -- tokens tile the source and re-lex to themselves.
   Only statements here; proofs are in Proofs/LexProofs.v, Proofs/LexTile.v, Proofs/LexRelex.v.
   The model is Model/Lexer.v; its tables are Gen/GenLexTables.v, regenerated from
   /repo/prqlc/prqlc-parser/src/lexer/mod.rs on every run and packed by Model/LexerGen.v.
   All theorems are for ALL strings (lists of code points) and for ALL character-class functions
   is_alpha / is_alnum (Rust's char::is_alphabetic / is_alphanumeric), except where [class_ok] is assumed. *)
From Coq Require Import List NArith Bool.
From PV Require Import Lib.ListX Model.Lexer Model.LexerGen Model.LexerExec Proofs.LexProofs Proofs.LexTile.
Import ListNotations.
Local Open Scope N_scope.

Notation T := LexerGen.gen_tables.

(* table obligation on what the source says now: keywords, operator texts, true/false/null are non-empty
   (otherwise a token could be empty and lexing would not terminate) *)
Theorem c17_tables_wf : tables_wf T = true.
Proof. vm_compute. reflexivity. Qed.
Print Assumptions c17_tables_wf.

(* Termination: the lexer loop is run with fuel = length + 1; this is always enough -- any larger fuel gives the
   same answer, because every token consumes at least one character. *)
Theorem c17_lex_terminates : forall ia ian s f pos, (List.length s < f)%nat ->
  lex_loop ia ian T f pos s = lex_loop ia ian T (S (List.length s)) pos s.
Proof. intros. apply (lex_loop_fuel_ge ia ian T c17_tables_wf); auto. Qed.
Print Assumptions c17_lex_terminates.

(* Accepted input: the first token is the synthetic Start token 0..0. *)
Theorem c17_first_is_start : forall ia ian s ts, lex ia ian T s = Some ts -> exists ts', ts = start_token :: ts'.
Proof. exact (fun ia ian => first_is_start ia ian T c17_tables_wf). Qed.
Print Assumptions c17_first_is_start.

(* Spans lie within the source: start <= end <= byte length. *)
Theorem c17_spans_in_bounds : forall ia ian s ts t, lex ia ian T s = Some ts -> In t ts ->
  tstart t <= tend t /\ tend t <= blen s.
Proof. exact (fun ia ian => spans_in_bounds ia ian T c17_tables_wf). Qed.
Print Assumptions c17_spans_in_bounds.

(* Every token other than Start covers at least one byte. *)
Theorem c17_tokens_nonempty : forall ia ian s ts' t, lex ia ian T s = Some (start_token :: ts') -> In t ts' ->
  tstart t < tend t.
Proof. exact (fun ia ian => tokens_nonempty ia ian T c17_tables_wf). Qed.
Print Assumptions c17_tokens_nonempty.

(* Spans start and end on code-point boundaries (the byte offset of a prefix of the source). *)
Theorem c17_spans_on_boundaries : forall ia ian s ts t, lex ia ian T s = Some ts -> In t ts ->
  boundary s (tstart t) /\ boundary s (tend t).
Proof. exact (fun ia ian => spans_on_boundaries ia ian T c17_tables_wf). Qed.
Print Assumptions c17_spans_on_boundaries.

(* Ordered and non-overlapping: a token ends before any later token starts. *)
Theorem c17_spans_ordered_disjoint : forall ia ian s l1 t1 l2 t2 l3,
  lex ia ian T s = Some (l1 ++ t1 :: l2 ++ t2 :: l3) -> tend t1 <= tstart t2.
Proof. exact (fun ia ian => spans_ordered_disjoint ia ian T c17_tables_wf). Qed.
Print Assumptions c17_spans_ordered_disjoint.

(* The text between two consecutive tokens (Start included, so also the text before the first token)
   is spaces and tabs only. *)
Theorem c17_gaps_are_inline_whitespace : forall ia ian s l1 t1 t2 l2,
  lex ia ian T s = Some (l1 ++ t1 :: t2 :: l2) -> forallb is_iws (bslice s (tend t1) (tstart t2)) = true.
Proof. exact (fun ia ian => gaps_inline_ws ia ian T c17_tables_wf). Qed.
Print Assumptions c17_gaps_are_inline_whitespace.

(* ... and so is the text after the last token. *)
Theorem c17_tail_is_inline_whitespace : forall ia ian s l1 t,
  lex ia ian T s = Some (l1 ++ [t]) -> forallb is_iws (bslice s (tend t) (blen s)) = true.
Proof. exact (fun ia ian => tail_gap_inline_ws ia ian T c17_tables_wf). Qed.
Print Assumptions c17_tail_is_inline_whitespace.

(* Rejected input yields no tokens: the result is either None (= Err(errors); that the implementation reports
   at least one error is checked on the implementation) or a token list; there is no partial list. *)
Theorem c17_reject_no_tokens : forall ia ian s, lex ia ian T s = None -> forall ts, lex ia ian T s <> Some ts.
Proof. intros ia ian s H ts E. rewrite H in E. discriminate. Qed.
Print Assumptions c17_reject_no_tokens.

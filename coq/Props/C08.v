(* C08 -- literal values reach the database unchanged and cannot alter the statement.
   Only statements here; proofs are in Proofs/EscapeProofs.v and Proofs/LiteralProofs.v.
   Models: Model/Escape.v (sqlparser's EscapeQuotedString, the code prqlc delegates quoting to),
   Model/SqlLex.v (the reading side: a SQL lexer, standard and backslash-escape families),
   Model/Literal.v (PRQL literal spellings -> values -> SQL text).
   Tables: Gen/GenLiteral.v, regenerated from /repo on every run (vplib/props/c08_gen.py). *)
From Coq Require Import List NArith ZArith Bool.
From PV Require Import Lib.ListX Model.Escape Model.SqlLex Model.Literal
                       Proofs.EscapeProofs Proofs.LiteralProofs Gen.GenLiteral.
Import ListNotations.
Local Open Scope N_scope.

Notation tbl := GenLiteral.escape_table.
Notation rows := GenLiteral.based_rows.

(* ---------------------------------------------------------------- table obligations (what the source says now) *)

(* backslash-backslash denotes a backslash and the double quote is not remapped: needed for "every value has a spelling" *)
Theorem c08_escape_table_ok : table_ok tbl = true.
Proof. vm_compute. reflexivity. Qed.
Print Assumptions c08_escape_table_ok.

(* the lexer's escape table is the documented one (book: reference/syntax/strings.md; plus JSON's \/ ) *)
Theorem c08_escape_table_documented : table_agrees GenLiteral.documented_escapes tbl = true.
Proof. vm_compute. reflexivity. Qed.
Print Assumptions c08_escape_table_documented.

(* 0b / 0x / 0o digit caps keep every value inside i64 *)
Theorem c08_based_rows_fit : forallb row_fits rows = true.
Proof. vm_compute. reflexivity. Qed.
Print Assumptions c08_based_rows_fit.

(* the Display code modelled by Model/Escape.v is that of the pinned sqlparser *)
Theorem c08_sqlparser_pinned : GenLiteral.sqlparser_version = (0, 60, 0).
Proof. vm_compute. reflexivity. Qed.
Print Assumptions c08_sqlparser_pinned.

(* ---------------------------------------------------------------- strings *)

(* What prqlc emits for a string literal NOW (fix e3af91e) is emit_literal_string s = sqlparser's Display of the value
   with every quote doubled.  On the standard family the statement holds at FULL strength:
   the emitted text is one string token whose value is s -- value preservation and non-interference in one equation. *)
Theorem string_roundtrip : forall s, sql_lex std_sql (emit_literal_string s) = [TString s].
Proof. exact literal_string_roundtrip_std. Qed.
Print Assumptions string_roundtrip.

(* no literal content changes the structure of the surrounding statement: in ANY context that ends between two
   tokens, followed by anything that does not start with a quote, the token sequence is the context's with exactly
   one string token inserted -- for ALL strings *)
Theorem literal_no_structure_change : forall s pre suf,
  closed_prefix std_sql pre = true -> starts_with 39 suf = false ->
  sql_lex std_sql (pre ++ emit_literal_string s ++ suf) = sql_lex std_sql pre ++ TString s :: sql_lex std_sql suf.
Proof. exact literal_string_in_context_std. Qed.
Print Assumptions literal_no_structure_change.

(* ALL dialects.  FULL STATEMENT (still false, finding F6b, open):
     forall d s, sql_lex d (emit_literal_string s) = [TString s].
   Backslash family (MySQL, BigQuery, ClickHouse, Snowflake, Redshift): backslashes are emitted verbatim:
   a\nb (backslash, n) is read back as a, LF, b; a trailing backslash swallows the closing quote *)
Theorem string_roundtrip_backslash_refuted :
  exists s, sql_lex bs_sql (emit_literal_string s) <> [TString s].
Proof. exists [97; 92; 110; 98]. vm_compute. discriminate. Qed.
Print Assumptions string_roundtrip_backslash_refuted.

Theorem string_unterminated_backslash_refuted :
  exists s, sql_lex bs_sql (emit_literal_string s) = [TUnterminated].
Proof. exists [97; 92]. vm_compute. reflexivity. Qed.
Print Assumptions string_unterminated_backslash_refuted.

(* PARTIAL for all dialects: every string without a backslash (any string at all when the dialect has no backslash escapes) *)
Theorem string_roundtrip_partial : forall d s,
  bs_free d s = true -> sql_lex d (emit_literal_string s) = [TString s].
Proof. exact literal_string_roundtrip. Qed.
Print Assumptions string_roundtrip_partial.

Theorem literal_no_structure_change_partial : forall d s pre suf,
  bs_free d s = true -> closed_prefix d pre = true -> starts_with 39 suf = false ->
  sql_lex d (pre ++ emit_literal_string s ++ suf) = sql_lex d pre ++ TString s :: sql_lex d suf.
Proof. exact literal_string_in_context. Qed.
Print Assumptions literal_no_structure_change_partial.

(* ---- facts about the DEPENDENCY (sqlparser's EscapeQuotedString alone, Model/Escape.v emit_string), which is why
   prqlc has to double the quotes itself; they are what finding F6 (fixed) consisted of and what would come back if
   the pre-doubling were removed *)
Theorem sqlparser_display_refuted :
  exists s, sql_lex std_sql (emit_string s) <> [TString s].
Proof. exists [97; 39; 39; 98]. vm_compute. discriminate. Qed.
Print Assumptions sqlparser_display_refuted.

Theorem sqlparser_display_injection_refuted :
  exists s, sql_lex std_sql (emit_string s) =
            [TString [92]; TWord [79; 82]; TNumber [49]; TPunct 61; TNumber [49]].
Proof. exists [92; 39; 32; 79; 82; 32; 49; 61; 49; 32; 45; 45]. vm_compute. reflexivity. Qed.
Print Assumptions sqlparser_display_injection_refuted.

(* sqlparser doubles every quote exactly when the value contains neither two adjacent quotes nor backslash-quote *)
Theorem sqlparser_display_is_doubling : forall s,
  esc_known QUOTE s = false -> emit_string s = QUOTE :: dbl QUOTE s ++ [QUOTE].
Proof. exact emit_string_not_known. Qed.
Print Assumptions sqlparser_display_is_doubling.

(* ... and text whose quotes are already doubled passes through it unchanged, whatever precedes: why the repair works *)
Theorem predoubled_passes_sqlparser : forall q s prev, esc q prev (dbl q s) = dbl q s.
Proof. exact esc_dbl. Qed.
Print Assumptions predoubled_passes_sqlparser.

Theorem emit_literal_string_is_doubling : forall s, emit_literal_string s = QUOTE :: dbl QUOTE s ++ [QUOTE].
Proof. exact emit_literal_string_eq. Qed.
Print Assumptions emit_literal_string_is_doubling.

(* every string value has a PRQL spelling that denotes it, and the SQL emitted for it is read back as the same value *)
Theorem string_literal_end_to_end : forall d v, bs_free d v = true ->
  exists src, quoted_string tbl true src = Some (v, []) /\
              emit_literal false (LString v) = Some (emit_literal_string v) /\
              sql_lex d (emit_literal_string v) = [TString v].
Proof. exact (fun d v => LiteralProofs.string_literal_end_to_end tbl d v c08_escape_table_ok). Qed.
Print Assumptions string_literal_end_to_end.

Theorem prql_string_expressible : forall v rest, starts_with 34 rest = false ->
  quoted_string tbl true (34 :: spell v ++ 34 :: rest) = Some (v, rest).
Proof. exact (fun v rest => spell_roundtrip tbl v rest c08_escape_table_ok). Qed.
Print Assumptions prql_string_expressible.

Theorem raw_string_value : forall v rest, forallb raw_char_ok v = true ->
  raw_string (114 :: 34 :: v ++ 34 :: rest) = Some (v, rest).
Proof. exact raw_roundtrip. Qed.
Print Assumptions raw_string_value.

(* f-string text: braces are written doubled; the text piece has exactly that value (and is then
   emitted through emit_literal_string like any string literal) *)
Theorem fstring_text_value : forall t, t <> [] -> fstring_pieces (brace_escape t) = Some [PText t].
Proof. exact fstring_text. Qed.
Print Assumptions fstring_text_value.

(* ---------------------------------------------------------------- numbers, booleans, dates *)

(* every integer (all of Z, so all of i64) is emitted as text that reads back as that integer *)
Theorem int_roundtrip : forall d z, int_of_tokens (sql_lex d (emit_int z)) = Some z.
Proof. exact LiteralProofs.int_roundtrip. Qed.
Print Assumptions int_roundtrip.

Theorem int_no_structure_change : forall d n pre suf,
  closed_prefix d pre = true -> num_boundary suf = true ->
  sql_lex d (pre ++ digits_of n ++ suf) = sql_lex d pre ++ TNumber (digits_of n) :: sql_lex d suf.
Proof. exact int_in_context. Qed.
Print Assumptions int_no_structure_change.

Theorem int_literal_end_to_end : forall d n, n <= I64_MAX ->
  lex_number (digits_of n) = Some (NInt n, []) /\
  emit_literal false (LInt n) = Some (emit_int (Z.of_N n)) /\
  int_of_tokens (sql_lex d (emit_int (Z.of_N n))) = Some (Z.of_N n).
Proof. exact LiteralProofs.int_literal_end_to_end. Qed.
Print Assumptions int_literal_end_to_end.

Theorem number_spelling_value : forall n rest, n <= I64_MAX -> prql_num_boundary rest = true ->
  lex_number (digits_of n ++ rest) = Some (NInt n, rest).
Proof. exact lex_number_int. Qed.
Print Assumptions number_spelling_value.

Theorem number_underscore_value : forall c a b rest,
  is_digit c = true -> c <> 48 -> forallb is_digit_us a = true -> forallb is_digit_us b = true ->
  match rest with x :: _ => is_digit_us x = false | [] => True end ->
  lex_number ((c :: a ++ 95 :: b) ++ rest) = lex_number ((c :: a ++ b) ++ rest).
Proof. exact lex_number_underscore. Qed.
Print Assumptions number_underscore_value.

Theorem based_number_value : forall row s, In row rows -> based_number row s = based_number_raw row s.
Proof. exact (based_rows_no_overflow rows c08_based_rows_fit). Qed.
Print Assumptions based_number_value.

Theorem bool_roundtrip : forall d b, sql_lex d (emit_bool b) = [TWord (emit_bool b)].
Proof. exact LiteralProofs.bool_roundtrip. Qed.
Print Assumptions bool_roundtrip.

Theorem date_literal_preserved : forall d s v r, date_inner s = Some (v, r) ->
  sql_lex d (emit_string v) = [TString v].
Proof. exact LiteralProofs.date_literal_preserved. Qed.
Print Assumptions date_literal_preserved.

(* ---------------------------------------------------------------- non-vacuity *)
Example c08_ex_injection : sql_lex std_sql (emit_literal_string [92; 39; 32; 79; 82; 32; 49; 61; 49; 32; 45; 45]) = [TString [92; 39; 32; 79; 82; 32; 49; 61; 49; 32; 45; 45]].
Proof. vm_compute. reflexivity. Qed.
Example c08_ex_ok_bs : bs_free bs_sql [105; 116; 39; 115] = true.
Proof. vm_compute. reflexivity. Qed.
Example c08_ex_context : closed_prefix std_sql [83;69;76;69;67;84;32] = true.                       (* "SELECT " *)
Proof. vm_compute. reflexivity. Qed.
Example c08_ex_hex : based_numbers rows [48;120;49;102] = Some (31, []).                              (* 0x1f *)
Proof. vm_compute. reflexivity. Qed.
Example c08_ex_number : lex_number [49;95;48;46;53;101;45;49] = Some (NDec 105 (-2)%Z, []).           (* 1_0.5e-1 *)
Proof. vm_compute. reflexivity. Qed.
Example c08_ex_escape : quoted_string tbl true [34;92;120;52;49;92;117;123;52;50;125;92;110;34] = Some ([65;66;10], []).
Proof. vm_compute. reflexivity. Qed.

(* C08 -- literal values reach the database unchanged and cannot alter the statement.
   Only statements here; proofs are in Proofs/EscapeProofs.v and Proofs/LiteralProofs.v.
   Models: Model/Escape.v (sqlparser's EscapeQuotedString, the code prqlc delegates quoting to),
   Model/SqlLex.v (the reading side: a SQL lexer, standard and backslash-escape families),
   Model/Literal.v reader_of / writer_of / flags_agree (which named dialect belongs to which family),
   Model/Literal.v (PRQL literal spellings -> values -> SQL text).
   Tables: Gen/GenLiteral.v, regenerated from /repo on every run (vplib/props/c08_gen.py). *)
From Coq Require Import List NArith ZArith Bool.
From PV Require Import Lib.ListX Model.Escape Model.SqlLex Model.SqlLexBq Model.Interval Model.Literal Model.FloatFmt Model.FloatRyu Model.FromText
                       Proofs.EscapeProofs Proofs.SqlLexBqProofs Proofs.LiteralProofs Proofs.FloatFmtProofs Proofs.FloatRyuProofs Proofs.FloatRyuMinProofs Proofs.IntervalProofs Proofs.FromTextProofs Gen.GenLiteral.
Import ListNotations.
Local Open Scope N_scope.

Notation tbl := GenLiteral.escape_table.
Notation rows := GenLiteral.based_rows.
Notation wt := GenLiteral.writer_backslash_doubling.
Notation rt := GenLiteral.reader_backslash_escape.
Notation iunits := GenLiteral.interval_unit_names.
Notation ifields := GenLiteral.interval_fields.

(* ---------------------------------------------------------------- table obligations (what the source says now) *)

(* backslash-backslash denotes a backslash and the double quote is not remapped: needed for "every value has a spelling" *)
Theorem c08_escape_table_ok : table_ok tbl = true.
Proof. vm_compute. reflexivity. Qed.
Print Assumptions c08_escape_table_ok.

(* the lexer's escape table is the documented one (book: reference/syntax/strings.md; plus JSON's \/ ) *)
Theorem c08_escape_table_documented : table_agrees GenLiteral.documented_escapes tbl = true.
Proof. vm_compute. reflexivity. Qed.
Print Assumptions c08_escape_table_documented.

(* 0b / 0x / 0o digit caps keep every value inside i64 *)
Theorem c08_based_rows_fit : forallb row_fits rows = true.
Proof. vm_compute. reflexivity. Qed.
Print Assumptions c08_based_rows_fit.

(* the Display code modelled by Model/Escape.v is that of the pinned sqlparser *)
Theorem c08_sqlparser_pinned : GenLiteral.sqlparser_version = (0, 60, 0).
Proof. vm_compute. reflexivity. Qed.
Print Assumptions c08_sqlparser_pinned.

(* ---------------------------------------------------------------- strings *)

(* What prqlc emits for a string literal NOW is  emit_literal_string bs s  = sqlparser's Display of the value with every
   quote doubled (fix e3af91e) and, when the dialect handler says string_literal_backslash_escape (flag bs), every
   backslash doubled first (fix d2c1667).  The reading side d is a standard lexer ('' only) or one of the backslash
   family (backslash escapes inside '...').

   FULL STRENGTH, both classes: whenever the writer doubles backslashes exactly when the reader treats them as escapes,
   the emitted text is one string token whose value is s -- for ALL strings. *)
Theorem string_roundtrip : forall d s, sql_lex d (emit_literal_string (bs_escapes d) s) = [TString s].
Proof. exact literal_string_roundtrip. Qed.
Print Assumptions string_roundtrip.

(* class 1, standard dialects (ansi, duckdb, generic, glaredb, mssql, postgres, sqlite): no backslash doubling *)
Theorem string_roundtrip_standard : forall s, sql_lex std_sql (emit_literal_string false s) = [TString s].
Proof. exact literal_string_roundtrip_std. Qed.
Print Assumptions string_roundtrip_standard.

(* class 2, backslash-escaping dialects (mysql -- where \% and \_ keep their backslash --, clickhouse, snowflake,
   redshift): backslashes doubled.  Was refuted before d2c1667 (a\nb read back as a LF b; a\ swallowed the closing quote) *)
Theorem string_roundtrip_backslash : forall d s, bs_escapes d = true -> sql_lex d (emit_literal_string true s) = [TString s].
Proof. exact literal_string_roundtrip_bs. Qed.
Print Assumptions string_roundtrip_backslash.

(* no literal content changes the structure of the surrounding statement: in ANY context that ends between two
   tokens, followed by anything that does not start with a quote, the token sequence is the context's with exactly
   one string token inserted -- for ALL strings, both classes *)
Theorem literal_no_structure_change : forall d s pre suf,
  closed_prefix d pre = true -> starts_with 39 suf = false ->
  sql_lex d (pre ++ emit_literal_string (bs_escapes d) s ++ suf) = sql_lex d pre ++ TString s :: sql_lex d suf.
Proof. exact literal_string_in_context. Qed.
Print Assumptions literal_no_structure_change.

(* Which NAMED dialect is configured how is table data, regenerated on every run: wt from sql/dialect.rs (Dialect ->
   handler -> string_literal_backslash_escape), rt from the pinned sqlparser's dialect of the same name.
   Obligation: every dialect except bigquery doubles backslashes exactly when its reading side treats them as escapes. *)
Theorem c08_backslash_flags_agree : flags_agree [s_bigquery] wt rt = true.
Proof. vm_compute. reflexivity. Qed.
Print Assumptions c08_backslash_flags_agree.

(* ... hence, for every dialect prqlc knows except bigquery: all strings, every context *)
Theorem string_roundtrip_by_dialect : forall name w s, In (name, w) wt -> name <> s_bigquery ->
  exists d, reader_of rt name = Some d /\ sql_lex d (emit_literal_string w s) = [TString s].
Proof.
  intros name w s Hin Hne. apply (LiteralProofs.string_roundtrip_by_dialect [s_bigquery] wt rt c08_backslash_flags_agree name w s Hin).
  cbn [existsb]. rewrite orb_false_r. apply leqb_neq. exact Hne.
Qed.
Print Assumptions string_roundtrip_by_dialect.

Theorem literal_no_structure_change_by_dialect : forall name w, In (name, w) wt -> name <> s_bigquery ->
  exists d, reader_of rt name = Some d /\ forall s pre suf,
    closed_prefix d pre = true -> starts_with 39 suf = false ->
    sql_lex d (pre ++ emit_literal_string w s ++ suf) = sql_lex d pre ++ TString s :: sql_lex d suf.
Proof.
  intros name w Hin Hne. apply (string_in_context_by_dialect [s_bigquery] wt rt c08_backslash_flags_agree name w Hin).
  cbn [existsb]. rewrite orb_false_r. apply leqb_neq. exact Hne.
Qed.
Print Assumptions literal_no_structure_change_by_dialect.

(* BigQuery (finding F6c, open; deliberately left by d2c1667 because the book documents its output): its reading side
   takes backslash escapes but prqlc does not double backslashes for it.  The configuration is pinned here, so a
   repair of BigQuery breaks this obligation and the finding has to be revisited.
   FULL STATEMENT (false):  forall s, sql_lex bs_sql (emit_literal_string false s) = [TString s]. *)
Theorem c08_bigquery_configuration : writer_of wt s_bigquery = Some false /\ reader_of rt s_bigquery = Some bs_sql.
Proof. vm_compute. split; reflexivity. Qed.
Print Assumptions c08_bigquery_configuration.

(* BigQuery's reading side modelled exactly (Model/SqlLexBq.v): backslash escapes, '' = the empty string, three quotes open
   a triple-quoted string; flag dq = true: sqlparser's BigQuery tokenizer (the executable oracle: a doubled quote inside
   '...' is one quote), dq = false: BigQuery's documented syntax (a doubled quote is not an escape). *)
Theorem string_roundtrip_bigquery_refuted :
  exists s, bq_lex true (emit_literal_string false s) <> [TString s] /\ bq_lex false (emit_literal_string false s) <> [TString s].
Proof. exists [97; 92; 110; 98]. split; vm_compute; discriminate. Qed.
Print Assumptions string_roundtrip_bigquery_refuted.

Theorem string_unterminated_bigquery_refuted :
  exists s, bq_lex true (emit_literal_string false s) = [TUnterminated] /\ bq_lex false (emit_literal_string false s) = [TUnterminated].
Proof. exists [97; 92]. split; vm_compute; reflexivity. Qed.
Print Assumptions string_unterminated_bigquery_refuted.

(* the literal ends early and its tail becomes SQL:  \' OR 1=1 --  is read as the string ' followed by OR 1 = 1 *)
Theorem string_injection_bigquery_refuted :
  exists s, bq_lex true (emit_literal_string false s) = [TString [39]; TWord [79; 82]; TNumber [49]; TPunct 61; TNumber [49]].
Proof. exists [92; 39; 32; 79; 82; 32; 49; 61; 49; 32; 45; 45]. vm_compute. reflexivity. Qed.
Print Assumptions string_injection_bigquery_refuted.

(* no backslash needed: a value that starts with a quote opens a triple-quoted string ... *)
Theorem string_triple_quote_bigquery_refuted :
  exists s, no_backslash s = true /\ bq_lex true (emit_literal_string false s) = [TUnterminated].
Proof. exists [39; 120]. split; vm_compute; reflexivity. Qed.
Print Assumptions string_triple_quote_bigquery_refuted.

(* ... and under the documented syntax any quote splits the literal in two:  it's  is read as 'it' 's' *)
Theorem string_split_bigquery_refuted :
  exists s, no_backslash s = true /\ bq_lex false (emit_literal_string false s) = [TString [105; 116]; TString [115]].
Proof. exists [105; 116; 39; 115]. split; vm_compute; reflexivity. Qed.
Print Assumptions string_split_bigquery_refuted.

(* PARTIAL for BigQuery, as far as it is true: no backslash, the value does not start with a quote, and -- under the
   documented syntax only -- no quote at all (bq_fits).  In every context.  The finding's class is the complement. *)
Theorem string_roundtrip_bigquery_partial : forall dq s, bq_fits dq s = true ->
  bq_lex dq (emit_literal_string false s) = [TString s].
Proof. exact bq_literal_roundtrip. Qed.
Print Assumptions string_roundtrip_bigquery_partial.

Theorem literal_no_structure_change_bigquery_partial : forall dq s pre suf,
  bq_fits dq s = true -> bq_closed_prefix dq pre = true -> starts_with 39 suf = false ->
  bq_lex dq (pre ++ emit_literal_string false s ++ suf) = bq_lex dq pre ++ TString s :: bq_lex dq suf.
Proof. exact bq_literal_in_context. Qed.
Print Assumptions literal_no_structure_change_bigquery_partial.

(* PARTIAL for the two model families, any writer flag against any reader: the flags agree, or the string has no backslash *)
Theorem string_roundtrip_partial : forall w d s,
  compatible w d s = true -> sql_lex d (emit_literal_string w s) = [TString s].
Proof. exact literal_string_roundtrip_gen. Qed.
Print Assumptions string_roundtrip_partial.

Theorem literal_no_structure_change_partial : forall w d s pre suf,
  compatible w d s = true -> closed_prefix d pre = true -> starts_with 39 suf = false ->
  sql_lex d (pre ++ emit_literal_string w s ++ suf) = sql_lex d pre ++ TString s :: sql_lex d suf.
Proof. exact literal_string_in_context_gen. Qed.
Print Assumptions literal_no_structure_change_partial.

(* ---- facts about the DEPENDENCY (sqlparser's EscapeQuotedString alone, Model/Escape.v emit_string), which is why
   prqlc has to double the quotes itself; they are what finding F6 (fixed) consisted of and what would come back if
   the pre-doubling were removed *)
Theorem sqlparser_display_refuted :
  exists s, sql_lex std_sql (emit_string s) <> [TString s].
Proof. exists [97; 39; 39; 98]. vm_compute. discriminate. Qed.
Print Assumptions sqlparser_display_refuted.

Theorem sqlparser_display_injection_refuted :
  exists s, sql_lex std_sql (emit_string s) =
            [TString [92]; TWord [79; 82]; TNumber [49]; TPunct 61; TNumber [49]].
Proof. exists [92; 39; 32; 79; 82; 32; 49; 61; 49; 32; 45; 45]. vm_compute. reflexivity. Qed.
Print Assumptions sqlparser_display_injection_refuted.

(* sqlparser doubles every quote exactly when the value contains neither two adjacent quotes nor backslash-quote *)
Theorem sqlparser_display_is_doubling : forall s,
  esc_known QUOTE s = false -> emit_string s = QUOTE :: dbl QUOTE s ++ [QUOTE].
Proof. exact emit_string_not_known. Qed.
Print Assumptions sqlparser_display_is_doubling.

(* ... and text whose quotes are already doubled passes through it unchanged, whatever precedes: why the repair works *)
Theorem predoubled_passes_sqlparser : forall q s prev, esc q prev (dbl q s) = dbl q s.
Proof. exact esc_dbl. Qed.
Print Assumptions predoubled_passes_sqlparser.

Theorem emit_literal_string_is_doubling : forall bs s, emit_literal_string bs s = QUOTE :: prep_literal bs s ++ [QUOTE].
Proof. exact emit_literal_string_eq. Qed.
Print Assumptions emit_literal_string_is_doubling.

(* every string value has a PRQL spelling that denotes it, and the SQL emitted for it is read back as the same value:
   FULL STRENGTH for every reading side d whose writer flag fits it (every named dialect but bigquery, above) *)
Theorem string_literal_end_to_end : forall d v,
  exists src, quoted_string tbl true src = Some (v, []) /\
              (forall sq, emit_literal sq (bs_escapes d) (LString v) = Some (emit_literal_string (bs_escapes d) v)) /\
              sql_lex d (emit_literal_string (bs_escapes d) v) = [TString v].
Proof. exact (fun d v => LiteralProofs.string_literal_end_to_end tbl d v c08_escape_table_ok). Qed.
Print Assumptions string_literal_end_to_end.

Theorem prql_string_expressible : forall v rest, starts_with 34 rest = false ->
  quoted_string tbl true (34 :: spell v ++ 34 :: rest) = Some (v, rest).
Proof. exact (fun v rest => spell_roundtrip tbl v rest c08_escape_table_ok). Qed.
Print Assumptions prql_string_expressible.

Theorem raw_string_value : forall v rest, forallb raw_char_ok v = true ->
  raw_string (114 :: 34 :: v ++ 34 :: rest) = Some (v, rest).
Proof. exact raw_roundtrip. Qed.
Print Assumptions raw_string_value.

(* f-string text: braces are written doubled; the text piece has exactly that value (and is then
   emitted through emit_literal_string like any string literal) *)
Theorem fstring_text_value : forall t, t <> [] -> fstring_pieces (brace_escape t) = Some [PText t].
Proof. exact fstring_text. Qed.
Print Assumptions fstring_text_value.

(* ---------------------------------------------------------------- numbers, booleans, dates *)

(* every integer (all of Z, so all of i64) is emitted as text that reads back as that integer *)
Theorem int_roundtrip : forall d z, int_of_tokens (sql_lex d (emit_int z)) = Some z.
Proof. exact LiteralProofs.int_roundtrip. Qed.
Print Assumptions int_roundtrip.

(* ... in any context, negative integers included (a folded negation hands Literal::Integer(-5) to translate_literal;
   i64::MIN is covered like every other integer): a number token, preceded by a minus-sign token for negatives *)
Theorem int_any_sign_no_structure_change : forall d z pre suf,
  closed_prefix d pre = true -> num_boundary suf = true ->
  sql_lex d (pre ++ emit_int z ++ suf) = sql_lex d pre ++ int_tokens z ++ sql_lex d suf.
Proof. exact int_z_in_context. Qed.
Print Assumptions int_any_sign_no_structure_change.

Theorem int_no_structure_change : forall d n pre suf,
  closed_prefix d pre = true -> num_boundary suf = true ->
  sql_lex d (pre ++ digits_of n ++ suf) = sql_lex d pre ++ TNumber (digits_of n) :: sql_lex d suf.
Proof. exact int_in_context. Qed.
Print Assumptions int_no_structure_change.

Theorem int_literal_end_to_end : forall d n, n <= I64_MAX ->
  lex_number (digits_of n) = Some (NInt n, []) /\
  (forall sq bs, emit_literal sq bs (LInt n) = Some (emit_int (Z.of_N n))) /\
  int_of_tokens (sql_lex d (emit_int (Z.of_N n))) = Some (Z.of_N n).
Proof. exact LiteralProofs.int_literal_end_to_end. Qed.
Print Assumptions int_literal_end_to_end.

Theorem number_spelling_value : forall n rest, n <= I64_MAX -> prql_num_boundary rest = true ->
  lex_number (digits_of n ++ rest) = Some (NInt n, rest).
Proof. exact lex_number_int. Qed.
Print Assumptions number_spelling_value.

Theorem number_underscore_value : forall c a b rest,
  is_digit c = true -> c <> 48 -> forallb is_digit_us a = true -> forallb is_digit_us b = true ->
  match rest with x :: _ => is_digit_us x = false | [] => True end ->
  lex_number ((c :: a ++ 95 :: b) ++ rest) = lex_number ((c :: a ++ b) ++ rest).
Proof. exact lex_number_underscore. Qed.
Print Assumptions number_underscore_value.

Theorem based_number_value : forall row s, In row rows -> based_number row s = based_number_raw row s.
Proof. exact (based_rows_no_overflow rows c08_based_rows_fit). Qed.
Print Assumptions based_number_value.

(* floats.  A float literal's spelling denotes the decimal value m * 10^e (lex_number: NDec m e); translate_literal prints
   the binary64 nearest to it with Rust's {:?}: the shortest digits that read back, laid out as ddd.ddd or d.ddde<x>
   (Model/FloatFmt.v emit_float: the layout on the spelling's own digits -- what Rust prints on the class in_class,
   <= 15 significant digits; compared with the implementation by stream float-text).
   For EVERY m and e the emitted text denotes exactly m * 10^e (both sides in normal form) ... *)
Theorem float_text_value : forall m e, sql_number_value (emit_float m e) = Some (norm_dec m e).
Proof. exact emit_float_value. Qed.
Print Assumptions float_text_value.

(* ... and is one number token on every reader: no float can change the statement's structure *)
Theorem float_text_one_token : forall d m e, sql_lex d (emit_float m e) = [TNumber (emit_float m e)].
Proof. exact emit_float_one_token. Qed.
Print Assumptions float_text_one_token.

(* What translate_literal emits is emit_float_rust: since fix 1ae3488 a value that rounds to infinity in binary64 is a compile
   error (None) instead of the word inf (finding F14, fixed; float_roundtrip_refuted / _partial described it).
   FULL STRENGTH: whatever translate_literal emits for a float literal is one number token denoting exactly the
   decimal value of the literal's spelling. *)
Theorem float_roundtrip : forall d m e t, emit_float_rust m e = Some t ->
  sql_number_value t = Some (norm_dec m e) /\ sql_lex d t = [TNumber t].
Proof. intros d m e t H. split; [exact (emit_float_rust_value m e t H) | exact (emit_float_rust_one_token d m e t H)]. Qed.
Print Assumptions float_roundtrip.

(* since fix d8fda67 the lexer itself rejects such a spelling, so every float literal it lets through is emitted *)
Theorem float_literal_accepted_is_emitted : forall s m e r,
  lex_literal_checked iunits tbl rows s = Some (LFloat m e, r) -> exists t, emit_float_rust m e = Some t.
Proof. exact (lexed_float_emitted iunits tbl rows). Qed.
Print Assumptions float_literal_accepted_is_emitted.

(* the rejected spellings are exactly those whose value is at least 2^1024 - 2^970 (half an ulp above f64::MAX) *)
Theorem float_rejected_iff_overflow : forall m e, emit_float_rust m e = None <-> overflows m e = true.
Proof. intros m e. unfold emit_float_rust. destruct (overflows m e); split; congruence. Qed.
Print Assumptions float_rejected_iff_overflow.

(* interval literals  <integer><unit>  (Model/Interval.v).  Tables regenerated from the source: the lexer's unit names,
   translate_literal's unit -> DateTimeField table, the per-dialect interval_quoting_style. *)
Theorem c08_interval_tables_ok :
  forallb (fun kv => field_ok (fst (snd kv))) ifields && units_covered iunits ifields = true.
Proof. vm_compute. reflexivity. Qed.
Print Assumptions c08_interval_tables_ok.

(* whatever the dialect's styles, the emitted text is INTERVAL followed by  n FIELD ,  'n FIELD'  or  'n' FIELD :
   words, one number or one string token -- for every count and every unit of the table *)
Theorem interval_literal_tokens : forall d styles n unit t,
  interval_text ifields styles (digits_of n) unit = Some t ->
  exists st field, sql_lex d t = interval_tokens_of st (digits_of n) field.
Proof.
  intros d styles n unit t. apply interval_text_tokens.
  pose proof c08_interval_tables_ok as H. apply andb_true_iff in H as [H _]. exact H.
Qed.
Print Assumptions interval_literal_tokens.

(* since fix 19e2c2a a dialect without INTERVAL literals rejects them (interval_text_for false = None); what is emitted for
   the others is interval_text, so the token theorem above covers every emitted interval *)
Theorem interval_emitted_tokens : forall d sup styles n unit t,
  interval_text_for sup ifields styles (digits_of n) unit = Some t ->
  sup = true /\ exists st field, sql_lex d t = interval_tokens_of st (digits_of n) field.
Proof.
  intros d sup styles n unit t. unfold interval_text_for.
  match goal with |- context [match ?x with Some _ => _ | None => _ end] => destruct x end; [|intro H; discriminate H].
  destruct sup; [|intro H; discriminate H]. intro H.
  split; [reflexivity|]. exact (interval_literal_tokens d styles n unit t H).
Qed.
Print Assumptions interval_emitted_tokens.

(* every unit the lexer accepts is supported by translate_literal *)
Theorem interval_unit_always_supported : forall styles dg u, In u iunits -> interval_text ifields styles dg u <> None.
Proof.
  intros styles dg u. apply interval_unit_supported.
  pose proof c08_interval_tables_ok as H. apply andb_true_iff in H as [_ H]. exact H.
Qed.
Print Assumptions interval_unit_always_supported.

(* the count: FULL STRENGTH since fix 8948ad3 (interval_count_refuted / _partial described finding C08-N1: a count beyond
   i64::MAX was read as 1): an accepted interval literal has exactly the count its digits spell, and it fits i64 *)
Theorem interval_count : forall s n u r, lex_interval iunits s = Some (LInterval n u, r) ->
  exists ip r1, parse_integer s = Some (ip, r1) /\ match_unit iunits r1 = Some (u, r) /\
                n = base_value 10 (no_us ip) /\ n <= I64_MAX.
Proof. exact (lex_interval_count iunits). Qed.
Print Assumptions interval_count.

(* based literals 0x / 0o / 0b: the integer the lexer produces is the value of the digits it consumed, it fits i64 (the
   unwrap_or(Integer(0)) fallback is dead), and the literal stops in front of another digit of the base only after the
   maximal number of digits: the value of the spelling, or the spelling is split in two tokens (which the parser rejects;
   stream number:boundary checks that on the implementation) *)
Theorem based_literal_value_or_split : forall prefix base maxd s v r, In (prefix, base, maxd) rows ->
  based_number (prefix, base, maxd) s = Some (v, r) ->
  exists us ds, s = prefix ++ us ++ ds ++ r /\ (us = [] \/ us = [95]) /\ ds <> [] /\
                forallb (digit_ok base) ds = true /\ v = base_value base ds /\ v <= I64_MAX /\
                (match r with c :: _ => digit_ok base c = true | [] => False end -> length ds = maxd).
Proof.
  intros prefix base maxd s v r Hin H.
  pose proof c08_based_rows_fit as F. rewrite forallb_forall in F.
  exact (based_value_or_split (prefix, base, maxd) s v r (F _ Hin) H).
Qed.
Print Assumptions based_literal_value_or_split.

(* Spellings of ANY length (16, 17 and more significant digits, subnormals): Model/FloatRyu.v emit_float_ryu = nearest
   binary64 of the spelling (round64, ties to even), the shortest digits that identify it (shortest), the {:?} layout.
   Compared with prqlc's text and with the lexer's binary64 bit pattern on every float spelling of the check.
   Whatever it emits is one number token, denotes exactly the chosen decimal D * 10^x, and that decimal lies in the
   rounding interval of the binary64 the spelling denotes -- so a correctly rounding reader gets the same float back. *)
Theorem float_shortest_digits_roundtrip : forall m e t, emit_float_ryu m e = Some t ->
  exists f D x, round64 m e = Some f /\ shortest f = Some (D, x) /\
                sql_number_value t = Some (norm_dec D x) /\ (forall d, sql_lex d t = [TNumber t]) /\
                (fst f <> 0 -> in_interval f (dec_rat D x) = true).
Proof. exact emit_float_ryu_spec. Qed.
Print Assumptions float_shortest_digits_roundtrip.

(* round64 is a correct rounding: the binary64 it returns for m * 10^e is a canonical one (normalised 53-bit mantissa with
   an exponent in range, or a subnormal at the smallest exponent) and lies within half a unit in its last place of the
   value -- exactly half only when the mantissa is even (ties to even).  near_pair (A, B) mant  says  2 |A - mant B| <= B
   for the fraction A / B = m * 10^e / 2^q.  (The exponent estimate inside round64 is validated by the function itself.) *)
Theorem float_rounding_nearest : forall m e mant q, m <> 0 -> round64 m e = Some (mant, q) ->
  near_pair (scaled_pair (dec_rat m e) q) mant /\ canonical mant q.
Proof. exact round64_nearest. Qed.
Print Assumptions float_rounding_nearest.

(* MINIMALITY of the digits: p = lead_pos = the position of the float's leading decimal digit (float_lead_position below).
   The search tries k = 1, 2, ... digits, i.e. the units 10^p, 10^(p-1), ...; when it answers with a decimal whose last
   digit is at position x, then for every coarser unit it tried before (10^(p-k'+1) with x < p-k'+1) NO non-zero multiple
   of that unit lies in the rounding interval: no decimal with fewer significant digits reads back as the float.
   (By convexity of the interval around the float and the fact that the two candidates of each k bracket the float.) *)
Theorem float_shortest_minimal : forall f D x, fst f <> 0 -> shortest f = Some (D, x) ->
  let p := lead_pos (bin_rat (fst f) (snd f)) in
  forall k', (1 <= k')%nat -> (x < p - Z.of_nat k' + 1)%Z ->
  forall D', D' <> 0 -> in_interval f (dec_rat D' (p - Z.of_nat k' + 1)) = false.
Proof. exact shortest_minimal. Qed.
Print Assumptions float_shortest_minimal.

(* lead_pos: for a value v = n/d of at least one, 10^p <= v < 10^(p+1) ... *)
Theorem float_lead_position_ge1 : forall v, snd v <> 0 -> snd v <= fst v ->
  let p := lead_pos v in (0 <= p)%Z /\ 10 ^ Z.to_N p * snd v <= fst v /\ fst v < 10 ^ (Z.to_N p + 1) * snd v.
Proof. exact lead_pos_ge1. Qed.
Print Assumptions float_lead_position_ge1.

(* ... and for a value below one (not below 10^-400: every non-zero binary64 is above 10^-324): p = -J with 10^-J <= v < 10^-(J-1) *)
Theorem float_lead_position_lt1 : forall v, snd v <> 0 -> fst v < snd v -> rle (1, 10 ^ 400) v = true ->
  exists J, lead_pos v = (- Z.of_N J)%Z /\ 1 <= J /\ rle (1, 10 ^ J) v = true /\ rlt v (1, 10 ^ (J - 1)) = true.
Proof. exact lead_pos_lt1. Qed.
Print Assumptions float_lead_position_lt1.

(* a negative float (folded negation): minus sign and number, two tokens *)
Theorem float_negative_tokens : forall d m e, sql_lex d (45 :: emit_float m e) = [TPunct 45; TNumber (emit_float m e)].
Proof. exact emit_float_neg_tokens. Qed.
Print Assumptions float_negative_tokens.

(* embedded data: std.from_text format:json (Model/FromText.v map_json_primitive = transforms.rs from_text::map_json_primitive).
   FULL STRENGTH since fix d86674e (json_cell_value_refuted / _partial described finding C08-N2: an integer in
   (i64::MAX, u64::MAX], an array or an object became NULL): whatever literal an accepted cell becomes is the literal of
   its value, and the rejected cells are exactly those three classes *)
Theorem json_cell_value : forall v l, map_json_primitive v = Some l -> json_literal_of v = Some l.
Proof. exact json_cell_literal. Qed.
Print Assumptions json_cell_value.

Theorem json_cell_rejected : forall v, map_json_primitive v = None <->
  match v with JInt z => (I64_MAX_Z < z <= U64_MAX_Z)%Z | JArray | JObject => True | _ => False end.
Proof. exact json_cell_rejected_iff. Qed.
Print Assumptions json_cell_rejected.

(* a string cell and an i64 cell, end to end: document value -> literal -> SQL text -> value read by the database *)
Theorem json_string_cell_end_to_end : forall d sq s,
  exists l t, map_json_primitive (JString s) = Some l /\ emit_rlit sq (bs_escapes d) l = Some t /\ sql_lex d t = [TString s].
Proof. exact json_string_cell_roundtrip. Qed.
Print Assumptions json_string_cell_end_to_end.

Theorem json_int_cell_end_to_end : forall d sq bs z, (I64_MIN_Z <= z <= I64_MAX_Z)%Z ->
  exists l t, map_json_primitive (JInt z) = Some l /\ emit_rlit sq bs l = Some t /\ int_of_tokens (sql_lex d t) = Some z.
Proof. exact json_int_cell_roundtrip. Qed.
Print Assumptions json_int_cell_end_to_end.

Theorem bool_roundtrip : forall d b, sql_lex d (emit_bool b) = [TWord (emit_bool b)].
Proof. exact LiteralProofs.bool_roundtrip. Qed.
Print Assumptions bool_roundtrip.

Theorem date_literal_preserved : forall d s v r, date_inner s = Some (v, r) ->
  sql_lex d (emit_string v) = [TString v].
Proof. exact LiteralProofs.date_literal_preserved. Qed.
Print Assumptions date_literal_preserved.

(* every date, time and timestamp literal the lexer accepts: the emitted expression is, token by token,
   sqlite:  FN ( 'text' )   elsewhere:  TYPE 'text'   -- one string token carrying exactly the literal's text
   (sqlite: after the zone rewrite below), on every reader family; digits, - : . T Z + cannot end or extend it *)
Theorem datetime_literal_tokens : forall d bs s l r, date_token s = Some (l, r) ->
  exists fs fo v, datetime_fns l = Some (fs, fo, v) /\
    (exists t, emit_literal true bs l = Some t /\ sql_lex d t = [TWord fs; TPunct 40; TString (tz_colon v); TPunct 41]) /\
    (exists t, emit_literal false bs l = Some t /\ sql_lex d t = [TWord fo; TString v]).
Proof. exact LiteralProofs.datetime_literal_tokens. Qed.
Print Assumptions datetime_literal_tokens.

(* translate_datetime_literal_with_sqlite_function: a trailing zone [+-]HHMM (the lexer drops the colon of +HH:MM)
   reaches SQLite as [+-]HH:MM, the rest of the text untouched *)
Theorem sqlite_timezone_colon : forall pre sg h1 h2 m1 m2,
  is_digit h1 = true -> is_digit h2 = true -> is_digit m1 = true -> is_digit m2 = true -> (sg =? 43) || (sg =? 45) = true ->
  tz_colon (pre ++ [sg; h1; h2; m1; m2]) = pre ++ [sg; h1; h2; 58; m1; m2].
Proof. exact tz_colon_zone. Qed.
Print Assumptions sqlite_timezone_colon.

(* the function compared with every real call of translate_literal (hook verif:literal), emit_rlit, is the one the
   theorems above are about (emit_literal) on every literal the lexer can produce *)
Theorem translate_literal_model_agrees : forall sq bs l r, rlit_of_lit l = Some r -> emit_rlit sq bs r = emit_literal sq bs l.
Proof. exact emit_rlit_of_lit. Qed.
Print Assumptions translate_literal_model_agrees.

(* ---------------------------------------------------------------- non-vacuity *)
Example c08_ex_injection : sql_lex std_sql (emit_literal_string false [92; 39; 32; 79; 82; 32; 49; 61; 49; 32; 45; 45]) = [TString [92; 39; 32; 79; 82; 32; 49; 61; 49; 32; 45; 45]].
Proof. vm_compute. reflexivity. Qed.
(* the two strings that refuted the backslash family before d2c1667, as MySQL reads them now:  a\nb  and  a\ *)
Example c08_ex_mysql_backslash_n : emit_literal_string true [97; 92; 110; 98] = [39; 97; 92; 92; 110; 98; 39]
                                   /\ sql_lex mysql_sql (emit_literal_string true [97; 92; 110; 98]) = [TString [97; 92; 110; 98]].
Proof. vm_compute. split; reflexivity. Qed.
Example c08_ex_mysql_trailing_backslash : sql_lex mysql_sql (emit_literal_string true [97; 92]) = [TString [97; 92]].
Proof. vm_compute. reflexivity. Qed.
Example c08_ex_mysql_wildcard : sql_lex mysql_sql (emit_literal_string true [92; 37; 92; 39]) = [TString [92; 37; 92; 39]].   (* \%\' *)
Proof. vm_compute. reflexivity. Qed.
Example c08_ex_compatible : compatible false bs_sql [105; 116; 39; 115] = true /\ compatible false bs_sql [97; 92] = false.
Proof. vm_compute. split; reflexivity. Qed.
Example c08_ex_mysql_in_table : In ([109;121;115;113;108], true) wt /\ reader_of rt [109;121;115;113;108] = Some mysql_sql.
Proof. vm_compute. split; [tauto | reflexivity]. Qed.
Example c08_ex_timestamp : date_token [64;50;48;50;48;45;48;49;45;48;50;84;49;48;58;51;48;43;48;53;58;51;48] =
    Some (LTimestamp [50;48;50;48;45;48;49;45;48;50;84;49;48;58;51;48;43;48;53;51;48], [])                  (* @2020-01-02T10:30+05:30 *)
  /\ tz_colon [50;48;50;48;45;48;49;45;48;50;84;49;48;58;51;48;43;48;53;51;48] = [50;48;50;48;45;48;49;45;48;50;84;49;48;58;51;48;43;48;53;58;51;48].
Proof. vm_compute. split; reflexivity. Qed.
Example c08_ex_bq_fits : bq_fits true [105; 116; 39; 115; 39] = true /\ bq_fits false [105; 116; 39; 115] = false /\ bq_fits false [105; 116] = true
                         /\ bq_closed_prefix true [83;69;76;69;67;84;32] = true.
Proof. vm_compute. repeat split; reflexivity. Qed.
Example c08_ex_bq_triple : bq_lex true [39;39;39;97;39;39;98;39;39;39;32;39;39] = [TString [97;39;39;98]; TString []].      (* '''a''b''' '' *)
Proof. vm_compute. reflexivity. Qed.
Example c08_ex_float_layout :
  (emit_float 15 (-1), emit_float 1000 0, emit_float 1 16, emit_float 1 (-4), emit_float 1 (-5), emit_float 602 21, emit_float 0 7) =
  ([49;46;53], [49;48;48;48;46;48], [49;101;49;54], [48;46;48;48;48;49], [49;101;45;53], [54;46;48;50;101;50;51], [48;46;48]).
Proof. vm_compute. reflexivity. Qed.       (* 1.5  1000.0  1e16  0.0001  1e-5  6.02e23  0.0 *)
Example c08_ex_float_class : in_class 123456789012345 (-20) = true /\ in_class 1234567890123456 0 = false
                             /\ overflows 17976931348623157 292 = false /\ overflows 17976931348623159 292 = true /\ overflows 1 999999 = true
                             /\ emit_float_rust 1 400 = None /\ emit_float_rust 25 (-1) = Some [50;46;53].
Proof. vm_compute. repeat split; reflexivity. Qed.
Example c08_ex_interval :
  interval_text ifields (IValueAndUnitQuoted, IValueQuoted) (digits_of 3) [109;111;110;116;104;115] = Some [73;78;84;69;82;86;65;76;32;39;51;39;32;77;79;78;84;72]   (* redshift: INTERVAL '3' MONTH *)
  /\ interval_text ifields (IValueAndUnitQuoted, IValueQuoted) (digits_of 3) [119;101;101;107;115] = Some [73;78;84;69;82;86;65;76;32;39;51;32;87;69;69;75;39]   (* INTERVAL '3 WEEK' *)
  /\ lex_interval iunits [49;95;48;100;97;121;115;32] = Some (LInterval 10 [100;97;121;115], [32])                                                         (* 1_0days *)
  /\ lex_interval iunits [57;50;50;51;51;55;50;48;51;54;56;53;52;55;55;53;56;48;56;100;97;121;115] = None.                                                 (* 9223372036854775808days: rejected *)
Proof. vm_compute. repeat split; reflexivity. Qed.
Example c08_ex_float_shortest :
  emit_float_ryu 30000000000000004 (-17) = Some [48;46;51;48;48;48;48;48;48;48;48;48;48;48;48;48;48;48;52]            (* 0.30000000000000004 *)
  /\ emit_float_ryu 77599167732632576 (-2) = Some [55;55;53;57;57;49;54;55;55;51;50;54;51;50;53;46;56]                 (* 775991677326325.8: a tie, even digit *)
  /\ emit_float_ryu 9007199254740993 0 = Some [57;48;48;55;49;57;57;50;53;52;55;52;48;57;57;50;46;48]                  (* 2^53+1 -> 9007199254740992.0 *)
  /\ option_map bits64 (round64 1 (-1)) = Some 4591870180066957722                                                     (* 0.1 = 0x3FB999999999999A *)
  /\ emit_float_ryu 17976931348623159 292 = None.
Proof. vm_compute. repeat split; reflexivity. Qed.
Example c08_ex_context : closed_prefix std_sql [83;69;76;69;67;84;32] = true.                       (* "SELECT " *)
Proof. vm_compute. reflexivity. Qed.
Example c08_ex_hex : based_numbers rows [48;120;49;102] = Some (31, []).                              (* 0x1f *)
Proof. vm_compute. reflexivity. Qed.
Example c08_ex_number : lex_number [49;95;48;46;53;101;45;49] = Some (NDec 105 (-2)%Z, []).           (* 1_0.5e-1 *)
Proof. vm_compute. reflexivity. Qed.
Example c08_ex_escape : quoted_string tbl true [34;92;120;52;49;92;117;123;52;50;125;92;110;34] = Some ([65;66;10], []).
Proof. vm_compute. reflexivity. Qed.

(* C13 -- errors are located inside the source and point at the offending text.
   Only statements here; proofs are in Proofs/SpanProofs.v; models in Model/Span.v (checked against the
   implementation by vplib/props/c13.py); Gen/GenC13.v is regenerated from /repo on every run. *)
From Coq Require Import List NArith Bool Arith.
From PV Require Import Lib.ListX Model.Checked Model.Lexer Model.LexerGen Model.Span Model.InterpSpan Model.SpanBaseline
  Proofs.SpanProofs Proofs.InterpSpanProofs Gen.GenC13.
Import ListNotations.

(* ---- the text of the functions Model/Span.v restates is the recorded one (Tie A): composed, compose_location,
   From<Error> for ErrorMessage, SourceTree::single/new/From<S>, prql_to_tokens, lex_source_recovery, parse_source,
   load_std_lib, convert_lexer_error, parse_lr_to_pr, Add<usize> for Span, interpolation(), Display for Reason,
   WithErrorInfo for Error, Resolver::fold_function, the rebasing statement of interpolation::parse ---- *)
Theorem c13_modelled_text_unchanged : same_text GenC13.modelled modelled_expected = true.
Proof. vm_compute. reflexivity. Qed.
Print Assumptions c13_modelled_text_unchanged.

Theorem c13_reason_variants_modelled : same_list GenC13.reason_variants reason_variants_expected = true.
Proof. vm_compute. reflexivity. Qed.
Print Assumptions c13_reason_variants_modelled.

(* every literal passed to Error::new_simple("..") is non-empty *)
Theorem c13_simple_literals_nonempty : nonempty_all GenC13.simple_literals = true.
Proof. vm_compute. reflexivity. Qed.
Print Assumptions c13_simple_literals_nonempty.

(* the inventory of Error::new_simple(..) sites (file|kind|text, source order) is the one the templates of
   vplib/props/c13_templates.py were reviewed against: a new error site is an obligation until it has a template *)
Theorem c13_simple_sites_inventory : same_list GenC13.simple_sites simple_sites_expected = true.
Proof. vm_compute. reflexivity. Qed.
Print Assumptions c13_simple_sites_inventory.

(* ---- reason ---- *)
Theorem c13_reason_nonempty : forall r, reason_display r = [] -> r = RSimple [].
Proof. exact reason_nonempty_lemma. Qed.
Print Assumptions c13_reason_nonempty.

(* ---- lexer errors: char span, inside the source, start <= end, `found` is the slice ---- *)
Theorem c13_lexer_error_span_in_bounds : forall s bs be sid,
  boundary s bs -> boundary s be -> bs <= be ->
  exists cs ce,
    convert_lexer_error s bs be sid = Ret (Span cs ce sid, firstn (ce - cs) (skipn cs s)) /\
    cs <= ce /\ ce <= length s /\ byte_of_char s cs = bs /\ byte_of_char s ce = be.
Proof. exact lexer_error_span_in_bounds_lemma. Qed.
Print Assumptions c13_lexer_error_span_in_bounds.

(* ---- location: ariadne's lines tile the source; (line, col) is the position of the offset ---- *)
Theorem c13_lines_tile : forall s, sum (lines s) = length s.
Proof. exact lines_sum. Qed.
Print Assumptions c13_lines_tile.

Theorem c13_position_spec : forall s off l c,
  get_offset_line s off = Some (l, c) ->
  off <= length s /\ l < length (lines s) /\ line_start (lines s) l + c = off /\
  c <= nth l (lines s) 0 /\ (c < nth l (lines s) 0 \/ l = length (lines s) - 1).
Proof. exact get_offset_line_spec. Qed.
Print Assumptions c13_position_spec.

Theorem c13_location_is_position : forall s sp,
  sp_start sp <= length s -> sp_end sp <= length s ->
  compose_location s sp = Some (locate (lines s) (sp_start sp) 0, locate (lines s) (sp_end sp) 0).
Proof. exact location_is_position_lemma. Qed.
Print Assumptions c13_location_is_position.

(* `composed` panics exactly when the span, converted to characters, is reversed (ariadne's Label::new asserts
   start <= end); assert!(e.location.is_some()) cannot fire since 0301a92: the conversion is total and never exceeds the
   character length *)
Theorem c13_composed_panics_iff : forall s sp,
  composed_one [(sp_src sp, s)] (Some sp) = Panic <-> chars_before s (sp_end sp) < chars_before s (sp_start sp).
Proof. exact composed_one_panics_iff. Qed.
Print Assumptions c13_composed_panics_iff.

(* FULL STRENGTH since 0301a92: no span whose start is not after its end makes `composed` panic -- whatever its unit, on or
   off character boundaries, inside or past the text, in whatever tree *)
Theorem c13_composed_total : forall tree sp, sp_start sp <= sp_end sp -> composed_one tree (Some sp) <> Panic.
Proof. exact composed_one_total. Qed.
Print Assumptions c13_composed_total.

(* a span that `composed` leaves on a message is the character conversion of the span it had, names a file of the tree,
   has start <= end <= the character length of that file and comes with the position of its two ends (the file clause is
   full strength since 7cb9d46: before, a span of std.prql -- source 0 -- stayed on the message; finding C13-N2, fixed) *)
Theorem c13_reported_span_names_file : forall tree sp sp' loc,
  composed_one tree sp = Ret (Some sp', loc) ->
  exists sp0 s, sp = Some sp0 /\ find (fun p => Nat.eqb (fst p) (sp_src sp')) tree = Some (sp_src sp', s) /\
    sp' = span_to_chars s sp0 /\
    sp_start sp' <= sp_end sp' /\ sp_end sp' <= length s /\
    loc = Some (locate (lines s) (sp_start sp') 0, locate (lines s) (sp_end sp') 0).
Proof. exact composed_one_reported. Qed.
Print Assumptions c13_reported_span_names_file.

Theorem c13_foreign_span_removed : forall tree sp,
  find (fun p => Nat.eqb (fst p) (sp_src sp)) tree = None -> composed_one tree (Some sp) = Ret (None, None).
Proof. exact composed_one_foreign. Qed.
Print Assumptions c13_foreign_span_removed.

Theorem c13_location_has_span : forall tree sp loc, composed_one tree sp = Ret (None, loc) -> loc = None.
Proof. exact composed_one_location_has_span. Qed.
Print Assumptions c13_location_has_span.

(* ---- lexer errors as the caller sees them (compile: parse_source + composed; `prqlc lex`: prql_to_tokens, which
   composes since d650e1d): never the assert panic, character span of the file, located at its two ends ---- *)
Theorem c13_lexer_error_reported_located : forall tree s bs be sid,
  find (fun p => Nat.eqb (fst p) sid) tree = Some (sid, s) ->
  boundary s bs -> boundary s be -> bs <= be ->
  exists cs ce,
    lexer_error_reported tree s bs be sid =
      Ret ((Some (Span cs ce sid), Some (locate (lines s) cs 0, locate (lines s) ce 0)), firstn (ce - cs) (skipn cs s)) /\
    cs <= ce /\ ce <= length s /\ byte_of_char s cs = bs /\ byte_of_char s ce = be.
Proof. exact lexer_error_reported_located. Qed.
Print Assumptions c13_lexer_error_reported_located.

Theorem c13_prql_to_tokens_error_located : forall s bs be,
  boundary s bs -> boundary s be -> bs <= be ->
  exists cs ce,
    prql_to_tokens_error s bs be =
      Ret ((Some (Span cs ce 1), Some (locate (lines s) cs 0, locate (lines s) ce 0)), firstn (ce - cs) (skipn cs s)) /\
    cs <= ce /\ ce <= length s /\ byte_of_char s cs = bs /\ byte_of_char s ce = be.
Proof. exact prql_to_tokens_error_located. Qed.
Print Assumptions c13_prql_to_tokens_error_located.

(* ---- Resolver::fold_function (7cb9d46): when the call is in the user's source, the error it returns never points
   into std.prql; an error that does not point into std.prql keeps its span ---- *)
Theorem c13_std_error_at_call_site : forall err call cs sp,
  call = Some cs -> sp_src cs <> std_source_id -> respan_std err call = Some sp -> sp_src sp <> std_source_id.
Proof. exact respan_std_user. Qed.
Print Assumptions c13_std_error_at_call_site.

Theorem c13_user_error_span_kept : forall err call,
  (forall e, err = Some e -> sp_src e <> std_source_id) -> respan_std err call = err.
Proof. exact respan_std_keeps. Qed.
Print Assumptions c13_user_error_span_kept.

(* multi-file: source id i+1 names the i-th file handed to SourceTree::new *)
Theorem c13_source_id_names_file : forall srcs i s,
  nth_error srcs i = Some s -> find (fun p => Nat.eqb (fst p) (S i)) (source_tree srcs) = Some (S i, s).
Proof. exact source_tree_names_file. Qed.
Print Assumptions c13_source_id_names_file.

(* SourceTree as it is (two hash maps keyed by path and by `(index + 1) as u16`): with distinct paths and fewer than 65536
   files it is the simple model above; the association list handed to composed_one answers like the hash maps *)
Theorem c13_source_tree_distinct : forall files i p s,
  NoDup (map fst files) -> (N.of_nat (length files) < 65536)%N -> nth_error files i = Some (p, s) ->
  tree_source files (N.of_nat i + 1) = Some s.
Proof. exact tree_source_distinct. Qed.
Print Assumptions c13_source_tree_distinct.

Theorem c13_source_tree_lookup : forall files id,
  find (fun p => Nat.eqb (fst p) (N.to_nat id)) (tree_of_files files) =
  match tree_source files id with Some s => Some (N.to_nat id, s) | None => None end.
Proof. exact tree_of_files_find. Qed.
Print Assumptions c13_source_tree_lookup.

(* ---- start <= end ---- *)
Theorem c13_start_le_end_parser : forall toks i j sid,
  toks_okb 0 toks = true -> i < j -> j <= length toks ->
  sp_start (map_span toks i j sid) <= sp_end (map_span toks i j sid).
Proof. exact map_span_start_le_end. Qed.
Print Assumptions c13_start_le_end_parser.

(* ---- parser errors: FULL STRENGTH since d3106b1 (finding F9, fixed: token byte spans used to be read as character
   offsets, which shifted or panicked behind non-ASCII text; `c13_parser_span_unit_refuted/_partial/_iff` described that
   and are gone).  A parser error over tokens i..j of ordered tokens on character boundaries is reported without a panic
   as the CHARACTER span of the text from the start of token i to the end of token j-1, located at both ends. ---- *)
Theorem c13_parser_error_located : forall s toks i j,
  let sp := map_span toks i j 1 in
  toks_okb 0 toks = true -> i < j -> j <= length toks ->
  boundary s (sp_start sp) -> boundary s (sp_end sp) ->
  exists cs ce,
    parser_error_reported s toks i j = Ret (Some (Span cs ce 1), Some (locate (lines s) cs 0, locate (lines s) ce 0)) /\
    cs <= ce /\ ce <= length s /\ byte_of_char s cs = sp_start sp /\ byte_of_char s ce = sp_end sp.
Proof. exact parser_error_located. Qed.
Print Assumptions c13_parser_error_located.

(* why the conversion matters: a byte span is also the character span of the same text iff that text and everything
   before it is ASCII *)
Theorem c13_byte_span_is_char_span_iff : forall s bs be cs ce,
  char_of_byte s bs = Ret cs -> char_of_byte s be = Ret ce -> bs <= be ->
  ((bs = cs /\ be = ce) <-> ascii_before_byte s be = true).
Proof. exact byte_span_is_char_span_iff. Qed.
Print Assumptions c13_byte_span_is_char_span_iff.

(* ---- interpolation rebasing (`span + 2`) ----
   Full statement (FALSE: triple-quoted f/s-strings): forall tok q i_s i_e, interp_rebase tok i_s i_e = interp_actual tok q i_s i_e *)
Theorem c13_interp_rebase_correct_iff : forall tok q i_s i_e,
  interp_rebase tok i_s i_e = interp_actual tok q i_s i_e <-> q = 1.
Proof. exact interp_rebase_correct_iff. Qed.
Print Assumptions c13_interp_rebase_correct_iff.

Theorem c13_interp_rebase_refuted : exists tok q i_s i_e, interp_rebase tok i_s i_e <> interp_actual tok q i_s i_e.
Proof. exists (Span 17 28 1), 3, 4, 5. vm_compute. discriminate. Qed.
Print Assumptions c13_interp_rebase_refuted.

Theorem c13_interp_content_offset : forall pre c q content k,
  is_ascii c = true -> is_ascii q = true ->
  byte_of_char (pre ++ c :: q :: content) (length pre + 2 + k) = byte_len pre + 2 + byte_of_char content k.
Proof. exact interp_content_offset. Qed.
Print Assumptions c13_interp_content_offset.

(* ---- interpolation rebasing over the whole string-literal grammar (Model/InterpSpan.v on top of the lexer model) ----
   Full statement (FALSE on HEAD, finding C13-N1):
     forall s n items tok k1 k2, interp_items gen_tables s = Some (n, items) -> k1 <= k2 ->
       interp_reported tok items k1 k2 = interp_true tok n items k1 k2
   i.e. an error over content characters [k1, k2) of an s-/f-string is reported where that text is in the source. *)

(* the provenance-carrying scan is the lexer's scan: erasing the provenance gives Lexer.mq_body, for all inputs *)
Theorem c13_interp_items_refine_lexer : forall T fuel q n s,
  mq_body T fuel q n s = match mq_items T fuel q n s with Some (b, r) => Some (erase b, r) | None => None end.
Proof. exact mq_items_erase. Qed.
Print Assumptions c13_interp_items_refine_lexer.

(* the regenerated lexer tables satisfy the hypothesis of the theorems below (named escapes stand for ASCII, \x takes 2 digits) *)
Theorem c13_lex_tables_ok : tables_ok gen_tables = true.
Proof. vm_compute. reflexivity. Qed.
Print Assumptions c13_lex_tables_ok.

(* the byte span of an s-/f-string token (what the parser's map_span reads, what interp_rebase starts from) is the
   prefix character + the opening and closing quote runs + the source bytes of the items: InterpSpan's offsets are
   offsets inside the lexer's token span.  (Lexer.v measures with blen : N, Span.v with byte_len : nat.) *)
Theorem c13_interp_token_span : forall T c r0 k r',
  tables_ok T = true -> p_interp T (c :: r0) = Some (k, r') ->
  exists n items, interp_items T r0 = Some (n, items) /\ k = KInterp c (erase items) /\
    byte_len (c :: r0) = Span.utf8_len c + quote_bytes n + all_src items + byte_len r'.
Proof. exact interp_token_span. Qed.
Print Assumptions c13_interp_token_span.

Theorem c13_byte_len_is_lexer_blen : forall s, N.of_nat (byte_len s) = blen s.
Proof. exact byte_len_blen. Qed.
Print Assumptions c13_byte_len_is_lexer_blen.

(* exact characterisation: right iff one quote character and no escape sequence before the end of the error *)
Theorem c13_interp_rebase_exact : forall T s n items tok k1 k2,
  tables_ok T = true -> interp_items T s = Some (n, items) -> k1 <= k2 ->
  (interp_reported tok items k1 k2 = interp_true tok n items k1 k2 <-> n = 1 /\ escapes_before items k2 = false).
Proof. exact interp_token_correct_iff. Qed.
Print Assumptions c13_interp_rebase_exact.

Theorem c13_interp_rebase_partial : forall T s n items tok k1 k2,
  tables_ok T = true -> interp_items T s = Some (n, items) -> k1 <= k2 ->
  n = 1 -> escapes_before items k2 = false ->
  interp_reported tok items k1 k2 = interp_true tok n items k1 k2.
Proof. exact interp_token_partial. Qed.
Print Assumptions c13_interp_rebase_partial.

(* refuted by an escape with ONE quote character: f-string with body  \n{a +}  between double quotes
   (content characters 3..4 = the blank after `a`) *)
Theorem c13_interp_rebase_refuted_escape :
  exists s n items k1 k2, interp_items gen_tables s = Some (n, items) /\ n = 1 /\ k1 <= k2 /\
    interp_reported (Span 17 28 1) items k1 k2 <> interp_true (Span 17 28 1) n items k1 k2.
Proof.
  exists [34; 92; 110; 123; 97; 32; 43; 125; 34]%N, 1,
    [Item 10 2 true; Item 123 1 false; Item 97 1 false; Item 32 1 false; Item 43 1 false; Item 125 1 false], 3, 4.
  split; [vm_compute; reflexivity|]. split; [reflexivity|]. split; [auto|]. vm_compute. discriminate.
Qed.
Print Assumptions c13_interp_rebase_refuted_escape.

(* the reported span is never to the right of the text: it is short by (quotes - 1) + the excess bytes of the escapes *)
Theorem c13_interp_reported_never_right : forall T s n items tok k1 k2,
  tables_ok T = true -> interp_items T s = Some (n, items) ->
  sp_start (interp_reported tok items k1 k2) <= sp_start (interp_true tok n items k1 k2) /\
  sp_end (interp_reported tok items k1 k2) <= sp_end (interp_true tok n items k1 k2).
Proof. exact interp_token_reported_le. Qed.
Print Assumptions c13_interp_reported_never_right.

(* ---- hypotheses are satisfiable / the models compute ---- *)
Example c13_ex_lexer : convert_lexer_error [102;114;111;109;32;233;32;94]%N 8 9 0 = Ret (Span 7 8 0, [94]%N).
Proof. vm_compute. reflexivity. Qed.
Example c13_ex_lexer_off_boundary : convert_lexer_error [233;94]%N 1 2 0 = Panic.
Proof. vm_compute. reflexivity. Qed.
Example c13_ex_lines : lines [97;13;10;98;10;10;99]%N = [3; 2; 1; 1].
Proof. vm_compute. reflexivity. Qed.
Example c13_ex_loc : compose_location [97;13;10;98;10;10;99]%N (Span 4 7 1) = Some ((1, 1), (3, 1)).
Proof. vm_compute. reflexivity. Qed.
Example c13_ex_composed : composed_one [(1, [97;10;98]%N)] (Some (Span 2 3 1)) = Ret (Some (Span 2 3 1), Some ((1, 0), (1, 1))).
Proof. vm_compute. reflexivity. Qed.
Example c13_ex_foreign : composed_one [(1, [97;10;98]%N)] (Some (Span 2 3 0)) = Ret (None, None).
Proof. vm_compute. reflexivity. Qed.
Example c13_ex_tokens_error : prql_to_tokens_error [233;10;94]%N 3 4 = Ret ((Some (Span 2 3 1), Some ((1, 0), (1, 1))), [94]%N).
Proof. vm_compute. reflexivity. Qed.
Example c13_ex_respan : respan_std (Some (Span 400 410 0)) (Some (Span 9 21 1)) = Some (Span 9 21 1).
Proof. vm_compute. reflexivity. Qed.
Example c13_ex_respan_keeps : respan_std (Some (Span 14 15 1)) (Some (Span 9 21 1)) = Some (Span 14 15 1).
Proof. vm_compute. reflexivity. Qed.
Example c13_ex_respan_no_call : respan_std (Some (Span 400 410 0)) None = Some (Span 400 410 0).
Proof. vm_compute. reflexivity. Qed.
Example c13_ex_interp_items : interp_items gen_tables [34; 120; 92; 34; 121; 34]%N
  = Some (1, [Item 120 1 false; Item 34 2 true; Item 121 1 false]).   (* x \DQUOTE y between double quotes *)
Proof. vm_compute. reflexivity. Qed.
Example c13_ex_predict : predict_reported gen_tables [102; 34; 120; 92; 34; 121; 32; 123; 97; 32; 43; 125; 34]%N 9 10
  = Some (8, 9, (1, true)).   (* f-string  x \DQUOTE y {a +} : the blank after `a` is at 9..10 of the token, reported at 8..9 (`a`) *)
Proof. vm_compute. reflexivity. Qed.
Example c13_ex_exact_hyp : interp_items gen_tables [34; 123; 97; 32; 43; 125; 34]%N
  = Some (1, [Item 123 1 false; Item 97 1 false; Item 32 1 false; Item 43 1 false; Item 125 1 false]).
Proof. vm_compute. reflexivity. Qed.
(* two files with the same path: both ids name the content of the LATER one *)
Example c13_ex_duplicate_path : (tree_source [(7, [97]); (7, [98; 98])] 1, tree_source [(7, [97]); (7, [98; 98])] 2)%N
  = (Some [98; 98], Some [98; 98])%N.
Proof. vm_compute. reflexivity. Qed.
(* the id of the 65536th file is 0 (the id of std.prql) and the 65537th takes id 1 from the first *)
Example c13_ex_u16_wrap : (u16 (65535 + 1), u16 (65536 + 1), u16 (0 + 1))%N = (0, 1, 1)%N.
Proof. vm_compute. reflexivity. Qed.
(* the former F9 witness: e-acute then `+`, token `+` at bytes 2..3 = characters 1..2 *)
Example c13_ex_nonascii : parser_error_reported [233; 43]%N [(0, 2); (2, 3)] 1 2 = Ret (Some (Span 1 2 1), Some ((0, 1), (0, 2))).
Proof. vm_compute. reflexivity. Qed.
(* an offset inside a character is the end of that character, one past the text is the end of the text *)
Example c13_ex_off_boundary : composed_one [(1, [233; 43]%N)] (Some (Span 1 9 1)) = Ret (Some (Span 1 2 1), Some ((0, 1), (0, 2))).
Proof. vm_compute. reflexivity. Qed.
Example c13_ex_reversed : composed_one [(1, [97; 98]%N)] (Some (Span 1 0 1)) = Panic.
Proof. vm_compute. reflexivity. Qed.
Example c13_ex_partial_hyp : ascii_before_byte [102;114;111;109;32;233]%N 5 = true.
Proof. vm_compute. reflexivity. Qed.

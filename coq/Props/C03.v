(* C03 -- sort order persists through the pipeline and take selects by position.
   Statements only.
   (a) specification side (Model/Rel.v): sort returns a sorted permutation; filter, take and
       key-preserving row maps (select/derive) retain sortedness; take a..b returns the rows at those
       positions; composing takes composes ranges (any number of sub-queries).
   (b) compiler side: a model of the back end's sort inference (Model/Sorts.v, mirror of
       sql/pq/postprocess.rs SortingInference, tied to the implementation by comparing its output with
       the implementation's PQ before/after post-processing on every generated program): the ORDER BY
       of the main query is the order in effect of the whole pipeline however many CTEs it was cut
       into, and every take is handed the order in effect at its position. *)
From Coq Require Import List ZArith Bool Permutation Sorting.Sorted.
From PV Require Import Model.Rel Proofs.OrderFacts Model.Sorts Proofs.SortsProofs Proofs.Theta2 Model.Flatten Proofs.FlattenProofs.
Import ListNotations.

(* ---- (a) ---- *)
Theorem c03_sort_is_sorted_permutation : forall (le : Rel.row -> Rel.row -> bool),
  (forall x y, le x y = true \/ le y x = true) -> (forall x y z, le x y = true -> le y z = true -> le x z = true) ->
  forall l, StronglySorted (fun x y => le x y = true) (Rel.isort le l) /\ Permutation (Rel.isort le l) l.
Proof. intros le Ht Hr l. split; [apply OrderFacts.isort_sorted; assumption | apply OrderFacts.isort_perm]. Qed.
Print Assumptions c03_sort_is_sorted_permutation.

Theorem c03_filter_retains_order : forall (le : Rel.row -> Rel.row -> bool) p l,
  StronglySorted (fun x y => le x y = true) l -> StronglySorted (fun x y => le x y = true) (filter p l).
Proof. exact OrderFacts.filter_keeps_sorted. Qed.
Print Assumptions c03_filter_retains_order.

Theorem c03_take_retains_order : forall (le : Rel.row -> Rel.row -> bool) s e l,
  StronglySorted (fun x y => le x y = true) l -> StronglySorted (fun x y => le x y = true) (Rel.take_range s e l).
Proof. exact OrderFacts.take_keeps_sorted. Qed.
Print Assumptions c03_take_retains_order.

Theorem c03_select_derive_retain_order : forall (le : Rel.row -> Rel.row -> bool) (f : Rel.row -> Rel.row) l,
  (forall x y, le x y = true -> le (f x) (f y) = true) ->
  StronglySorted (fun x y => le x y = true) l -> StronglySorted (fun x y => le x y = true) (map f l).
Proof. exact OrderFacts.map_keeps_sorted. Qed.
Print Assumptions c03_select_derive_retain_order.

Theorem c03_take_positions : forall (A : Type) (a b : Z) (l : list A) (i : nat), (1 <= a)%Z -> (a <= b)%Z ->
  nth_error (Rel.take_range (Some a) (Some b) l) i =
  if (Z.of_nat i <=? b - a)%Z then nth_error l (Z.to_nat (a - 1) + i) else None.
Proof. exact OrderFacts.take_positions. Qed.
Print Assumptions c03_take_positions.

Theorem c03_take_n_positions : forall (A : Type) (n : Z) (l : list A) (i : nat), (0 <= n)%Z ->
  nth_error (Rel.take_range None (Some n) l) i = if (Z.of_nat i <? n)%Z then nth_error l i else None.
Proof. exact OrderFacts.take_n_positions. Qed.
Print Assumptions c03_take_n_positions.

(* any interleaving of filters after (and between) sorts = filter, then the LAST sort *)
Theorem c03_last_sort_wins : forall (row : Type) (xs : list (Theta2.fs row)), Forall (Theta2.good_fs row) xs -> forall l,
  Theta2.run_fs row xs l = Theta2.sort_opt row (Theta2.last_sort row xs) (filter (Theta2.preds row xs) l).
Proof. exact Theta2.run_fs_normal. Qed.
Print Assumptions c03_last_sort_wins.

(* ---- (b) ---- *)
Theorem c03_final_order_any_split :
  forall (key : Type) (is_empty : key -> bool) (empty : key) base qs qm k,
  (forall tq, In tq qs -> no_ref key (snd tq)) -> no_ref key qm ->
  eff key None (concat (map snd qs) ++ qm) = Some k ->
  let '(_, out) := run_query key is_empty empty (chain_cs key base qs) (IFromRef (chain_last key base qs) :: qm) in
  last out IOther = ISort k.
Proof. exact final_order_any_split. Qed.
Print Assumptions c03_final_order_any_split.

Theorem c03_takes_see_order_in_effect :
  forall (key : Type) (is_empty : key -> bool) (empty : key) ctes p, no_ref key p -> forall s o,
  agrees key s o -> takes_wf key is_empty o p ->
  Forall2 (fun spec emitted => forall k, spec = Some k -> emitted = k)
          (takes_spec key o p) (takes_emitted key (snd (run key is_empty empty ctes s p))).
Proof. exact run_takes. Qed.
Print Assumptions c03_takes_see_order_in_effect.

Theorem c03_state_tracks_order_in_effect :
  forall (key : Type) (is_empty : key -> bool) (empty : key) ctes p, no_ref key p -> forall s o,
  agrees key s o -> agrees key (fst (run key is_empty empty ctes s p)) (eff key o p).
Proof. exact run_agrees. Qed.
Print Assumptions c03_state_tracks_order_in_effect.

(* ---- (b') the SELECT of a CTE is widened by the columns of the CTE's final sorting (tail of fold_sql_transforms), so that
   readers can ORDER BY them: every sort column is selected afterwards and what was selected keeps its position *)
Theorem c03_cte_select_carries_sort_columns : forall sort_cols sel,
  (forall c, In c sort_cols -> In c (Sorts.widen sel sort_cols)) /\ exists extra, Sorts.widen sel sort_cols = sel ++ extra.
Proof. exact widen_covers. Qed.
Print Assumptions c03_cte_select_carries_sort_columns.

(* ... but a set operation or a recursive CTE pairs that SELECT with an operand the inference does not touch.
   Full statement (FALSE, finding C07-N12):  forall main sel sort_cols, arity_kept main sel sort_cols = true *)
Theorem c03_setop_arity_kept_partial : forall main sel sort_cols,
  (main = true \/ forall c, In c sort_cols -> In c sel) -> Sorts.arity_kept main sel sort_cols = true.
Proof. exact arity_kept_partial. Qed.
Print Assumptions c03_setop_arity_kept_partial.

(* `let x = (from t | sort b)` then `from x | select {a} | append (from u | select {a}) | take 2`: the CTE holding the UNION ALL
   inherits x's sorting; its first SELECT [4] (a) is widened by the sort column 0 (b): `SELECT a, b FROM x UNION ALL SELECT a FROM u`.
   (In `from t | sort b | select {a} | append ..` the same column is added one stage earlier, by the anchor's requirement of
   the Sort: that half of C07-N12 belongs to the split_off_back model.) *)
Theorem c03_setop_arity_kept_refuted : Sorts.arity_kept false [4%nat] [0%nat] = false.
Proof. vm_compute. reflexivity. Qed.
Print Assumptions c03_setop_arity_kept_refuted.

(* ---- (b'') column identity.  Section Cid of Model/Sorts.v runs the same inference on sort keys that are lists of (column id,
   descending): redirect_sorts at every From, the widening, fresh ids + cid_redirects for the added columns in the first
   instance that reads the CTE.  It is compared with the code at that level (hook 366a622: emitted Sorts, Selects, redirects,
   id generator).  Forgetting the ids gives exactly the kind-level run the theorems above are about: *)
Theorem c03_cid_inference_refines_kind_level : forall p ctes rds s,
  Sorts.run (list bool) SortsProofs.is_nil [] (map SortsProofs.erase_cte ctes) (Sorts.erase_st s) (map Sorts.erase_item p)
  = (Sorts.erase_st (fst (Sorts.crun ctes rds s p)), map Sorts.erase_item (snd (Sorts.crun ctes rds s p))).
Proof. exact crun_refines_run. Qed.
Print Assumptions c03_cid_inference_refines_kind_level.

(* the sorting a CTE hands to its reader is re-targeted column by column and keeps its directions; a column the reading instance
   has no redirect for keeps the id it has INSIDE the CTE (the situation behind C07-N1 / F46 / F24: the ORDER BY then names the
   column by whatever it is called in there) *)
Theorem c03_redirect_sorts_spec : forall rd k,
  map snd (Sorts.redirect_sorts rd k) = map snd k /\
  forall c d, In (c, d) k -> In (Sorts.redirect_cid rd c, d) (Sorts.redirect_sorts rd k).
Proof. exact redirect_sorts_spec. Qed.
Print Assumptions c03_redirect_sorts_spec.
Theorem c03_redirect_cid_unmapped : forall rd c, (forall p, In p rd -> fst p <> c) -> Sorts.redirect_cid rd c = c.
Proof. exact redirect_cid_unmapped. Qed.
Print Assumptions c03_redirect_cid_unmapped.

(* `let p0 = (from t | sort {-id} | select {id, b})` / `from p0 | filter b > 0 | take 2 | select {b}` (ids from the real call): p0's
   sorting [(0, desc)] reaches the main query unredirected -- instance 0 has no redirect for column 0 -- and is emitted in front of
   the take as it is *)
Example c03_ex_unredirected_inherited_sort :
  let '(_, _, o, _) := Sorts.fold_query [(0, 1); (1, 0)]%nat [(0%nat, []); (1%nat, [])] 5%nat
      [(1%nat, [CSelect [0; 1]%nat; CFrom 0%nat 1%nat; CSort [(0%nat, true)]])]
      [CSelect [4%nat]; CFrom 1%nat 0%nat; COther; CTake true []] in
  o = [CSelect [4%nat]; CFrom 1%nat 0%nat; COther; CSort [(0%nat, true)]; CTake true []].
Proof. vm_compute. reflexivity. Qed.

(* alias_last_sorting (the re-targeting of the main query's final ORDER BY through the redirects and aliases of the context)
   is modelled at column-id level too and compared with the code; whatever it does to the ids, the directions are those of the
   order in effect, and with no redirect in the context it changes nothing *)
Theorem c03_alias_last_sorting_keeps_directions : forall fuel decls rds final_select from_riid k,
  map snd (Sorts.alias_last_sorting fuel decls rds final_select from_riid k) = map snd k.
Proof. exact alias_last_sorting_directions. Qed.
Print Assumptions c03_alias_last_sorting_keeps_directions.
Theorem c03_alias_last_sorting_no_redirects : forall fuel decls final_select from_riid k,
  Sorts.alias_last_sorting fuel decls [] final_select from_riid k = k.
Proof. exact alias_last_sorting_no_redirects. Qed.
Print Assumptions c03_alias_last_sorting_no_redirects.

(* ---- (c) resolver side: model of the Flattener (semantic/resolver/flatten.rs as of fixes 8f24a64, 592b6f8, 8d54bf7,
   f809321), compared with the implementation's RQ (Take.sort, Compute.window.sort, sizes of the partitions, surviving
   Sort transforms) on every generated program.  Whatever sorts are dropped in front of a group, every take and every
   windowed compute is handed exactly the order in effect and the partition at its position, at any nesting depth of
   group/window bodies.

   Full statement (FALSE of the faithful model):
     forall key empty fuel und part s p,
       carried_of key (fst (flat key empty fuel und part s p)) = fst (carried_spec key empty fuel part s p) /\
       snd (flat key empty fuel und part s p) = snd (carried_spec key empty fuel part s p)
   Refuted by F45 (a group nested in the body of a group with a non-empty key is partitioned by its own key only, not by
   the outer keys and its own).  The second refutation of the previous round (F44: an aggregate inside a group body did
   not end the sort) is gone with fix f809321: the hypothesis `tame_agg` was dropped, aggregates are unrestricted. *)
Theorem c03_flattener_carries_order_in_effect_partial : forall (key : Type) (empty : key) fuel und part s p,
  Flatten.tame_nest key fuel part p = true ->
  Flatten.carried_of key (fst (Flatten.flat key empty fuel und part s p)) = fst (Flatten.carried_spec key empty fuel part s p) /\
  snd (Flatten.flat key empty fuel und part s p) = snd (Flatten.carried_spec key empty fuel part s p).
Proof. exact flat_carries_order_in_effect_partial. Qed.
Print Assumptions c03_flattener_carries_order_in_effect_partial.

(* every program without a group inside a group is in the class *)
Theorem c03_no_nested_group_is_tame : forall (key : Type) fuel part p,
  FlattenProofs.no_nested key fuel (Flatten.in_group part) p = true -> Flatten.tame_nest key fuel part p = true.
Proof. exact no_nested_tame. Qed.
Print Assumptions c03_no_nested_group_is_tame.

Theorem c03_flattener_carries_order_in_effect_refuted :
  exists p : list (pitem (list bool)),            (* F45 *)
     Flatten.carried_of (list bool) (fst (Flatten.flat (list bool) [] 20 false None [] p))
     <> fst (Flatten.carried_spec (list bool) [] 20 None [] p).
Proof. exists [PGroup 1 [PGroup 1 [PSort [false]; PTake]; POther]]. vm_compute. discriminate. Qed.
Print Assumptions c03_flattener_carries_order_in_effect_refuted.

Theorem c03_plain_pipeline_keeps_sorts : forall (key : Type) (empty : key) p fuel part s,
  FlattenProofs.plain key p = true -> length p < fuel ->
  FlattenProofs.emitted_sorts key (fst (Flatten.flat key empty fuel false part s p)) = FlattenProofs.sorts_of key p.
Proof. exact plain_pipeline_keeps_sorts. Qed.
Print Assumptions c03_plain_pipeline_keeps_sorts.

(* F37 at model level: two takes under different sorts in front of a group lose both Sort transforms
   (the takes still carry their sorts, but nothing separates them any more) *)
Example c03_ex_f37 :
  fst (Flatten.flat (list bool) [] 20 false None [] [PSort [false]; PTake; PSort [true]; PTake; PGroup 1 [PTake]])
  = [OTake 0 [false]; OTake 0 [true]; OTake 1 []].
Proof. vm_compute. reflexivity. Qed.
(* F45 at model level; the class is inhabited by programs with aggregates inside and outside of groups (followed by
   more of the body: f809321) and with a group nested in an empty-key group *)
Example c03_ex_f45 :
  Flatten.carried_of (list bool) (fst (Flatten.flat (list bool) [] 20 false None [] [PGroup 1 [PGroup 2 [PSort [false]; PTake]; PTake]]))
  = [(2, [false]); (1, [])] /\
  fst (Flatten.carried_spec (list bool) [] 20 None [] [PGroup 1 [PGroup 2 [PSort [false]; PTake]; PTake]])
  = [(3, [false]); (1, [])].
Proof. vm_compute. split; reflexivity. Qed.
Example c03_ex_tame :
  Flatten.tame (list bool) 20 None
    [PSort [true]; PGroup 1 [PSort [false]; PAgg; PTake]; PSort [false]; PAgg; PWin; PGroup 0 [PGroup 2 [PSort [true]; PTake]; PTake]] = true.
Proof. vm_compute. reflexivity. Qed.
(* fix f809321 (was finding F44): inside a group body too, what follows an aggregate is handed no sort *)
Example c03_ex_grouped_aggregate_ends_sort :
  fst (Flatten.flat (list bool) [] 20 false None [] [PGroup 1 [PSort [false]; PAgg; PTake]]) = [OTake 1 []].
Proof. vm_compute. reflexivity. Qed.
(* fix 8d54bf7: outside of groups an aggregate ends the sort (the take after it is handed none) *)
Example c03_ex_aggregate_ends_sort :
  fst (Flatten.flat (list bool) [] 20 false None [] [PSort [false]; PAgg; PTake]) = [OSort [false]; OTake 0 []].
Proof. vm_compute. reflexivity. Qed.
(* fix 592b6f8: what follows a nested group inside a group body is partitioned by the outer group again *)
Example c03_ex_nested_group_restores_partition :
  fst (Flatten.flat (list bool) [] 20 false None [] [PGroup 1 [PGroup 0 [PTake]; PSort [true]; PTake]])
  = [OTake 0 []; OTake 1 [true]].
Proof. vm_compute. reflexivity. Qed.

(* non-vacuity: sort | take | filter, cut after the take: the main query re-emits the sort *)
Example c03_ex_split :
  run_query (list bool) (fun k => match k with [] => true | _ => false end) []
    [ (1%nat, [IFromRef 0%nat; ISort [true]; ITake true [true]]) ] [IFromRef 1%nat; IOther; IOther]
  = ( [ (1%nat, [IFromRef 0%nat; ISort [true]; ITake true [true]]) ], [IFromRef 1%nat; IOther; IOther; ISort [true]] ).
Proof. vm_compute. reflexivity. Qed.
Example c03_ex_reset : eff (list bool) None [ISort [true]; IOther; IReset; IOther] = None.
Proof. reflexivity. Qed.

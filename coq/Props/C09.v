(* C09 -- identifiers are referenced verbatim; generated names never capture user names.
   Only statements here; proofs are in Proofs/IdentProofs.v, Proofs/NameGenProofs.v, Proofs/EscapeProofs.v.
   Models: Model/Ident.v (translate_ident_part; reading side = Model/SqlLex.v), Model/Escape.v (sqlparser's quote
   doubling), Model/NameGen.v (NameGenerator and every place that draws from it: gen_table_name, assign_names,
   RelVarNameAssigner, ensure_column_name, anchor_split, translate_select_item).
   Tables: Gen/GenKeywords.v (keyword lists, valid_ident classes, SQLite's own keyword table) and
   Gen/GenIdentDialect.v (quote character / quoting style per dialect, generator prefixes), regenerated on every run. *)
From Coq Require Import List NArith Bool.
From PV Require Import Lib.ListX Model.Escape Model.SqlLex Model.Literal Model.Ident Model.NameGen
                       Proofs.EscapeProofs Proofs.IdentProofs Proofs.NameGenProofs
                       Gen.GenKeywords Gen.GenIdentDialect.
Import ListNotations.
Local Open Scope N_scope.

Notation istart := GenKeywords.ident_start.
Notation irest := GenKeywords.ident_rest.
Notation common := GenKeywords.common_keywords.
Notation extra := GenKeywords.dialect_keywords.
Notation rows := GenIdentDialect.ident_dialects.
Notation emit := (emit_ident istart irest common).

(* ---------------------------------------------------------------- table obligations *)

(* every character valid_ident admits is an identifier character of the SQL lexer (a letter or _ first -- in
   particular not $, which would make a bind parameter --, letters digits _ $ after) and is its own lower-case form: so a bare
   emission only ever happens for names that survive case folding (why upper-case names must be quoted) *)
Theorem c09_ident_classes_ok : classes_ok istart irest = true.
Proof. vm_compute. reflexivity. Qed.
Print Assumptions c09_ident_classes_ok.

(* every dialect quotes with the double quote or the backtick (sqlparser's Display handles exactly those and ') *)
Theorem c09_quote_chars_ok : quotes_ok rows = true.
Proof. vm_compute. reflexivity. Qed.
Print Assumptions c09_quote_chars_ok.

(* every word in SQLite's own keyword table (the engine the checks execute on) is in the set prqlc consults *)
Theorem c09_sqlite_keywords_covered : keywords_cover GenKeywords.sqlite_engine_keywords common = true.
Proof. vm_compute. reflexivity. Qed.
Print Assumptions c09_sqlite_keywords_covered.

(* the hand lists of keywords.rs cover themselves: the sqlite list in the source is the engine's list *)
Theorem c09_sqlite_list_is_engine_list :
  keywords_cover GenKeywords.sqlite_keywords GenKeywords.sqlite_engine_keywords &&
  keywords_cover GenKeywords.sqlite_engine_keywords GenKeywords.sqlite_keywords = true.
Proof. vm_compute. reflexivity. Qed.
Print Assumptions c09_sqlite_list_is_engine_list.

(* the generator prefixes are the documented ones and differ (table names and column names never collide by prefix) *)
Theorem c09_prefixes : GenIdentDialect.table_prefix = [116;97;98;108;101;95] /\ GenIdentDialect.col_prefix = [95;101;120;112;114;95].
Proof. vm_compute. split; reflexivity. Qed.
Print Assumptions c09_prefixes.

(* ---------------------------------------------------------------- identifiers *)

(* FULL STATEMENT (holds since the fixes 68466ba / b5c2cd4): for every dialect row of the source, every folding
   behaviour of bare words except upper-casing (unless the dialect always quotes), and EVERY name other than the
   wildcard star, the emitted text is one identifier token that names exactly s *)
Theorem ident_roundtrip : forall row k s,
  In row rows -> (k = FoldUpper -> snd row = true) -> is_star s = false ->
  ident_denotes k (snd (fst row)) (emit (identd_of extra row) s) = Some s.
Proof. exact (ident_roundtrip_rows istart irest common extra rows c09_ident_classes_ok c09_quote_chars_ok). Qed.
Print Assumptions ident_roundtrip.

(* two different names are never emitted as the same text *)
Theorem ident_no_merge : forall row s1 s2, In row rows -> is_star s1 = false -> is_star s2 = false ->
  emit (identd_of extra row) s1 = emit (identd_of extra row) s2 -> s1 = s2.
Proof. exact (emit_ident_injective istart irest common extra rows c09_ident_classes_ok c09_quote_chars_ok). Qed.
Print Assumptions ident_no_merge.

(* FULL STATEMENT for multi-part names (translate_ident: schema.table, table.column, ...; every part goes through
   translate_ident_part, the parts are joined by dots): for every dialect row, every folding behaviour as above and every
   non-empty list of parts none of which is the wildcard -- parts may contain dots, quotes, spaces, keywords -- the emitted
   text lexes as identifier tokens separated by single dots and names exactly that list of parts *)
Theorem path_roundtrip : forall row k parts,
  In row rows -> (k = FoldUpper -> snd row = true) -> parts <> [] -> forallb (fun s => negb (is_star s)) parts = true ->
  path_denotes k (snd (fst row)) (emit_path istart irest common (identd_of extra row) parts) = Some parts.
Proof. exact (path_roundtrip_rows istart irest common extra rows c09_ident_classes_ok c09_quote_chars_ok). Qed.
Print Assumptions path_roundtrip.

(* two different paths are never emitted as the same text (a.b as ONE name and a, b as two parts differ) *)
Theorem path_no_merge : forall row p1 p2, In row rows -> p1 <> [] -> p2 <> [] ->
  forallb (fun s => negb (is_star s)) p1 = true -> forallb (fun s => negb (is_star s)) p2 = true ->
  emit_path istart irest common (identd_of extra row) p1 = emit_path istart irest common (identd_of extra row) p2 -> p1 = p2.
Proof. exact (emit_path_injective istart irest common extra rows c09_ident_classes_ok c09_quote_chars_ok). Qed.
Print Assumptions path_no_merge.

(* FULL STATEMENT for the qualified wildcard `t.*` (the one place where the star part of a path is emitted: the qualifier path
   followed by .* ): the text lexes as the qualifier's identifier tokens, a dot and a star, and the qualifier is read back as
   exactly its parts -- for every dialect row, folding behaviour as above and every non-empty qualifier without a star part *)
Theorem qualified_star_roundtrip : forall row k parts,
  In row rows -> (k = FoldUpper -> snd row = true) -> parts <> [] -> forallb (fun s => negb (is_star s)) parts = true ->
  qualified_star_denotes k (snd (fst row)) (emit_qualified_star istart irest common (identd_of extra row) parts) = Some parts.
Proof. exact (qualified_star_roundtrip_rows istart irest common extra rows c09_ident_classes_ok c09_quote_chars_ok). Qed.
Print Assumptions qualified_star_roundtrip.

Theorem bare_implies_casefold_fixpoint : forall s, valid_ident istart irest s = true -> lower_ascii s = s.
Proof. exact (fun s => bare_casefold_fixpoint istart irest s c09_ident_classes_ok). Qed.
Print Assumptions bare_implies_casefold_fixpoint.

(* a name that is a keyword of the executing engine, in any letter case, is never emitted bare *)
Theorem keyword_is_quoted : forall d s,
  mem_str (upper_ascii s) GenKeywords.sqlite_engine_keywords = true ->
  emit d s = emit_ident_quoted (iq d) s /\ starts_with (iq d) (emit d s) = true.
Proof. exact (keyword_quoted_rows istart irest common GenKeywords.sqlite_engine_keywords c09_sqlite_keywords_covered). Qed.
Print Assumptions keyword_is_quoted.

Theorem ident_quoted_roundtrip : forall d q s, (q = 34 \/ q = 96) -> sql_lex d (emit_ident_quoted q s) = [TQuoted q s].
Proof. exact ident_quoted_lexes_as_name. Qed.
Print Assumptions ident_quoted_roundtrip.

(* ---- facts about the DEPENDENCY (sqlparser's Ident Display alone, emit_quoted), which is why prqlc doubles the quote
   characters itself; this is what finding F18 (fixed) consisted of *)
Theorem sqlparser_ident_display_refuted :
  exists s, sql_lex std_sql (emit_quoted 34 s) <> [TQuoted 34 s].
Proof. exists [97; 34; 34; 98]. vm_compute. discriminate. Qed.
Print Assumptions sqlparser_ident_display_refuted.

Theorem sqlparser_ident_display_merge_refuted :
  exists s1 s2, s1 <> s2 /\ emit_quoted 34 s1 = emit_quoted 34 s2.
Proof. exists [97; 34; 34; 98], [97; 34; 98]. split; [discriminate | vm_compute; reflexivity]. Qed.
Print Assumptions sqlparser_ident_display_merge_refuted.

(* ---------------------------------------------------------------- generated names *)
(* Model/NameGen.v mirrors every place of /repo HEAD that draws from the two NameGenerators (pinned, with an inventory
   of the call sites, by gen_ident_dialect.py).  `lower` stands for Rust's str::to_lowercase; the statements hold for EVERY
   function that leaves generated names unchanged, and c09_generated_names_lower_stable shows that ASCII lower-casing of
   the prefixes of the source is one. *)
Notation tprefix := GenIdentDialect.table_prefix.
Notation cprefix := GenIdentDialect.col_prefix.

Theorem c09_prefixes_lower :
  lower_ascii tprefix = tprefix /\ lower_ascii cprefix = cprefix /\ ascii_only tprefix = true /\ ascii_only cprefix = true.
Proof. vm_compute. repeat split; reflexivity. Qed.
Print Assumptions c09_prefixes_lower.

Theorem c09_generated_names_lower_stable : forall k,
  lower_ascii (gen_name tprefix k) = gen_name tprefix k /\ lower_ascii (gen_name cprefix k) = gen_name cprefix k.
Proof.
  exact (fun k => conj (gen_name_lower_stable tprefix (proj1 c09_prefixes_lower) k)
                       (gen_name_lower_stable cprefix (proj1 (proj2 c09_prefixes_lower)) k)).
Qed.
Print Assumptions c09_generated_names_lower_stable.

(* ---- the regenerate-until-unused loop `while name.is_none() || used.contains(name) { name = gen_unreserved() }` of
   assign_names / RelVarNameAssigner (table names) and anchor_split / translate_select_item (column names; their reserved
   set is empty unless the source has the repair of F33b): whatever comes out is not in the used set (EXACT comparison),
   something always comes out, a name that was free is kept as it is, and a name that was not kept is a generated one
   whose lower-cased form is not reserved *)
Theorem generated_names_fresh : forall lower p reserved used fuel cur n nm n',
  regen_r fuel lower p reserved used cur n = Some (nm, n') -> ~ In nm used.
Proof. exact regen_r_fresh. Qed.
Print Assumptions generated_names_fresh.

Theorem generated_names_terminate : forall lower p reserved used cur n,
  (forall k, lower (gen_name p k) = gen_name p k) ->
  exists nm n', regen_r (S (S (length used))) lower p reserved used cur n = Some (nm, n').
Proof. exact regen_r_total. Qed.
Print Assumptions generated_names_terminate.

Theorem user_names_kept : forall lower p reserved used fuel nm n,
  ~ In nm used -> regen_r fuel lower p reserved used (Some nm) n = Some (nm, n).
Proof. exact regen_r_keeps. Qed.
Print Assumptions user_names_kept.

Theorem generated_names_unreserved : forall lower p reserved used fuel cur n nm n',
  regen_r fuel lower p reserved used cur n = Some (nm, n') ->
  (cur = Some nm /\ n' = n) \/ ((exists k, n <= k /\ nm = gen_name p k /\ k < n') /\ ~ In (lower nm) reserved).
Proof. exact regen_with_unreserved. Qed.
Print Assumptions generated_names_unreserved.

(* with nothing reserved the generator is plain NameGenerator::gen *)
Theorem generator_without_reserved_names : forall lower p n, gen_table_name lower p [] n = Some (gen_name p n, N.succ n).
Proof. exact gen_table_name_nil. Qed.
Print Assumptions generator_without_reserved_names.

(* ---- table names (fix 99a89d3).  AnchorContext::gen_table_name: the result is the generated name of some counter value
   at or after the current one, and its lower-cased form is not in the reserved set; it ends within |reserved|+1 rounds *)
Theorem generated_table_name_unreserved : forall lower p reserved n x n',
  gen_table_name lower p reserved n = Some (x, n') ->
  exists k, n <= k /\ x = gen_name p k /\ n' = N.succ k /\ ~ In (lower x) reserved.
Proof. exact (fun lower p reserved => gen_unreserved_spec lower p reserved (S (length reserved))). Qed.
Print Assumptions generated_table_name_unreserved.

Theorem generated_table_name_terminates : forall lower p reserved,
  (forall k, lower (gen_name p k) = gen_name p k) -> forall n, exists x n', gen_table_name lower p reserved n = Some (x, n').
Proof. exact gen_table_name_total. Qed.
Print Assumptions generated_table_name_terminates.

(* FULL STATEMENT for a name drawn directly (alias of a wrapped sub-query, gen_query.rs): with the reserved set the code
   builds -- the lower-cased form of EVERY table name and relation alias the user wrote in the query -- the name differs
   from every user name when both are compared through `lower`, i.e. CASE-INSENSITIVELY; and it is the name of a counter
   value never used before, so it differs from every name generated earlier *)
Theorem generated_table_name_never_captures : forall lower p users n x n',
  gen_table_name lower p (reserved_of lower users) n = Some (x, n') ->
  (exists k, n <= k /\ x = gen_name p k /\ n' = N.succ k) /\ forall u, In u users -> lower u <> lower x.
Proof. exact gen_table_name_never_capture. Qed.
Print Assumptions generated_table_name_never_captures.

(* CTE names / FROM aliases of one scope are pairwise distinct, for every list of declared-or-missing names *)
Theorem generated_table_names_fresh : forall lower p reserved decls n,
  (forall k, lower (gen_name p k) = gen_name p k) ->
  exists l n', assign_names lower p reserved decls [] n = Some (l, n') /\ NoDup l /\ length l = length decls.
Proof. exact assign_names_fresh. Qed.
Print Assumptions generated_table_names_fresh.

Theorem user_table_name_kept : forall lower p reserved nm ds names n l n',
  ~ In nm names -> assign_names lower p reserved (Some nm :: ds) names n = Some (l, n') -> exists l', l = nm :: l'.
Proof. exact assign_names_keeps_user. Qed.
Print Assumptions user_table_name_kept.

(* FULL STATEMENT (holds since fix 99a89d3; finding F33 was its failure): for every list of user names of the query, every
   list of declared-or-missing names of a scope and every generator state, the loop terminates; the names of the scope
   are pairwise distinct; and every position either keeps its declared name or holds a generated name that differs from
   EVERY user name of the query compared case-insensitively *)
Theorem generated_table_names_never_capture : forall lower p users decls n,
  (forall k, lower (gen_name p k) = gen_name p k) ->
  exists l n', assign_names lower p (reserved_of lower users) decls [] n = Some (l, n') /\
    NoDup l /\ length l = length decls /\
    Forall2 (fun d x => d = Some x \/ ((exists k, n <= k /\ x = gen_name p k) /\ forall u, In u users -> lower u <> lower x)) decls l.
Proof. exact assign_names_never_capture_total. Qed.
Print Assumptions generated_table_names_never_capture.

(* ... and, the declared names being user names, a generated name of the scope differs case-insensitively from every
   OTHER name of the scope, user-written or generated *)
Theorem generated_table_names_ci_distinct : forall lower p users decls n l n',
  (forall k, lower (gen_name p k) = gen_name p k) -> incl (somes decls) users ->
  assign_names lower p (reserved_of lower users) decls [] n = Some (l, n') ->
  forall i j di xi xj, i <> j ->
    nth_error decls i = Some di -> nth_error l i = Some xi -> nth_error l j = Some xj ->
    di <> Some xi -> lower xi <> lower xj.
Proof. exact assign_names_ci_distinct. Qed.
Print Assumptions generated_table_names_ci_distinct.

(* how names are compared: the code lower-cases with Unicode rules, SQLite / MySQL / SQL Server fold (at least) ASCII
   letters.  For an ASCII-only name g (every generated name is one) distinctness under any lower-casing that agrees with
   ASCII lower-casing on ASCII-only strings gives distinctness under ASCII case folding *)
Theorem lowering_covers_ascii_folding : forall (lower : str -> str) u g,
  (forall s, ascii_only s = true -> lower s = lower_ascii s) -> ascii_only g = true ->
  lower u <> lower g -> lower_ascii u <> lower_ascii g.
Proof. exact lower_distinct_implies_ascii_distinct. Qed.
Print Assumptions lowering_covers_ascii_folding.

(* ---- column names.  `reserved` is the set of reserved COLUMN names: [] for the source without the repair of F33b, the
   lower-cased names of every column the RQ mentions with it (GenIdentDialect.col_names_reserved says which; code_col_reserved).
   FULL STATEMENT (holds since fix 75c6718), EXACT comparison, every reserved set: the column names at a sub-query split
   are pairwise distinct, for every list of columns -- wildcards, user columns (also spelled like generated names),
   already named or unnamed computed columns, which ensure_column_name names without a look at the names in use -- and
   every generator state; exactly the wildcards stay unnamed *)
Theorem generated_column_names_fresh : forall lower p reserved, (forall k, lower (gen_name p k) = gen_name p k) -> forall cols n,
  exists l n', split_names lower p reserved cols [] n = Some (l, n') /\ NoDup (somes l) /\ length l = length cols /\
               Forall2 (fun c x => x = None <-> fst c = DWild) cols l.
Proof. exact split_names_fresh. Qed.
Print Assumptions generated_column_names_fresh.

Theorem user_column_name_kept : forall lower p reserved d b nm cs used n l n',
  ensure_column_name lower p reserved d b n = Some (Some nm, n) -> ~ In nm used ->
  split_names lower p reserved ((d, b) :: cs) used n = Some (l, n') -> exists l', l = Some nm :: l'.
Proof. exact split_names_keeps. Qed.
Print Assumptions user_column_name_kept.

(* FULL STATEMENT (holds since fix 755de8e), EXACT comparison: the alias translate_select_item invents for a column without
   a name is a generated name that differs from every column name in use in the query (column_names.values()), and its
   lower-cased form is not reserved *)
Theorem generated_alias_fresh : forall lower p reserved, (forall k, lower (gen_name p k) = gen_name p k) -> forall used n,
  exists nm n', select_item_alias lower p reserved used n = Some (nm, n') /\ ~ In nm used /\
                ((exists k, nm = gen_name p k) /\ ~ In (lower nm) reserved) /\ exists k, n <= k /\ nm = gen_name p k /\ k < n'.
Proof. exact select_item_alias_fresh. Qed.
Print Assumptions generated_alias_fresh.

(* the source has the repair of finding F33b (6cdd79f): the column-name generator skips the reserved column names
   (regenerated from /repo on every run; the translator accepts no other shape) *)
Theorem c09_column_names_reserved : GenIdentDialect.col_names_reserved = true.
Proof. vm_compute. reflexivity. Qed.
Print Assumptions c09_column_names_reserved.

(* FULL STATEMENT for columns compared CASE-INSENSITIVELY (what SQLite, MySQL, SQL Server do), for every reserved set.
   If every name that reaches the split from outside is a user name whose lower-cased form is reserved, or a generated,
   unreserved name (made by an earlier call), then a generated name of the split differs case-insensitively from EVERY
   other name of the split. *)
Theorem generated_column_names_ci_fresh : forall lower p reserved cols n l n',
  (forall k, lower (gen_name p k) = gen_name p k) ->
  (forall u, (exists d b, In (d, b) cols /\ (b = Some u \/ d = DSingle (Some u))) ->
             In (lower u) reserved \/ ((exists k, u = gen_name p k) /\ ~ In (lower u) reserved)) ->
  split_names lower p reserved cols [] n = Some (l, n') ->
  forall x y, In x (somes l) -> In y (somes l) -> ((exists k, x = gen_name p k) /\ ~ In (lower x) reserved) -> x <> y -> lower x <> lower y.
Proof. exact (fun lower p reserved cols n l n' St => split_names_ci_fresh lower p reserved St cols n l n'). Qed.
Print Assumptions generated_column_names_ci_fresh.

(* FULL STATEMENT about the source (holds since fix 6cdd79f; finding F33b was its failure): with the reserved set the code
   builds -- the lower-cased names of every column the RQ mentions -- and incoming names that are columns of the RQ or
   names generated earlier, a generated column name differs case-insensitively from every other name of the split *)
Theorem generated_column_names_ci : forall lower rq_columns cols n l n',
  (forall k, lower (gen_name cprefix k) = gen_name cprefix k) ->
  (forall u, (exists d b, In (d, b) cols /\ (b = Some u \/ d = DSingle (Some u))) ->
             In u rq_columns \/ ((exists k, u = gen_name cprefix k) /\ ~ In (lower u) (code_col_reserved GenIdentDialect.col_names_reserved lower rq_columns))) ->
  split_names lower cprefix (code_col_reserved GenIdentDialect.col_names_reserved lower rq_columns) cols [] n = Some (l, n') ->
  forall x y, In x (somes l) -> In y (somes l) ->
    ((exists k, x = gen_name cprefix k) /\ ~ In (lower x) (code_col_reserved GenIdentDialect.col_names_reserved lower rq_columns)) -> x <> y -> lower x <> lower y.
Proof. exact (column_ci_status cprefix true True I). Qed.
Print Assumptions generated_column_names_ci.

(* ---- which names reach a split.  The hypothesis of generated_column_names_ci_fresh as a decidable check (it is evaluated
   on every real anchor_split call by the correspondence run): every incoming name is a name whose lower-cased form is
   reserved, or is spelled like a generated name *)
Theorem generated_column_names_ci_checked : forall lower p reserved, (forall k, lower (gen_name p k) = gen_name p k) ->
  forall cols n l n',
  incoming_ok lower p reserved cols = true ->
  split_names lower p reserved cols [] n = Some (l, n') ->
  forall x y, In x (somes l) -> In y (somes l) -> ((exists k, x = gen_name p k) /\ ~ In (lower x) reserved) -> x <> y -> lower x <> lower y.
Proof. exact split_names_ci_checked. Qed.
Print Assumptions generated_column_names_ci_checked.

(* FULL STATEMENT without a hypothesis about the incoming names: the names the anchor context holds (column_names,
   column_decls) get there by four kinds of operations -- names of the RQ are loaded (QueryLoader / create_relation_instance /
   load_names: exactly the names whose lower-cased form is reserved), ensure_column_name, anchor_split, translate_select_item's
   alias -- and an operation mentions only names the context already holds.  For EVERY such sequence of operations, from
   every context of RQ / generated names (in particular the empty one) and every generator state: every name the context
   ever holds is a name of the RQ or a generated name, and in EVERY anchor_split of the sequence a generated name differs
   case-insensitively from every other name of the split *)
Theorem column_names_context_invariant : forall lower p reserved, (forall k, lower (gen_name p k) = gen_name p k) ->
  forall ops known n known' n' splits,
  (forall u, In u known -> name_class_ok lower p reserved u = true) ->
  run_ops lower p reserved known n ops = Some (known', n', splits) ->
  (forall u, In u known' -> name_class_ok lower p reserved u = true) /\
  forall l, In l splits -> forall x y, In x (somes l) -> In y (somes l) ->
    ((exists k, x = gen_name p k) /\ ~ In (lower x) reserved) -> x <> y -> lower x <> lower y.
Proof. exact run_ops_invariant. Qed.
Print Assumptions column_names_context_invariant.

(* ---------------------------------------------------------------- non-vacuity *)
Example c09_ex_bare : emit {| iq := 34; always_quoted := false; extra_kw := [] |} [97; 95; 49] = [97; 95; 49].            (* a_1 *)
Proof. vm_compute. reflexivity. Qed.
Example c09_ex_upper : emit {| iq := 34; always_quoted := false; extra_kw := [] |} [65] = [34; 65; 34].                    (* A -> ''A'' *)
Proof. vm_compute. reflexivity. Qed.
Example c09_ex_keyword : emit {| iq := 96; always_quoted := false; extra_kw := [] |} [115;101;108;101;99;116] = [96;115;101;108;101;99;116;96].
Proof. vm_compute. reflexivity. Qed.
Example c09_ex_quote : emit {| iq := 34; always_quoted := false; extra_kw := [] |} [97; 34; 98] = [34; 97; 34; 34; 98; 34].  (* a''b -> ''a''''b'' *)
Proof. vm_compute. reflexivity. Qed.
Example c09_ex_regen : regen_r 5 lower_ascii [116] [] [[116;48]; [116;49]] None 0 = Some ([116;50], 3).
Proof. vm_compute. reflexivity. Qed.
(* a user table TABLE_0 (reserved: table_0) and a CTE without a name: the generator skips table_0 *)
Example c09_ex_reserved : assign_names lower_ascii tprefix (reserved_of lower_ascii [upper_ascii tprefix ++ [48]]) [Some (upper_ascii tprefix ++ [48]); None] [] 0
                          = Some ([upper_ascii tprefix ++ [48]; gen_name tprefix 1], 2).
Proof. vm_compute. reflexivity. Qed.
(* the hypothesis of the table theorems is satisfiable, and the names are ASCII-only *)
Example c09_ex_stable : lower_ascii (gen_name tprefix 41) = gen_name tprefix 41 /\ ascii_only (gen_name tprefix 41) = true.
Proof. vm_compute. split; reflexivity. Qed.
(* ensure_column_name does not check: an unnamed computed column becomes _expr_0 whatever else is called so ... *)
Example c09_ex_ensure : ensure_column_name lower_ascii cprefix [] DCompute None 0 = Some (Some (gen_name cprefix 0), 1).
Proof. vm_compute. reflexivity. Qed.
(* ... the split repairs it: user column _expr_0 first, then the computed one, then a second column named _expr_0 *)
Example c09_ex_split : split_names lower_ascii cprefix [] [(DSingle (Some (gen_name cprefix 0)), None); (DCompute, None); (DWild, None); (DSingle (Some (gen_name cprefix 0)), None)] [] 0
                       = Some ([Some (gen_name cprefix 0); Some (gen_name cprefix 1); None; Some (gen_name cprefix 2)], 3).
Proof. vm_compute. reflexivity. Qed.
(* a trace: the RQ names k, _EXPR_0 are loaded, a sort key is named, the split renames the duplicate k *)
Example c09_ex_trace :
  run_ops lower_ascii cprefix (code_col_reserved true lower_ascii [[107]; upper_ascii cprefix ++ [48]]) [] 0
    [OpLoad [[107]; upper_ascii cprefix ++ [48]]; OpEnsure DCompute None;
     OpSplit [(DSingle (Some [107]), None); (DSingle (Some [107]), Some [107]); (DSingle (Some (upper_ascii cprefix ++ [48])), None); (DCompute, Some (gen_name cprefix 1))]]
  = Some ([[107]; gen_name cprefix 2; upper_ascii cprefix ++ [48]; gen_name cprefix 1; gen_name cprefix 1; [107]; upper_ascii cprefix ++ [48]], 3,
          [[Some [107]; Some (gen_name cprefix 2); Some (upper_ascii cprefix ++ [48]); Some (gen_name cprefix 1)]]).
Proof. vm_compute. reflexivity. Qed.
Example c09_ex_alias : select_item_alias lower_ascii cprefix [] [gen_name cprefix 0; gen_name cprefix 1] 0 = Some (gen_name cprefix 2, 3).
Proof. vm_compute. reflexivity. Qed.
(* what the reserved set buys (this was finding F33b): with nothing reserved a user column _EXPR_0 and the unnamed computed
   column end up as _EXPR_0 and _expr_0, one name for SQLite *)
Example c09_ex_split_unreserved : split_names lower_ascii cprefix [] [(DSingle (Some (upper_ascii cprefix ++ [48])), None); (DCompute, None)] [] 0
                                  = Some ([Some (upper_ascii cprefix ++ [48]); Some (gen_name cprefix 0)], 1).
Proof. vm_compute. reflexivity. Qed.
(* with the repair: user column _EXPR_0 is reserved as _expr_0, the unnamed computed column becomes _expr_1 *)
Example c09_ex_split_reserved : split_names lower_ascii cprefix (code_col_reserved true lower_ascii [upper_ascii cprefix ++ [48]])
                                  [(DSingle (Some (upper_ascii cprefix ++ [48])), None); (DCompute, None)] [] 0
                                = Some ([Some (upper_ascii cprefix ++ [48]); Some (gen_name cprefix 1)], 2).
Proof. vm_compute. reflexivity. Qed.
Example c09_ex_path : emit_path istart irest common {| iq := 34; always_quoted := false; extra_kw := [] |} [[97;46;98]; [99]; [115;101;108;101;99;116]]
                      = [34;97;46;98;34; 46; 99; 46; 34;115;101;108;101;99;116;34].              (* ''a.b''.c.''select'' *)
Proof. vm_compute. reflexivity. Qed.
Example c09_ex_path_read : path_denotes FoldLower 34 [34;97;46;98;34; 46; 99; 46; 34;115;101;108;101;99;116;34] = Some [[97;46;98]; [99]; [115;101;108;101;99;116]].
Proof. vm_compute. reflexivity. Qed.
Example c09_ex_star : emit_qualified_star istart irest common {| iq := 34; always_quoted := false; extra_kw := [] |} [[99;46;100]] = [34;99;46;100;34; 46; 42]
                      /\ qualified_star_denotes FoldLower 34 [34;99;46;100;34; 46; 42] = Some [[99;46;100]].       (* ''c.d''.* *)
Proof. vm_compute. split; reflexivity. Qed.
Example c09_ex_rows : find_dialect [115;113;108;105;116;101] rows = Some ([115;113;108;105;116;101], 34, false).
Proof. vm_compute. reflexivity. Qed.
Example c09_ex_dollar : emit {| iq := 34; always_quoted := false; extra_kw := [] |} [36; 97] = [34; 36; 97; 34].              (* $a is quoted *)
Proof. vm_compute. reflexivity. Qed.
Example c09_ex_two_quotes : emit {| iq := 34; always_quoted := false; extra_kw := [] |} [97; 34; 34; 98] = [34; 97; 34; 34; 34; 34; 98; 34].
Proof. vm_compute. reflexivity. Qed.

(* C09 -- identifiers are referenced verbatim; generated names never capture user names.
   Only statements here; proofs are in Proofs/IdentProofs.v, Proofs/NameGenProofs.v, Proofs/EscapeProofs.v.
   Models: Model/Ident.v (translate_ident_part; reading side = Model/SqlLex.v), Model/Escape.v (sqlparser's quote
   doubling), Model/NameGen.v (NameGenerator and the three collision-avoidance sites).
   Tables: Gen/GenKeywords.v (keyword lists, valid_ident classes, SQLite's own keyword table) and
   Gen/GenIdentDialect.v (quote character / quoting style per dialect, generator prefixes), regenerated on every run. *)
From Coq Require Import List NArith Bool.
From PV Require Import Lib.ListX Model.Escape Model.SqlLex Model.Literal Model.Ident Model.NameGen
                       Proofs.EscapeProofs Proofs.IdentProofs Proofs.NameGenProofs
                       Gen.GenKeywords Gen.GenIdentDialect.
Import ListNotations.
Local Open Scope N_scope.

Notation istart := GenKeywords.ident_start.
Notation irest := GenKeywords.ident_rest.
Notation common := GenKeywords.common_keywords.
Notation extra := GenKeywords.dialect_keywords.
Notation rows := GenIdentDialect.ident_dialects.
Notation emit := (emit_ident istart irest common).

(* ---------------------------------------------------------------- table obligations *)

(* every character valid_ident admits is an identifier character of the SQL lexer (a letter or _ first -- in
   particular not $, which would make a bind parameter --, letters digits _ $ after) and is its own lower-case form: so a bare
   emission only ever happens for names that survive case folding (why upper-case names must be quoted) *)
Theorem c09_ident_classes_ok : classes_ok istart irest = true.
Proof. vm_compute. reflexivity. Qed.
Print Assumptions c09_ident_classes_ok.

(* every dialect quotes with the double quote or the backtick (sqlparser's Display handles exactly those and ') *)
Theorem c09_quote_chars_ok : quotes_ok rows = true.
Proof. vm_compute. reflexivity. Qed.
Print Assumptions c09_quote_chars_ok.

(* every word in SQLite's own keyword table (the engine the checks execute on) is in the set prqlc consults *)
Theorem c09_sqlite_keywords_covered : keywords_cover GenKeywords.sqlite_engine_keywords common = true.
Proof. vm_compute. reflexivity. Qed.
Print Assumptions c09_sqlite_keywords_covered.

(* the hand lists of keywords.rs cover themselves: the sqlite list in the source is the engine's list *)
Theorem c09_sqlite_list_is_engine_list :
  keywords_cover GenKeywords.sqlite_keywords GenKeywords.sqlite_engine_keywords &&
  keywords_cover GenKeywords.sqlite_engine_keywords GenKeywords.sqlite_keywords = true.
Proof. vm_compute. reflexivity. Qed.
Print Assumptions c09_sqlite_list_is_engine_list.

(* the generator prefixes are the documented ones and differ (table names and column names never collide by prefix) *)
Theorem c09_prefixes : GenIdentDialect.table_prefix = [116;97;98;108;101;95] /\ GenIdentDialect.col_prefix = [95;101;120;112;114;95].
Proof. vm_compute. split; reflexivity. Qed.
Print Assumptions c09_prefixes.

(* ---------------------------------------------------------------- identifiers *)

(* FULL STATEMENT (holds since the fixes 68466ba / b5c2cd4): for every dialect row of the source, every folding
   behaviour of bare words except upper-casing (unless the dialect always quotes), and EVERY name other than the
   wildcard star, the emitted text is one identifier token that names exactly s *)
Theorem ident_roundtrip : forall row k s,
  In row rows -> (k = FoldUpper -> snd row = true) -> is_star s = false ->
  ident_denotes k (snd (fst row)) (emit (identd_of extra row) s) = Some s.
Proof. exact (ident_roundtrip_rows istart irest common extra rows c09_ident_classes_ok c09_quote_chars_ok). Qed.
Print Assumptions ident_roundtrip.

(* two different names are never emitted as the same text *)
Theorem ident_no_merge : forall row s1 s2, In row rows -> is_star s1 = false -> is_star s2 = false ->
  emit (identd_of extra row) s1 = emit (identd_of extra row) s2 -> s1 = s2.
Proof. exact (emit_ident_injective istart irest common extra rows c09_ident_classes_ok c09_quote_chars_ok). Qed.
Print Assumptions ident_no_merge.

Theorem bare_implies_casefold_fixpoint : forall s, valid_ident istart irest s = true -> lower_ascii s = s.
Proof. exact (fun s => bare_casefold_fixpoint istart irest s c09_ident_classes_ok). Qed.
Print Assumptions bare_implies_casefold_fixpoint.

(* a name that is a keyword of the executing engine, in any letter case, is never emitted bare *)
Theorem keyword_is_quoted : forall d s,
  mem_str (upper_ascii s) GenKeywords.sqlite_engine_keywords = true ->
  emit d s = emit_ident_quoted (iq d) s /\ starts_with (iq d) (emit d s) = true.
Proof. exact (keyword_quoted_rows istart irest common GenKeywords.sqlite_engine_keywords c09_sqlite_keywords_covered). Qed.
Print Assumptions keyword_is_quoted.

Theorem ident_quoted_roundtrip : forall d q s, (q = 34 \/ q = 96) -> sql_lex d (emit_ident_quoted q s) = [TQuoted q s].
Proof. exact ident_quoted_lexes_as_name. Qed.
Print Assumptions ident_quoted_roundtrip.

(* ---- facts about the DEPENDENCY (sqlparser's Ident Display alone, emit_quoted), which is why prqlc doubles the quote
   characters itself; this is what finding F18 (fixed) consisted of *)
Theorem sqlparser_ident_display_refuted :
  exists s, sql_lex std_sql (emit_quoted 34 s) <> [TQuoted 34 s].
Proof. exists [97; 34; 34; 98]. vm_compute. discriminate. Qed.
Print Assumptions sqlparser_ident_display_refuted.

Theorem sqlparser_ident_display_merge_refuted :
  exists s1 s2, s1 <> s2 /\ emit_quoted 34 s1 = emit_quoted 34 s2.
Proof. exists [97; 34; 34; 98], [97; 34; 98]. split; [discriminate | vm_compute; reflexivity]. Qed.
Print Assumptions sqlparser_ident_display_merge_refuted.

(* ---------------------------------------------------------------- generated names *)

(* the regenerate-until-unused loop (assign_names, RelVarNameAssigner, and since 75c6718 anchor_split): whatever comes
   out is not in the used set, something always comes out, and a name that was free is kept as it is *)
Theorem generated_names_fresh : forall p used fuel cur n nm n',
  regen fuel p used cur n = Some (nm, n') -> ~ In nm used.
Proof. exact regen_fresh. Qed.
Print Assumptions generated_names_fresh.

Theorem generated_names_terminate : forall p used cur n,
  exists nm n', regen (S (S (length used))) p used cur n = Some (nm, n').
Proof. exact regen_terminates. Qed.
Print Assumptions generated_names_terminate.

Theorem user_names_kept : forall p used fuel nm n, ~ In nm used -> regen fuel p used (Some nm) n = Some (nm, n).
Proof. exact regen_keeps. Qed.
Print Assumptions user_names_kept.

(* CTE names / FROM aliases of one scope are pairwise distinct, for every list of declared-or-missing names *)
Theorem generated_table_names_fresh : forall p decls n,
  exists l n', assign_names p decls [] n = Some (l, n') /\ NoDup l /\ length l = length decls.
Proof. exact assign_names_fresh. Qed.
Print Assumptions generated_table_names_fresh.

Theorem user_table_name_kept : forall p nm ds names n l n',
  ~ In nm names -> assign_names p (Some nm :: ds) names n = Some (l, n') -> exists l', l = nm :: l'.
Proof. exact assign_names_keeps_user. Qed.
Print Assumptions user_table_name_kept.

(* FULL STATEMENT (holds since fix 75c6718): the column names at a sub-query split are pairwise distinct, for every
   list of column names -- including user columns spelled like generated names -- and every generator state *)
Theorem generated_column_names_fresh : forall p cols n,
  exists l n', split_names p cols [] n = Some (l, n') /\ NoDup (somes l) /\ length l = length cols.
Proof. exact split_names_fresh. Qed.
Print Assumptions generated_column_names_fresh.

Theorem user_column_name_kept : forall p nm cs used n l n',
  ~ In nm used -> split_names p (Some nm :: cs) used n = Some (l, n') -> exists l', l = Some nm :: l'.
Proof. exact split_names_keeps. Qed.
Print Assumptions user_column_name_kept.

(* what the repair bought: the code before 75c6718 (ONE regeneration, unchecked) was not collision-free *)
Theorem single_regeneration_refuted :
  exists cols n, ~ NoDup (somes (fst (split_names_once GenIdentDialect.col_prefix cols [] n))).
Proof.
  exists [Some (GenIdentDialect.col_prefix ++ [48]); Some [105; 100]; Some [105; 100]], 0.
  vm_compute. apply not_nodup_witness. right. left. reflexivity.
Qed.
Print Assumptions single_regeneration_refuted.

(* ---------------------------------------------------------------- non-vacuity *)
Example c09_ex_bare : emit {| iq := 34; always_quoted := false; extra_kw := [] |} [97; 95; 49] = [97; 95; 49].            (* a_1 *)
Proof. vm_compute. reflexivity. Qed.
Example c09_ex_upper : emit {| iq := 34; always_quoted := false; extra_kw := [] |} [65] = [34; 65; 34].                    (* A -> ''A'' *)
Proof. vm_compute. reflexivity. Qed.
Example c09_ex_keyword : emit {| iq := 96; always_quoted := false; extra_kw := [] |} [115;101;108;101;99;116] = [96;115;101;108;101;99;116;96].
Proof. vm_compute. reflexivity. Qed.
Example c09_ex_quote : emit {| iq := 34; always_quoted := false; extra_kw := [] |} [97; 34; 98] = [34; 97; 34; 34; 98; 34].  (* a''b -> ''a''''b'' *)
Proof. vm_compute. reflexivity. Qed.
Example c09_ex_regen : regen 5 [116] [[116;48]; [116;49]] None 0 = Some ([116;50], 3).
Proof. vm_compute. reflexivity. Qed.
Example c09_ex_rows : find_dialect [115;113;108;105;116;101] rows = Some ([115;113;108;105;116;101], 34, false).
Proof. vm_compute. reflexivity. Qed.
Example c09_ex_dollar : emit {| iq := 34; always_quoted := false; extra_kw := [] |} [36; 97] = [34; 36; 97; 34].              (* $a is quoted *)
Proof. vm_compute. reflexivity. Qed.
Example c09_ex_two_quotes : emit {| iq := 34; always_quoted := false; extra_kw := [] |} [97; 34; 34; 98] = [34; 97; 34; 34; 34; 34; 98; 34].
Proof. vm_compute. reflexivity. Qed.

(* C09 -- identifiers are referenced verbatim; generated names never capture user names.
   Only statements here; proofs are in Proofs/IdentProofs.v, Proofs/NameGenProofs.v, Proofs/EscapeProofs.v.
   Models: Model/Ident.v (translate_ident_part; reading side = Model/SqlLex.v), Model/Escape.v (sqlparser's quote
   doubling), Model/NameGen.v (NameGenerator and the three collision-avoidance sites).
   Tables: Gen/GenKeywords.v (keyword lists, valid_ident classes, SQLite's own keyword table) and
   Gen/GenIdentDialect.v (quote character / quoting style per dialect, generator prefixes), regenerated on every run. *)
From Coq Require Import List NArith Bool.
From PV Require Import Lib.ListX Model.Escape Model.SqlLex Model.Literal Model.Ident Model.NameGen
                       Proofs.EscapeProofs Proofs.IdentProofs Proofs.NameGenProofs
                       Gen.GenKeywords Gen.GenIdentDialect.
Import ListNotations.
Local Open Scope N_scope.

Notation istart := GenKeywords.ident_start.
Notation irest := GenKeywords.ident_rest.
Notation common := GenKeywords.common_keywords.
Notation extra := GenKeywords.dialect_keywords.
Notation rows := GenIdentDialect.ident_dialects.
Notation emit := (emit_ident istart irest common).

(* ---------------------------------------------------------------- table obligations *)

(* every character valid_ident admits is an identifier character of the SQL lexer (a letter or _ first --
   $ being the recorded exception F32 --, letters digits _ $ after) and is its own lower-case form: so a bare
   emission only ever happens for names that survive case folding (why upper-case names must be quoted) *)
Theorem c09_ident_classes_ok : classes_ok istart irest = true.
Proof. vm_compute. reflexivity. Qed.
Print Assumptions c09_ident_classes_ok.

(* every dialect quotes with the double quote or the backtick (sqlparser's Display handles exactly those and ') *)
Theorem c09_quote_chars_ok : quotes_ok rows = true.
Proof. vm_compute. reflexivity. Qed.
Print Assumptions c09_quote_chars_ok.

(* every word in SQLite's own keyword table (the engine the checks execute on) is in the set prqlc consults *)
Theorem c09_sqlite_keywords_covered : keywords_cover GenKeywords.sqlite_engine_keywords common = true.
Proof. vm_compute. reflexivity. Qed.
Print Assumptions c09_sqlite_keywords_covered.

(* the hand lists of keywords.rs cover themselves: the sqlite list in the source is the engine's list *)
Theorem c09_sqlite_list_is_engine_list :
  keywords_cover GenKeywords.sqlite_keywords GenKeywords.sqlite_engine_keywords &&
  keywords_cover GenKeywords.sqlite_engine_keywords GenKeywords.sqlite_keywords = true.
Proof. vm_compute. reflexivity. Qed.
Print Assumptions c09_sqlite_list_is_engine_list.

(* the generator prefixes are the documented ones and differ (table names and column names never collide by prefix) *)
Theorem c09_prefixes : GenIdentDialect.table_prefix = [116;97;98;108;101;95] /\ GenIdentDialect.col_prefix = [95;101;120;112;114;95].
Proof. vm_compute. split; reflexivity. Qed.
Print Assumptions c09_prefixes.

(* ---------------------------------------------------------------- identifiers *)

(* FULL STATEMENT (false of the unchanged tree, findings F18 and F32):
     ident_roundtrip : forall row k s, In row rows -> no backtick in s ->
        ident_denotes k q (emit (identd_of extra row) s) = Some s
   ''the emitted text is one identifier token that names exactly s''. *)

(* F18: a name containing two adjacent double quotes is emitted with them un-doubled: ''a''''b'' names a''b *)
Theorem ident_roundtrip_refuted :
  exists s, ident_denotes FoldNone 34 (emit {| iq := 34; always_quoted := false; extra_kw := [] |} s) <> Some s.
Proof. exists [97; 34; 34; 98]. vm_compute. discriminate. Qed.
Print Assumptions ident_roundtrip_refuted.

(* F18: two different names are emitted as the same text *)
Theorem ident_merge_refuted :
  exists s1 s2, s1 <> s2 /\ emit_quoted 34 s1 = emit_quoted 34 s2.
Proof. exists [97; 34; 34; 98], [97; 34; 98]. split; [discriminate | vm_compute; reflexivity]. Qed.
Print Assumptions ident_merge_refuted.

(* F18: backslash-quote: the emitted text is not one identifier *)
Theorem ident_backslash_quote_refuted :
  exists s, sql_lex std_sql (emit_quoted 34 s) = [TQuoted 34 [97; 92]; TWord [98]; TUnterminated].
Proof. exists [97; 92; 34; 98]. vm_compute. reflexivity. Qed.
Print Assumptions ident_backslash_quote_refuted.

(* F32: a name starting with $ passes valid_ident and is emitted bare; no SQL lexer reads $a as an identifier
   (SQLite and PostgreSQL read a parameter) *)
Theorem ident_dollar_refuted :
  exists s, emit {| iq := 34; always_quoted := false; extra_kw := [] |} s = s /\ sql_lex std_sql s = [TPunct 36; TWord [97]].
Proof. exists [36; 97]. split; vm_compute; reflexivity. Qed.
Print Assumptions ident_dollar_refuted.

(* PARTIAL: for every dialect row of the source, every folding behaviour except upper-casing of bare words
   (unless the dialect always quotes), and EVERY name outside the known classes (contains neither q q nor
   backslash q for the dialect's quote character q; does not start with $; is not the wildcard star) *)
Theorem ident_roundtrip_partial : forall row k s,
  In row rows -> (k = FoldUpper -> snd row = true) ->
  esc_known (snd (fst row)) s = false -> is_star s = false -> starts_with 36 s = false ->
  ident_denotes k (snd (fst row)) (emit (identd_of extra row) s) = Some s.
Proof. exact (ident_roundtrip_rows istart irest common extra rows c09_ident_classes_ok c09_quote_chars_ok). Qed.
Print Assumptions ident_roundtrip_partial.

Theorem bare_implies_casefold_fixpoint : forall s, valid_ident istart irest s = true -> lower_ascii s = s.
Proof. exact (fun s => bare_casefold_fixpoint istart irest s c09_ident_classes_ok). Qed.
Print Assumptions bare_implies_casefold_fixpoint.

(* a name that is a keyword of the executing engine, in any letter case, is never emitted bare *)
Theorem keyword_is_quoted : forall d s,
  mem_str (upper_ascii s) GenKeywords.sqlite_engine_keywords = true ->
  emit d s = emit_quoted (iq d) s /\ starts_with (iq d) (emit d s) = true.
Proof. exact (keyword_quoted_rows istart irest common GenKeywords.sqlite_engine_keywords c09_sqlite_keywords_covered). Qed.
Print Assumptions keyword_is_quoted.

(* the proposed repair (double the quote characters before handing the name to sqlparser) gives the full statement
   for the quoted form *)
Theorem ident_quoted_fixed : forall d q s, (q = 34 \/ q = 96) -> sql_lex d (emit_quoted_fixed q s) = [TQuoted q s].
Proof. exact quoted_fixed_lexes_as_name. Qed.
Print Assumptions ident_quoted_fixed.

(* ---------------------------------------------------------------- generated names *)

(* the regenerate-until-unused loop (assign_names, RelVarNameAssigner): whatever comes out is not in the used set,
   something always comes out, and a name that was free is kept as it is *)
Theorem generated_names_fresh : forall p used fuel cur n nm n',
  regen fuel p used cur n = Some (nm, n') -> ~ In nm used.
Proof. exact regen_fresh. Qed.
Print Assumptions generated_names_fresh.

Theorem generated_names_terminate : forall p used cur n,
  exists nm n', regen (S (S (length used))) p used cur n = Some (nm, n').
Proof. exact regen_terminates. Qed.
Print Assumptions generated_names_terminate.

Theorem user_names_kept : forall p used fuel nm n, ~ In nm used -> regen fuel p used (Some nm) n = Some (nm, n).
Proof. exact regen_keeps. Qed.
Print Assumptions user_names_kept.

(* CTE names / FROM aliases of one scope are pairwise distinct, for every list of declared-or-missing names *)
Theorem generated_table_names_fresh : forall p decls n,
  exists l n', assign_names p decls [] n = Some (l, n') /\ NoDup l /\ length l = length decls.
Proof. exact assign_names_fresh. Qed.
Print Assumptions generated_table_names_fresh.

Theorem user_table_name_kept : forall p nm ds names n l n',
  ~ In nm names -> assign_names p (Some nm :: ds) names n = Some (l, n') -> exists l', l = nm :: l'.
Proof. exact assign_names_keeps_user. Qed.
Print Assumptions user_table_name_kept.

(* FULL STATEMENT (false, finding F31):
     generated_column_names_fresh : forall cols n, NoDup (somes (fst (split_names col_prefix cols [] n))).
   anchor_split replaces a duplicate by ONE generated name without checking it: *)
Theorem generated_column_names_refuted :
  exists cols n, ~ NoDup (somes (fst (split_names GenIdentDialect.col_prefix cols [] n))).
Proof.
  exists [Some (GenIdentDialect.col_prefix ++ [48]); Some [105; 100]; Some [105; 100]], 0.
  vm_compute. apply not_nodup_witness. right. left. reflexivity.
Qed.
Print Assumptions generated_column_names_refuted.

(* PARTIAL: when no column at the split is spelled like a name the generator can still produce *)
Theorem generated_column_names_partial : forall p cols n,
  (forall k, n <= k -> ~ In (Some (gen_name p k)) cols) ->
  NoDup (somes (fst (split_names p cols [] n))).
Proof. exact split_names_nodup. Qed.
Print Assumptions generated_column_names_partial.

(* the repair (the same loop as in assign_names) is collision-free for all inputs *)
Theorem generated_column_names_fixed : forall p cols n l n',
  split_names_fixed p cols [] n = Some (l, n') -> NoDup (somes l).
Proof. exact split_names_fixed_nodup. Qed.
Print Assumptions generated_column_names_fixed.

(* ---------------------------------------------------------------- non-vacuity *)
Example c09_ex_bare : emit {| iq := 34; always_quoted := false; extra_kw := [] |} [97; 95; 49] = [97; 95; 49].            (* a_1 *)
Proof. vm_compute. reflexivity. Qed.
Example c09_ex_upper : emit {| iq := 34; always_quoted := false; extra_kw := [] |} [65] = [34; 65; 34].                    (* A -> ''A'' *)
Proof. vm_compute. reflexivity. Qed.
Example c09_ex_keyword : emit {| iq := 96; always_quoted := false; extra_kw := [] |} [115;101;108;101;99;116] = [96;115;101;108;101;99;116;96].
Proof. vm_compute. reflexivity. Qed.
Example c09_ex_quote : emit {| iq := 34; always_quoted := false; extra_kw := [] |} [97; 34; 98] = [34; 97; 34; 34; 98; 34].  (* a''b -> ''a''''b'' *)
Proof. vm_compute. reflexivity. Qed.
Example c09_ex_regen : regen 5 [116] [[116;48]; [116;49]] None 0 = Some ([116;50], 3).
Proof. vm_compute. reflexivity. Qed.
Example c09_ex_rows : find_dialect [115;113;108;105;116;101] rows = Some ([115;113;108;105;116;101], 34, false).
Proof. vm_compute. reflexivity. Qed.

(* C01 -- compiled SQL returns the relation the PRQL pipeline denotes.
   Statements only.  Three layers (DESIGN.md section 4 and 5/C01):
   (a) the reference semantics Model/Rel.v and the edge cases the property names;
   (b) Theta-2: one SELECT assembled in SQL's clause order means what the pipeline segment means
       (rung 1: filters/sorts interleaved around one aggregate, then takes; rung 2: plain computes
       anywhere, by inlining), and composition of take ranges;
   (c) the split decision translated from sql/pq/anchor.rs (Gen/GenSplit.v) never lets a transform
       join a SELECT in front of a transform SQL would evaluate before it -- for ALL following-sets --
       and therefore (inductive theorem) every atomic segment cut off by the back-to-front walk is
       clause-ordered, for pipelines of any length.
   The resolver and the rest of the back end are tied by the end-to-end oracle, not by proof. *)
From Coq Require Import List ZArith QArith NArith Bool Permutation.
From PV Require Import Model.Rel Proofs.RelFacts Model.SplitBase Gen.GenSplit Proofs.SplitProofs Proofs.Theta2 Proofs.Theta2c Proofs.SegmentSound Proofs.SegmentDistinct Model.SelectPluck Proofs.PluckSound Model.SplitOff Proofs.SplitOffProofs Model.Preprocess Proofs.PreprocessProofs Proofs.SetRewrites.
Import ListNotations.

(* ---- (c) table obligation on what anchor.rs says NOW ---- *)
(* Pairs the tree still gets wrong (known findings; see known_findings.d/relational.json):
   F19  a Take WITHOUT a sort of its own may join a SELECT in front of Distinct / DistinctOn (SELECT DISTINCT .. LIMIT n:
        DISTINCT is evaluated first).  Pinned by the upstream snapshot test_mssql_distinct_fetch.  When no order is in effect
        any n rows are a correct answer and DISTINCT-then-LIMIT returns one of them; the pair is observable when the order
        comes from a let-bound table (the take's own `sort` is empty there).
   and three latent pairs of the same family (a set operation in front of DistinctOn; today the operand of a set
   operation always arrives wrapped, so no program reaches them).
   Repaired: Distinct and DistinctOn no longer share a SELECT (3561315: `c01_split_distinct_pairs_closed`); a take that
   carries a sort (kind KTakeSorted) splits in front of Distinct / DistinctOn (d060422: `c01_split_sorted_take_closed`). *)
Definition known_bad : list (kind * nm) :=
  [ (KTake, NDistinct); (KTake, NDistinctOn);
    (KUnion, NDistinctOn); (KExcept, NDistinctOn); (KIntersect, NDistinctOn) ].

(* full statement (FALSE on the unchanged tree):  bad_pairs split_required = []  *)
Theorem c01_split_table_refines_clause_order_partial :
  pairs_subset (bad_pairs split_required) known_bad = true.
Proof. vm_compute. reflexivity. Qed.
Print Assumptions c01_split_table_refines_clause_order_partial.

(* every pair of the list really is let through against the clause order (so the list is exact: a repair of any of
   them breaks this obligation and forces the list to shrink), with the F19 witness spelled out *)
Theorem c01_split_table_refuted :
  pairs_subset known_bad (bad_pairs split_required) = true /\
  split_required KTake [NDistinct] = false /\ may_precede KTake NDistinct = false.
Proof. vm_compute. repeat split; reflexivity. Qed.
Print Assumptions c01_split_table_refuted.

(* full strength for the DISTINCT / DISTINCT ON pairs (false before fix 3561315): for every following-set, neither
   joins a SELECT that already holds the other *)
Theorem c01_split_distinct_pairs_closed :
  forallb (fun f => (negb (mem NDistinct f) || split_required KDistinctOn f) &&
                    (negb (mem NDistinctOn f) || split_required KDistinct f)) (subsets all_names) = true.
Proof. vm_compute. reflexivity. Qed.
Print Assumptions c01_split_distinct_pairs_closed.

(* full strength for the take that carries a sort (false before fix d060422): for every following-set, it never joins a
   SELECT that holds a Distinct or a DistinctOn -- and the table check lets it precede nothing it may not precede at all *)
Theorem c01_split_sorted_take_closed :
  forallb (fun f => (negb (mem NDistinct f || mem NDistinctOn f) || split_required KTakeSorted f) &&
                    (split_required KTakeSorted f || forallb (may_precede KTakeSorted) f)) (subsets all_names) = true.
Proof. vm_compute. reflexivity. Qed.
Print Assumptions c01_split_sorted_take_closed.

(* any decision function that passes the table check cuts clause-ordered segments, at any length *)
Theorem c01_split_back_clause_ordered :
  forall (split : kind -> list nm -> bool) (records : kind -> bool),
  (forall k, records k = match k with KComputeAgg => false | _ => true end) ->
  (forall k f y, split k f = false -> In y f -> may_precede k y = true) ->
  forall p pre seg, split_back split records (rev p) [] [] = (pre, seg) ->
  clause_ordered seg = true /\ pre ++ seg = p.
Proof.
  intros split records Hr Ht p pre seg H. split.
  - exact (split_back_clause_ordered split records Hr Ht p pre seg H).
  - exact (split_back_partition split records p pre seg H).
Qed.
Print Assumptions c01_split_back_clause_ordered.

(* the code's function with the known-bad pairs closed satisfies the hypothesis (non-vacuity, and the
   statement that holds once F19 is repaired) *)
Definition split_repaired (k : kind) (f : list nm) : bool :=
  split_required k f || existsb (fun y => existsb (pair_eqb (k, y)) known_bad) f.
Theorem c01_split_repaired_table_ok : bad_pairs split_repaired = [].
Proof. vm_compute. reflexivity. Qed.
Print Assumptions c01_split_repaired_table_ok.

(* ---- (b) Theta-2 ---- *)
Theorem c01_atomic_sound : forall (row : Type) (q : Theta2.select row) (base : Theta2.rel row),
  Forall (Theta2.good_fs row) (Theta2.pre row q) ->
  (match Theta2.aggr row q with Some (g, post) => Theta2.agg_ok row g /\ Forall (Theta2.good_fs row) post | None => True end) ->
  Forall Theta2.valid (Theta2.takes row q) ->
  Theta2.sem_select row q base = Theta2.sem_pipeline row q base.
Proof. exact Theta2.atomic_sound. Qed.
Print Assumptions c01_atomic_sound.

Theorem c01_compose_sound : forall (row : Type) (r1 r2 : Theta2.range) (l : Theta2.rel row), Theta2.valid r1 -> Theta2.valid r2 ->
  Theta2.take_range row (Theta2.compose r1 r2) l = Theta2.take_range row r2 (Theta2.take_range row r1 l).
Proof. exact Theta2.compose_sound. Qed.
Print Assumptions c01_compose_sound.

Theorem c01_filters_sorts_normal_form : forall (row : Type) (xs : list (Theta2.fs row)), Forall (Theta2.good_fs row) xs -> forall l,
  Theta2.run_fs row xs l = Theta2.sort_opt row (Theta2.last_sort row xs) (filter (Theta2.preds row xs) l).
Proof. exact Theta2.run_fs_normal. Qed.
Print Assumptions c01_filters_sorts_normal_form.

Theorem c01_computes_inline : forall (V opn : Type) (evop : opn -> list V -> V) (dflt : V) (istrue : V -> bool)
  (p : list (Theta2c.tr V opn)) (D : Theta2c.decls opn) (base : list (Theta2c.row V)),
  Theta2c.run V opn evop dflt istrue p (map (Theta2c.extend V opn evop dflt D) base) =
  let (k, D') := Theta2c.skeleton V opn D p in map (Theta2c.extend V opn evop dflt D') (Theta2c.run V opn evop dflt istrue k base).
Proof. exact Theta2c.run_skeleton. Qed.
Print Assumptions c01_computes_inline.

(* (b)+(c) joined: a segment of filters, sorts, one aggregation and takes whose KINDS are clause-ordered
   (what c01_split_back_clause_ordered guarantees for every segment the splitter cuts off) assembles into
   a SELECT -- WHERE / GROUP BY / HAVING / last ORDER BY / composed LIMIT-OFFSET -- that returns exactly
   what running the segment transform by transform returns *)
Theorem c01_clause_ordered_segment_sound : forall (row : Type) (p : list (SegmentSound.tr row)),
  Forall (SegmentSound.good_tr row) p -> clause_ordered (map (SegmentSound.kind_of row) p) = true ->
  forall base, Theta2.sem_select row (SegmentSound.assemble row p) base = SegmentSound.run_flat row p base.
Proof. exact SegmentSound.clause_ordered_segment_sound. Qed.
Print Assumptions c01_clause_ordered_segment_sound.

(* the same with DISTINCT (SqlTransform::Distinct) in the segment: SELECT DISTINCT .. WHERE .. GROUP BY .. HAVING ..
   ORDER BY .. LIMIT; rows carry any decidable equality; DISTINCT keeps the first of equal rows *)
Theorem c01_clause_ordered_segment_distinct_sound : forall (row : Type) (eqb : row -> row -> bool),
  (forall x y, eqb x y = true <-> x = y) ->
  forall p : list (SegmentDistinct.trd row),
  Forall (SegmentDistinct.good_d row) p -> clause_ordered (map (SegmentDistinct.kind_d row) p) = true ->
  forall base, SegmentDistinct.sem_select_d row eqb (SegmentSound.assemble row (SegmentDistinct.strip row p)) (SegmentDistinct.has_d row p) base
               = SegmentDistinct.run_d row eqb p base.
Proof. exact SegmentDistinct.segment_d_sound. Qed.
Print Assumptions c01_clause_ordered_segment_distinct_sound.

(* DISTINCT commutes with ORDER BY (why the ORDER BY of a SELECT DISTINCT may come from a sort in front of it) *)
Theorem c01_distinct_commutes_with_sort : forall (row : Type) (eqb : row -> row -> bool),
  (forall x y, eqb x y = true <-> x = y) -> forall c, Theta2.good row c -> forall l,
  SegmentDistinct.dd row eqb (Theta2.isort row c l) = Theta2.isort row c (SegmentDistinct.dd row eqb l).
Proof. exact SegmentDistinct.dd_isort. Qed.
Print Assumptions c01_distinct_commutes_with_sort.

(* joins in front (FROM base JOIN ..): the SELECT evaluates them before everything else; and clause order lets
   nothing but (hoisted) sorts in front of a join *)
Theorem c01_segment_join_distinct_sound : forall (row : Type) (eqb : row -> row -> bool),
  (forall x y, eqb x y = true <-> x = y) ->
  forall (js : list (Theta2.rel row -> Theta2.rel row)) (q : list (SegmentDistinct.trd row)),
  Forall (SegmentDistinct.good_d row) q ->
  clause_ordered (map (SegmentDistinct.kind_j row) (map (SegmentDistinct.J row) js ++ map (SegmentDistinct.NJ row) q)) = true ->
  forall base,
    SegmentDistinct.sem_select_d row eqb (SegmentSound.assemble row (SegmentDistinct.strip row q)) (SegmentDistinct.has_d row q)
      (SegmentDistinct.run_joins row js base)
    = SegmentDistinct.run_j row eqb (map (SegmentDistinct.J row) js ++ map (SegmentDistinct.NJ row) q) base.
Proof. exact SegmentDistinct.segment_join_d_sound. Qed.
Print Assumptions c01_segment_join_distinct_sound.
Theorem c01_only_sorts_before_join : forall (row : Type) a t b j,
  clause_ordered (map (SegmentDistinct.kind_j row) (a ++ SegmentDistinct.NJ row t :: b)) = true -> In (SegmentDistinct.J row j) b ->
  exists c, t = SegmentDistinct.Old row (SegmentSound.TS row c).
Proof. exact SegmentDistinct.only_sorts_before_join. Qed.
Print Assumptions c01_only_sorts_before_join.

(* ---- (c') the CODE's split loop.  Model/SplitOff.v mirrors split_off_back with everything it consults (get_requirements,
   infer_complexity, can_materialize, the bookkeeping of required / available / selected / missing columns); the decision table
   is a parameter -- the check plugs in the function translated from the source (Gen/GenSplit.v) and compares the model with
   every real call (hook 3aa4f6d).  For every decision table, every pipeline and every requested output: *)
(* nothing is lost or reordered, and the atomic pipeline is the consumed suffix without its Selects, under the new Select *)
Theorem c01_split_off_back_partition : forall split records pipeline output,
  let r := SplitOff.split_off_back split records pipeline output in
  exists remaining suffix, pipeline = remaining ++ suffix /\
    res_atomic r = TSelect (res_select r) :: filter SplitOffProofs.notsel suffix /\
    res_remaining_len r = match remaining with [] => None | _ => Some (Datatypes.S (length remaining)) end.
Proof. exact SplitOffProofs.split_off_back_partition. Qed.
Print Assumptions c01_split_off_back_partition.

(* ... and, for a table that passes the check of (c), the kinds of the consumed suffix are clause-ordered whatever made the walk
   stop (the table or a requirement): the link between the full loop and c01_split_back_clause_ordered *)
Theorem c01_split_off_back_clause_ordered : forall split records,
  (forall k, records k = match k with KComputeAgg => false | _ => true end) ->
  (forall k f y, split k f = false -> In y f -> may_precede k y = true) ->
  forall pipeline output,
  let r := SplitOff.split_off_back split records pipeline output in
  exists remaining suffix, pipeline = remaining ++ suffix /\
    res_atomic r = TSelect (res_select r) :: filter SplitOffProofs.notsel suffix /\ clause_ordered (map SplitOff.kind_of suffix) = true.
Proof. exact SplitOffProofs.split_off_back_clause_ordered. Qed.
Print Assumptions c01_split_off_back_clause_ordered.

(* every split is forced: by the table, or by a Compute (or a column of an Aggregate) whose complexity exceeds what its users allow *)
Theorem c01_split_off_back_stop_forced : forall split records pipeline output w,
  res_why (SplitOff.split_off_back split records pipeline output) = Some w ->
  exists remaining' t s, (exists suffix, pipeline = remaining' ++ t :: suffix) /\ SplitOffProofs.forced split records s t w.
Proof. exact SplitOffProofs.split_off_back_stop_forced. Qed.
Print Assumptions c01_split_off_back_stop_forced.

(* every column a transform of the atomic pipeline requires is available in it (a column of its From / Joins or a Compute
   materialized in it) or projected by the previous SELECT (`missing`) *)
Theorem c01_split_off_back_requirements_met : forall split records pipeline output,
  let r := SplitOff.split_off_back split records pipeline output in
  forall t, In t (res_atomic r) -> SplitOffProofs.notsel t = true ->
  exists s_t, forall q, In q (get_requirements t (SplitOffProofs.following_after records s_t t) (s_required s_t)) ->
    In (r_col q) (SplitOffProofs.avail_of split records pipeline output) \/ In (r_col q) (res_missing r).
Proof. exact SplitOffProofs.split_off_back_requirements_met. Qed.
Print Assumptions c01_split_off_back_requirements_met.

(* the Select of the atomic pipeline = the requested output followed by what consumed transforms asked to have SELECTed; when
   nothing is added the width is the requested one *)
Theorem c01_split_off_back_select_extends : forall split records pipeline output,
  exists extra, res_select (SplitOff.split_off_back split records pipeline output) = output ++ extra /\
    (extra = [] -> length (res_select (SplitOff.split_off_back split records pipeline output)) = length output).
Proof. exact SplitOffProofs.split_off_back_select_extends. Qed.
Print Assumptions c01_split_off_back_select_extends.
(* Full statement for an atomic pipeline that holds a set operation (FALSE: the anchor's half of finding C07-N12):
     the Select has the width of the requested output (= the width of the other operand)
   refuted on the real call for `from t | sort b | select {a} | append (from u | select {a})`: the Sort's key is SELECTed *)
Theorem c01_setop_operand_width_refuted :
  let r := SplitOff.split_off_back split_required records [TFrom [0; 1]%nat; TSort true [0%nat]; TSelect [1%nat]; TUnion; TSelect [1%nat]] [1%nat] in
  In KUnion (map SplitOff.kind_of (res_atomic r)) /\ res_select r = [1; 0]%nat /\ length (res_select r) <> length [1%nat].
Proof. vm_compute. repeat split; [right; right; right; left; reflexivity | discriminate]. Qed.
Print Assumptions c01_setop_operand_width_refuted.

(* ---- (b') the CODE's clause assembly.  Model/SelectPluck.v mirrors translate_select_pipeline's plucking (which conditions
   go to WHERE / HAVING, the first Aggregate behind the break, the LAST Sort, all Takes, DISTINCT) and is compared field by field
   with every real call (hook 7400a50).  Read as SQL clauses, what it plucks is the SELECT Theta-2 assembles: *)
Theorem c01_pluck_is_assemble : forall (row : Type) (eqb : row -> row -> bool)
  (p : list (SelectPluck.pt (row -> bool) (Theta2.cmp row) (Theta2.agg row) Theta2.range unit)),
  SelectPluck.supported _ _ _ _ _ p = true -> SelectPluck.one_agg _ _ _ _ _ p = true -> SelectPluck.sorts_behind_agg _ _ _ _ _ p = true ->
  forall base, PluckSound.sem_clauses row eqb (SelectPluck.pluck _ _ _ _ _ p) base =
               SegmentDistinct.sem_select_d row eqb (SegmentSound.assemble row (SegmentDistinct.strip row (PluckSound.to_trd row p)))
                 (SegmentDistinct.has_d row (PluckSound.to_trd row p)) base.
Proof. exact PluckSound.pluck_is_assemble. Qed.
Print Assumptions c01_pluck_is_assemble.

(* ... hence a clause-ordered atomic pipeline is translated into a SELECT that returns what the pipeline returns transform by
   transform.  (From / Join / Select carry no clause of their own; DISTINCT ON, set operations and loops are outside Theta-2.) *)
Theorem c01_pluck_sound : forall (row : Type) (eqb : row -> row -> bool), (forall x y, eqb x y = true <-> x = y) ->
  forall p : list (SelectPluck.pt (row -> bool) (Theta2.cmp row) (Theta2.agg row) Theta2.range unit),
  SelectPluck.supported _ _ _ _ _ p = true -> SelectPluck.sorts_behind_agg _ _ _ _ _ p = true ->
  Forall (SegmentDistinct.good_d row) (PluckSound.to_trd row p) ->
  clause_ordered (map (SegmentDistinct.kind_d row) (PluckSound.to_trd row p)) = true ->
  SelectPluck.one_agg _ _ _ _ _ p = true ->
  forall base, PluckSound.sem_clauses row eqb (SelectPluck.pluck _ _ _ _ _ p) base = SegmentDistinct.run_d row eqb (PluckSound.to_trd row p) base.
Proof. exact PluckSound.pluck_sound. Qed.
Print Assumptions c01_pluck_sound.

(* Real pipelines carry the sorts that sort inference re-emits in front of every take and at the end ([Sort k; Take; Sort k]).
   A Sort equal to the one in effect does nothing (`c01_drop_resorts_run`), so the hypotheses are asked of the pipeline without
   them: this is the form judged on every logged call (`SelectPluck.theorem_applies`, linked by `c01_kinds_theta_spec`).
   Reading of `same`: the theorem asks that sort keys it identifies ARE the same comparator.  The check identifies two logged
   sort keys when their columns are copies of one another -- equal after Model/Sorts.v `canon_key`, which follows the redirects
   of the relation instances (the same column behind a sub-query boundary) and Computes that are a bare column reference
   (`derive {x = id}`), read from the context the infer-sorts hook logs.  Such columns hold the same value in every row, so the
   keys order the rows alike (alias_last_sorting re-targets the final ORDER BY to such an alias: `ORDER BY c, x240` behind takes
   that were sorted by `{c, id}`).  Nothing else is identified. *)
Theorem c01_drop_resorts_run : forall (row : Type) (eqb : row -> row -> bool), (forall x y, eqb x y = true <-> x = y) ->
  forall (same : Theta2.cmp row -> Theta2.cmp row -> bool), (forall a b, same a b = true -> a = b) ->
  forall (p : list (SelectPluck.pt (row -> bool) (Theta2.cmp row) (Theta2.agg row) Theta2.range unit)) cur l,
  PluckSound.in_effect row cur l -> (forall c, In c (SelectPluck.sorts _ _ _ _ _ p) -> Theta2.good row c) ->
  SegmentDistinct.run_d row eqb (PluckSound.to_trd row (SelectPluck.drop_resorts _ _ _ _ _ same cur p)) l
  = SegmentDistinct.run_d row eqb (PluckSound.to_trd row p) l.
Proof. exact PluckSound.drop_resorts_run. Qed.
Print Assumptions c01_drop_resorts_run.

Theorem c01_pluck_sound_resorted : forall (row : Type) (eqb : row -> row -> bool), (forall x y, eqb x y = true <-> x = y) ->
  forall (same : Theta2.cmp row -> Theta2.cmp row -> bool), (forall a b, same a b = true -> a = b) ->
  forall p : list (SelectPluck.pt (row -> bool) (Theta2.cmp row) (Theta2.agg row) Theta2.range unit),
  SelectPluck.supported _ _ _ _ _ (SelectPluck.drop_resorts _ _ _ _ _ same None p) = true ->
  SelectPluck.sorts_behind_agg _ _ _ _ _ (SelectPluck.drop_resorts _ _ _ _ _ same None p) = true ->
  Forall (SegmentDistinct.good_d row) (PluckSound.to_trd row p) ->
  clause_ordered (map (SegmentDistinct.kind_d row) (PluckSound.to_trd row (SelectPluck.drop_resorts _ _ _ _ _ same None p))) = true ->
  SelectPluck.one_agg _ _ _ _ _ (SelectPluck.drop_resorts _ _ _ _ _ same None p) = true ->
  forall base, PluckSound.sem_clauses row eqb (SelectPluck.pluck _ _ _ _ _ p) base = SegmentDistinct.run_d row eqb (PluckSound.to_trd row p) base.
Proof. exact PluckSound.pluck_sound_resorted. Qed.
Print Assumptions c01_pluck_sound_resorted.

Theorem c01_kinds_theta_spec : forall (row : Type) (p : list (SelectPluck.pt (row -> bool) (Theta2.cmp row) (Theta2.agg row) Theta2.range unit)),
  map (SegmentDistinct.kind_d row) (PluckSound.to_trd row p) = SelectPluck.kinds_theta _ _ _ _ _ p.
Proof. exact PluckSound.kinds_theta_spec. Qed.
Print Assumptions c01_kinds_theta_spec.

(* ---- (d) the rewrites of preprocess.rs into DISTINCT / INTERSECT / EXCEPT.  Model/Preprocess.v holds the recognisers'
   decisions (compared with every pass of every compile through the hook 8fb8a9c); here: what the two sides MEAN on rows
   (abstract rows, `eqb` = row equality as set operations see it, `m` = the join condition, `agree` = they coincide on the rows at
   hand, i.e. no NULL keys), and what a positive decision guarantees. *)
(* group {keys} (take 1) is a DISTINCT when equal keys mean equal rows -- i.e. the keys are all live columns (fix bc8ad7d) *)
Theorem c01_group_take1_is_distinct : forall (row : Type) (eqb : row -> row -> bool) (key : Type) (keq : key -> key -> bool) (kof : row -> key),
  (forall x y, keq (kof x) (kof y) = eqb x y) -> forall l, SetRewrites.group_take1 row key keq kof l = SetRewrites.dd row eqb l.
Proof. exact SetRewrites.group_take1_is_distinct. Qed.
Print Assumptions c01_group_take1_is_distinct.
Theorem c01_group_take1_is_distinct_refuted :
  let eqb2 := fun x y : nat * nat => Nat.eqb (fst x) (fst y) && Nat.eqb (snd x) (snd y) in
  SetRewrites.group_take1 (nat * nat) nat Nat.eqb fst [(1, 1); (1, 2)]%nat <> SetRewrites.dd (nat * nat) eqb2 [(1, 1); (1, 2)]%nat.
Proof. exact SetRewrites.group_take1_is_distinct_refuted. Qed.
Print Assumptions c01_group_take1_is_distinct_refuted.

(* inner join on all columns keeping the top columns, with a DISTINCT BEHIND it, is INTERSECT DISTINCT *)
Theorem c01_inner_join_then_distinct_is_intersect : forall (row : Type) (eqb : row -> row -> bool), (forall x y, eqb x y = true <-> x = y) ->
  forall (m : row -> row -> bool) top bottom, SetRewrites.agree row eqb m top bottom ->
  SetRewrites.dd row eqb (SetRewrites.inner_keep_top row m top bottom) = SetRewrites.intersect_distinct row eqb top bottom.
Proof. exact SetRewrites.inner_join_then_distinct_is_intersect. Qed.
Print Assumptions c01_inner_join_then_distinct_is_intersect.

(* Full statement for a DISTINCT IN FRONT of the join (what intersect_inner also accepts; FALSE: finding F41):
     agree top bottom -> inner_keep_top (dd top) bottom = intersect_distinct top bottom
   partial: the bottom relation must be duplicate-free, which the code does not ask *)
Theorem c01_distinct_then_inner_join_is_intersect_partial : forall (row : Type) (eqb : row -> row -> bool), (forall x y, eqb x y = true <-> x = y) ->
  forall (m : row -> row -> bool) top bottom, SetRewrites.agree row eqb m top bottom -> NoDup bottom ->
  SetRewrites.inner_keep_top row m (SetRewrites.dd row eqb top) bottom = SetRewrites.intersect_distinct row eqb top bottom.
Proof. exact SetRewrites.distinct_then_inner_join_is_intersect. Qed.
Print Assumptions c01_distinct_then_inner_join_is_intersect_partial.
Theorem c01_distinct_then_inner_join_is_intersect_refuted :
  SetRewrites.inner_keep_top nat Nat.eqb (SetRewrites.dd nat Nat.eqb [1; 2]%nat) [1; 1]%nat <> SetRewrites.intersect_distinct nat Nat.eqb [1; 2]%nat [1; 1]%nat.
Proof. exact SetRewrites.distinct_then_inner_join_refuted. Qed.
Print Assumptions c01_distinct_then_inner_join_is_intersect_refuted.
(* ... and `agree` itself fails with a NULL key (0 plays NULL: `==` never matches it, INTERSECT does) *)
Theorem c01_inner_join_null_key_refuted :
  let m := fun r u => negb (Nat.eqb r 0) && Nat.eqb r u in
  SetRewrites.dd nat Nat.eqb (SetRewrites.inner_keep_top nat m [0; 1]%nat [0; 1]%nat) <> SetRewrites.intersect_distinct nat Nat.eqb [0; 1]%nat [0; 1]%nat.
Proof. exact SetRewrites.inner_join_null_key_refuted. Qed.
Print Assumptions c01_inner_join_null_key_refuted.

(* left join + filter (bottom == null) keeping the top columns = anti-join; with a DISTINCT (in front or behind) it is EXCEPT DISTINCT *)
Theorem c01_anti_join_is_except_distinct : forall (row : Type) (eqb : row -> row -> bool), (forall x y, eqb x y = true <-> x = y) ->
  forall (m : row -> row -> bool) top bottom, SetRewrites.agree row eqb m top bottom ->
  SetRewrites.dd row eqb (SetRewrites.anti_join row m top bottom) = SetRewrites.except_distinct row eqb top bottom /\
  SetRewrites.anti_join row m (SetRewrites.dd row eqb top) bottom = SetRewrites.except_distinct row eqb top bottom.
Proof. exact SetRewrites.anti_join_is_except_distinct. Qed.
Print Assumptions c01_anti_join_is_except_distinct.
(* without a DISTINCT the code emits EXCEPT ALL (where the dialect has it), which subtracts multiplicities (finding F48):
   full statement FALSE:  agree top bottom -> anti_join top bottom = except_all top bottom *)
Theorem c01_anti_join_is_except_all_refuted :
  SetRewrites.anti_join nat Nat.eqb [1; 1]%nat [1]%nat <> SetRewrites.except_all nat Nat.eqb [1; 1]%nat [1]%nat.
Proof. exact SetRewrites.anti_join_is_except_all_refuted. Qed.
Print Assumptions c01_anti_join_is_except_all_refuted.

(* what a positive decision of the recognisers guarantees (the structural half of `agree`: the condition pairs the columns
   position by position and tests nothing else; no bottom column is used afterwards; DISTINCT flag from the neighbours) *)
Theorem c01_intersect_decision_yes : forall top bottom output used cond db da ia w d,
  intersect_decision top bottom output used cond db da ia w = Yes d ->
  is_exact_pairing top bottom cond = true /\
  existsb (fun c => memn c output) bottom = false /\ existsb (fun c => memn c used) bottom = false /\
  d = (db || da) /\ (d = false -> ia = true).
Proof. exact PreprocessProofs.intersect_yes. Qed.
Print Assumptions c01_intersect_decision_yes.
Theorem c01_except_decision_yes : forall top bottom output used cond filter db ea w d,
  except_decision top bottom output used cond filter db ea w = Yes d ->
  is_exact_pairing top bottom cond = true /\ only_equals filter = true /\ all_null (snd (collect_equals filter)) = true /\
  existsb (fun c => memn c output) bottom = false /\ existsb (fun c => memn c used) bottom = false /\
  d = db /\ (d = false -> ea = true).
Proof. exact PreprocessProofs.except_yes. Qed.
Print Assumptions c01_except_decision_yes.
Theorem c01_distinct_decision_yes : forall f se cif part ub db don,
  distinct_decision f se cif part ub db don = DDistinct ->
  f = true /\ se = true /\ same_elements cif part = true /\ only_these_used ub db part = true.
Proof. exact PreprocessProofs.distinct_yes. Qed.
Print Assumptions c01_distinct_decision_yes.

(* ---- (a) the edge cases the property names, as facts of the reference semantics ---- *)
Theorem c01_agg_one_row : forall cols l, length (Rel.apply (Rel.TAggregate cols) l) = 1%nat.
Proof. exact agg_one_row. Qed.
Print Assumptions c01_agg_one_row.
Theorem c01_group_empty_no_rows : forall by_ cols, Rel.apply (Rel.TGroupAgg by_ cols) [] = [].
Proof. exact group_empty_no_rows. Qed.
Print Assumptions c01_group_empty_no_rows.
Theorem c01_count_counts_nulls : forall vs, Rel.agg_apply ACount vs = VInt (Z.of_nat (length vs)).
Proof. exact count_counts_nulls. Qed.
Print Assumptions c01_count_counts_nulls.
Theorem c01_sum_all_null_zero : forall vs, (forall v, In v vs -> v = VNull) -> Rel.agg_apply ASum vs = VInt 0%Z.
Proof. exact sum_all_null_zero. Qed.
Print Assumptions c01_sum_all_null_zero.

(* non-vacuity *)
Example c01_ex_count : Rel.agg_apply ACount [VNull; VInt 3%Z; VNull] = VInt 3%Z.
Proof. reflexivity. Qed.
Example c01_ex_segment : clause_ordered [KFrom; KJoin; KFilter; KCompute; KComputeAgg; KAggregate; KFilter; KSort; KTake; KTake] = true.
Proof. vm_compute. reflexivity. Qed.
Example c01_ex_bad_segment : clause_ordered [KFrom; KTake; KFilter] = false.
Proof. vm_compute. reflexivity. Qed.
(* F25 at model level (inputs = the real call for `from t | aggregate {x = min a} | aggregate {n = count x}`): nothing downstream
   requires the aggregate's column, so it is neither selected nor materialized -- the SELECT of the aggregating pipeline is empty *)
Example c01_ex_f25_model :
  let r := SplitOff.split_off_back split_required records
             [TFrom [0%nat]; TCompute (mkCompute 2%nat true (XOp [XCol 0%nat]) None); TAggregate [] [2%nat] [Some (mkCompute 2%nat true (XOp [XCol 0%nat]) None)]; TSelect []] [] in
  res_select r = [] /\ map kind_of (res_atomic r) = [KSelect; KFrom; KComputeAgg; KAggregate] /\ res_why r = None.
Proof. vm_compute. repeat split; reflexivity. Qed.
(* a requirement stop: the windowed w = sum b is asked for by a filter at Plain complexity... here by a later Compute *)
Example c01_ex_requirement_stop :
  res_why (SplitOff.split_off_back split_required records
             [TFrom [0%nat; 1%nat]; TCompute (mkCompute 3%nat false (XOp [XCol 1%nat]) (Some (mkWin [] [])));
              TCompute (mkCompute 4%nat false (XOp [XCol 3%nat; XLeaf]) (Some (mkWin [] []))); TSelect [0%nat; 4%nat]] [0%nat; 4%nat]) = Some StopCompute.
Proof. vm_compute. reflexivity. Qed.
(* a stop at an Aggregate (real call, sql.postgres: `group {a} (aggregate {s = sum b}) | group {a} (sort {s} | take 1)`): the
   DISTINCT ON's Sort asks for the aggregate's column at Plain complexity *)
Example c01_ex_stop_aggregate :
  res_why (SplitOff.split_off_back split_required records
     [TFrom [0; 1]%nat; TCompute (mkCompute 3%nat true (XOp [XCol 1%nat]) None); TAggregate [0%nat] [3%nat] [Some (mkCompute 3%nat true (XOp [XCol 1%nat]) None)];
      TSort false [0; 3]%nat; TDistinctOn [0%nat]; TSelect [0; 3]%nat] [0; 3]%nat) = Some StopAggregate.
Proof. vm_compute. reflexivity. Qed.
(* the code's plucking on a concrete pipeline: WHERE [1], GROUP BY 3, HAVING [4], ORDER BY the last sort, both takes *)
Example c01_ex_pluck :
  SelectPluck.pluck nat nat nat nat nat [QSelect; QFrom; QFilter 1%nat; QSort 2%nat; QAggregate 3%nat; QFilter 4%nat; QSort 5%nat; QTake 6%nat; QSort 5%nat; QTake 7%nat]
  = SelectPluck.mkClauses nat nat nat nat nat [1%nat] (Some 3%nat) [4%nat] (Some 5%nat) [6%nat; 7%nat] false [].
Proof. vm_compute. reflexivity. Qed.
(* [Sort k; Take; Sort k; Take; Sort k'] : the re-emitted Sort k goes, the different one stays; the hypotheses hold of the rest *)
Example c01_ex_drop_resorts :
  SelectPluck.drop_resorts nat nat nat nat nat Nat.eqb None [QFrom; QFilter 1%nat; QSort 7%nat; QTake 2%nat; QSort 7%nat; QTake 3%nat; QSort 7%nat]
  = [QFrom; QFilter 1%nat; QSort 7%nat; QTake 2%nat; QTake 3%nat] /\
  SelectPluck.theorem_applies nat nat nat nat nat Nat.eqb [QFrom; QFilter 1%nat; QSort 7%nat; QTake 2%nat; QSort 7%nat; QTake 3%nat; QSort 7%nat] = (true, true, true, true).
Proof. vm_compute. split; reflexivity. Qed.
(* a concrete segment with DISTINCT meeting the hypotheses of c01_clause_ordered_segment_distinct_sound, and its value *)
Example c01_ex_distinct_segment :
  let p := [SegmentDistinct.Old nat (SegmentSound.TF nat (fun x => Nat.ltb 1%nat x));
            SegmentDistinct.Old nat (SegmentSound.TS nat Nat.leb);
            SegmentDistinct.TD nat;
            SegmentDistinct.Old nat (SegmentSound.TS nat (fun x y => Nat.leb y x));
            SegmentDistinct.Old nat (SegmentSound.TT nat (Theta2.Rg (Some 2%nat) (Some 3%nat)))] in
  clause_ordered (map (SegmentDistinct.kind_d nat) p) = true /\
  SegmentDistinct.run_d nat Nat.eqb p [3; 1; 5; 3; 2; 5; 4]%nat = [4; 3]%nat.
Proof. vm_compute. split; reflexivity. Qed.

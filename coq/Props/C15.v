(* C15 -- staged compilation through JSON equals one-shot compile.
   Only statements here.  Models: Model/Json.v, Model/Serde.v, Model/SerdeStaged.v; proofs: Proofs/Serde*.v.
   Gen/GenSerde.v (descriptor environment of every derive(Serialize, Deserialize) type reachable from
   pr::ModuleDef and rq::RelationalQuery) and Gen/GenEntry.v (call chains of lib.rs) are regenerated from
   /repo on every run. *)
From Coq Require Import List NArith ZArith Bool.
From PV Require Import Lib.ListX Model.Json Model.Serde Model.SerdeStaged.
From PV Require Import Proofs.SerdeCodecProofs Proofs.SerdeProofs Proofs.SerdeStaged.
From PV Require Import Gen.GenSerde Gen.GenEntry.
Import ListNotations.

Notation env := GenSerde.env.
Notation dPL := GenSerde.root_pl.
Notation dRQ := GenSerde.root_rq.

(* ---- table obligations on what the source says now ---- *)
Theorem c15_schema_ok : schema_ok env = true.
Proof. vm_compute. reflexivity. Qed.
Print Assumptions c15_schema_ok.

Theorem c15_roots_ok : desc_ok env dPL && desc_ok env dRQ = true.
Proof. vm_compute. reflexivity. Qed.
Print Assumptions c15_roots_ok.

Theorem c15_entry_chains_ok :
  chains_ok GenEntry.compile_parse GenEntry.compile_resolve GenEntry.compile_gen
            GenEntry.staged_parse GenEntry.staged_resolve GenEntry.staged_gen = true.
Proof. vm_compute. reflexivity. Qed.
Print Assumptions c15_entry_chains_ok.

(* ---- the generic round trip (any environment) ---- *)
Theorem c15_serde_roundtrip : forall (E : Serde.env) (d : desc) (v : value),
  schema_ok E = true -> desc_ok E d = true -> wt E d v -> json_ok v = true -> de E d (ser E d v) = Some v.
Proof. intros E d v Hs. exact (serde_roundtrip E Hs d v). Qed.
Print Assumptions c15_serde_roundtrip.

(* ---- instantiated at prqlc's PL and RQ ---- *)
Theorem c15_pl_roundtrip : forall v, wt env dPL v -> json_ok v = true -> de env dPL (ser env dPL v) = Some v.
Proof. intros v. apply (serde_roundtrip_ref env c15_schema_ok). Qed.
Print Assumptions c15_pl_roundtrip.

Theorem c15_rq_roundtrip : forall v, wt env dRQ v -> json_ok v = true -> de env dRQ (ser env dRQ v) = Some v.
Proof. intros v. apply (serde_roundtrip_ref env c15_schema_ok). Qed.
Print Assumptions c15_rq_roundtrip.

(* ---- hand-written codecs ---- *)
Theorem c15_span_codec_roundtrip : forall id s e,
  (id < u16_bound)%N -> (s < usize_bound)%N -> (e < usize_bound)%N -> span_de (span_ser id s e) = Some (id, s, e).
Proof. exact span_codec_roundtrip. Qed.
Print Assumptions c15_span_codec_roundtrip.

Theorem c15_ident_codec_roundtrip : forall p n, ident_de (ident_ser p n) = Some (p, n).
Proof. exact ident_codec_roundtrip. Qed.
Print Assumptions c15_ident_codec_roundtrip.

(* ---- staged = direct, by composition.
   Full statement (false of the faithful model, F14):
     forall s o, observe (staged s o) = observe (compile s o).
   Proved: the same under `json_ok` of the two intermediate values (no non-finite float literal);
   refuted: a well-typed PL value with a non-finite float does not survive JSON. ---- *)
Section Stages.
  Variables src opts sql err errc : Type.
  Variable parse : src -> res err value.
  Variable resolve : value -> res err value.
  Variable gen : opts -> value -> res err sql.
  Variables tagNR tagSQL : err -> err.
  Variable compose : src -> opts -> err -> err.
  Variable compose1 : src -> err -> err.
  Variable json_err : json -> err.
  Variable core : err -> errc.
  Hypothesis Hparse_wt : forall s v, parse s = Ok v -> wt env dPL v.
  Hypothesis Hresolve_wt : forall v w, resolve v = Ok w -> wt env dRQ w.
  Hypothesis Hcore_compose : forall s o e, core (compose s o e) = core e.
  Hypothesis Hcore_compose1 : forall s e, core (compose1 s e) = core e.

  Notation compile := (compile src opts sql err parse resolve gen tagNR tagSQL compose).
  Notation staged := (staged src opts sql err env dPL dRQ parse resolve gen tagNR tagSQL compose1 json_err).
  Notation observe := (observe sql err errc core).

  Theorem c15_staged_eq_direct_partial : forall s o,
    (forall v, parse s = Ok v -> json_ok v = true) ->
    (forall v w, parse s = Ok v -> resolve v = Ok w -> json_ok w = true) ->
    observe (staged s o) = observe (compile s o).
  Proof.
    assert (desc_ok env dPL = true /\ desc_ok env dRQ = true) as [H1 H2]
      by (apply andb_true_iff; exact c15_roots_ok).
    exact (staged_eq_direct src opts sql err errc env dPL dRQ parse resolve gen tagNR tagSQL compose compose1
             json_err core c15_schema_ok H1 H2 Hparse_wt Hresolve_wt Hcore_compose Hcore_compose1).
  Qed.

  Theorem c15_staged_breaks_without_roundtrip : forall s o pl,
    parse s = Ok pl -> de env dPL (ser env dPL pl) = None ->
    observe (staged s o) = inr (core (json_err (ser env dPL pl))).
  Proof.
    exact (staged_breaks_without_roundtrip src opts sql err errc env dPL dRQ parse resolve gen tagNR tagSQL
             compose1 json_err core).
  Qed.
End Stages.
Print Assumptions c15_staged_eq_direct_partial.
Print Assumptions c15_staged_breaks_without_roundtrip.

(* the PL of `let m = 1e400`-like sources: Literal(Float(inf)) *)
Local Open Scope N_scope.
Definition s (l : list N) : str := l.
Definition pl_nonfinite : value :=
  VStruct [VStr (s [80]);
    VList [VStruct [
      VEnum (s [86;97;114;68;101;102]) (* VarDef *) [VStruct [
        VEnum (s [77;97;105;110]) (* Main *) []; VStr (s [109]);
        VSome (VStruct [VEnum (s [76;105;116;101;114;97;108]) (* Literal *)
                          [VEnum (s [70;108;111;97;116]) (* Float *) [VFloat FNonFinite]]; VNone; VNone; VNone]);
        VNone]];
      VNone; VList []; VNone]]].

Ltac wt_solve :=
  lazymatch goal with
  | |- wt _ DStr _ => apply wt_str
  | |- wt _ DFloat _ => apply wt_float
  | |- wt _ (DOption _) VNone => apply wt_none
  | |- wt _ (DOption _) (VSome _) => apply wt_some; wt_solve
  | |- wt _ (DBox _) _ => apply wt_box; wt_solve
  | |- wt _ (DVec _) (VList _) => apply wt_vec; repeat (apply Forall_cons; [wt_solve|]); apply Forall_nil
  | |- wt _ (DRef _) (VStruct _) =>
      eapply wt_struct; [lazy; reflexivity | repeat (apply Forall2_cons; [cbn [fdesc]; wt_solve|]); apply Forall2_nil]
  | |- wt _ (DRef _) (VEnum _ []) => eapply wt_enum_unit; [lazy; reflexivity | lazy; reflexivity]
  | |- wt _ (DRef _) (VEnum _ [_]) => eapply wt_enum_newtype; [lazy; reflexivity | lazy; reflexivity | wt_solve]
  end.

Theorem c15_roundtrip_refuted_nonfinite :
  exists v, wt env dPL v /\ json_ok v = false /\ de env dPL (ser env dPL v) = None.
Proof.
  exists pl_nonfinite. split; [|split; vm_compute; reflexivity].
  unfold pl_nonfinite, dPL, GenSerde.root_pl. wt_solve.
Qed.
Print Assumptions c15_roundtrip_refuted_nonfinite.

(* non-vacuity: the same program with a finite literal is well typed, json_ok, and round-trips by computation *)
Definition pl_finite : value :=
  VStruct [VStr (s [80]);
    VList [VStruct [
      VEnum (s [86;97;114;68;101;102]) [VStruct [
        VEnum (s [77;97;105;110]) []; VStr (s [109]);
        VSome (VStruct [VEnum (s [76;105;116;101;114;97;108])
                          [VEnum (s [70;108;111;97;116]) [VFloat (FFin (s [49;46;53]))]];
                        VSome (VSpan 1 0 3); VSome (VStr (s [120])); VNone]);
        VNone]];
      VNone; VList []; VNone]]].
Example c15_ex_finite_roundtrip :
  json_ok pl_finite = true /\ de env dPL (ser env dPL pl_finite) = Some pl_finite.
Proof. split; vm_compute; reflexivity. Qed.

(* C15 -- staged compilation through JSON equals one-shot compile.
   Only statements here.  Models: Model/Json.v, Model/Serde.v, Model/SerdeStaged.v; proofs: Proofs/Serde*.v.
   Gen/GenSerde.v (descriptor environment of every derive(Serialize, Deserialize) type reachable from
   pr::ModuleDef and rq::RelationalQuery) and Gen/GenEntry.v (call chains of lib.rs) are regenerated from
   /repo on every run. *)
From Coq Require Import List NArith ZArith Bool.
From PV Require Import Lib.ListX Model.Json Model.VersionReq Model.Serde Model.SerdeDoc Model.SerdeStaged.
From PV Require Import Proofs.SerdeCodecProofs Proofs.VersionReqProofs Proofs.SerdeProofs Proofs.SerdeDeProofs Proofs.SerdeStaged.
From PV Require Import Gen.GenSerde Gen.GenEntry.
From PV Require Model.Lexer.   (* C17's lexer model, read-only, qualified *)
Import ListNotations.

Notation env := GenSerde.env.
Notation dPL := GenSerde.root_pl.
Notation dRQ := GenSerde.root_rq.

(* ---- table obligations on what the source says now ---- *)
Theorem c15_schema_ok : schema_ok env = true.
Proof. vm_compute. reflexivity. Qed.
Print Assumptions c15_schema_ok.

Theorem c15_roots_ok : desc_ok env dPL && desc_ok env dRQ = true.
Proof. vm_compute. reflexivity. Qed.
Print Assumptions c15_roots_ok.

(* every type reachable from the two roots has a descriptor, and nothing else has one:
   (a) inside the environment: the closure of the roots under DRef is closed (every name resolves), stable (a fixed
       point) and exhausts the environment;
   (b) against the Rust sources: the type names an independent textual scan reaches from pr::ModuleDef and
       rq::RelationalQuery are exactly the (base names of the) descriptors plus the hand-written codecs. *)
Theorem c15_reach_closed : closedb env [dPL; dRQ] && reach_stable env [dPL; dRQ] && all_reachable env [dPL; dRQ] = true.
Proof. vm_compute. reflexivity. Qed.
Print Assumptions c15_reach_closed.

Theorem c15_rust_types_have_descriptors :
  rust_types_covered env GenSerde.opaque_names GenSerde.rust_reachable
  && descriptors_are_rust_types env GenSerde.rust_reachable = true.
Proof. vm_compute. reflexivity. Qed.
Print Assumptions c15_rust_types_have_descriptors.

Theorem c15_entry_chains_ok :
  chains_ok GenEntry.compile_parse GenEntry.compile_resolve GenEntry.compile_gen
            GenEntry.staged_parse GenEntry.staged_resolve GenEntry.staged_gen = true.
Proof. vm_compute. reflexivity. Qed.
Print Assumptions c15_entry_chains_ok.

(* ---- the generic round trip (any environment) ---- *)
Theorem c15_serde_roundtrip : forall (E : Serde.env) (d : desc) (v : value),
  schema_ok E = true -> desc_ok E d = true -> wt E d v -> json_ok v = true -> de E d (ser E d v) = Some v.
Proof. intros E d v Hs. exact (serde_roundtrip E Hs d v). Qed.
Print Assumptions c15_serde_roundtrip.

(* ---- instantiated at prqlc's PL and RQ ---- *)
Theorem c15_pl_roundtrip : forall v, wt env dPL v -> json_ok v = true -> de env dPL (ser env dPL v) = Some v.
Proof. intros v. apply (serde_roundtrip_ref env c15_schema_ok). Qed.
Print Assumptions c15_pl_roundtrip.

Theorem c15_rq_roundtrip : forall v, wt env dRQ v -> json_ok v = true -> de env dRQ (ser env dRQ v) = Some v.
Proof. intros v. apply (serde_roundtrip_ref env c15_schema_ok). Qed.
Print Assumptions c15_rq_roundtrip.

(* ---- documents: what `de` accepts (ANY JSON tree, e.g. one written by a language binding; a repeated key is an
   error for a struct field and last-wins in a map, as in serde) ---- *)
Theorem c15_de_wt : forall (E : Serde.env) (d : desc) (j : json) (v : value),
  de E d j = Some v -> wt E d v /\ json_ok v = true.
Proof. exact de_wt. Qed.
Print Assumptions c15_de_wt.

Theorem c15_reserialise_stable : forall (E : Serde.env) (d : desc) (j : json) (v : value),
  schema_ok E = true -> desc_ok E d = true -> de E d j = Some v -> de E d (ser E d v) = Some v.
Proof. exact reserialise_stable. Qed.
Print Assumptions c15_reserialise_stable.

Theorem c15_pl_rq_documents_stable : forall j v,
  (de env dPL j = Some v -> de env dPL (ser env dPL v) = Some v) /\
  (de env dRQ j = Some v -> de env dRQ (ser env dRQ v) = Some v).
Proof.
  assert (desc_ok env dPL = true /\ desc_ok env dRQ = true) as [H1 H2] by (apply andb_true_iff; exact c15_roots_ok).
  intros j v. split; intro H; eapply reserialise_stable; eauto using c15_schema_ok.
Qed.
Print Assumptions c15_pl_rq_documents_stable.

(* duplicate keys and integer tokens, as serde treats them *)
Theorem c15_map_without_repeats_read_as_is : forall (A : Type) (l : list (str * A)), NoDup (keys l) -> dedup_last l = l.
Proof. exact @dedup_last_id. Qed.
Print Assumptions c15_map_without_repeats_read_as_is.

Theorem c15_ser_writes_no_duplicate_field : forall (E : Serde.env) (own : list str) (fs : list field) (l : list value),
  NoDup (map fname fs) ->
  (forall f, In f fs -> fflatten f = true -> flatten_ok E own f = true) ->
  NoDup (own_keys own (ser_fields E fs l)).
Proof. intros E own fs l H1 H2. exact (proj1 (own_keys_nodup E own fs l H1 H2)). Qed.
Print Assumptions c15_ser_writes_no_duplicate_field.

Example c15_ex_duplicate_field_rejected :
  de env dPL (JObj [([110;97;109;101]%N, JStr [80]%N); ([110;97;109;101]%N, JStr [81]%N); ([115;116;109;116;115]%N, JArr [])]) = None
  /\ de env dPL (JObj [([110;97;109;101]%N, JStr [80]%N); ([115;116;109;116;115]%N, JArr []); ([122]%N, JNull); ([122]%N, JNull)])
     = Some (VStruct [VStr [80]%N; VList []]).
Proof. split; vm_compute; reflexivity. Qed.

Example c15_ex_integer_read_as_float :
  de_prim DFloat (JNum (NInt (-3))) = Some (VFloat (FFin [45;51;46;48]%N))                                   (* -3.0 *)
  /\ de_prim DFloat (JNum (NInt 9007199254740993))
     = Some (VFloat (FFin [57;48;48;55;49;57;57;50;53;52;55;52;48;57;57;50;46;48]%N))                         (* 9007199254740992.0 *)
  /\ de_prim DFloat (JNum (NInt 9999999999999999)) = Some (VFloat (FFin [49;101;49;54]%N))                   (* 1e16 *)
  /\ de_prim DFloat (JNum (NInt 18446744073709551615))
     = Some (VFloat (FFin [49;46;56;52;52;54;55;52;52;48;55;51;55;48;57;53;53;50;101;49;57]%N)).              (* 1.8446744073709552e19 *)
Proof. repeat split; vm_compute; reflexivity. Qed.

(* ---- the field attributes, one lemma each (the steps of the generic theorem that are about one attribute) ---- *)
(* skip_serializing_if (+ default / Option): what was skipped is what absence deserialises to *)
Theorem c15_skip_absent_is_default : forall (f : field) (v : value),
  skip_ok f = true -> skipped (fskip f) v = true ->
  (if fdefault f then default_of (fdesc f) else if is_option (fdesc f) then Some VNone else None) = Some v.
Proof. exact skipped_default. Qed.
Print Assumptions c15_skip_absent_is_default.

(* named fields are found by key wherever they are in the object: a field's key finds that field's own entry *)
Theorem c15_field_lookup : forall (E : Serde.env) (own : list str) (fs : list field) (l : list value),
  NoDup (map fname fs) ->
  (forall f, In f fs -> fflatten f = true -> flatten_ok E own f = true) ->
  forall f0 v0, In (f0, v0) (combine fs l) -> fflatten f0 = false -> In (fname f0) own ->
  assoc (fname f0) (ser_fields E fs l) = assoc (fname f0) (ser_field E f0 v0).
Proof. exact assoc_ser_fields. Qed.
Print Assumptions c15_field_lookup.

(* flatten: the entry the flattened enum wrote is the one FlatMapDeserializer picks *)
Theorem c15_flatten_variant_found : forall (E : Serde.env) (own : list str) (fs : list field) (l : list value),
  length (filter fflatten fs) <= 1 ->
  (forall f, In f fs -> fflatten f = false -> In (fname f) own) ->
  forall f0 v0, In (f0, v0) (combine fs l) -> fflatten f0 = true ->
  forall vs tag sh pj, ser_field E f0 v0 = [(tag, pj)] -> mem tag own = false -> assoc tag vs = Some sh ->
  find_variant vs own (ser_fields E fs l) = Some (tag, sh, pj).
Proof. exact find_variant_ser_fields. Qed.
Print Assumptions c15_flatten_variant_found.

(* ---- hand-written codecs ---- *)
Theorem c15_span_codec_roundtrip : forall id s e,
  (id < u16_bound)%N -> (s < usize_bound)%N -> (e < usize_bound)%N -> span_de (span_ser id s e) = Some (id, s, e).
Proof. exact span_codec_roundtrip. Qed.
Print Assumptions c15_span_codec_roundtrip.

Theorem c15_ident_codec_roundtrip : forall p n, ident_de (ident_ser p n) = Some (p, n).
Proof. exact ident_codec_roundtrip. Qed.
Print Assumptions c15_ident_codec_roundtrip.

(* semver::VersionReq (Deserialize = from_str, Serialize = Display; Model/VersionReq.v follows semver 1.0.27's parse.rs and
   display.rs, pre-release identifiers included, build metadata checked and dropped): Display then from_str is the identity on every value from_str can
   return, and from_str returns only such values *)
Theorem c15_versionreq_codec_roundtrip : forall l, vreq_wf l = true -> vreq_parse (vreq_print l) = Some l.
Proof. exact vreq_parse_print. Qed.
Print Assumptions c15_versionreq_codec_roundtrip.

Theorem c15_versionreq_parse_wf : forall t l, vreq_parse t = Some l -> vreq_wf l = true.
Proof. exact vreq_parse_wf. Qed.
Print Assumptions c15_versionreq_parse_wf.

(* on texts: whatever is accepted is held as a Display form, and a Display form is read back as itself *)
Theorem c15_versionreq_text_stable : forall t s, vreq_normalise t = Some s -> vreq_normal s = true /\ vreq_normalise s = Some s.
Proof. intros t s H. split; [eapply vreq_normalise_normal; exact H | eapply vreq_normalise_idem; exact H]. Qed.
Print Assumptions c15_versionreq_text_stable.

Example c15_ex_versionreq :
  vreq_normalise [32;62;61;32;49;46;48;32;44;60;50]%N (* " >= 1.0 ,<2" *) = Some [62;61;49;46;48;44;32;60;50]%N (* ">=1.0, <2" *)
  /\ vreq_normalise [49;46;120]%N (* "1.x" *) = Some [49;46;42]%N (* "1.*" *)
  /\ vreq_normalise [48;49]%N (* "01" *) = None
  /\ vreq_normal [94;48;46;49;51]%N (* "^0.13" *) = true
  /\ vreq_normalise [49;46;50;46;51;45;114;99;46;49;43;98;46;48;48;53]%N (* "1.2.3-rc.1+b.005" *)
     = Some [94;49;46;50;46;51;45;114;99;46;49]%N (* "^1.2.3-rc.1" *)
  /\ vreq_normalise [49;46;50;46;51;45;48;49]%N (* "1.2.3-01" *) = None.
Proof. repeat split; vm_compute; reflexivity. Qed.

(* ---- staged = direct, by composition.
   Full statement (false of the faithful model, F14):
     forall s o, observe (staged s o) = observe (compile s o).
   Proved: the same under `json_ok` of the two intermediate values (no non-finite float literal);
   refuted: a well-typed PL value with a non-finite float does not survive JSON. ---- *)
Section Stages.
  Variables src opts sql err errc : Type.
  Variable parse : src -> res err value.
  Variable resolve : value -> res err value.
  Variable gen : opts -> value -> res err sql.
  Variables tagNR tagSQL : err -> err.
  Variable compose : src -> opts -> err -> err.
  Variable compose1 : src -> err -> err.
  Variable json_err : json -> err.
  Variable core : err -> errc.
  Hypothesis Hparse_wt : forall s v, parse s = Ok v -> wt env dPL v.
  Hypothesis Hresolve_wt : forall v w, resolve v = Ok w -> wt env dRQ w.
  Hypothesis Hcore_compose : forall s o e, core (compose s o e) = core e.
  Hypothesis Hcore_compose1 : forall s e, core (compose1 s e) = core e.

  Notation compile := (compile src opts sql err parse resolve gen tagNR tagSQL compose).
  Notation staged := (staged src opts sql err env dPL dRQ parse resolve gen tagNR tagSQL compose1 json_err).
  Notation observe := (observe sql err errc core).

  Theorem c15_staged_eq_direct_partial : forall s o,
    (forall v, parse s = Ok v -> json_ok v = true) ->
    (forall v w, parse s = Ok v -> resolve v = Ok w -> json_ok w = true) ->
    observe (staged s o) = observe (compile s o).
  Proof.
    assert (desc_ok env dPL = true /\ desc_ok env dRQ = true) as [H1 H2]
      by (apply andb_true_iff; exact c15_roots_ok).
    exact (staged_eq_direct src opts sql err errc env dPL dRQ parse resolve gen tagNR tagSQL compose compose1
             json_err core c15_schema_ok H1 H2 Hparse_wt Hresolve_wt Hcore_compose Hcore_compose1).
  Qed.

  (* the same, with the hypotheses in the form the correspondence tests (stream model-de-ser): each stage value is
     one the model reads from a document; typing and finiteness follow (c15_de_wt) *)
  Theorem c15_staged_eq_direct_docs : forall s o,
    (forall v, parse s = Ok v -> exists j, de env dPL j = Some v) ->
    (forall v w, parse s = Ok v -> resolve v = Ok w -> exists j, de env dRQ j = Some w) ->
    observe (staged s o) = observe (compile s o).
  Proof.
    assert (desc_ok env dPL = true /\ desc_ok env dRQ = true) as [H1 H2]
      by (apply andb_true_iff; exact c15_roots_ok).
    exact (staged_eq_direct_docs src opts sql err errc env dPL dRQ parse resolve gen tagNR tagSQL compose compose1
             json_err core c15_schema_ok H1 H2 Hcore_compose Hcore_compose1).
  Qed.

  Theorem c15_staged_breaks_without_roundtrip : forall s o pl,
    parse s = Ok pl -> de env dPL (ser env dPL pl) = None ->
    observe (staged s o) = inr (core (json_err (ser env dPL pl))).
  Proof.
    exact (staged_breaks_without_roundtrip src opts sql err errc env dPL dRQ parse resolve gen tagNR tagSQL
             compose1 json_err core).
  Qed.
End Stages.
Print Assumptions c15_staged_eq_direct_partial.
Print Assumptions c15_staged_eq_direct_docs.
Print Assumptions c15_staged_breaks_without_roundtrip.

(* ---- FULL statement, conditional on the lexer: for ALL sources and options, once the lexer yields no token with a
   non-finite float (fixes/F14-lexer-rejects-nonfinite-float.diff), the parser builds values from finite tokens only and
   the resolver keeps values finite.  `parse` = `lex` ; `parse_tokens`.  On today's HEAD the first hypothesis is false
   of the implementation exactly for the F14 sources (stream `hyp:lex_finite`). ---- *)
Section StagesLexer.
  Variables src opts sql err errc tok : Type.
  Variable lex : src -> res err (list tok).
  Variable parse_tokens : list tok -> res err value.
  Variable tok_finite : tok -> bool.
  Variable resolve : value -> res err value.
  Variable gen : opts -> value -> res err sql.
  Variables tagNR tagSQL : err -> err.
  Variable compose : src -> opts -> err -> err.
  Variable compose1 : src -> err -> err.
  Variable json_err : json -> err.
  Variable core : err -> errc.
  Notation parse := (parse_of src err tok lex parse_tokens).
  Hypothesis Hparse_wt : forall s v, parse s = Ok v -> wt env dPL v.
  Hypothesis Hresolve_wt : forall v w, resolve v = Ok w -> wt env dRQ w.
  Hypothesis Hcore_compose : forall s o e, core (compose s o e) = core e.
  Hypothesis Hcore_compose1 : forall s e, core (compose1 s e) = core e.
  Hypothesis Hlex_finite : forall s ts, lex s = Ok ts -> forallb tok_finite ts = true.
  Hypothesis Hparse_finite : forall ts v, forallb tok_finite ts = true -> parse_tokens ts = Ok v -> json_ok v = true.
  Hypothesis Hresolve_finite : forall v w, json_ok v = true -> resolve v = Ok w -> json_ok w = true.

  Theorem c15_staged_eq_direct_if_lexer_rejects_nonfinite : forall s o,
    SerdeStaged.observe sql err errc core
      (SerdeStaged.staged src opts sql err env dPL dRQ parse resolve gen tagNR tagSQL compose1 json_err s o)
    = SerdeStaged.observe sql err errc core
      (SerdeStaged.compile src opts sql err parse resolve gen tagNR tagSQL compose s o).
  Proof.
    assert (desc_ok env dPL = true /\ desc_ok env dRQ = true) as [H1 H2]
      by (apply andb_true_iff; exact c15_roots_ok).
    exact (staged_eq_direct_lexer src opts sql err errc tok env dPL dRQ lex parse_tokens tok_finite resolve gen tagNR tagSQL
             compose compose1 json_err core c15_schema_ok H1 H2 Hparse_wt Hresolve_wt Hcore_compose Hcore_compose1
             Hlex_finite Hparse_finite Hresolve_finite).
  Qed.
End StagesLexer.
Print Assumptions c15_staged_eq_direct_if_lexer_rejects_nonfinite.

(* ---- the lexer hypothesis discharged against C17's lexer model (Model/Lexer.v, mirrors prqlc-parser's lexer since d8fda67:
   `non_finite_literals` rejects a source with a number literal whose f64 value is not finite).  What is left as tested
   premises: the parser and the resolver make no non-finite float out of finite tokens / values. ---- *)
Theorem c15_lexer_model_rejects_nonfinite : forall ia ian T s ts,
  Lexer.lex ia ian T s = Some ts -> forallb Lexer.tok_finite ts = true.
Proof.
  intros ia ian T s ts. unfold Lexer.lex.
  destruct (Lexer.lex_loop ia ian T _ _ s) as [l|]; [|discriminate].
  destruct (forallb Lexer.tok_finite l) eqn:E; [|discriminate].
  intro H. injection H as <-. cbn [forallb]. rewrite E. reflexivity.
Qed.
Print Assumptions c15_lexer_model_rejects_nonfinite.

Section StagesLexerModel.
  Variables opts sql err errc : Type.
  Variable ia ian : Lexer.chr -> bool.
  Variable T : Lexer.tables.
  Variable lex_err : str -> err.
  Variable parse_tokens : list Lexer.token -> res err value.
  Variable resolve : value -> res err value.
  Variable gen : opts -> value -> res err sql.
  Variables tagNR tagSQL : err -> err.
  Variable compose : str -> opts -> err -> err.
  Variable compose1 : str -> err -> err.
  Variable json_err : json -> err.
  Variable core : err -> errc.
  Definition lex_model (s : str) : res err (list Lexer.token) :=
    match Lexer.lex ia ian T s with Some ts => Ok ts | None => Err (lex_err s) end.
  Notation parse := (parse_of str err Lexer.token lex_model parse_tokens).
  Hypothesis Hparse_wt : forall s v, parse s = Ok v -> wt env dPL v.
  Hypothesis Hresolve_wt : forall v w, resolve v = Ok w -> wt env dRQ w.
  Hypothesis Hcore_compose : forall s o e, core (compose s o e) = core e.
  Hypothesis Hcore_compose1 : forall s e, core (compose1 s e) = core e.
  Hypothesis Hparse_finite : forall ts v, forallb Lexer.tok_finite ts = true -> parse_tokens ts = Ok v -> json_ok v = true.
  Hypothesis Hresolve_finite : forall v w, json_ok v = true -> resolve v = Ok w -> json_ok w = true.

  Theorem c15_staged_eq_direct_lexer_model : forall s o,
    SerdeStaged.observe sql err errc core
      (SerdeStaged.staged str opts sql err env dPL dRQ parse resolve gen tagNR tagSQL compose1 json_err s o)
    = SerdeStaged.observe sql err errc core
      (SerdeStaged.compile str opts sql err parse resolve gen tagNR tagSQL compose s o).
  Proof.
    apply (c15_staged_eq_direct_if_lexer_rejects_nonfinite str opts sql err errc Lexer.token lex_model parse_tokens
             Lexer.tok_finite resolve gen tagNR tagSQL compose compose1 json_err core
             Hparse_wt Hresolve_wt Hcore_compose Hcore_compose1).
    - intros s ts H. unfold lex_model in H.
      destruct (Lexer.lex ia ian T s) as [l|] eqn:E; [|discriminate]. injection H as <-.
      exact (c15_lexer_model_rejects_nonfinite ia ian T s l E).
    - exact Hparse_finite.
    - exact Hresolve_finite.
  Qed.
End StagesLexerModel.
Print Assumptions c15_staged_eq_direct_lexer_model.

(* the PL of `let m = 1e400`-like sources: Literal(Float(inf)) *)
Local Open Scope N_scope.
Definition s (l : list N) : str := l.
Definition pl_nonfinite : value :=
  VStruct [VStr (s [80]);
    VList [VStruct [
      VEnum (s [86;97;114;68;101;102]) (* VarDef *) [VStruct [
        VEnum (s [77;97;105;110]) (* Main *) []; VStr (s [109]);
        VSome (VStruct [VEnum (s [76;105;116;101;114;97;108]) (* Literal *)
                          [VEnum (s [70;108;111;97;116]) (* Float *) [VFloat FNonFinite]]; VNone; VNone; VNone]);
        VNone]];
      VNone; VList []; VNone]]].

Ltac wt_solve :=
  lazymatch goal with
  | |- wt _ DStr _ => apply wt_str
  | |- wt _ DFloat _ => apply wt_float
  | |- wt _ (DOption _) VNone => apply wt_none
  | |- wt _ (DOption _) (VSome _) => apply wt_some; wt_solve
  | |- wt _ (DBox _) _ => apply wt_box; wt_solve
  | |- wt _ (DVec _) (VList _) => apply wt_vec; repeat (apply Forall_cons; [wt_solve|]); apply Forall_nil
  | |- wt _ (DRef _) (VStruct _) =>
      eapply wt_struct; [lazy; reflexivity | repeat (apply Forall2_cons; [cbn [fdesc]; wt_solve|]); apply Forall2_nil]
  | |- wt _ (DRef _) (VEnum _ []) => eapply wt_enum_unit; [lazy; reflexivity | lazy; reflexivity]
  | |- wt _ (DRef _) (VEnum _ [_]) => eapply wt_enum_newtype; [lazy; reflexivity | lazy; reflexivity | wt_solve]
  end.

Theorem c15_roundtrip_refuted_nonfinite :
  exists v, wt env dPL v /\ json_ok v = false /\ de env dPL (ser env dPL v) = None.
Proof.
  exists pl_nonfinite. split; [|split; vm_compute; reflexivity].
  unfold pl_nonfinite, dPL, GenSerde.root_pl. wt_solve.
Qed.
Print Assumptions c15_roundtrip_refuted_nonfinite.

(* non-vacuity: the same program with a finite literal is well typed, json_ok, and round-trips by computation *)
Definition pl_finite : value :=
  VStruct [VStr (s [80]);
    VList [VStruct [
      VEnum (s [86;97;114;68;101;102]) [VStruct [
        VEnum (s [77;97;105;110]) []; VStr (s [109]);
        VSome (VStruct [VEnum (s [76;105;116;101;114;97;108])
                          [VEnum (s [70;108;111;97;116]) [VFloat (FFin (s [49;46;53]))]];
                        VSome (VSpan 1 0 3); VSome (VStr (s [120])); VNone]);
        VNone]];
      VNone; VList []; VNone]]].
Example c15_ex_finite_roundtrip :
  json_ok pl_finite = true /\ de env dPL (ser env dPL pl_finite) = Some pl_finite.
Proof. split; vm_compute; reflexivity. Qed.

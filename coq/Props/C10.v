(* C10 -- ill-scoped programs are rejected, never compiled to something else.
   Statements only; proofs are in Proofs/ScopeProofs.v.  The std module's names and signatures are
   Gen/GenC10Std.v, regenerated from semantic/std.prql (through prqlc's own parser) on every run.

   The model (Model/Scope.v) restates Module::lookup / resolve_ident (enclosing modules) / resolve_ident_core /
   apply_args_to_closure / fold_function / what lower_expr does with an Ident that has no target id;
   it is run against the implementation on generated well-scoped programs and on one scope-breaking edit at every
   applicable site (vplib/props/c10.py).  The resolver itself is validated per program, not proved. *)
From Coq Require Import List NArith Bool Permutation.
From PV Require Import Lib.ListX Model.Scope Proofs.ScopeProofs Gen.GenC10Std.
Import ListNotations.
Local Open Scope N_scope.

(* ---- (a) a name that is in no frame, when every frame is fully known ---- *)

Theorem closed_frame_rejects_unknown : forall sc n,
  scope_closed sc = true -> in_frames sc n = false -> names_other sc n = false ->
  resolve sc ([], n) = RErr EUnknown.
Proof. exact ScopeProofs.closed_frame_rejects_unknown. Qed.
Print Assumptions closed_frame_rejects_unknown.

(* whatever else the name denotes, it is never bound to a column (known or inferred) *)
Theorem closed_frame_never_binds_a_column : forall c sc n,
  scope_closed sc = true -> in_frames sc n = false ->
  match lower_ref c sc ([], n) with OColumn _ _ _ | OInferredColumn _ _ => False | _ => True end.
Proof. exact closed_frame_outcome. Qed.
Print Assumptions closed_frame_never_binds_a_column.

(* ---- (b) ambiguity: never resolved to an arbitrary candidate, whatever the enumeration order of the set ---- *)

Theorem ambiguous_never_picks : forall cands infer,
  (2 <= length cands)%nat -> resolve_from cands infer = RErr EAmbiguous.
Proof. exact ScopeProofs.ambiguous_never_picks. Qed.
Print Assumptions ambiguous_never_picks.

Theorem ambiguous_never_picks_any_order : forall cands cands' infer infer',
  Permutation cands cands' -> Permutation infer infer' ->
  resolve_from cands infer = resolve_from cands' infer'.
Proof. exact resolve_order_independent. Qed.
Print Assumptions ambiguous_never_picks_any_order.

Theorem resolve_ok_unique : forall cands infer,
  (forall c, resolve_from cands infer = RBound c -> cands = [c])
  /\ (forall i, resolve_from cands infer = RInferred i -> cands = [] /\ infer = [i]).
Proof. exact ScopeProofs.resolve_ok_unique. Qed.
Print Assumptions resolve_ok_unique.

Theorem column_of_both_join_sides_is_ambiguous : forall root x y n d par std,
  In n (in_cols x) -> In n (in_cols y) ->
  resolve (mkScope root (mkFrame [x; y] d) None par std) ([], n) = RErr EAmbiguous.
Proof. exact both_sides_ambiguous. Qed.
Print Assumptions column_of_both_join_sides_is_ambiguous.

(* ---- (c) (d) (e) function application ---- *)

Theorem too_many_args_rejected : forall f args named,
  (length (fs_params f) < length args)%nat -> exists e, apply_fn f args named = AErr e.
Proof. exact ScopeProofs.too_many_args_rejected. Qed.
Print Assumptions too_many_args_rejected.

Theorem unknown_named_arg_rejected : forall f args named n,
  In n named -> existsb (leqb n) (fs_named f) = false -> apply_fn f args named = AErr EUnknownNamed.
Proof. exact ScopeProofs.unknown_named_arg_rejected. Qed.
Print Assumptions unknown_named_arg_rejected.

Theorem scalar_where_relation_rejected : forall f args named i,
  nth_error (fs_params f) i = Some PRel -> nth_error args i = Some AScalar ->
  length args = length (fs_params f) ->
  exists e, apply_fn f args named = AErr e.
Proof. exact ScopeProofs.scalar_where_relation_rejected. Qed.
Print Assumptions scalar_where_relation_rejected.

(* a `let` constant or a parameter value named where a relation is required is a scalar argument: rejected.
   (Columns and input aliases are not in scope in a relation position -- this/that are shadowed there -- so a column
   name in `join b ...` denotes the database table b.) *)
Theorem constant_where_relation_rejected : forall sc n f args named i k,
  lookup (shadowed sc) ([], n) = [CRoot NValue] \/ lookup (shadowed sc) ([], n) = [CParam NValue] ->
  rel_arg_kind sc ([], n) = Some k ->
  nth_error (fs_params f) i = Some PRel -> nth_error args i = Some k ->
  length args = length (fs_params f) ->
  exists e, apply_fn f args named = AErr e.
Proof. exact ScopeProofs.constant_where_relation_rejected. Qed.
Print Assumptions constant_where_relation_rejected.

(* the same name known to both operands of a join is ambiguous INSIDE the join condition too (this and that in scope) *)
Theorem column_of_this_and_that_is_ambiguous : forall root x y n d d' par std,
  In n (in_cols x) -> In n (in_cols y) ->
  resolve (mkScope root (mkFrame [x] d) (Some (mkFrame [y] d')) par std) ([], n) = RErr EAmbiguous.
Proof. exact this_and_that_ambiguous. Qed.
Print Assumptions column_of_this_and_that_is_ambiguous.

(* the std transforms the property is about exist and take the relation they transform as a relation-typed parameter *)
Definition transform_names : list str :=
  [ [102;114;111;109] (* from *); [115;101;108;101;99;116] (* select *); [102;105;108;116;101;114] (* filter *);
    [100;101;114;105;118;101] (* derive *); [97;103;103;114;101;103;97;116;101] (* aggregate *); [115;111;114;116] (* sort *);
    [116;97;107;101] (* take *); [106;111;105;110] (* join *); [103;114;111;117;112] (* group *); [119;105;110;100;111;119] (* window *);
    [97;112;112;101;110;100] (* append *); [108;111;111;112] (* loop *); [105;110;116;101;114;115;101;99;116] (* intersect *);
    [114;101;109;111;118;101] (* remove *) ].

Definition sig_of (p : list str) : option fsig :=
  option_map snd (find (fun e => path_eqb p (fst e)) std_sigs).

Theorem c10_std_transforms_take_a_relation :
  forallb (fun n => match sig_of [n] with
                    | Some s => match last (map Some (fs_params s)) None with Some PRel => true | _ => false end
                    | None => false
                    end) transform_names = true.
Proof. vm_compute. reflexivity. Qed.
Print Assumptions c10_std_transforms_take_a_relation.

(* ---- a module or relation name where a value is required (repair a131b2a; was finding C10-F1) ----
   A name that denotes a module (std, date, math, text, default_db, _param, a user module) or a relation variable
   (let-table) is never a value: the reference is an error -- "expected a value, but found module" / "table variable
   cannot be used as a scalar value", or ambiguous when the name denotes something else too.  Before a131b2a it
   resolved to that declaration, carried no target id, and lower_expr's fallback sent the bare name to SQL. *)
Theorem module_or_relation_name_is_not_a_value : forall c sc n,
  names_module_or_table sc n = true ->
  lower_ref c sc ([], n) = OErr ENotAValue \/ lower_ref c sc ([], n) = OErr EAmbiguous.
Proof. exact ScopeProofs.module_or_relation_name_is_not_a_value. Qed.
Print Assumptions module_or_relation_name_is_not_a_value.

(* ---- no silent passthrough ----
   The model is parameterised by what lower_expr's ident arm looks like in the source NOW ([head_cfg], regenerated on
   every run).  Full statement:
     forall sc id, lower_ref head_cfg sc id <> OPassthrough
   * cfg_that_rejected = true (the C10-F2 repair is in the source): TRUE, for every identifier in every scope.
   * cfg_that_rejected = false: FALSE of the faithful model and of the implementation, through one identifier -- the bare
     name `that` outside a join condition: while the arguments of a transform are resolved the root module holds an EMPTY
     module `that` (resolve_function_args shadows it), the name resolves to it, and at lowering time that module is gone --
     lower_expr sees neither a module nor a relation type and falls back to passing `that` to SQL (finding C10-F2).
   [no_silent_passthrough_at c] is the statement that holds for configuration c; [c10_head_no_silent_passthrough] is
   it at the head configuration -- the check reads which branch that is from Gen/GenC10Std.v. *)

Definition s_date : str := [100;97;116;101].
Definition ex_scope : scope :=
  mkScope [(s_std_name, NModule); (s_db_name, NModule)]
          (mkFrame [mkInput [116] [[97]] false] []) None [] std_names.

Theorem no_silent_passthrough : forall c, cfg_that_rejected c = true ->
  forall sc id, lower_ref c sc id <> OPassthrough.
Proof. exact ScopeProofs.no_silent_passthrough_fixed. Qed.
Print Assumptions no_silent_passthrough.

Theorem no_silent_passthrough_refuted : forall c, cfg_that_rejected c = false ->
  exists sc n, scope_closed sc = true /\ in_frames sc n = false /\ lower_ref c sc ([], n) = OPassthrough.
Proof. intros [a b d e] H. cbn in H. subst a. exists ex_scope, s_that_name. vm_compute. auto. Qed.
Print Assumptions no_silent_passthrough_refuted.

(* every passthrough is that one: any identifier, qualified or not, in any scope, and only without the repair *)
Theorem passthrough_only_bare_that : forall c sc id,
  lower_ref c sc id = OPassthrough ->
  fst id = [] /\ leqb (snd id) s_that_name = true /\ s_that sc = None /\ cfg_that_rejected c = false.
Proof. exact ScopeProofs.passthrough_only_bare_that. Qed.
Print Assumptions passthrough_only_bare_that.

Theorem no_silent_passthrough_partial : forall c sc n,
  leqb n s_that_name = false \/ s_that sc <> None -> lower_ref c sc ([], n) <> OPassthrough.
Proof. exact ScopeProofs.no_silent_passthrough_partial. Qed.
Print Assumptions no_silent_passthrough_partial.

(* The tree under test has the repair 006e33c (table obligation on the regenerated [head_cfg]; a regression to the old
   shape breaks it, and the streams -- edit class (f), the lowerer-trace oracle -- then find the concrete `that`). *)
Theorem c10_head_cfg_is_repaired : head_cfg = mkCfg true true true true.
Proof. vm_compute. reflexivity. Qed.
Print Assumptions c10_head_cfg_is_repaired.

(* FULL STRENGTH at the head configuration: no identifier, qualified or not, in any scope, reaches SQL unresolved *)
Theorem c10_head_no_silent_passthrough : forall sc id, lower_ref head_cfg sc id <> OPassthrough.
Proof. apply no_silent_passthrough. vm_compute. reflexivity. Qed.
Print Assumptions c10_head_no_silent_passthrough.

(* the former witness of C10-F1 (`from t | select {a} | derive {x = date}`, date from the GENERATED std table) is an error now *)
Example c10_ex_former_f1_witness :
  lower_ref head_cfg ex_scope ([], s_date) = OErr ENotAValue
  /\ lower_ref head_cfg ex_scope ([], s_std_name) = OErr ENotAValue
  /\ lower_ref head_cfg ex_scope ([], s_db_name) = OErr ENotAValue
  /\ lower_ref head_cfg ex_scope ([s_db_name], [98]) = OErr ENotAValue                    (* default_db.b *)
  /\ lower_ref_in head_cfg true ex_scope ([s_db_name], [98]) = OPassthrough               (* s"{default_db.b}": spliced, by design *)
  /\ lower_ref_in head_cfg true ex_scope ([], s_date) = OErr ENotAValue.                  (* a module is not spliced *)
Proof. vm_compute. auto 10. Qed.

(* `that` with and without the repair *)
Example c10_ex_that :
  lower_ref (mkCfg false false false false) ex_scope ([], s_that_name) = OPassthrough
  /\ lower_ref (mkCfg true false false false) ex_scope ([], s_that_name) = OErr ENotAValue.
Proof. vm_compute. auto. Qed.

(* ---- declarations inside modules: table references look at the enclosing modules first (repair d92afac) ---- *)

(* anything but a relation variable found there makes the call an error (before: a database table of that name) *)
Theorem enclosing_nonrelation_where_relation_rejected : forall c ms id x f args named i k,
  rel_enclosing c (ms_mods ms) (shadowed (ms_scope ms)) (ms_cur ms) id = Some x ->
  arg_kind_of x <> ARel ->
  rel_arg_kind_m c ms id = Some k ->
  nth_error (fs_params f) i = Some PRel -> nth_error args i = Some k ->
  length args = length (fs_params f) ->
  exists e, apply_fn f args named = AErr e.
Proof. exact ScopeProofs.enclosing_nonrelation_where_relation_rejected. Qed.
Print Assumptions enclosing_nonrelation_where_relation_rejected.

Theorem sibling_constant_where_relation_rejected : forall c ms m cur n f args named i k,
  ms_cur ms = m :: cur ->
  mlookup (ms_mods ms) (shadowed (ms_scope ms)) (m :: cur, n) = [CRoot NValue] ->
  rel_arg_kind_m c ms ([], n) = Some k ->
  nth_error (fs_params f) i = Some PRel -> nth_error args i = Some k ->
  length args = length (fs_params f) ->
  exists e, apply_fn f args named = AErr e.
Proof. exact ScopeProofs.sibling_constant_where_relation_rejected. Qed.
Print Assumptions sibling_constant_where_relation_rejected.

Theorem sibling_table_is_a_relation : forall c ms m cur n,
  ms_cur ms = m :: cur ->
  mlookup (ms_mods ms) (shadowed (ms_scope ms)) (m :: cur, n) = [CRoot NTable] ->
  rel_arg_kind_m c ms ([], n) = Some ARel.
Proof. exact ScopeProofs.sibling_table_is_a_relation. Qed.
Print Assumptions sibling_table_is_a_relation.

Theorem sibling_shadows_in_value_position : forall c ms m cur id r,
  ms_cur ms = m :: cur ->
  resolve_core_m (ms_mods ms) (ms_scope ms) ((m :: cur) ++ fst id, snd id) = r ->
  (forall e, r <> RErr e) -> resolve_m c ms id = r.
Proof. exact ScopeProofs.sibling_shadows_in_value_position. Qed.
Print Assumptions sibling_shadows_in_value_position.

(* ---- the declarations of the PARENT modules (reference/spec/modules.md: "If an identifier cannot be resolved relative to
   the current module, it tries to resolve relative to the parent module ... stepping up the module hierarchy") ----
   Full statement: a declaration of an enclosing module is found unless a closer module declares the name.
   * cfg_parent_walk = true (the C10-F3 repair is in the source): TRUE -- every ancestor is visited, innermost first
     (parent_walk_visits_every_ancestor), and at depth 2 the parent's declaration is found (parent_declaration_found), so the
     parent's constant in `from` is an error (parent_constant_where_relation_rejected).
   * cfg_parent_walk = false (pop_front: m.n.x -> n.x -> x): FALSE -- the walk visits [n], not [m]
     (pop_front_walk_misses_parent); `module m { let k = 5  module n { let q = (from k) } }` reads database table k (C10-F3). *)
Theorem parent_walk_visits_every_ancestor : forall c pre x suf,
  cfg_parent_walk c = true -> In (pre ++ [x]) (walk c (pre ++ x :: suf)).
Proof. exact ScopeProofs.parent_walk_visits_every_ancestor. Qed.
Print Assumptions parent_walk_visits_every_ancestor.

Theorem parent_declaration_found : forall c mods sc m n id x,
  cfg_parent_walk c = true ->
  (forall y, mlookup mods sc ([m; n] ++ fst id, snd id) <> [y]) ->
  mlookup mods sc ([m] ++ fst id, snd id) = [x] ->
  rel_enclosing c mods sc [m; n] id = Some x.
Proof. exact ScopeProofs.parent_declaration_found. Qed.
Print Assumptions parent_declaration_found.

Theorem parent_constant_where_relation_rejected : forall c ms m n name f args named i k,
  cfg_parent_walk c = true -> ms_cur ms = [m; n] ->
  (forall y, mlookup (ms_mods ms) (shadowed (ms_scope ms)) ([m; n], name) <> [y]) ->
  mlookup (ms_mods ms) (shadowed (ms_scope ms)) ([m], name) = [CRoot NValue] ->
  rel_arg_kind_m c ms ([], name) = Some k ->
  nth_error (fs_params f) i = Some PRel -> nth_error args i = Some k ->
  length args = length (fs_params f) ->
  exists e, apply_fn f args named = AErr e.
Proof. exact ScopeProofs.parent_constant_where_relation_rejected. Qed.
Print Assumptions parent_constant_where_relation_rejected.

Theorem pop_front_walk_misses_parent : forall c mods sc m n id,
  cfg_parent_walk c = false ->
  (forall y, mlookup mods sc ([m; n] ++ fst id, snd id) <> [y]) ->
  (forall y, mlookup mods sc ([n] ++ fst id, snd id) <> [y]) ->
  rel_enclosing c mods sc [m; n] id = None.
Proof. exact ScopeProofs.pop_front_walk_misses_parent. Qed.
Print Assumptions pop_front_walk_misses_parent.

(* `module m { let k = 5  let r = (from t | select {a})  module n { let q = (..) } }` *)
Definition ex_mods : list (list str * nkind) := [([[109]; [107]], NValue); ([[109]; [114]], NTable); ([[109]; [110]], NModule)].
Definition ex_ms (cur : list str) : mscope :=
  mkMScope (mkScope [(s_std_name, NModule); (s_db_name, NModule); ([109], NModule)] (mkFrame [] []) None [] std_names) cur ex_mods.

(* FULL STRENGTH at the head configuration (repair 7f02b48): a declaration of the parent module is what the name means
   unless the declaration's own module declares it -- in relation positions and in value positions *)
Theorem c10_head_parent_modules : forall mods sc m n id x,
  (forall y, mlookup mods sc ([m; n] ++ fst id, snd id) <> [y]) ->
  mlookup mods sc ([m] ++ fst id, snd id) = [x] -> rel_enclosing head_cfg mods sc [m; n] id = Some x.
Proof. intros. apply parent_declaration_found; [vm_compute; reflexivity | assumption | assumption]. Qed.
Print Assumptions c10_head_parent_modules.

Theorem c10_head_parent_values : forall mods sc m n id r,
  (exists e, resolve_core_m mods sc ([m; n] ++ fst id, snd id) = RErr e) ->
  resolve_core_m mods sc ([m] ++ fst id, snd id) = r -> (forall e, r <> RErr e) ->
  resolve_enclosing head_cfg mods sc [m; n] id = r.
Proof. intros. apply ScopeProofs.parent_value_found; [vm_compute; reflexivity | assumption | assumption | assumption]. Qed.
Print Assumptions c10_head_parent_values.

Theorem c10_head_every_ancestor_visited : forall pre x suf, In (pre ++ [x]) (walk head_cfg (pre ++ x :: suf)).
Proof. intros. apply parent_walk_visits_every_ancestor. vm_compute. reflexivity. Qed.
Print Assumptions c10_head_every_ancestor_visited.

Example c10_ex_module_sibling :
  let old := mkCfg false false false false in let new := mkCfg false true false false in
  rel_arg_kind_m old (ex_ms [[109]]) ([], [107]) = Some AScalar
  /\ rel_arg_kind_m_before_d92afac (ex_ms [[109]]) ([], [107]) = Some ARel
  /\ rel_arg_kind_m old (ex_ms [[109]]) ([], [114]) = Some ARel
  /\ rel_arg_kind_m old (ex_ms [[109]]) ([], [122]) = Some ARel                      (* no such sibling: database table z *)
  /\ rel_arg_kind_m old (ex_ms []) ([[109]], [107]) = Some AScalar                   (* from m.k at the root *)
  /\ rel_arg_kind_m old (ex_ms [[109]; [110]]) ([], [107]) = Some ARel               (* C10-F3: the parent's constant is not seen *)
  /\ rel_arg_kind_m new (ex_ms [[109]; [110]]) ([], [107]) = Some AScalar            (* ... and is, with the parent walk *)
  /\ rel_arg_kind_m new (ex_ms [[109]]) ([], [107]) = Some AScalar
  /\ lower_ref_m old (ex_ms [[109]]) ([], [107]) = OValue
  /\ lower_ref_m old (ex_ms [[109]; [110]]) ([], [107]) = OErr EUnknown              (* value position, same pop_front *)
  /\ lower_ref_m new (ex_ms [[109]; [110]]) ([], [107]) = OValue.
Proof. vm_compute. auto 20. Qed.

(* value positions inside modules, open frames: with the parent walk the parent's declaration is what the name means; with
   pop_front both qualified attempts fail and the identifier as written decides -- in an open frame that is INFERENCE: the
   parent's constant silently becomes a column of the database table (C10-F3 in a value position) *)
Theorem parent_value_found : forall c mods sc m n id r,
  cfg_parent_walk c = true ->
  (exists e, resolve_core_m mods sc ([m; n] ++ fst id, snd id) = RErr e) ->
  resolve_core_m mods sc ([m] ++ fst id, snd id) = r -> (forall e, r <> RErr e) ->
  resolve_enclosing c mods sc [m; n] id = r.
Proof. exact ScopeProofs.parent_value_found. Qed.
Print Assumptions parent_value_found.

Theorem pop_front_leaves_parents_name_to_inference : forall c mods sc m n id,
  cfg_parent_walk c = false ->
  (exists e, resolve_core_m mods sc ([m; n] ++ fst id, snd id) = RErr e) ->
  (exists e, resolve_core_m mods sc ([n] ++ fst id, snd id) = RErr e) ->
  resolve_enclosing c mods sc [m; n] id = resolve_core_m mods sc id.
Proof. exact ScopeProofs.pop_front_leaves_parents_name_to_inference. Qed.
Print Assumptions pop_front_leaves_parents_name_to_inference.

(* `module m { let k = 5  module n { let q = (from zt | derive {z = k}) } }`, zt a database table *)
Example c10_ex_module_open_frame :
  let ms := mkMScope (mkScope [(s_std_name, NModule); (s_db_name, NModule); ([109], NModule)]
                              (mkFrame [mkInput [122;116] [] true] []) None [] std_names) [[109]; [110]] ex_mods in
  lower_ref_m (mkCfg false false false false) ms ([], [107]) = OInferredColumn false 0
  /\ lower_ref_m (mkCfg false true false false) ms ([], [107]) = OValue.
Proof. vm_compute. auto. Qed.

(* ---- type names: `this` and `that` are shadowed while a type annotation is resolved (fold_type) ---- *)
Theorem type_ref_ignores_frames : forall root f1 t1 f2 t2 par std id,
  type_ref (mkScope root f1 t1 par std) id = type_ref (mkScope root f2 t2 par std) id.
Proof. exact ScopeProofs.type_ref_ignores_frames. Qed.
Print Assumptions type_ref_ignores_frames.

(* a name that denotes no declaration is not a type -- in particular a column, an input alias, this.col *)
Theorem column_is_never_a_type : forall sc n,
  names_decl sc n = false -> type_ref sc ([], n) = TErr EUnknown.
Proof. exact ScopeProofs.column_is_never_a_type. Qed.
Print Assumptions column_is_never_a_type.

Theorem type_name_not_captured_by_column : forall sc n k,
  lookup (shadowed sc) ([], n) = [k] -> (k = CRoot NType \/ k = CStd NType \/ k = CParam NType) ->
  type_ref sc ([], n) = TOk.
Proof. exact ScopeProofs.type_name_not_captured_by_column. Qed.
Print Assumptions type_name_not_captured_by_column.

(* `from t | select {int = a, b} | derive {y = (func x <int> -> x + 1) b}`: int is the std type although a column is called int;
   `<b>`: a column is not a type; `<math>`: a module is not a type *)
Example c10_ex_type_names :
  let sc := mkScope [(s_std_name, NModule); (s_db_name, NModule)] (mkFrame [mkInput [116] [[98]] false] [[105;110;116]]) None [] std_names in
  type_ref sc ([], [105;110;116]) = TOk
  /\ in_frames sc [105;110;116] = true
  /\ type_ref sc ([], [98]) = TErr EUnknown
  /\ type_ref sc ([[116;104;105;115]], [98]) = TErr EUnknown
  /\ type_ref sc ([], [109;97;116;104]) = TErr ENotAType.
Proof. vm_compute. auto 10. Qed.

(* ---- case branches that static evaluation removes (finding C10-F7, fixed by 3056744) ----
   Full statement: the value of such a branch is judged like the value of a live one,
     forall sc id, lower_ref_dead head_cfg sc id = lower_ref head_cfg sc id.
   TRUE with the check in static_eval.rs (cfg_dead_case_checked, proposed repair fixes/C10-F7-*.diff); without it what only
   lower_expr rejects -- a module, a relation variable, default_db.x, the bare `that` -- is dropped unseen, while what the
   resolver rejects stays rejected. *)
Theorem dead_branch_judged_like_a_live_one : forall c sc id,
  cfg_dead_case_checked c = true -> lower_ref_dead c sc id = lower_ref c sc id.
Proof. exact ScopeProofs.dead_branch_judged_like_a_live_one. Qed.
Print Assumptions dead_branch_judged_like_a_live_one.

Theorem dead_branch_never_unchecked : forall c sc id,
  cfg_dead_case_checked c = true -> lower_ref_dead c sc id <> ODropped.
Proof. exact ScopeProofs.dead_branch_never_unchecked. Qed.
Print Assumptions dead_branch_never_unchecked.

Theorem dead_branch_resolver_errors_stay : forall c sc id e,
  resolve sc id = RErr e -> lower_ref_dead c sc id = OErr e.
Proof. exact ScopeProofs.dead_branch_resolver_errors_stay. Qed.
Print Assumptions dead_branch_resolver_errors_stay.

Theorem dead_branch_module_dropped : forall c sc n k,
  cfg_dead_case_checked c = false ->
  lookup sc ([], n) = [k] -> (k = CRoot NModule \/ k = CStd NModule \/ k = CRoot NTable) ->
  lower_ref_dead c sc ([], n) = ODropped.
Proof. exact ScopeProofs.dead_branch_module_dropped. Qed.
Print Assumptions dead_branch_module_dropped.

(* FULL STRENGTH at the head configuration (repair 3056744) *)
Theorem c10_head_dead_branches : forall sc id,
  lower_ref_dead head_cfg sc id = lower_ref head_cfg sc id /\ lower_ref_dead head_cfg sc id <> ODropped.
Proof.
  intros. split; [apply dead_branch_judged_like_a_live_one | apply dead_branch_never_unchecked]; vm_compute; reflexivity.
Qed.
Print Assumptions c10_head_dead_branches.

(* the former witness (`case [false => date, ..]`) without and with the check *)
Example c10_ex_dead_branch :
  lower_ref_dead (mkCfg true true false false) ex_scope ([], s_date) = ODropped
  /\ lower_ref_dead head_cfg ex_scope ([], s_date) = OErr ENotAValue.
Proof. vm_compute. auto. Qed.

(* ---- a call of an std operator where a relation is required (finding C10-F4, fixed by 830df3c) ----
   Full statement: it is a scalar argument, hence rejected.  TRUE with the test in validate_expr_type (cfg_std_call_rejected,
   proposed repair fixes/C10-F4-*.diff); without it the untyped call is taken for a table. *)
Theorem std_call_where_relation_rejected : forall c f args named i,
  cfg_std_call_rejected c = true ->
  nth_error (fs_params f) i = Some PRel -> nth_error args i = Some (seen c SStdCall) ->
  length args = length (fs_params f) ->
  exists e, apply_fn f args named = AErr e.
Proof. exact ScopeProofs.std_call_where_relation_rejected. Qed.
Print Assumptions std_call_where_relation_rejected.

Theorem std_call_taken_for_a_table : forall c, cfg_std_call_rejected c = false -> seen c SStdCall = ARel.
Proof. exact ScopeProofs.std_call_taken_for_a_table. Qed.
Print Assumptions std_call_taken_for_a_table.

(* FULL STRENGTH at the head configuration (repair 830df3c) *)
Theorem c10_head_std_calls : forall f args named i,
  nth_error (fs_params f) i = Some PRel -> nth_error args i = Some (seen head_cfg SStdCall) ->
  length args = length (fs_params f) -> exists e, apply_fn f args named = AErr e.
Proof. intros. eapply std_call_where_relation_rejected; try eassumption. vm_compute. reflexivity. Qed.
Print Assumptions c10_head_std_calls.

(* `from (math.abs 3)` without and with the test *)
Example c10_ex_std_call :
  match sig_of [[102;114;111;109]] with Some s => apply_fn s [seen (mkCfg true true true false) SStdCall] [] | None => AErr EUnknown end = Applied
  /\ match sig_of [[102;114;111;109]] with Some s => apply_fn s [seen head_cfg SStdCall] [] | None => Applied end = AErr ENotARelation.
Proof. vm_compute. auto. Qed.

(* ---- a column excluded from a relation with unknown columns (finding C10-F6, open) ----
   Full statement (FALSE of the faithful model and of the implementation): the exclusions the lineage records are honoured,
     forall ex c sc id, lower_ref c sc id = lower_ref_x ex c sc id.
   Characterised exactly: the two differ IF AND ONLY IF the reference is an inference, into an input of `this`, of a column
   that input's `except` set lists -- then the property says Unknown and the implementation binds the column. *)
Theorem excluded_column_refuted : forall c,
  exists ex sc id, lower_ref c sc id <> lower_ref_x ex c sc id.
Proof.
  intro c. exists [(0%nat, [97])], (mkScope [] (mkFrame [mkInput [116] [] true] []) None [] []), ([], [97]).
  apply ScopeProofs.excluded_characterised. vm_compute. reflexivity.
Qed.
Print Assumptions excluded_column_refuted.

Theorem excluded_column_characterised : forall ex c sc id,
  lower_ref c sc id <> lower_ref_x ex c sc id <-> excluded_inference ex sc id = true.
Proof. exact ScopeProofs.excluded_characterised. Qed.
Print Assumptions excluded_column_characterised.

Theorem excluded_column_partial : forall c sc id, lower_ref_x [] c sc id = lower_ref c sc id.
Proof. exact ScopeProofs.no_exclusions_no_difference. Qed.
Print Assumptions excluded_column_partial.

Theorem excluded_inference_is_a_binding : forall ex c sc id,
  excluded_inference ex sc id = true ->
  lower_ref_x ex c sc id = OErr EUnknown /\ exists i, lower_ref c sc id = OInferredColumn false i.
Proof. exact ScopeProofs.excluded_inference_is_a_binding. Qed.
Print Assumptions excluded_inference_is_a_binding.

(* ---- the names of a tuple's fields (finding C10-F5, open) ----
   Full statement (FALSE): a field loses its name only to a later field of the same slot (same relation prefix, or one of
   the two without a prefix),  forall fs, unname fs = unname_spec fs.
   Characterised exactly: the implemented rule (any later field with the same last name) differs IF AND ONLY IF some
   field's name is taken by a later field of ANOTHER relation and by none of its own slot (dup_across).  Consequence of the
   implemented rule: after any tuple at most one field answers to a bare name -- `select {x.id, y.id} | select {id}` cannot be
   ambiguous, it means y.id. *)
Theorem tuple_names_refuted : exists fs n,
  unname fs <> unname_spec fs /\ named n (unname fs) = 1%nat /\ named n (unname_spec fs) = 2%nat.
Proof. exists [(Some 0%nat, [105;100]); (Some 1%nat, [105;100])], [105;100]. vm_compute. split; [discriminate | auto]. Qed.
Print Assumptions tuple_names_refuted.

Theorem tuple_names_characterised : forall fs, unname fs = unname_spec fs <-> dup_across fs = false.
Proof. exact ScopeProofs.unname_characterised. Qed.
Print Assumptions tuple_names_characterised.

Theorem tuple_bare_name_never_ambiguous : forall n fs, (named n (unname fs) <= 1)%nat.
Proof. exact ScopeProofs.named_unname_le. Qed.
Print Assumptions tuple_bare_name_never_ambiguous.

(* `derive {a = a + 1}` over input column a (the intended use of the rule): both rules agree *)
Example c10_ex_tuple_override :
  dup_across [(Some 0%nat, [97]); (Some 0%nat, [98]); (None, [97])] = false
  /\ unname [(Some 0%nat, [97]); (Some 0%nat, [98]); (None, [97])] = [None; Some (Some 0%nat, [98]); Some (None, [97])].
Proof. vm_compute. auto. Qed.

(* ---- every std function checks its arguments ----
   The signature table is regenerated from std.prql; the generic theorems instantiate to EVERY entry, and the check calls
   every entry of the table once with a surplus positional and once with an unknown named argument (stream std-table). *)
Theorem c10_std_every_function_checks_arguments : forall p s, In (p, s) std_sigs ->
  (forall args named, (length (fs_params s) < length args)%nat -> exists e, apply_fn s args named = AErr e)
  /\ (forall args named n, In n named -> existsb (leqb n) (fs_named s) = false -> apply_fn s args named = AErr EUnknownNamed).
Proof.
  intros p s _. split.
  - intros args named. apply ScopeProofs.too_many_args_rejected.
  - intros args named n. apply ScopeProofs.unknown_named_arg_rejected.
Qed.
Print Assumptions c10_std_every_function_checks_arguments.

(* the table is a function: one signature per path, each path a function of the std name table, every function has one *)
Fixpoint paths_distinct (l : list (list str)) : bool :=
  match l with [] => true | p :: l' => negb (existsb (path_eqb p) l') && paths_distinct l' end.

Theorem c10_std_table_wellformed :
  paths_distinct (map fst std_sigs) = true
  /\ forallb (fun e => match std_all (fst e) std_names with [NFunc] => true | _ => false end) std_sigs = true
  /\ forallb (fun e => match snd e with NFunc => existsb (fun g => path_eqb (fst e) (fst g)) std_sigs | _ => true end) std_names = true
  /\ forallb (fun e => paths_distinct (map (fun n => [n]) (fs_named (snd e)))) std_sigs = true.
Proof. vm_compute. auto. Qed.
Print Assumptions c10_std_table_wellformed.

(* ---- non-vacuity ---- *)

(* `from t | select {a} | filter c > 1`: c is in no frame and denotes nothing else *)
Example c10_ex_dropped_column : resolve ex_scope ([], [99]) = RErr EUnknown.
Proof. vm_compute. reflexivity. Qed.

(* the hypotheses of closed_frame_rejects_unknown hold for it *)
Example c10_ex_hypotheses : scope_closed ex_scope = true /\ in_frames ex_scope [99] = false /\ names_other ex_scope [99] = false.
Proof. vm_compute. auto. Qed.

(* `from t | filter c > 1` (t with unknown columns): inferred into t, documented behaviour *)
Example c10_ex_wildcard_infers :
  lower_ref head_cfg (mkScope [] (mkFrame [mkInput [116] [] true] []) None [] std_names) ([], [99]) = OInferredColumn false 0.
Proof. vm_compute. reflexivity. Qed.

(* two wildcard inputs: a bare unknown name cannot be attributed *)
Example c10_ex_two_wildcards_ambiguous :
  resolve (mkScope [] (mkFrame [mkInput [116] [] true; mkInput [117] [] true] []) None [] std_names) ([], [99]) = RErr EAmbiguous.
Proof. vm_compute. reflexivity. Qed.

(* one closed and one wildcard input: attributed to the wildcard one *)
Example c10_ex_one_wildcard_infers :
  lower_ref head_cfg (mkScope [] (mkFrame [mkInput [116] [[97]] false; mkInput [117] [] true] []) None [] std_names) ([], [99]) = OInferredColumn false 1.
Proof. vm_compute. reflexivity. Qed.

Example c10_ex_take_1_2 :
  match sig_of [[116;97;107;101]] with Some s => apply_fn s [AScalar; AScalar; ARel] [] | None => Applied end = AErr ETooManyArgs.
Proof. vm_compute. reflexivity. Qed.

Example c10_ex_from_5 :
  match sig_of [[102;114;111;109]] with Some s => apply_fn s [AScalar] [] | None => Applied end = AErr ENotARelation.
Proof. vm_compute. reflexivity. Qed.

Example c10_ex_join_named :
  match sig_of [[106;111;105;110]] with Some s => apply_fn s [ARel; AScalar; ARel] [[122;122]] | None => Applied end = AErr EUnknownNamed.
Proof. vm_compute. reflexivity. Qed.

(* `let n = 5` then `join n (==id)`: n is the constant, not a database table *)
Example c10_ex_let_constant_as_relation :
  let sc := mkScope [([110], NValue)] (mkFrame [mkInput [97] [[99]] true] []) None [] std_names in
  rel_arg_kind sc ([], [110]) = Some AScalar
  /\ rel_arg_kind sc ([], [99]) = Some ARel      (* a column name in relation position is a database table *)
  /\ match sig_of [[106;111;105;110]] with Some s => apply_fn s [AScalar; AScalar; ARel] [] | None => Applied end = AErr ENotARelation
  /\ rel_arg_kind sc ([], [98]) = Some ARel.
Proof. vm_compute. auto. Qed.

(* `take 2 expr:1`: expr is the name of take's positional parameter, not a named parameter *)
Example c10_ex_positional_name_as_named :
  match sig_of [[116;97;107;101]] with Some s => apply_fn s [AScalar; ARel] [[101;120;112;114]] | None => Applied end = AErr EUnknownNamed.
Proof. vm_compute. reflexivity. Qed.

Example c10_ex_join_ok :
  match sig_of [[106;111;105;110]] with Some s => apply_fn s [ARel; AScalar; ARel] [[115;105;100;101]] | None => AErr EUnknown end = Applied.
Proof. vm_compute. reflexivity. Qed.

(* C10 -- ill-scoped programs are rejected, never compiled to something else.
   Statements only; proofs are in Proofs/ScopeProofs.v.  The std module's names and signatures are
   Gen/GenC10Std.v, regenerated from semantic/std.prql (through prqlc's own parser) on every run.

   The model (Model/Scope.v) restates Module::lookup / resolve_ident (enclosing modules) / resolve_ident_core /
   apply_args_to_closure / fold_function / what lower_expr does with an Ident that has no target id;
   it is run against the implementation on generated well-scoped programs and on one scope-breaking edit at every
   applicable site (vplib/props/c10.py).  The resolver itself is validated per program, not proved. *)
From Coq Require Import List NArith Bool Permutation.
From PV Require Import Lib.ListX Model.Scope Proofs.ScopeProofs Gen.GenC10Std.
Import ListNotations.
Local Open Scope N_scope.

(* ---- (a) a name that is in no frame, when every frame is fully known ---- *)

Theorem closed_frame_rejects_unknown : forall sc n,
  scope_closed sc = true -> in_frames sc n = false -> names_other sc n = false ->
  resolve sc ([], n) = RErr EUnknown.
Proof. exact ScopeProofs.closed_frame_rejects_unknown. Qed.
Print Assumptions closed_frame_rejects_unknown.

(* whatever else the name denotes, it is never bound to a column (known or inferred) *)
Theorem closed_frame_never_binds_a_column : forall sc n,
  scope_closed sc = true -> in_frames sc n = false ->
  match lower_ref sc ([], n) with OColumn _ _ _ | OInferredColumn _ _ => False | _ => True end.
Proof. exact closed_frame_outcome. Qed.
Print Assumptions closed_frame_never_binds_a_column.

(* ---- (b) ambiguity: never resolved to an arbitrary candidate, whatever the enumeration order of the set ---- *)

Theorem ambiguous_never_picks : forall cands infer,
  (2 <= length cands)%nat -> resolve_from cands infer = RErr EAmbiguous.
Proof. exact ScopeProofs.ambiguous_never_picks. Qed.
Print Assumptions ambiguous_never_picks.

Theorem ambiguous_never_picks_any_order : forall cands cands' infer infer',
  Permutation cands cands' -> Permutation infer infer' ->
  resolve_from cands infer = resolve_from cands' infer'.
Proof. exact resolve_order_independent. Qed.
Print Assumptions ambiguous_never_picks_any_order.

Theorem resolve_ok_unique : forall cands infer,
  (forall c, resolve_from cands infer = RBound c -> cands = [c])
  /\ (forall i, resolve_from cands infer = RInferred i -> cands = [] /\ infer = [i]).
Proof. exact ScopeProofs.resolve_ok_unique. Qed.
Print Assumptions resolve_ok_unique.

Theorem column_of_both_join_sides_is_ambiguous : forall root x y n d par std,
  In n (in_cols x) -> In n (in_cols y) ->
  resolve (mkScope root (mkFrame [x; y] d) None par std) ([], n) = RErr EAmbiguous.
Proof. exact both_sides_ambiguous. Qed.
Print Assumptions column_of_both_join_sides_is_ambiguous.

(* ---- (c) (d) (e) function application ---- *)

Theorem too_many_args_rejected : forall f args named,
  (length (fs_params f) < length args)%nat -> exists e, apply_fn f args named = AErr e.
Proof. exact ScopeProofs.too_many_args_rejected. Qed.
Print Assumptions too_many_args_rejected.

Theorem unknown_named_arg_rejected : forall f args named n,
  In n named -> existsb (leqb n) (fs_named f) = false -> apply_fn f args named = AErr EUnknownNamed.
Proof. exact ScopeProofs.unknown_named_arg_rejected. Qed.
Print Assumptions unknown_named_arg_rejected.

Theorem scalar_where_relation_rejected : forall f args named i,
  nth_error (fs_params f) i = Some PRel -> nth_error args i = Some AScalar ->
  length args = length (fs_params f) ->
  exists e, apply_fn f args named = AErr e.
Proof. exact ScopeProofs.scalar_where_relation_rejected. Qed.
Print Assumptions scalar_where_relation_rejected.

(* a `let` constant or a parameter value named where a relation is required is a scalar argument: rejected.
   (Columns and input aliases are not in scope in a relation position -- this/that are shadowed there -- so a column
   name in `join b ...` denotes the database table b.) *)
Theorem constant_where_relation_rejected : forall sc n f args named i k,
  lookup (shadowed sc) ([], n) = [CRoot NValue] \/ lookup (shadowed sc) ([], n) = [CParam NValue] ->
  rel_arg_kind sc ([], n) = Some k ->
  nth_error (fs_params f) i = Some PRel -> nth_error args i = Some k ->
  length args = length (fs_params f) ->
  exists e, apply_fn f args named = AErr e.
Proof. exact ScopeProofs.constant_where_relation_rejected. Qed.
Print Assumptions constant_where_relation_rejected.

(* the same name known to both operands of a join is ambiguous INSIDE the join condition too (this and that in scope) *)
Theorem column_of_this_and_that_is_ambiguous : forall root x y n d d' par std,
  In n (in_cols x) -> In n (in_cols y) ->
  resolve (mkScope root (mkFrame [x] d) (Some (mkFrame [y] d')) par std) ([], n) = RErr EAmbiguous.
Proof. exact this_and_that_ambiguous. Qed.
Print Assumptions column_of_this_and_that_is_ambiguous.

(* the std transforms the property is about exist and take the relation they transform as a relation-typed parameter *)
Definition transform_names : list str :=
  [ [102;114;111;109] (* from *); [115;101;108;101;99;116] (* select *); [102;105;108;116;101;114] (* filter *);
    [100;101;114;105;118;101] (* derive *); [97;103;103;114;101;103;97;116;101] (* aggregate *); [115;111;114;116] (* sort *);
    [116;97;107;101] (* take *); [106;111;105;110] (* join *); [103;114;111;117;112] (* group *); [119;105;110;100;111;119] (* window *);
    [97;112;112;101;110;100] (* append *); [108;111;111;112] (* loop *); [105;110;116;101;114;115;101;99;116] (* intersect *);
    [114;101;109;111;118;101] (* remove *) ].

Definition sig_of (p : list str) : option fsig :=
  option_map snd (find (fun e => path_eqb p (fst e)) std_sigs).

Theorem c10_std_transforms_take_a_relation :
  forallb (fun n => match sig_of [n] with
                    | Some s => match last (map Some (fs_params s)) None with Some PRel => true | _ => false end
                    | None => false
                    end) transform_names = true.
Proof. vm_compute. reflexivity. Qed.
Print Assumptions c10_std_transforms_take_a_relation.

(* ---- a module or relation name where a value is required (repair a131b2a; was finding C10-F1) ----
   A name that denotes a module (std, date, math, text, default_db, _param, a user module) or a relation variable
   (let-table) is never a value: the reference is an error -- "expected a value, but found module" / "table variable
   cannot be used as a scalar value", or ambiguous when the name denotes something else too.  Before a131b2a it
   resolved to that declaration, carried no target id, and lower_expr's fallback sent the bare name to SQL. *)
Theorem module_or_relation_name_is_not_a_value : forall sc n,
  names_module_or_table sc n = true ->
  lower_ref sc ([], n) = OErr ENotAValue \/ lower_ref sc ([], n) = OErr EAmbiguous.
Proof. exact ScopeProofs.module_or_relation_name_is_not_a_value. Qed.
Print Assumptions module_or_relation_name_is_not_a_value.

(* ---- no silent passthrough ----
   Full statement (still FALSE of the faithful model and of the implementation, but only through finding C10-F2):
     forall sc n, scope_closed sc = true -> in_frames sc n = false -> lower_ref sc ([], n) <> OPassthrough
   The one reference left that reaches SQL unresolved is the bare name `that` outside a join condition: while the
   arguments of a transform are resolved the root module holds an EMPTY module `that` (resolve_function_args shadows
   it), the name resolves to it, and at lowering time that module is gone -- lower_expr sees neither a module nor a
   relation type and falls back to passing `that` to SQL. *)

Definition s_date : str := [100;97;116;101].
Definition ex_scope : scope :=
  mkScope [(s_std_name, NModule); (s_db_name, NModule)]
          (mkFrame [mkInput [116] [[97]] false] []) None [] std_names.

Theorem no_silent_passthrough_refuted :
  exists sc n, scope_closed sc = true /\ in_frames sc n = false /\ lower_ref sc ([], n) = OPassthrough.
Proof. exists ex_scope, s_that_name. vm_compute. auto. Qed.
Print Assumptions no_silent_passthrough_refuted.

(* every passthrough is that one: any identifier, qualified or not, in any scope *)
Theorem passthrough_only_bare_that : forall sc id,
  lower_ref sc id = OPassthrough -> fst id = [] /\ leqb (snd id) s_that_name = true /\ s_that sc = None.
Proof. exact ScopeProofs.passthrough_only_bare_that. Qed.
Print Assumptions passthrough_only_bare_that.

Theorem no_silent_passthrough_partial : forall sc n,
  leqb n s_that_name = false \/ s_that sc <> None -> lower_ref sc ([], n) <> OPassthrough.
Proof. exact ScopeProofs.no_silent_passthrough_partial. Qed.
Print Assumptions no_silent_passthrough_partial.

(* the former witness of C10-F1 (`from t | select {a} | derive {x = date}`, date from the GENERATED std table) is an error now *)
Example c10_ex_former_f1_witness :
  lower_ref ex_scope ([], s_date) = OErr ENotAValue
  /\ lower_ref ex_scope ([], s_std_name) = OErr ENotAValue
  /\ lower_ref ex_scope ([], s_db_name) = OErr ENotAValue
  /\ lower_ref ex_scope ([s_db_name], [98]) = OErr ENotAValue                    (* default_db.b *)
  /\ lower_ref_in true ex_scope ([s_db_name], [98]) = OPassthrough               (* s"{default_db.b}": spliced, by design *)
  /\ lower_ref_in true ex_scope ([], s_date) = OErr ENotAValue.                  (* a module is not spliced *)
Proof. vm_compute. auto 10. Qed.

(* ---- declarations inside modules: table references look at the enclosing modules first (repair d92afac) ---- *)

(* anything but a relation variable found there makes the call an error (before: a database table of that name) *)
Theorem enclosing_nonrelation_where_relation_rejected : forall ms id c f args named i k,
  rel_enclosing (ms_mods ms) (shadowed (ms_scope ms)) (ms_cur ms) id = Some c ->
  arg_kind_of c <> ARel ->
  rel_arg_kind_m ms id = Some k ->
  nth_error (fs_params f) i = Some PRel -> nth_error args i = Some k ->
  length args = length (fs_params f) ->
  exists e, apply_fn f args named = AErr e.
Proof. exact ScopeProofs.enclosing_nonrelation_where_relation_rejected. Qed.
Print Assumptions enclosing_nonrelation_where_relation_rejected.

Theorem sibling_constant_where_relation_rejected : forall ms m cur n f args named i k,
  ms_cur ms = m :: cur ->
  mlookup (ms_mods ms) (shadowed (ms_scope ms)) (m :: cur, n) = [CRoot NValue] ->
  rel_arg_kind_m ms ([], n) = Some k ->
  nth_error (fs_params f) i = Some PRel -> nth_error args i = Some k ->
  length args = length (fs_params f) ->
  exists e, apply_fn f args named = AErr e.
Proof. exact ScopeProofs.sibling_constant_where_relation_rejected. Qed.
Print Assumptions sibling_constant_where_relation_rejected.

Theorem sibling_table_is_a_relation : forall ms m cur n,
  ms_cur ms = m :: cur ->
  mlookup (ms_mods ms) (shadowed (ms_scope ms)) (m :: cur, n) = [CRoot NTable] ->
  rel_arg_kind_m ms ([], n) = Some ARel.
Proof. exact ScopeProofs.sibling_table_is_a_relation. Qed.
Print Assumptions sibling_table_is_a_relation.

Theorem sibling_shadows_in_value_position : forall ms m cur id r,
  ms_cur ms = m :: cur ->
  resolve_core_m (ms_mods ms) (ms_scope ms) ((m :: cur) ++ fst id, snd id) = r ->
  (forall e, r <> RErr e) -> resolve_m ms id = r.
Proof. exact ScopeProofs.sibling_shadows_in_value_position. Qed.
Print Assumptions sibling_shadows_in_value_position.

(* `module m { let k = 5  let r = (from t | select {a})  let q = (from k) }`: in q, `from k` is the constant (an
   error), `from r` the sibling relation; before d92afac `from k` was the database table k.
   `module m { let k = 5  module n { let q = (from k) } }`: m.n.k and n.k do not exist, the parent's m.k is never
   tried (pop_front) -- `from k` is still the database table k (finding C10-F3). *)
Definition ex_mods : list (list str * nkind) := [([[109]; [107]], NValue); ([[109]; [114]], NTable); ([[109]; [110]], NModule)].
Definition ex_ms (cur : list str) : mscope :=
  mkMScope (mkScope [(s_std_name, NModule); (s_db_name, NModule); ([109], NModule)] (mkFrame [] []) None [] std_names) cur ex_mods.

Example c10_ex_module_sibling :
  rel_arg_kind_m (ex_ms [[109]]) ([], [107]) = Some AScalar
  /\ rel_arg_kind_m_before_d92afac (ex_ms [[109]]) ([], [107]) = Some ARel
  /\ rel_arg_kind_m (ex_ms [[109]]) ([], [114]) = Some ARel
  /\ rel_arg_kind_m (ex_ms [[109]]) ([], [122]) = Some ARel                      (* no such sibling: database table z *)
  /\ rel_arg_kind_m (ex_ms []) ([[109]], [107]) = Some AScalar                   (* from m.k at the root *)
  /\ rel_arg_kind_m (ex_ms [[109]; [110]]) ([], [107]) = Some ARel               (* C10-F3: the parent's constant is not seen *)
  /\ lower_ref_m (ex_ms [[109]]) ([], [107]) = OValue
  /\ lower_ref_m (ex_ms [[109]; [110]]) ([], [107]) = OErr EUnknown.             (* value position, same pop_front *)
Proof. vm_compute. auto 10. Qed.

(* ---- non-vacuity ---- *)

(* `from t | select {a} | filter c > 1`: c is in no frame and denotes nothing else *)
Example c10_ex_dropped_column : resolve ex_scope ([], [99]) = RErr EUnknown.
Proof. vm_compute. reflexivity. Qed.

(* the hypotheses of closed_frame_rejects_unknown hold for it *)
Example c10_ex_hypotheses : scope_closed ex_scope = true /\ in_frames ex_scope [99] = false /\ names_other ex_scope [99] = false.
Proof. vm_compute. auto. Qed.

(* `from t | filter c > 1` (t with unknown columns): inferred into t, documented behaviour *)
Example c10_ex_wildcard_infers :
  lower_ref (mkScope [] (mkFrame [mkInput [116] [] true] []) None [] std_names) ([], [99]) = OInferredColumn false 0.
Proof. vm_compute. reflexivity. Qed.

(* two wildcard inputs: a bare unknown name cannot be attributed *)
Example c10_ex_two_wildcards_ambiguous :
  resolve (mkScope [] (mkFrame [mkInput [116] [] true; mkInput [117] [] true] []) None [] std_names) ([], [99]) = RErr EAmbiguous.
Proof. vm_compute. reflexivity. Qed.

(* one closed and one wildcard input: attributed to the wildcard one *)
Example c10_ex_one_wildcard_infers :
  lower_ref (mkScope [] (mkFrame [mkInput [116] [[97]] false; mkInput [117] [] true] []) None [] std_names) ([], [99]) = OInferredColumn false 1.
Proof. vm_compute. reflexivity. Qed.

Example c10_ex_take_1_2 :
  match sig_of [[116;97;107;101]] with Some s => apply_fn s [AScalar; AScalar; ARel] [] | None => Applied end = AErr ETooManyArgs.
Proof. vm_compute. reflexivity. Qed.

Example c10_ex_from_5 :
  match sig_of [[102;114;111;109]] with Some s => apply_fn s [AScalar] [] | None => Applied end = AErr ENotARelation.
Proof. vm_compute. reflexivity. Qed.

Example c10_ex_join_named :
  match sig_of [[106;111;105;110]] with Some s => apply_fn s [ARel; AScalar; ARel] [[122;122]] | None => Applied end = AErr EUnknownNamed.
Proof. vm_compute. reflexivity. Qed.

(* `let n = 5` then `join n (==id)`: n is the constant, not a database table *)
Example c10_ex_let_constant_as_relation :
  let sc := mkScope [([110], NValue)] (mkFrame [mkInput [97] [[99]] true] []) None [] std_names in
  rel_arg_kind sc ([], [110]) = Some AScalar
  /\ rel_arg_kind sc ([], [99]) = Some ARel      (* a column name in relation position is a database table *)
  /\ match sig_of [[106;111;105;110]] with Some s => apply_fn s [AScalar; AScalar; ARel] [] | None => Applied end = AErr ENotARelation
  /\ rel_arg_kind sc ([], [98]) = Some ARel.
Proof. vm_compute. auto. Qed.

(* `take 2 expr:1`: expr is the name of take's positional parameter, not a named parameter *)
Example c10_ex_positional_name_as_named :
  match sig_of [[116;97;107;101]] with Some s => apply_fn s [AScalar; ARel] [[101;120;112;114]] | None => Applied end = AErr EUnknownNamed.
Proof. vm_compute. reflexivity. Qed.

Example c10_ex_join_ok :
  match sig_of [[106;111;105;110]] with Some s => apply_fn s [ARel; AScalar; ARel] [[115;105;100;101]] | None => AErr EUnknown end = Applied.
Proof. vm_compute. reflexivity. Qed.

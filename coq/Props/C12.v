(* C12 -- no input makes a public entry point panic, abort or hang.
   Only statements here.  Models: Model/Checked.v (Rust's failing primitives), Model/RangeArith.v (take-range /
   LIMIT-OFFSET / id arithmetic), Model/Span.v (error composition), Model/CheckedNest.v; proofs in Proofs/.
   Gen/GenSites.v (inventory of panic-capable sites, text of the modelled functions) is regenerated from /repo on
   every run; Model/SitesBaseline.v is the recorded baseline.
   PARTIAL: stack depth, wall-clock time and allocation are runtime facts exhibited by the harness
   (vplib/props/c12.py), not by these theorems; panic sites outside the modelled functions are counted, not proved. *)
From Coq Require Import List ZArith NArith Bool Arith.
From PV Require Import Lib.ListX Model.Checked Model.RangeArith Model.Span Model.CheckedNest Model.SitesBaseline
  Proofs.CheckedProofs Proofs.RangeArithProofs Proofs.SpanProofs Proofs.CheckedNestProofs Gen.GenSites.
Import ListNotations.

(* ------------------------------------------------------------------ Tie A: inventory and text pins *)
(* every (file, kind) count of unwrap/expect/panic!/unreachable!/todo!/unimplemented!/assert!/index/arith is at most
   the recorded one: a NEW site is an unproved obligation (the probe streams then run as the search) *)
Theorem c12_sites_within_baseline : within GenSites.sites baseline = true.
Proof. vm_compute. reflexivity. Qed.
Print Assumptions c12_sites_within_baseline.

(* the functions restated in Model/RangeArith.v / Model/Span.v still have the recorded text *)
Theorem c12_modelled_text_unchanged : same_text GenSites.modelled modelled_expected = true.
Proof. vm_compute. reflexivity. Qed.
Print Assumptions c12_modelled_text_unchanged.

Local Open Scope Z_scope.

(* ------------------------------------------------------------------ range_of_ranges / LIMIT-OFFSET *)
(* Full strength.  Until commit 18f8c11 ("fix: report an error instead of overflowing when composing take ranges")
   these were false (finding F7: `take 9223372036854775807.. | take 2..` and a single `take 9223372036854775807`
   overflowed i64 -- the old theorems c12_range_of_ranges_total_refuted / _partial).  The model now mirrors the
   checked arithmetic (checked_add / checked_sub, overflow -> Err("take range is too large")). *)
Theorem c12_range_of_ranges_total : forall rs, range_of_ranges rs <> Panic.
Proof. exact range_of_ranges_total_lemma. Qed.
Print Assumptions c12_range_of_ranges_total.

(* ... including the OFFSET / LIMIT subtraction of translate_select_pipeline *)
Theorem c12_take_sql_total : forall rs, take_sql rs <> Panic.
Proof. exact take_sql_total_lemma. Qed.
Print Assumptions c12_take_sql_total.

(* the error is not spurious: n literal ranges bounded by B in absolute value are accepted whenever 2n(B+1)+1 fits i64 *)
Theorem c12_take_sql_accepts : forall rs B,
  0 <= B -> Forall (bounded_i B) rs -> 2 * (Z.of_nat (length rs) * (B + 1)) + 1 <= i64_max ->
  exists ol, take_sql (map lit rs) = Ret ol.
Proof. exact take_sql_accepts_lemma. Qed.
Print Assumptions c12_take_sql_accepts.

(* instance: two takes with every bound below 2^60 *)
Theorem c12_two_takes_below_2p60 : forall r1 r2,
  bounded_i 1152921504606846975 r1 -> bounded_i 1152921504606846975 r2 -> exists ol, take_sql (map lit [r1; r2]) = Ret ol.
Proof.
  intros r1 r2 H1 H2. apply (take_sql_accepts_lemma [r1; r2] 1152921504606846975).
  - apply Z.leb_le. vm_compute. reflexivity.
  - apply Forall_cons; [assumption|]. apply Forall_cons; [assumption|]. apply Forall_nil.
  - apply Z.leb_le. vm_compute. reflexivity.
Qed.
Print Assumptions c12_two_takes_below_2p60.

(* the former F7 witnesses are reported as errors *)
Theorem c12_overflow_is_an_error :
  take_sql (map lit [IRange (Some 9223372036854775807) None; IRange (Some 2) None]) = Fail /\
  take_sql (map lit [IRange None (Some i64_max)]) = Fail /\
  limit_offset (IRange (Some i64_min) None) = Fail.
Proof. repeat split; vm_compute; reflexivity. Qed.
Print Assumptions c12_overflow_is_an_error.

(* functional correctness: whenever the arithmetic returns, OFFSET/LIMIT select exactly the rows the takes select
   one after the other (so an off-by-one in range_of_ranges or in the offset/limit lines falsifies the model the
   correspondence stream compares with the implementation) *)
Theorem c12_range_of_ranges_sound : forall (A : Type) rs ol (l : list A),
  Forall valid rs -> take_sql (map lit rs) = Ret ol ->
  apply_limit_offset ol l = fold_left (fun l r => take_range r l) rs l.
Proof. exact range_of_ranges_sound_lemma. Qed.
Print Assumptions c12_range_of_ranges_sound.

(* ------------------------------------------------------------------ IdGenerator (ids of an RQ from JSON) *)
(* Full statement (FALSE): forall next id, 0 <= id <= usize_max -> id_skip next id <> Panic *)
Theorem c12_id_skip_total_refuted : in_usize usize_max = true /\ id_skip 0 usize_max = Panic.
Proof. split; vm_compute; reflexivity. Qed.
Print Assumptions c12_id_skip_total_refuted.

Theorem c12_id_load_total_partial : forall ids next, 0 <= next <= usize_max ->
  Forall (fun i => 0 <= i < usize_max) ids -> exists n, id_load next ids = Ret n /\ 0 <= n <= usize_max.
Proof. exact id_load_total. Qed.
Print Assumptions c12_id_load_total_partial.

Theorem c12_id_gen_total_partial : forall next, 0 <= next < usize_max -> exists n, id_gen next = Ret (next, n) /\ n = next + 1.
Proof. exact id_gen_total. Qed.
Print Assumptions c12_id_gen_total_partial.

Local Close Scope Z_scope.

(* ------------------------------------------------------------------ error composition *)
(* convert_lexer_error slices the source at chumsky's byte offsets: total exactly on character boundaries *)
Theorem c12_convert_lexer_error_total : forall s bs be sid,
  boundary s bs -> boundary s be -> bs <= be -> is_ret (convert_lexer_error s bs be sid) = true.
Proof.
  intros s bs be sid H1 H2 H3.
  destruct (lexer_error_span_in_bounds_lemma s bs be sid H1 H2 H3) as (cs & ce & E & _). rewrite E. reflexivity.
Qed.
Print Assumptions c12_convert_lexer_error_total.

Theorem c12_convert_lexer_error_off_boundary : forall s bs be sid,
  ~ boundary s bs \/ ~ boundary s be -> convert_lexer_error s bs be sid = Panic.
Proof. exact convert_lexer_error_off_boundary. Qed.
Print Assumptions c12_convert_lexer_error_off_boundary.

(* Full statement (FALSE, finding F9): forall tree sp, composed_one tree sp <> Panic.
   `composed` asserts that the location exists; a span past the character length of its source fails it. *)
Theorem c12_composed_total_refuted : exists s sp, composed_one [(sp_src sp, s)] (Some sp) = Panic.
Proof. exists [233; 43]%N, (Span 2 3 1). vm_compute. reflexivity. Qed.
Print Assumptions c12_composed_total_refuted.

Theorem c12_composed_total_partial : forall s sp,
  sp_start sp <= length s -> sp_end sp <= length s -> composed_one [(sp_src sp, s)] (Some sp) <> Panic.
Proof.
  intros s sp H1 H2 E. apply composed_one_panics_iff in E. destruct E as [E|E].
  - apply Nat.lt_nge in E. contradiction.
  - apply Nat.lt_nge in E. contradiction.
Qed.
Print Assumptions c12_composed_total_partial.

(* ------------------------------------------------------------------ nesting is unbounded in the input size *)
Theorem c12_unbounded_depth : forall d, length (nest d) = 2 * d + 1 /\ bracket_depth (nest d) = d.
Proof. exact unbounded_depth_lemma. Qed.
Print Assumptions c12_unbounded_depth.

(* ------------------------------------------------------------------ the models compute; hypotheses are satisfiable *)
Local Open Scope Z_scope.
Example c12_ex_two_takes : take_sql (map lit [IRange (Some 3) (Some 7); IRange (Some 2) (Some 4)]) = Ret (3, Some 3).
Proof. vm_compute. reflexivity. Qed.
Example c12_ex_collapse : take_sql (map lit [IRange (Some 5) (Some 6); IRange (Some 4) None]) = Ret (0, Some 0).
Proof. vm_compute. reflexivity. Qed.
Example c12_ex_not_literal : take_sql [ERange (Some (BInt 1)) (Some BOther)] = Fail.
Proof. vm_compute. reflexivity. Qed.
Example c12_ex_bounded : bounded_i 10 (IRange (Some 3) (Some 7)).
Proof. split; cbn; split; discriminate. Qed.

(* C12 -- no input makes a public entry point panic, abort or hang.
   Only statements here.  Models: Model/Checked.v (Rust's failing primitives), Model/RangeArith.v (take-range /
   LIMIT-OFFSET / id arithmetic / negation of integer literals), Model/WidthArith.v (the formatter's width arithmetic
   and widening loop), Model/ReviewedSites.v (guards of the panic-capable sites added since the last baseline),
   Model/Span.v (error composition), Model/CheckedNest.v; proofs in Proofs/.
   Gen/GenSites.v (inventory of panic-capable sites, text of the modelled functions) is regenerated from /repo on
   every run; Model/SitesBaseline.v is the recorded baseline.
   PARTIAL: stack depth, wall-clock time and allocation are runtime facts exhibited by the harness
   (vplib/props/c12.py), not by these theorems; panic sites outside the modelled functions are counted, not proved. *)
From Coq Require Import List ZArith NArith Bool Arith.
From PV Require Import Lib.ListX Model.Checked Model.RangeArith Model.WidthArith Model.ReviewedSites Model.Span
  Model.CheckedNest Model.SitesBaseline Model.Closure Model.ParseRetry Model.FmtLayout Model.Rq Model.RqWf Model.RqAgg
  Proofs.ClosureProofs Proofs.ParseRetryProofs Proofs.FmtLayoutProofs Proofs.RqWfProofs Gen.GenUnpack
  Proofs.CheckedProofs Proofs.RangeArithProofs Proofs.WidthArithProofs Proofs.ReviewedSitesProofs Proofs.SpanProofs
  Proofs.CheckedNestProofs Gen.GenSites.
Import ListNotations.

(* ------------------------------------------------------------------ Tie A: inventory and text pins *)
(* every (file, kind) count of unwrap/expect/panic!/unreachable!/todo!/unimplemented!/assert!/index/arith is at most
   the recorded one: a NEW site is an unproved obligation (the probe streams then run as the search) *)
Theorem c12_sites_within_baseline : within GenSites.sites baseline = true.
Proof. vm_compute. reflexivity. Qed.
Print Assumptions c12_sites_within_baseline.

(* the functions restated in Model/RangeArith.v / Model/Span.v still have the recorded text *)
Theorem c12_modelled_text_unchanged : same_text GenSites.modelled modelled_expected = true.
Proof. vm_compute. reflexivity. Qed.
Print Assumptions c12_modelled_text_unchanged.

Local Open Scope Z_scope.

(* ------------------------------------------------------------------ range_of_ranges / LIMIT-OFFSET *)
(* Full strength.  Until commit 18f8c11 ("fix: report an error instead of overflowing when composing take ranges")
   these were false (finding F7: `take 9223372036854775807.. | take 2..` and a single `take 9223372036854775807`
   overflowed i64 -- the old theorems c12_range_of_ranges_total_refuted / _partial).  The model now mirrors the
   checked arithmetic (checked_add / checked_sub, overflow -> Err("take range is too large")). *)
Theorem c12_range_of_ranges_total : forall rs, range_of_ranges rs <> Panic.
Proof. exact range_of_ranges_total_lemma. Qed.
Print Assumptions c12_range_of_ranges_total.

(* ... including the OFFSET / LIMIT subtraction of translate_select_pipeline *)
Theorem c12_take_sql_total : forall rs, take_sql rs <> Panic.
Proof. exact take_sql_total_lemma. Qed.
Print Assumptions c12_take_sql_total.

(* the error is not spurious: n literal ranges bounded by B in absolute value are accepted whenever 2n(B+1)+1 fits i64 *)
Theorem c12_take_sql_accepts : forall rs B,
  0 <= B -> Forall (bounded_i B) rs -> 2 * (Z.of_nat (length rs) * (B + 1)) + 1 <= i64_max ->
  exists ol, take_sql (map lit rs) = Ret ol.
Proof. exact take_sql_accepts_lemma. Qed.
Print Assumptions c12_take_sql_accepts.

(* instance: two takes with every bound below 2^60 *)
Theorem c12_two_takes_below_2p60 : forall r1 r2,
  bounded_i 1152921504606846975 r1 -> bounded_i 1152921504606846975 r2 -> exists ol, take_sql (map lit [r1; r2]) = Ret ol.
Proof.
  intros r1 r2 H1 H2. apply (take_sql_accepts_lemma [r1; r2] 1152921504606846975).
  - apply Z.leb_le. vm_compute. reflexivity.
  - apply Forall_cons; [assumption|]. apply Forall_cons; [assumption|]. apply Forall_nil.
  - apply Z.leb_le. vm_compute. reflexivity.
Qed.
Print Assumptions c12_two_takes_below_2p60.

(* the former F7 witnesses are reported as errors *)
Theorem c12_overflow_is_an_error :
  take_sql (map lit [IRange (Some 9223372036854775807) None; IRange (Some 2) None]) = Fail /\
  take_sql (map lit [IRange None (Some i64_max)]) = Fail /\
  limit_offset (IRange (Some i64_min) None) = Fail.
Proof. repeat split; vm_compute; reflexivity. Qed.
Print Assumptions c12_overflow_is_an_error.

(* functional correctness: whenever the arithmetic returns, OFFSET/LIMIT select exactly the rows the takes select
   one after the other (so an off-by-one in range_of_ranges or in the offset/limit lines falsifies the model the
   correspondence stream compares with the implementation) *)
Theorem c12_range_of_ranges_sound : forall (A : Type) rs ol (l : list A),
  Forall valid rs -> take_sql (map lit rs) = Ret ol ->
  apply_limit_offset ol l = fold_left (fun l r => take_range r l) rs l.
Proof. exact range_of_ranges_sound_lemma. Qed.
Print Assumptions c12_range_of_ranges_sound.

(* ------------------------------------------------------------------ IdGenerator (ids of an RQ from JSON) *)
(* Full strength since commit 79f4a51 ("the id generator refuses to skip past usize::MAX/2 instead of overflowing";
   finding C12-N6).  Before, `id_skip 0 usize::MAX = Panic` (the old c12_id_skip_total_refuted) and loading was total
   only for ids below usize::MAX (c12_id_load_total_partial).  Now, for EVERY usize id: *)
Theorem c12_id_skip_total : forall next id, 0 <= id <= usize_max -> id_skip next id <> Panic.
Proof. exact id_skip_total_lemma. Qed.
Print Assumptions c12_id_skip_total.

(* loading the ids of any query never panics ... *)
Theorem c12_id_load_total : forall ids next, Forall (fun i => 0 <= i <= usize_max) ids -> id_load next ids <> Panic.
Proof. exact id_load_total_lemma. Qed.
Print Assumptions c12_id_load_total.

(* ... the error is raised exactly when some id is above usize::MAX / 2 (it is not spurious) ... *)
Theorem c12_id_load_fails_iff : forall ids next, Forall (fun i => 0 <= i <= usize_max) ids ->
  (id_load next ids = Fail <-> Exists (fun i => id_limit < i) ids).
Proof. exact id_load_fail_iff. Qed.
Print Assumptions c12_id_load_fails_iff.

(* ... and a generator loaded from any query ends above every id of the query and can hand out usize::MAX / 2 fresh
   ids without overflowing (`next_id += 1` in gen is still the unchecked operator: this is what bounds it) *)
Theorem c12_id_load_then_gens : forall ids n k, Forall (fun i => 0 <= i <= usize_max) ids ->
  id_load 0 ids = Ret n -> Z.of_nat k <= id_limit ->
  Forall (fun i => i < n) ids /\ id_gens k n = Ret (n + Z.of_nat k).
Proof.
  intros ids n k Hi Hl Hk. split.
  - destruct (id_load_ret ids 0 n Hi Hl) as (_ & H & _). exact H.
  - exact (id_load_then_gens ids n k Hi Hl Hk).
Qed.
Print Assumptions c12_id_load_then_gens.

(* ------------------------------------------------------------------ unary minus on integer literals *)
(* Full strength since commit 222f71a ("negating i64::MIN in constant folding and window frames reports an error
   instead of overflowing"; finding C12-N5): constant folding of `std.neg` uses checked_neg and leaves i64::MIN
   unevaluated; a PRECEDING frame bound is printed from unsigned_abs. *)
Theorem c12_static_neg_total : forall v, static_neg v <> Panic.
Proof. exact static_neg_total_lemma. Qed.
Print Assumptions c12_static_neg_total.

Theorem c12_static_neg_spec : forall v, i64_min <= v <= i64_max ->
  (v <> i64_min -> static_neg v = Ret (Some (- v)) /\ i64_min <= - v <= i64_max) /\
  (v = i64_min -> static_neg v = Ret None).
Proof. exact static_neg_spec. Qed.
Print Assumptions c12_static_neg_spec.

Theorem c12_frame_bounds_total : forall r, frame_bounds r <> Panic.
Proof. exact frame_bounds_total_lemma. Qed.
Print Assumptions c12_frame_bounds_total.

(* the bound that is printed: 0 -> CURRENT ROW, z > 0 -> z FOLLOWING, z < 0 -> -z PRECEDING with 0 < -z <= u64::MAX *)
Theorem c12_parse_bound_spec : forall z, i64_min <= z <= i64_max ->
  (z = 0 -> parse_bound (BInt z) = Ret CurrentRow) /\
  (0 < z -> parse_bound (BInt z) = Ret (Following z)) /\
  (z < 0 -> parse_bound (BInt z) = Ret (Preceding (- z)) /\ 0 < - z <= usize_max).
Proof. exact parse_bound_spec. Qed.
Print Assumptions c12_parse_bound_spec.

(* ------------------------------------------------------------------ the formatter's width arithmetic *)
(* Commit c8b3817 ("... saturates its width arithmetic"; finding C12-N7: `opt.max_width += opt.max_width / 2` overflowed
   u16 for a token longer than ~43000 characters).  The widening is a saturating_add now and u16::MAX means
   "unlimited".  At the unlimited width consume_width cannot refuse ... *)
Theorem c12_consume_width_unlimited : forall o w, max_width o = u16_max -> consume_width o w = Some o.
Proof. exact consume_width_unlimited. Qed.
Print Assumptions c12_consume_width_unlimited.

(* ... at every limited width a token wider than u16::MAX is refused (so the unlimited width is necessary) ... *)
Theorem c12_consume_width_too_wide : forall o w, max_width o <> u16_max -> u16_max < w -> consume_width o w = None.
Proof. exact consume_width_too_wide. Qed.
Print Assumptions c12_consume_width_too_wide.

(* ... and the loop of write_or_expand is at the unlimited width after at most 27 widenings from every width >= 2
   (18 from WriteOpt::default()'s 50; widths 0 and 1 would never grow, but no WriteOpt is built with them:
   Gen pins `max_width: 50` and new_width(u16::MAX) as the only constructions) *)
Theorem c12_widen_reaches_unlimited : forall w, 2 <= w <= u16_max -> iterw 27 w = u16_max.
Proof. exact widen_reaches_unlimited. Qed.
Print Assumptions c12_widen_reaches_unlimited.

Theorem c12_widen_from_default : iterw 18 50 = u16_max /\ iterw 17 50 <> u16_max.
Proof. exact widen_from_default. Qed.
Print Assumptions c12_widen_from_default.

(* write_or_expand returns after at most 28 calls of `write`, PROVIDED the layout succeeds at the unlimited width
   (hypothesis Hw: the layout functions of codegen/ast.rs are not modelled here -- that they return Some at
   u16::MAX is exercised by the probe streams, not proved) *)
Theorem c12_write_or_expand_terminates : forall (T : Type) (write : wopt -> option T),
  (forall o, max_width o = u16_max -> write o <> None) ->
  forall o, 2 <= max_width o <= u16_max -> exists s, expand write 28 o = Ret (Some s).
Proof. exact expand_terminates. Qed.
Print Assumptions c12_write_or_expand_terminates.

(* Full strength since commit b4fb037 ("the formatter's indentation arithmetic saturates instead of overflowing u16
   at 32768 nesting levels"; finding C12-N12).  Before, `tab.len() as u16 * indent` was the unchecked product:
   reset_line panicked exactly for indent > 32767 (the old c12_reset_line_total_refuted / _partial /
   c12_reset_line_panics_above).  Now, for EVERY option value: *)
Theorem c12_reset_line_total : forall o, reset_line o <> Panic.
Proof. exact reset_line_total. Qed.
Print Assumptions c12_reset_line_total.

(* ... at the unlimited width the line can always be reset (so the retry of write_or_expand cannot be refused there) *)
Theorem c12_reset_line_unlimited : forall o, max_width o = u16_max ->
  exists r, reset_line o = Ret (Some (WOpt u16_max r (indent o))) /\ 0 <= r.
Proof. exact reset_line_unlimited. Qed.
Print Assumptions c12_reset_line_unlimited.

(* ... and the saturating indent steps keep the indent a u16 *)
Theorem c12_indent_steps_in_range : forall o, 0 <= indent o <= u16_max ->
  0 <= indent (indent_in o) <= u16_max /\ 0 <= indent (indent_out o) <= u16_max.
Proof. exact indent_in_out_range. Qed.
Print Assumptions c12_indent_steps_in_range.

Local Close Scope Z_scope.

(* ------------------------------------------------------------------ error composition *)
(* convert_lexer_error slices the source at chumsky's byte offsets: total exactly on character boundaries *)
Theorem c12_convert_lexer_error_total : forall s bs be sid,
  boundary s bs -> boundary s be -> bs <= be -> is_ret (convert_lexer_error s bs be sid) = true.
Proof.
  intros s bs be sid H1 H2 H3.
  destruct (lexer_error_span_in_bounds_lemma s bs be sid H1 H2 H3) as (cs & ce & E & _). rewrite E. reflexivity.
Qed.
Print Assumptions c12_convert_lexer_error_total.

Theorem c12_convert_lexer_error_off_boundary : forall s bs be sid,
  ~ boundary s bs \/ ~ boundary s be -> convert_lexer_error s bs be sid = Panic.
Proof. exact convert_lexer_error_off_boundary. Qed.
Print Assumptions c12_convert_lexer_error_off_boundary.

(* Finding F9 is fixed by commits d3106b1 ("error spans are converted from byte to character offsets once, when the error
   is composed against its source") and 0301a92 ("the byte-to-character conversion of an error span is total"): Model/Span.v
   (owned by C13) mirrors the repaired `composed`.  The location assert! cannot fire any more (the converted offsets are at
   most the character length).  FULL strength over every ordered span, of whatever unit or size, in any tree: *)
Theorem c12_composed_total : forall tree sp, sp_start sp <= sp_end sp -> composed_one tree (Some sp) <> Panic.
Proof. exact composed_one_total. Qed.
Print Assumptions c12_composed_total.

(* What remains is the assert of ariadne's Label::new inside compose_display, on a span whose converted end is before its
   start; `composed` panics exactly then.  No lexer, parser or resolver span is reversed, and spans of PL / RQ documents
   from JSON are never composed against a source. *)
Theorem c12_composed_panics_iff : forall s sp,
  composed_one [(sp_src sp, s)] (Some sp) = Panic <-> chars_before s (sp_end sp) < chars_before s (sp_start sp).
Proof. exact composed_one_panics_iff. Qed.
Print Assumptions c12_composed_panics_iff.

Theorem c12_composed_reversed_refuted : exists s sp, composed_one [(sp_src sp, s)] (Some sp) = Panic.
Proof. exists [97; 98]%N, (Span 1 0 1). vm_compute. reflexivity. Qed.
Print Assumptions c12_composed_reversed_refuted.

(* ------------------------------------------------------------------ sites added since the last baseline *)
(* Model/SitesBaseline.v was re-recorded on /repo 6c9d120 (final); every row that grew was read, and the added site is
   restated with its guard in Model/ReviewedSites.v (text pinned by c12_modelled_text_unchanged). *)
Theorem c12_reviewed_names_relative : forall (A : Type) (found : ident A -> bool) module_path i,
  resolve_relative found module_path i <> Panic.
Proof. exact @resolve_relative_total_lemma. Qed.
Print Assumptions c12_reviewed_names_relative.

Theorem c12_reviewed_names_core_relative : forall (A : Type) (ok : ident A -> bool) module_path i,
  resolve_core_relative ok module_path i <> Panic.
Proof. exact @resolve_core_relative_total_lemma. Qed.
Print Assumptions c12_reviewed_names_core_relative.

(* d8fda67 non_finite_literals: `source[..t.span.start].chars().count()` (and .end) on the byte offsets of a token --
   character boundaries, because the lexer consumes whole characters; Model/Span.v char_of_byte is that expression *)
Theorem c12_reviewed_token_prefix_chars : forall s b, boundary s b -> exists k, char_of_byte s b = Ret k /\ k <= length s.
Proof.
  intros s b H. apply char_of_byte_boundary in H as (k & E). exists k. split; [exact E|].
  apply char_of_byte_ret in E. tauto.
Qed.
Print Assumptions c12_reviewed_token_prefix_chars.

Theorem c12_reviewed_only_equals : forall (A : Type) (args : list A), two_args args <> Panic.
Proof. exact @two_args_total_lemma. Qed.
Print Assumptions c12_reviewed_only_equals.

Theorem c12_reviewed_rest_behind : forall (A : Type) (pipeline : list A) position,
  position < length pipeline -> rest_behind pipeline position <> Panic.
Proof. exact @rest_behind_total_lemma. Qed.
Print Assumptions c12_reviewed_rest_behind.

Theorem c12_reviewed_table_at : forall (A B : Type) (pipeline : list A) (table : list B) position,
  length table = length pipeline -> position < length pipeline -> table_at pipeline table position <> Panic.
Proof. exact @table_at_total_lemma. Qed.
Print Assumptions c12_reviewed_table_at.

Theorem c12_reviewed_lookup_cid_name : forall (A : Type) (v : A), lookup_cid_name v = Ret (Some v).
Proof. exact @lookup_cid_name_total_lemma. Qed.
Print Assumptions c12_reviewed_lookup_cid_name.

(* ------------------------------------------------------------------ how many arguments reach unpack::<N> *)
(* Gen/GenUnpack.v lists the arms of resolve_special_func with the N of their `unpack::<N>(func.args)` and the std.prql
   declarations `.. -> internal <name>` with their named / positional parameter counts (regenerated on every run).
   N = named + positional for every arm, every arm has a declaration and every declaration an arm: *)
Theorem c12_unpack_table_ok : unpack_table_ok GenUnpack.arms GenUnpack.decls = true.
Proof. vm_compute. reflexivity. Qed.
Print Assumptions c12_unpack_table_ok.

(* ... so the std functions themselves satisfy the hypothesis of the next theorem (link between table and model) *)
Theorem c12_std_fns_well_declared :
  forallb (fun d => well_declared (arity_of GenUnpack.arms) (std_fn d)) GenUnpack.decls = true.
Proof. vm_compute. reflexivity. Qed.
Print Assumptions c12_std_fns_well_declared.

(* FULL strength since commit 9639161 ("a built-in function body keeps its parameters when a closure is materialized with
   fewer arguments"; finding C12-N14).  Model/Closure.v mirrors fold_function / apply_args_to_closure /
   materialize_function.  Before the commit materialize_function cut the parameter list of EVERY closure a lambda body
   folded to, so `from t | -> take 5` reached unpack::<2> with one argument (the old c12_unpack_exact_refuted; the
   theorem held only for terms without lambdas, c12_unpack_exact_partial).  Now: for every term -- lambdas, partial
   applications, excess arguments, functions as arguments -- whose built-in functions have the parameter counts of their
   declarations, no evaluation reaches unpack::<N> with a number of arguments other than N. *)
Theorem c12_unpack_exact : forall (arity : str -> option nat) fuel e,
  well_declared arity e = true -> forall id g, fold arity fuel e <> BadCast id g.
Proof. exact well_declared_no_bad_cast. Qed.
Print Assumptions c12_unpack_exact.

(* ------------------------------------------------------------------ the layout protocol of the formatter *)
(* Finding C12-H2 (formatting time exponential in the nesting depth) was fixed by c8b3817 with two flags: single_line (set
   by SeparatedExprs::write_inline: a nested list that does not fit gives up instead of laying itself out over several
   lines) and no_line_break (set by the first, same-line attempt of a parenthesised expression: nested parenthesised
   expressions may not break the line themselves).  Model/FmtLayout.v mirrors that protocol, with the width arithmetic
   of Model/WidthArith.v, for  e ::= identifier | {e, ..} | e + e  in `let v = e`, and counts the invocations of
   <pr::Expr as WriteSource>::write (the number the hook verif:fmt-calls reports; text and count are compared with the
   implementation on every run).  The count is polynomial: size^1 once both flags are set (a single pass), one power
   more for each flag that is still clear. *)
Theorem c12_fmt_calls_polynomial : forall e o, snd (we e o) <= size e ^ ex o.
Proof. exact we_calls_le. Qed.
Print Assumptions c12_fmt_calls_polynomial.

Theorem c12_fmt_calls_single_pass : forall e o, sl o = true -> nlb o = true -> snd (we e o) <= size e.
Proof. exact we_calls_single_pass. Qed.
Print Assumptions c12_fmt_calls_single_pass.

Theorem c12_fmt_calls_cubic : forall e o, snd (we e o) <= size e ^ 3.
Proof. exact we_calls_cubic. Qed.
Print Assumptions c12_fmt_calls_cubic.

(* pl_to_prql on `let v = e`, the (at most 28) widening retries of write_or_expand included *)
Theorem c12_fmt_format_let_calls : forall e, snd (format_let e) <= 28 * size e ^ 3.
Proof. exact format_let_calls. Qed.
Print Assumptions c12_fmt_format_let_calls.

(* ------------------------------------------------------------------ parse time on nested named arguments *)
(* Full statement (FALSE, finding C12-H3): the number of nested_expr invocations is linear in the input length.
   Model/ParseRetry.v is an ordered-choice parser without memoisation (chumsky's semantics) for the fragment
   `nested_expr = lambda_func(expr).or(func_call(expr))`, `param = ident [: expr]`, `named_arg = ident : expr`.
   On the VALID input  f x:(f x:( .. 1 .. ))  with n nested named arguments (4n + 1 + n tokens) it succeeds after exactly
   calls n invocations of nested_expr, calls (n+1) = 2 * calls n + 1: lambda_func reads `x:( .. )` as a parameter with a
   default value, parsing the whole inner argument, fails at the missing `->`, and func_call parses it again. *)
Theorem c12_parse_nested_named_cost : forall n fuel r, closes r -> 8 * n + 8 <= fuel ->
  p fuel NNested (nested_named n ++ r) = (Some r, calls n).
Proof. exact nested_cost. Qed.
Print Assumptions c12_parse_nested_named_cost.

Theorem c12_parse_calls_recurrence : forall n, calls (S n) = 2 * calls n + 1 /\ calls n + 1 = 2 ^ (n + 1).
Proof. intro n. split; [reflexivity | apply calls_pow]. Qed.
Print Assumptions c12_parse_calls_recurrence.

Theorem c12_parse_linear_refuted : forall a b, exists n, a * n + b < calls n.
Proof. exact calls_not_linear. Qed.
Print Assumptions c12_parse_linear_refuted.

(* ------------------------------------------------------------------ RQ from JSON: finding C12-N3 as a precondition *)
(* rq_to_sql does not validate the RQ it is given (finding C12-N3).  C16 owns the well-formedness predicate of an RQ
   (Model/RqWf.v, imported read-only) and its consequence: every id the back end looks up is declared, exactly once.
   Restated here because it is the PRECONDITION that turns N3 into a statement about inputs: the check classifies a
   panic on a mutated RQ document as N3 only if the document is NOT rq_wf (evaluated by C16's mirror
   vplib/props/c16_wf.py, which C16 cross-validates against this definition on every run); a panic on a document that
   satisfies it is a VIOLATION (or one of the narrower findings C12-N16 / N17 / N18: operator shape, nameless referenced column,
   aggregate partitioned by its own result -- what rq_wf does not speak about; the last one is rq_agg_ok below). *)
Definition staged_rq_ok (q : rq) : bool := rq_wf q && rq_agg_ok q.

Theorem c12_rq_lookups_total_under_wf : forall q, rq_wf q = true -> lookups_total q.
Proof. intros q H. apply wf_lax_lookups_total. apply wf_implies_wf_lax. exact H. Qed.
Print Assumptions c12_rq_lookups_total_under_wf.

(* the staged-API precondition the classifier evaluates: C16's rq_wf and, since finding C12-N18 (an Aggregate partitioned
   by a column it computes; Model/RqAgg.v, provided by C16; repaired by the guard of commit f30b660), rq_agg_ok *)
Theorem c12_rq_staged_precondition : forall q, staged_rq_ok q = true ->
  lookups_total q /\ agg_overlaps q = [].
Proof.
  intros q H. unfold staged_rq_ok in H. apply andb_true_iff in H as [H1 H2]. split.
  - apply c12_rq_lookups_total_under_wf. exact H1.
  - unfold rq_agg_ok in H2. destruct (agg_overlaps q); [reflexivity | discriminate].
Qed.
Print Assumptions c12_rq_staged_precondition.

(* ------------------------------------------------------------------ nesting is unbounded in the input size *)
Theorem c12_unbounded_depth : forall d, length (nest d) = 2 * d + 1 /\ bracket_depth (nest d) = d.
Proof. exact unbounded_depth_lemma. Qed.
Print Assumptions c12_unbounded_depth.

(* ------------------------------------------------------------------ the models compute; hypotheses are satisfiable *)
Local Open Scope Z_scope.
Example c12_ex_two_takes : take_sql (map lit [IRange (Some 3) (Some 7); IRange (Some 2) (Some 4)]) = Ret (3, Some 3).
Proof. vm_compute. reflexivity. Qed.
Example c12_ex_collapse : take_sql (map lit [IRange (Some 5) (Some 6); IRange (Some 4) None]) = Ret (0, Some 0).
Proof. vm_compute. reflexivity. Qed.
Example c12_ex_not_literal : take_sql [ERange (Some (BInt 1)) (Some BOther)] = Fail.
Proof. vm_compute. reflexivity. Qed.
Example c12_ex_bounded : bounded_i 10 (IRange (Some 3) (Some 7)).
Proof. split; cbn; split; discriminate. Qed.
(* the repaired functions on the inputs that used to panic (findings C12-N6, C12-N5), and what the unchecked operators
   would still do there *)
Example c12_ex_id_max : id_skip 0 usize_max = Fail /\ id_load 0 [0; usize_max; 1] = Fail /\ addus usize_max 1 = Panic.
Proof. repeat split; vm_compute; reflexivity. Qed.
Example c12_ex_id_half : id_skip 0 id_limit = Ret (id_limit + 1) /\ id_skip 0 (id_limit + 1) = Fail.
Proof. split; vm_compute; reflexivity. Qed.
Example c12_ex_neg_min : static_neg i64_min = Ret None /\ static_neg 5 = Ret (Some (-5)) /\ neg64 i64_min = Panic.
Proof. repeat split; vm_compute; reflexivity. Qed.
Example c12_ex_frame_min : frame_bounds (ERange (Some (BInt i64_min)) (Some (BInt 2))) =
  Ret (Some (Preceding 9223372036854775808), Some (Following 2)).
Proof. vm_compute. reflexivity. Qed.
Example c12_ex_frame_not_literal : frame_bounds (ERange (Some BOther) None) = Fail.
Proof. vm_compute. reflexivity. Qed.
Local Close Scope Z_scope.
(* the hypotheses of the reviewed-site theorems are what enumerate() provides *)
Example c12_ex_rest_behind : rest_behind [1; 2; 3] 2 = Ret [] /\ rest_behind [1; 2; 3] 3 = Panic.
Proof. split; vm_compute; reflexivity. Qed.
(* module path m.n, name x: tried as m.n.x, then m.x (7f02b48: the INNERMOST module is dropped) *)
Example c12_ex_names_relative :
  resolve_relative (fun i => Nat.eqb (length (path i)) 1) [7; 8] (Ident [] 9) = Ret (Some (Ident [7] 9)).
Proof. vm_compute. reflexivity. Qed.
Example c12_ex_names_core_relative :
  resolve_core_relative (fun i => Nat.eqb (length (path i)) 0) [7; 8] (Ident [] 9) = Ret (Ident [] 9, true) /\
  resolve_core_relative (fun _ => false) [7; 8] (Ident [] 9) = Ret (Ident [] 9, false).
Proof. split; vm_compute; reflexivity. Qed.
(* the repaired reset_line at the indent that used to panic (finding C12-N12), and the unchecked product there *)
Local Open Scope Z_scope.
Example c12_ex_indent_32768 : reset_line (WOpt 50 50 32768) = Ret None /\
  reset_line (WOpt u16_max 0 32768) = Ret (Some (WOpt u16_max 0 32768)) /\ mul16 2 32768 = Panic.
Proof. repeat split; vm_compute; reflexivity. Qed.
Local Close Scope Z_scope.
(* `from t | take 5` (curried application), and the former witness of C12-N14, `from t | -> take 5`: a value now *)
Example c12_ex_unpack_direct :
  fold (arity_of GenUnpack.arms) 10 (App (App (Fn 0 2 [] (Internal [116;97;107;101]%N)) [Val]) [Val]) = Ok Val /\
  fold (arity_of GenUnpack.arms) 10 (App (Fn 0 0 [] (Body (App (Fn 0 2 [] (Internal [116;97;107;101]%N)) [Val]))) [Val]) = Ok Val /\
  well_declared (arity_of GenUnpack.arms) (App (Fn 0 0 [] (Body (App (Fn 0 2 [] (Internal [116;97;107;101]%N)) [Val]))) [Val]) = true.
Proof. repeat split; vm_compute; reflexivity. Qed.
(* a function value with the wrong parameter count for its arm (not a std declaration) does reach unpack wrongly: the
   hypothesis of c12_unpack_exact is not vacuous *)
Example c12_ex_unpack_hypothesis : fold (arity_of GenUnpack.arms) 10 (App (Fn 0 1 [] (Internal [116;97;107;101]%N)) [Val]) = BadCast [116;97;107;101]%N 1.
Proof. vm_compute. reflexivity. Qed.
(* `f x:(f x:(1))`: 7 invocations of nested_expr for 11 tokens; the parser does accept the input *)
Example c12_ex_parse_retry : p 40 NNested (nested_named 2) = (Some [], 7) /\ length (nested_named 2) = 11.
Proof. split; vm_compute; reflexivity. Qed.
(* the recorded witness of C12-N3 (no table, an empty pipeline) and a dangling sort key do not satisfy the precondition *)
Example c12_ex_n3_not_wf :
  rq_wf (mkRq [] (mkRel (KPipeline []) [])) = false /\
  rq_wf (mkRq [(mkTable 0 None (mkRel (KExternRef [[116]]) [RWildcard]))]
     (mkRel (KPipeline [(TFrom (mkTRef 0 [(RWildcard, 0)] (Some [116]))); (TTake (None, (Some ELit)) [] [(Asc, 77)]); (TSelect [0])]) [RWildcard]))%N = false.
Proof. split; vm_compute; reflexivity. Qed.
(* the witness of C12-N18: every id defined and visible (rq_wf), partitioned by its own aggregate (not rq_agg_ok) *)
Example c12_ex_n18_precondition :
  let q := (mkRq [(mkTable 0 None (mkRel (KExternRef [[116]]) [RWildcard]))]
     (mkRel (KPipeline [(TFrom (mkTRef 0 [(RWildcard, 0)] (Some [116])));
                        (TCompute 1 (ENode (KOp [115;116;100;46;99;111;117;110;116]) [ELit]) None true);
                        (TAggregate [1] [1]); (TSelect [1])]) [RSingle (Some [110])]))%N in
  rq_wf q = true /\ rq_agg_ok q = false /\ staged_rq_ok q = false.
Proof. repeat split; vm_compute; reflexivity. Qed.
(* the model formats: `let v = a + (a + a)` on one line with 5 invocations; a right-nested chain of 12 wide operands needs
   line breaks and 70 invocations for 25 nodes, 292 for 49, 811 for 97 (more than linear, far below size^3) *)
Example c12_ex_fmt_layout :
  format_let (Bin (Id 1) (Bin (Id 1) (Id 1))) =
    (Some [108; 101; 116; 32; 118; 32; 61; 32; 97; 32; 43; 32; 40; 97; 32; 43; 32; 97; 41; 10]%N, 5).
Proof. vm_compute. reflexivity. Qed.
Example c12_ex_fmt_layout_deep :
  let e := Nat.iter 12 (fun t => Bin (Id 9) t) (Id 9) in
  size e = 25 /\ snd (format_let e) = 70 /\ snd (format_let (Nat.iter 24 (fun t => Bin (Id 9) t) (Id 9))) = 292 /\ existsb (N.eqb 10%N) (removelast (match fst (format_let e) with Some t => t | None => [] end)) = true.
Proof. vm_compute. auto. Qed.

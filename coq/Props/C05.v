(* C05 -- result columns are exactly the final frame: names, count and order.  Statements only.
   (a) specification side: select yields one column per item even when names repeat; the later of two
       same-named columns keeps the name.
   (b) compiler side: model of translate_wildcards (sql/gen_projection.rs), compared with every real
       call through the cfg(prqlc_verif) hook: with EXCLUDE/EXCEPT support the emitted select list
       shows exactly the requested columns (as a set); without it nothing requested is lost.
       FALSE on the unchanged tree at full strength (known findings):
         F23  without EXCLUDE (sqlite, generic, ...) a star also shows known columns that were not
              requested -- the compiler's own helper columns (row numbers)        [c05_helpers_exposed_refuted]
         F26  a star expands in table order, the frame may list other columns first  [c05_star_order_refuted] *)
From Coq Require Import List Bool Arith.
From Coq Require Import NArith Permutation.
From PV Require Import Lib.ListX Model.Ident Model.NameGen.
From PV Require Import Model.Rel Proofs.FrameFacts Model.Wildcards Proofs.WildcardsProofs Model.Dedup Proofs.DedupProofs Model.SelectItems Proofs.SelectItemsProofs.
From PV Require Model.Rq Model.Lowerer Model.LowererTrace Model.LowererSelect.
From PV Require Import Model.LimitSelect Proofs.LimitSelectProofs.
Import ListNotations.

Theorem c05_select_one_column_per_item : forall cols l r, In r (Rel.apply (TSelect cols) l) -> length r = length cols.
Proof. exact select_arity. Qed.
Print Assumptions c05_select_one_column_per_item.

Theorem c05_derive_appends : forall cols l r, In r (Rel.apply (TDerive cols) l) -> exists r0, In r0 l /\ length r = (length r0 + length cols)%nat.
Proof. exact derive_arity. Qed.
Print Assumptions c05_derive_appends.

Theorem c05_same_name_shadowing : forall r q n v c, In c (shadow r (q, Some n, v)) ->
  c = (q, Some n, v) \/ (exists q' v', c = (q', None, v')) \/ (exists q' n' v', c = (q', Some n', v') /\ n' <> n).
Proof. exact shadow_unnames. Qed.
Print Assumptions c05_same_name_shadowing.

Theorem c05_wildcards_exact_with_exclude : forall (orig_of : cid -> option (list cid)) cols, wf_cols orig_of [] cols ->
  forall x, In x (denote orig_of true (translate_wildcards cols)) <-> In x (map fst cols).
Proof. exact translate_wildcards_exact. Qed.
Print Assumptions c05_wildcards_exact_with_exclude.

Theorem c05_wildcards_no_loss : forall (orig_of : cid -> option (list cid)) cols, wf_cols orig_of [] cols ->
  forall x, In x (map fst cols) -> In x (denote orig_of false (translate_wildcards cols)).
Proof. exact translate_wildcards_no_loss. Qed.
Print Assumptions c05_wildcards_no_loss.

(* ---- deduplicate_select_items (model Model/Dedup.v, compared with every real call through the second hook).
   Full statement "no selected column is dropped or merged" is FALSE (F13): a qualified identifier whose parts have
   all been seen -- in DIFFERENT earlier items -- is dropped although it denotes a distinct column. *)
Theorem c05_dedup_keeps_fresh_items_partial : forall items seen s,
  incl seen s -> all_fresh s items = true -> dedup seen items = items.
Proof. exact dedup_keeps_fresh. Qed.
Print Assumptions c05_dedup_keeps_fresh_items_partial.

(* witness: t.x, u.y, t.a, u.a  (t=0 u=1 x=2 y=3 a=4): four distinct columns, u.a is dropped *)
Theorem c05_dedup_drops_distinct_column_refuted :
  dedup [] [ICompound [0; 2]; ICompound [1; 3]; ICompound [0; 4]; ICompound [1; 4]]
  = [ICompound [0; 2]; ICompound [1; 3]; ICompound [0; 4]].
Proof. vm_compute. reflexivity. Qed.
Print Assumptions c05_dedup_drops_distinct_column_refuted.

Theorem c05_dedup_never_adds : forall items seen, length (dedup seen items) <= length items.
Proof. exact dedup_sublist. Qed.
Print Assumptions c05_dedup_never_adds.

Example c05_ex_dedup_fresh : all_fresh [] [ICompound [0; 2]; IAlias 5; ICompound [1; 3]; IOther] = true.
Proof. vm_compute. reflexivity. Qed.

(* F23: a real call (from `from t | group {a} (sort {id} | take 1)`): requested a(4), id(5), *(6) of an
   instance whose known columns are 4,5,6 and the row-number helper 7; without EXCLUDE the helper shows *)
Definition f23_orig (c : cid) : option (list cid) := if Nat.eqb c 6 then Some [4; 5; 6; 7] else None.
Definition f23_cols : list col := [(4, None); (5, None); (6, Some [4; 5; 6; 7])].
Theorem c05_helpers_exposed_refuted :
  wf_cols f23_orig [] f23_cols /\
  In 7 (denote f23_orig false (translate_wildcards f23_cols)) /\ ~ In 7 (map fst f23_cols) /\
  ~ In 7 (denote f23_orig true (translate_wildcards f23_cols)).
Proof.
  split; [|split; [|split]].
  - cbn [wf_cols f23_cols].
    split; [reflexivity|]. split; [intros o E; discriminate|].
    split; [reflexivity|]. split; [intros o E; discriminate|].
    split; [reflexivity|]. split; [|exact I].
    intros o E. injection E as <-. split.
    + cbn. intros [H|[H|[]]]; discriminate.
    + intros y Hy. vm_compute in Hy. destruct Hy as [<-|[<-|[<-|[]]]]; reflexivity.
  - vm_compute. tauto.
  - cbn. intros [H|[H|[H|[]]]]; discriminate.
  - vm_compute. intros [H|[H|[H|[]]]]; discriminate.
Qed.
Print Assumptions c05_helpers_exposed_refuted.

(* F26: frame [a; *] (group puts the key first) is emitted as a lone star: the key is shown wherever the
   table has it, not first *)
Theorem c05_star_order_refuted :
  fst (translate_wildcards [(4, None); (6, Some [5; 4; 6])]) = [6].
Proof. vm_compute. reflexivity. Qed.
Print Assumptions c05_star_order_refuted.

Example c05_ex_two_stars :
  translate_wildcards [(1, None); (3, Some [1; 2; 3]); (9, None); (6, Some [4; 5; 6]); (4, None)] = ([3; 9; 6], [(6, [5]); (3, [2])]).
Proof. vm_compute. reflexivity. Qed.


(* ==== the SELECT list: translate_select_item / translate_exclude / translate_select_items (Model/SelectItems.v, compared with
   every real call through the hooks select-item bab53a0 + select-items 7fc85b6).  `lower` = str::to_lowercase is a parameter;
   the only thing asked of it: generated names are already lower case. *)

(* a column that has a name shows exactly that name: as the last part of its identifier, or through `AS name` *)
Theorem c05_select_item_carries_name : forall lower reserved st c e it st' x,
  select_item lower reserved st c e = Some (it, st') -> nget (cnames st) c = Some x -> item_name it = Some x.
Proof. exact select_item_carries_name. Qed.
Print Assumptions c05_select_item_carries_name.

(* a column WITHOUT a name whose expression would give it one gets an invented alias: generated (`_expr_k`, k not below the
   counter), not the name of any column in use (755de8e), not a reserved column name in any letter case (6cdd79f), and
   column_names records it *)
Theorem c05_select_item_invented_alias : forall lower reserved,
  (forall k, lower (gen_name expr_prefix k) = gen_name expr_prefix k) ->
  forall st c e it st', select_item lower reserved st c e = Some (it, st') -> nget (cnames st) c = None -> inferred e <> None ->
  exists a, it = SAlias c e a /\ ~ In a (map snd (cnames st)) /\ ~ In (lower a) reserved /\
            (exists k, (counter st <= k)%N /\ a = gen_name expr_prefix k /\ (k < counter st')%N) /\ nget (cnames st') c = Some a.
Proof. exact select_item_invented_alias. Qed.
Print Assumptions c05_select_item_invented_alias.

Theorem c05_select_item_total : forall lower reserved,
  (forall k, lower (gen_name expr_prefix k) = gen_name expr_prefix k) ->
  forall st c e, exists it st', select_item lower reserved st c e = Some (it, st').
Proof. exact select_item_total. Qed.
Print Assumptions c05_select_item_total.

(* with EXCLUDE / EXCEPT the star names exactly the excluded columns, each once; without the facility: nothing (F23's corner) *)
Theorem c05_exclude_names_exact : forall k ex, exists ns, translate_exclude (Some k) ex = Some (k, ns) /\ Permutation ns (map xname ex).
Proof. exact translate_exclude_exact. Qed.
Print Assumptions c05_exclude_names_exact.

Theorem c05_exclude_dropped_without_support : forall ex, translate_exclude None ex = None.
Proof. exact translate_exclude_unsupported. Qed.
Print Assumptions c05_exclude_dropped_without_support.

(* one item per requested column, in order; and every requested column that has a name shows it at its own position *)
Theorem c05_select_items_one_item_per_column : forall lower reserved supported omit_prefix cols st ex items st',
  items_loop lower reserved supported omit_prefix st ex cols = Some (items, st') ->
  map item_cid items = map (fun r => Some (creq_cid r)) cols.
Proof. exact items_loop_one_per_column. Qed.
Print Assumptions c05_select_items_one_item_per_column.

Theorem c05_select_items_names_in_order : forall lower reserved supported omit_prefix cols st ex items st',
  items_loop lower reserved supported omit_prefix st ex cols = Some (items, st') ->
  Forall2 (fun r it => match r with
                       | CCol c _ => forall x, nget (cnames st) c = Some x -> item_name it = Some x
                       | CStar _ _ => True
                       end) cols items.
Proof. exact items_loop_names. Qed.
Print Assumptions c05_select_items_names_in_order.

(* the whole function.  Full statement "the emitted list is the item list" is FALSE (F13, below); it holds when every item
   brings an identifier part or alias that was not seen before *)
Theorem c05_select_items_exact_partial : forall lower reserved supported omit_prefix zero_ok st ex cols items final st',
  select_items lower reserved supported omit_prefix zero_ok st ex cols = Some (items, final, st') ->
  all_fresh [] (map (to_dedup (flat_map item_strs items)) items) = true -> items <> [] ->
  final = items /\ map item_cid final = map (fun r => Some (creq_cid r)) cols.
Proof. exact select_items_exact_partial. Qed.
Print Assumptions c05_select_items_exact_partial.

Theorem c05_select_items_bounds : forall lower reserved supported omit_prefix zero_ok st ex cols items final st',
  select_items lower reserved supported omit_prefix zero_ok st ex cols = Some (items, final, st') ->
  length items = length cols /\ (length final <= Nat.max 1 (length cols)) /\ (zero_ok = false -> final <> []).
Proof. exact select_items_bounds. Qed.
Print Assumptions c05_select_items_bounds.

(* F13 at this level: `select {a, a}` -- two requested columns named a, both plain identifiers: ONE item is emitted *)
Definition s_a : str := [97%N].
Theorem c05_select_items_drops_column_refuted :
  exists st ex cols items final st',
    select_items lower_ascii [] None true false st ex cols = Some (items, final, st') /\
    length cols = 2 /\ length items = 2 /\ length final = 1.
Proof.
  exists (mkn [(1, s_a); (2, s_a)] 0%N), [], [CCol 1 (ECompound [s_a]); CCol 2 (ECompound [s_a])].
  eexists. eexists. eexists. split; [vm_compute; reflexivity | repeat split].
Qed.
Print Assumptions c05_select_items_drops_column_refuted.

(* composition with translate_wildcards: on a dialect with EXCLUDE / EXCEPT the emitted SELECT list shows exactly the
   requested columns; without it nothing requested is lost (and helper columns may be shown: c05_helpers_exposed_refuted) *)
Theorem c05_select_list_shows_requested : forall lower reserved k omit_prefix orig_of shape_of table_of name_of cols st items st',
  wf_cols orig_of [] cols -> NoDup (filter (is_star orig_of) (fst (translate_wildcards cols))) ->
  items_loop lower reserved (Some k) omit_prefix st (excluded_of name_of (snd (translate_wildcards cols)))
             (reqs_of orig_of shape_of table_of (fst (translate_wildcards cols))) = Some (items, st') ->
  forall x, In x (items_show orig_of items) <-> In x (map fst cols).
Proof. exact select_list_shows_requested. Qed.
Print Assumptions c05_select_list_shows_requested.

Theorem c05_select_list_no_loss : forall lower reserved omit_prefix orig_of shape_of table_of name_of cols st items st',
  wf_cols orig_of [] cols -> NoDup (filter (is_star orig_of) (fst (translate_wildcards cols))) ->
  items_loop lower reserved None omit_prefix st (excluded_of name_of (snd (translate_wildcards cols)))
             (reqs_of orig_of shape_of table_of (fst (translate_wildcards cols))) = Some (items, st') ->
  forall x, In x (map fst cols) -> In x (items_show orig_of items).
Proof. exact select_list_no_loss. Qed.
Print Assumptions c05_select_list_no_loss.

(* non-vacuity: the F23 call of above through the whole SELECT-list construction, on a dialect with EXCLUDE and on one without *)
Definition s_t : str := [116%N].
Definition s_id : str := [105%N; 100%N].
Definition f23_names (c : cid) : option str := if Nat.eqb c 4 then Some s_a else if Nat.eqb c 5 then Some s_id else if Nat.eqb c 7 then Some (gen_name expr_prefix 0) else None.
Example c05_ex_f23_select_list :
  let run sup := items_loop lower_ascii [] sup true (mkn [(4, s_a); (5, s_id)] 1%N) (excluded_of f23_names (snd (translate_wildcards f23_cols)))
                            (reqs_of f23_orig (fun _ => EOther) (fun _ => Some s_t) (fst (translate_wildcards f23_cols))) in
  option_map (fun r => map show_item (fst r)) (run (Some XExclude)) = Some [(2%N, (1%N, []), [gen_name expr_prefix 0])] /\
  option_map (fun r => map show_item (fst r)) (run None) = Some [(2%N, (0%N, []), [])] /\
  option_map (fun r => items_show f23_orig (fst r)) (run (Some XExclude)) = Some [6; 4; 5] /\
  option_map (fun r => items_show f23_orig (fst r)) (run None) = Some [6; 4; 5; 7].
Proof. vm_compute. repeat split. Qed.

Example c05_ex_invented_alias : (* `u.a` of a column without a name while `_expr_0` is taken and `_expr_1` is a reserved column name *)
  option_map (fun r => show_item (fst r))
    (select_item lower_ascii [gen_name expr_prefix 1] (mkn [(1, s_a); (2, gen_name expr_prefix 0)] 0%N) 6 (ECompound [[117%N]; s_a]))
  = Some (1%N, (0%N, [[117%N]; s_a]), [gen_name expr_prefix 2]).
Proof. vm_compute. reflexivity. Qed.


(* ==== the limiting SELECT of extract_atomic (Model/LimitSelect.v, compared with every real call through verif:extract_atomic) *)

(* whatever the atomic pipeline had to select for its own clauses (sort keys, row numbers), the closing SELECT list contains
   no column that was not asked for *)
Theorem c05_closing_select_within_output : forall output select_cols, incl (closing_select output select_cols) output.
Proof. exact closing_select_within_output. Qed.
Print Assumptions c05_closing_select_within_output.

Theorem c05_closing_select_limited : forall output select_cols,
  has_extra output select_cols = true -> closing_select output select_cols = output.
Proof. exact closing_select_limited. Qed.
Print Assumptions c05_closing_select_limited.

(* "the closing SELECT list IS the requested list" holds when a limiting SELECT is appended, or when the atomic pipeline's
   own Select is the requested list (the second hypothesis is checked on every real call: never violated) *)
Theorem c05_closing_select_exact_partial : forall output select_cols,
  has_extra output select_cols = true \/ select_cols = output -> closing_select output select_cols = output.
Proof. exact closing_select_exact_partial. Qed.
Print Assumptions c05_closing_select_exact_partial.

(* without either, the list may be a proper part of what was asked for *)
Example c05_ex_closing_select_not_limited : closing_select [1; 2] [2] = [2] /\ has_extra [1; 2] [2] = false.
Proof. vm_compute. split; reflexivity. Qed.

(* ==== lineage -> declared columns of a relation: Lowerer::push_select (C16's Model/LowererSelect.v push_select_m, tied to the
   code by C16's replay of the lowerer trace).  What C05 needs of it: one relation column per Single column of the frame, in
   frame order, under the frame's name; an `All` contributes the input's columns except the excluded names *)
Theorem c05_push_select_frame_exact : forall m inputs cols f,
  LowererSelect.push_select_m m inputs cols = Some f -> map fst f = concat (expected_cols m cols).
Proof. exact push_select_frame_exact. Qed.
Print Assumptions c05_push_select_frame_exact.

Theorem c05_push_select_singles_exact : forall m inputs cols f,
  LowererSelect.push_select_m m inputs cols = Some f ->
  (forall c, In c cols -> exists n t tn, c = LowererSelect.LSingle n t tn) ->
  map fst f = map (fun c => match c with LowererSelect.LSingle n _ _ => Rq.RSingle n | LowererSelect.LAll _ _ => Rq.RWildcard end) cols.
Proof. exact push_select_singles_exact. Qed.
Print Assumptions c05_push_select_singles_exact.

Theorem c05_push_select_all_minus_except : forall ic except rc,
  In rc (LowererSelect.all_cols ic except) <-> In rc ic /\ (forall n, fst rc = Rq.RSingle (Some n) -> ~ In n except).
Proof. exact all_cols_spec. Qed.
Print Assumptions c05_push_select_all_minus_except.

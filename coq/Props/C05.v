(* C05 -- result columns are exactly the final frame: names, count and order.  Statements only.
   (a) specification side: select yields one column per item even when names repeat; the later of two
       same-named columns keeps the name.
   (b) compiler side: model of translate_wildcards (sql/gen_projection.rs), compared with every real
       call through the cfg(prqlc_verif) hook: with EXCLUDE/EXCEPT support the emitted select list
       shows exactly the requested columns (as a set); without it nothing requested is lost.
       FALSE on the unchanged tree at full strength (known findings):
         F23  without EXCLUDE (sqlite, generic, ...) a star also shows known columns that were not
              requested -- the compiler's own helper columns (row numbers)        [c05_helpers_exposed_refuted]
         F26  a star expands in table order, the frame may list other columns first  [c05_star_order_refuted] *)
From Coq Require Import List Bool Arith.
From PV Require Import Model.Rel Proofs.FrameFacts Model.Wildcards Proofs.WildcardsProofs Model.Dedup Proofs.DedupProofs.
Import ListNotations.

Theorem c05_select_one_column_per_item : forall cols l r, In r (Rel.apply (TSelect cols) l) -> length r = length cols.
Proof. exact select_arity. Qed.
Print Assumptions c05_select_one_column_per_item.

Theorem c05_derive_appends : forall cols l r, In r (Rel.apply (TDerive cols) l) -> exists r0, In r0 l /\ length r = (length r0 + length cols)%nat.
Proof. exact derive_arity. Qed.
Print Assumptions c05_derive_appends.

Theorem c05_same_name_shadowing : forall r q n v c, In c (shadow r (q, Some n, v)) ->
  c = (q, Some n, v) \/ (exists q' v', c = (q', None, v')) \/ (exists q' n' v', c = (q', Some n', v') /\ n' <> n).
Proof. exact shadow_unnames. Qed.
Print Assumptions c05_same_name_shadowing.

Theorem c05_wildcards_exact_with_exclude : forall (orig_of : cid -> option (list cid)) cols, wf_cols orig_of [] cols ->
  forall x, In x (denote orig_of true (translate_wildcards cols)) <-> In x (map fst cols).
Proof. exact translate_wildcards_exact. Qed.
Print Assumptions c05_wildcards_exact_with_exclude.

Theorem c05_wildcards_no_loss : forall (orig_of : cid -> option (list cid)) cols, wf_cols orig_of [] cols ->
  forall x, In x (map fst cols) -> In x (denote orig_of false (translate_wildcards cols)).
Proof. exact translate_wildcards_no_loss. Qed.
Print Assumptions c05_wildcards_no_loss.

(* ---- deduplicate_select_items (model Model/Dedup.v, compared with every real call through the second hook).
   Full statement "no selected column is dropped or merged" is FALSE (F13): a qualified identifier whose parts have
   all been seen -- in DIFFERENT earlier items -- is dropped although it denotes a distinct column. *)
Theorem c05_dedup_keeps_fresh_items_partial : forall items seen s,
  incl seen s -> all_fresh s items = true -> dedup seen items = items.
Proof. exact dedup_keeps_fresh. Qed.
Print Assumptions c05_dedup_keeps_fresh_items_partial.

(* witness: t.x, u.y, t.a, u.a  (t=0 u=1 x=2 y=3 a=4): four distinct columns, u.a is dropped *)
Theorem c05_dedup_drops_distinct_column_refuted :
  dedup [] [ICompound [0; 2]; ICompound [1; 3]; ICompound [0; 4]; ICompound [1; 4]]
  = [ICompound [0; 2]; ICompound [1; 3]; ICompound [0; 4]].
Proof. vm_compute. reflexivity. Qed.
Print Assumptions c05_dedup_drops_distinct_column_refuted.

Theorem c05_dedup_never_adds : forall items seen, length (dedup seen items) <= length items.
Proof. exact dedup_sublist. Qed.
Print Assumptions c05_dedup_never_adds.

Example c05_ex_dedup_fresh : all_fresh [] [ICompound [0; 2]; IAlias 5; ICompound [1; 3]; IOther] = true.
Proof. vm_compute. reflexivity. Qed.

(* F23: a real call (from `from t | group {a} (sort {id} | take 1)`): requested a(4), id(5), *(6) of an
   instance whose known columns are 4,5,6 and the row-number helper 7; without EXCLUDE the helper shows *)
Definition f23_orig (c : cid) : option (list cid) := if Nat.eqb c 6 then Some [4; 5; 6; 7] else None.
Definition f23_cols : list col := [(4, None); (5, None); (6, Some [4; 5; 6; 7])].
Theorem c05_helpers_exposed_refuted :
  wf_cols f23_orig [] f23_cols /\
  In 7 (denote f23_orig false (translate_wildcards f23_cols)) /\ ~ In 7 (map fst f23_cols) /\
  ~ In 7 (denote f23_orig true (translate_wildcards f23_cols)).
Proof.
  split; [|split; [|split]].
  - cbn [wf_cols f23_cols].
    split; [reflexivity|]. split; [intros o E; discriminate|].
    split; [reflexivity|]. split; [intros o E; discriminate|].
    split; [reflexivity|]. split; [|exact I].
    intros o E. injection E as <-. split.
    + cbn. intros [H|[H|[]]]; discriminate.
    + intros y Hy. vm_compute in Hy. destruct Hy as [<-|[<-|[<-|[]]]]; reflexivity.
  - vm_compute. tauto.
  - cbn. intros [H|[H|[H|[]]]]; discriminate.
  - vm_compute. intros [H|[H|[H|[]]]]; discriminate.
Qed.
Print Assumptions c05_helpers_exposed_refuted.

(* F26: frame [a; *] (group puts the key first) is emitted as a lone star: the key is shown wherever the
   table has it, not first *)
Theorem c05_star_order_refuted :
  fst (translate_wildcards [(4, None); (6, Some [5; 4; 6])]) = [6].
Proof. vm_compute. reflexivity. Qed.
Print Assumptions c05_star_order_refuted.

Example c05_ex_two_stars :
  translate_wildcards [(1, None); (3, Some [1; 2; 3]); (9, None); (6, Some [4; 5; 6]); (4, None)] = ([3; 9; 6], [(6, [5]); (3, [2])]).
Proof. vm_compute. reflexivity. Qed.

(* C04 -- window functions see exactly the documented segment and keep row count.
   Statements only; proofs are in Proofs/FrameProofs.v and Proofs/WindowProofs.v.
   Layers:
   (a) the `window` transform: rows / range / rolling / expanding -> (kind, start, end) or the empty-range
       error (Model/Frame.v frame_of); the partition / frame scoping of nested group / window bodies (scope_run)
   (b) the frame clause the back end emits, with default-frame elision and the bound sign rule, against
       SQL's own meaning of a frame clause INCLUDING the implicit frame of an OVER without one
       (sql_frame_segment), compared with the documented segment (Rel.v `seg`): frame_emit_sound
   (c) what the source says NOW (Gen/GenWindow.v, regenerated on every run): the code of (a) and (b) agrees
       with the models the theorems are about; which std functions carry window_frame=true; the
       column-complexity and split rules that keep a windowed column out of WHERE
   (d) window transforms keep the row count and the multiset of the other columns; per-group take is a
       filter on row_number  (reference semantics Rel.v / Window.v).
   The resolver, flatten/lowering and the rest of the back end are tied by the correspondence and
   end-to-end streams of vplib/props/c04*.py, not by proof. *)
From Coq Require Import List ZArith QArith NArith Bool Permutation.
From PV Require Import Lib.ListX Model.Rel Model.Window Model.Frame Model.WindowFns Model.WinReorder Model.WinAtomic Model.WinLower Model.SplitBase
  Gen.GenSplit Gen.GenWindow Proofs.RelFacts Proofs.FrameProofs Proofs.WindowProofs Proofs.WinReorderProofs Proofs.WinAtomicProofs Proofs.WinLowerProofs.
Import ListNotations.
Local Open Scope Z_scope.

(* ---------------------------------------------------------------- (a) the window transform *)
Theorem c04_rolling_is_rows : forall n, 0 < n -> frame_of (args_rolling n) = frame_of (args_rows (Some (1 - n)) (Some 0)).
Proof. exact rolling_is_rows. Qed.
Print Assumptions c04_rolling_is_rows.

Theorem c04_expanding_is_rows : frame_of args_expanding = frame_of (args_rows None (Some 0)).
Proof. exact expanding_is_rows. Qed.
Print Assumptions c04_expanding_is_rows.

Theorem c04_rows_range_as_written : forall a b, range_is_empty (a, b) = false ->
  frame_of (args_rows a b) = WFrame (KRows, a, b) /\ frame_of (args_range a b) = WFrame (KRange, a, b).
Proof. intros a b H. split; [apply rows_nonempty | apply range_nonempty]; exact H. Qed.
Print Assumptions c04_rows_range_as_written.

(* no window = the whole partition *)
Theorem c04_no_window_is_whole_partition :
  frame_of no_args = WFrame no_window /\ forall keys p i, prql_segment no_window keys p i = seg FNone keys p i.
Proof. split; [exact no_window_args_whole_partition | exact no_window_segment]. Qed.
Print Assumptions c04_no_window_is_whole_partition.

(* /repo 7b31f75 (finding F52, fixed): a rows / range argument whose start is after its end -- an empty range --
   is a compile error, whatever the other arguments say; it used to be taken for "argument not given" (whole
   partition).  The one exception is the spelling of the std.prql default itself, 0..-1 (below). *)
Theorem c04_empty_range_rejected : forall a b, range_is_empty (a, b) = true -> (a, b) <> not_given ->
  frame_of (args_rows a b) = WEmptyRange ARows /\ frame_of (args_range a b) = WEmptyRange ARange.
Proof. exact empty_range_rejected. Qed.
Print Assumptions c04_empty_range_rejected.

Theorem c04_rejection_ignores_other_arguments : forall a : wargs,
  (exists x, frame_of a = WEmptyRange x) <->
  rejected_range (match w_rows a with Some r => r | None => default_rows end) = true \/
  rejected_range (match w_range a with Some r => r | None => default_range end) = true.
Proof. exact frame_of_rejects_iff. Qed.
Print Assumptions c04_rejection_ignores_other_arguments.

(* FULL STATEMENT (false, F54):
     forall a b f keys p i, frame_of (args_rows a b) = WFrame f -> prql_segment f keys p i = seg (FRows a b) keys p i
   (an accepted `rows:a..b` means the inclusive range a..b) -- it holds for every accepted argument except the
   spelling 0..-1, which the transform cannot tell from "argument not given": whole partition instead of the
   empty segment *)
Theorem c04_accepted_range_as_written_partial : forall a b f, (a, b) <> not_given ->
  (frame_of (args_rows a b) = WFrame f -> f = (KRows, a, b) /\ forall keys p i, prql_segment f keys p i = seg (FRows a b) keys p i) /\
  (frame_of (args_range a b) = WFrame f -> f = (KRange, a, b) /\ forall keys p i, prql_segment f keys p i = seg (FRange a b) keys p i).
Proof.
  intros a b f N. split; intro H.
  - rewrite (rows_as_written_partial a b f N H). split; reflexivity.
  - rewrite (range_as_written_partial a b f N H). split; reflexivity.
Qed.
Print Assumptions c04_accepted_range_as_written_partial.

Theorem c04_accepted_range_as_written_refuted : exists a b f keys p i,
  frame_of (args_rows a b) = WFrame f /\ prql_segment f keys p i <> seg (FRows a b) keys p i.
Proof.
  exists (Some 0), (Some (-1)), no_window, w_keys, w_part, 0%nat. destruct explicit_default_witness as [A [B C]].
  split; [exact A|]. rewrite B, C. discriminate.
Qed.
Print Assumptions c04_accepted_range_as_written_refuted.

(* modelled behaviour the book does not define: rolling:n with n <= 0 is silently ignored (whole partition) *)
Theorem c04_rolling_nonpositive_ignored : forall n, n <= 0 -> frame_of (args_rolling n) = frame_of no_args.
Proof. exact rolling_nonpositive_ignored. Qed.
Print Assumptions c04_rolling_nonpositive_ignored.

(* /repo 222f71a: on the i64 domain neither mirror leaves its machine type: `-rolling + 1` is evaluated for
   rolling > 0 only, the distance of a PRECEDING bound is |z| as u64 (i64::MIN included) *)
Theorem c04_frame_arithmetic_in_range :
  (forall rolling, in_i64 rolling -> 0 < rolling -> in_i64 (- rolling) /\ in_i64 (- rolling + 1)) /\
  (forall z, in_i64 z -> 0 <= bound_distance (parse_bound z) <= u64_max /\ (i64_min < z -> in_i64 (bound_distance (parse_bound z)))).
Proof. exact frame_arith_in_range. Qed.
Print Assumptions c04_frame_arithmetic_in_range.

(* /repo 592b6f8: the Flattener's bookkeeping of `partition` and `window` (save, overwrite for the body, write
   back) is lexical scoping: every column definition is handed the key of the innermost enclosing group and the
   frame of the innermost enclosing window -- also behind a nested group / window --, a relational argument
   (join / append / loop) starts with neither, and the walk leaves the fields as it found them *)
Theorem c04_scope_is_lexical : forall l st,
  scope_run flatten_policy l st = (scope_spec (st_part st) (st_win st) l, st).
Proof. exact scope_sound. Qed.
Print Assumptions c04_scope_is_lexical.

(* ---------------------------------------------------------------- (b) the emitted frame *)
(* negative = PRECEDING, 0 = CURRENT ROW, positive = FOLLOWING; the distance is kept *)
Theorem c04_bound_sign : forall z,
  bound_offset (parse_bound z) = Some z /\ bound_ok (parse_bound z) = true /\
  (z < 0 -> exists k, parse_bound z = SPreceding (Some k) /\ k = - z) /\
  (z = 0 -> parse_bound z = SCurrentRow) /\
  (0 < z -> parse_bound z = SFollowing (Some z)).
Proof. exact bound_sign. Qed.
Print Assumptions c04_bound_sign.

Theorem c04_emitted_frame_legal : forall k a b,
  (forall x y, a = Some x -> b = Some y -> x <= y) -> sframe_ok (to_sframe (k, a, b)) = true.
Proof. exact emitted_frame_legal. Qed.
Print Assumptions c04_emitted_frame_legal.

(* the frame the code omits is the frame SQL assumes when none is written (with ORDER BY: RANGE BETWEEN
   UNBOUNDED PRECEDING AND CURRENT ROW; without: the whole partition) *)
Theorem c04_elided_frame_is_implicit : forall sorted, to_sframe (default_frame sorted) = sql_implicit_frame sorted.
Proof. exact elided_frame_is_implicit. Qed.
Print Assumptions c04_elided_frame_is_implicit.

(* FULL STATEMENT (false on the unchanged tree, F22):
     forall supports f keys p i, i < length p -> (frame_kind f = KRange -> range_key_ok keys p) ->
       sql_frame_segment (emit_frame supports (is_sorted keys) f) keys p i = prql_segment f keys p i
   `supports` is the window_frame annotation of the function in std.sql.prql; first / last do not carry it. *)

(* for every function that carries window_frame=true: all kinds, all bounds (any integers, open),
   sorted or not, every partition and position *)
Theorem c04_frame_emit_sound : forall f keys p i,
  (i < length p)%nat -> (frame_kind f = KRange -> range_key_ok keys p) ->
  sql_frame_segment (emit_frame true (is_sorted keys) f) keys p i = prql_segment f keys p i.
Proof. exact frame_emit_sound. Qed.
Print Assumptions c04_frame_emit_sound.

Theorem c04_frame_emit_sound_partial : forall supports f keys p i,
  known_f22 supports (is_sorted keys) f = false ->
  (i < length p)%nat -> (frame_kind f = KRange -> range_key_ok keys p) ->
  sql_frame_segment (emit_frame supports (is_sorted keys) f) keys p i = prql_segment f keys p i.
Proof. exact frame_emit_sound_partial. Qed.
Print Assumptions c04_frame_emit_sound_partial.

(* `sort k | derive {l = last v}`: no frame is requested (whole partition), none is emitted, SQL's implicit
   frame ends at the current row *)
Theorem c04_frame_emit_sound_refuted : exists supports f keys p i,
  (i < length p)%nat /\ (frame_kind f = KRange -> range_key_ok keys p) /\
  sql_frame_segment (emit_frame supports (is_sorted keys) f) keys p i <> prql_segment f keys p i.
Proof.
  exists false, no_window, w_keys, w_part, 0%nat. split; [vm_compute; repeat constructor|]. split; [discriminate|].
  destruct frame_emit_refuted_witness as [A B]. rewrite A, B. discriminate.
Qed.
Print Assumptions c04_frame_emit_sound_refuted.

(* ---- range frames beyond one ascending key (round 2): descending keys, several keys, NULL keys, no sort ----
   The documented segment is read the generalised way (Model/Window.v segx: bound 0 = the peers under ALL keys, an
   offset = key values further ALONG the order of the single key, descending included); on Rel.v's domain it is Rel.v's: *)
Theorem c04_range_reading_agrees_with_rel : forall fr keys p i,
  (i < length p)%nat -> range_key_ok keys p -> segx fr keys p i = seg fr keys p i.
Proof. exact segx_agrees. Qed.
Print Assumptions c04_range_reading_agrees_with_rel.

(* ... and the emitted -- or elided -- clause selects exactly that segment, for every frame, every list of sort keys (none,
   one, several; ascending or descending), every partition and position.  `range_domain` (no offsets, or one key that is
   an integer on every row) is where the SPECIFICATION of SQL used here is validated against the engines *)
Theorem c04_frame_emit_sound_x : forall f keys p i,
  (frame_kind f = KRange -> range_domain f keys p) ->
  sql_frame_segment (emit_frame true (is_sorted keys) f) keys p i = prql_segmentx f keys p i.
Proof. exact frame_emit_sound_x. Qed.
Print Assumptions c04_frame_emit_sound_x.

(* which of the frames the `window` transform lets through the engines accept (SPECIFICATION sql_accepts): every ROWS
   frame; a RANGE frame iff it has no numeric offset or stands over exactly one ORDER BY expression *)
Theorem c04_frame_accepted_iff : forall k a b n,
  (forall x y, a = Some x -> b = Some y -> x <= y) ->
  sql_accepts (to_sframe (k, a, b)) n = match k with KRows => true | KRange => offset_free (KRange, a, b) || Nat.eqb n 1 end.
Proof. intros k a b n H. destruct k; [apply emitted_rows_accepted | apply emitted_range_accepted]; exact H. Qed.
Print Assumptions c04_frame_accepted_iff.

(* /repo 91a6a23 (finding F56, fixed): translate_windowed rejects a RANGE offset over a number of sort keys other than
   one.  FULL STATEMENT, now true: every frame clause that reaches SQL is one the engines accept ... *)
Theorem c04_emitted_frame_accepted : forall supports n k a b sf,
  (forall x y, a = Some x -> b = Some y -> x <= y) ->
  emit_window supports n (k, a, b) = Some (Some sf) -> sql_accepts sf n = true.
Proof. exact emit_window_accepted. Qed.
Print Assumptions c04_emitted_frame_accepted.

(* ... and nothing else is rejected: a ROWS frame never, a RANGE frame exactly when no engine accepts it *)
Theorem c04_rejects_exactly_unacceptable_frames : forall n a b,
  (forall x y, a = Some x -> b = Some y -> x <= y) ->
  (emit_window true n (KRange, a, b) = None <-> sql_accepts (to_sframe (KRange, a, b)) n = false) /\
  (forall supports, emit_window supports n (KRows, a, b) = Some (emit_frame supports (negb (Nat.eqb n 0)) (KRows, a, b))).
Proof. intros n a b H. split; [apply emit_window_rejects_iff; exact H | intro; apply emit_window_rows_never_rejected]. Qed.
Print Assumptions c04_rejects_exactly_unacceptable_frames.

(* ties: the implicit RANGE frame includes the peers of the current row, `rows:..0` does not; the code keeps
   them apart (only range:..0 is elided under a sort) *)
Theorem c04_ties_default_vs_rows :
  sql_frame_segment None w_keys t_part 0 = [0; 1]%nat /\
  prql_segment (KRows, None, Some 0) w_keys t_part 0 = [0%nat] /\
  emit_frame true true (KRows, None, Some 0) = Some (mk_sframe KRows (SPreceding None) SCurrentRow) /\
  prql_segment (KRange, None, Some 0) w_keys t_part 0 = [0; 1]%nat /\
  emit_frame true true (KRange, None, Some 0) = None.
Proof. exact ties_default_vs_rows. Qed.
Print Assumptions c04_ties_default_vs_rows.

(* row_number, rank, rank_dense, lag, lead do not look at the frame, so the missing clause is harmless for them *)
Theorem c04_frame_insensitive : forall fr fr' w keys e p i,
  frame_insensitive_fn w = true -> win_applyx fr w keys e p i = win_applyx fr' w keys e p i.
Proof. exact frame_insensitive. Qed.
Print Assumptions c04_frame_insensitive.

(* ---------------------------------------------------------------- (c) what the source says now *)
Theorem c04_gen_window_defaults :
  bounds_eqb window_default_rows default_rows && bounds_eqb window_default_range default_range
  && Bool.eqb window_default_expanding default_expanding && (window_default_rolling =? default_rolling) = true.
Proof. vm_compute. reflexivity. Qed.
Print Assumptions c04_gen_window_defaults.

(* transforms.rs: the rejection loop and the decision chain of `window` are the modelled frame_of (rolling off
   by one, a swapped branch, a changed emptiness test, a dropped / reordered / widened rejection all show up here) *)
Theorem c04_gen_frame_of_agrees :
  forallb (fun rows => forallb (fun range_ => forallb (fun expanding => forallb (fun rolling =>
     wresult_eqb (code_frame_of rows range_ expanding rolling) (frame_of (mk_wargs (Some rows) (Some range_) (Some expanding) (Some rolling))))
     small_rollings) [true; false]) small_ranges) small_ranges = true.
Proof. vm_compute. reflexivity. Qed.
Print Assumptions c04_gen_frame_of_agrees.

(* the spelling transforms.rs exempts from the rejection IS the default std.prql gives `rows` and `range` (were
   they to drift apart, "argument not given" would be rejected, or an empty range accepted again) *)
Theorem c04_gen_not_given_is_default :
  match code_not_given with
  | Some d => bounds_eqb d not_given && bounds_eqb d window_default_rows && bounds_eqb d window_default_range
  | None => false
  end = true.
Proof. vm_compute. reflexivity. Qed.
Print Assumptions c04_gen_not_given_is_default.

(* flatten.rs: group / window bodies write the enclosing partition / frame back, relational arguments are
   isolated from both (the policy c04_scope_is_lexical is about); an aggregate -- outside a group (8d54bf7) and
   inside one (f809321) -- ends the sort in effect *)
Theorem c04_gen_scope_policy :
  scope_policy_eqb code_scope_policy flatten_policy && code_aggregate_ends_sort && code_grouped_aggregate_ends_sort = true.
Proof. vm_compute. reflexivity. Qed.
Print Assumptions c04_gen_scope_policy.

(* gen_expr.rs: elision condition, default frame, bound arms, unbounded bounds = the modelled emit_frame *)
Theorem c04_gen_emit_frame_agrees :
  forallb (fun supports => forallb (fun sorted => forallb (fun f =>
     osframe_eqb (code_emit_frame supports sorted f) (emit_frame supports sorted f)) small_frames) [true; false]) [true; false] = true.
Proof. vm_compute. reflexivity. Qed.
Print Assumptions c04_gen_emit_frame_agrees.

(* gen_expr.rs (222f71a): no bound arm negates an i64 (the premise under which c04_frame_arithmetic_in_range speaks
   about the code and not only about the model's unbounded integers) *)
Theorem c04_gen_bound_distance_total : code_bound_distance_total = true.
Proof. vm_compute. reflexivity. Qed.
Print Assumptions c04_gen_bound_distance_total.

(* gen_expr.rs: the rejection in front of the elision is the modelled one, for 0..3 sort keys *)
Theorem c04_gen_emit_window_agrees :
  forallb (fun supports => forallb (fun n => forallb (fun f =>
     match code_emit_window supports n f, emit_window supports n f with
     | None, None => true | Some x, Some y => osframe_eqb x y | _, _ => false end) small_frames) [0; 1; 2; 3]%nat) [true; false] = true.
Proof. vm_compute. reflexivity. Qed.
Print Assumptions c04_gen_emit_window_agrees.

Theorem c04_gen_elided_frame_is_implicit :
  sframe_eqb (code_to_sframe (code_default_frame true)) (sql_implicit_frame true)
  && sframe_eqb (code_to_sframe (code_default_frame false)) (sql_implicit_frame false)
  && frame3_eqb code_pl_default_frame no_window = true.
Proof. vm_compute. reflexivity. Qed.
Print Assumptions c04_gen_elided_frame_is_implicit.

(* std.sql.prql: every function whose value depends on the frame carries window_frame=true, in every dialect
   module -- FALSE today for first / last (F22).  Full statement:  unframed std_fns = []  *)
Definition known_unframed : list str := [n_first; n_last].
Theorem c04_frame_functions_partial :
  forallb (fun mf : str * str => mem_str (snd mf) known_unframed) (unframed std_fns) = true.
Proof. vm_compute. reflexivity. Qed.
Print Assumptions c04_frame_functions_partial.

Theorem c04_frame_functions_refuted :
  supports_frame std_fns [] n_first = false /\ supports_frame std_fns [] n_last = false /\
  supports_frame std_fns [115;113;108;105;116;101]%N (* sqlite *) n_last = false.
Proof. vm_compute. repeat split; reflexivity. Qed.
Print Assumptions c04_frame_functions_refuted.

(* ... and the frame-sensitive functions other than the known ones do carry it, in every module *)
Theorem c04_aggregates_have_frames :
  forallb (fun m => forallb (fun f => supports_frame std_fns m f) [n_sum; n_min; n_max; n_average; n_count]) (modules std_fns) = true.
Proof. vm_compute. reflexivity. Qed.
Print Assumptions c04_aggregates_have_frames.

(* anchor.rs: a windowed column is never computed in the SELECT whose WHERE / HAVING uses it:
   with a Filter among the following transforms of the SELECT being assembled, a windowed Compute either
   forces a split (is_split_required, Gen/GenSplit.v) or cannot be materialized because the filter sits in
   front of the SELECT's aggregate and only admits Plain columns (can_materialize) -- for ALL following-sets *)
Theorem c04_window_before_filter :
  forallb (fun f => negb (mem NFilter f)
                    || split_required KCompute f
                    || (mem NAggregate f && negb (can_materialize windowed_complexity (filter_allows true))))
          (subsets all_names) = true.
Proof. vm_compute. reflexivity. Qed.
Print Assumptions c04_window_before_filter.

(* ... nor inside an aggregate, another window function, a group key or a join condition; it may be used in
   plain expressions, ORDER BY and the projection (where SQL admits window functions) *)
Theorem c04_windowed_complexity_sound :
  forallb (fun u => match u with
                    | UHaving => true          (* covered by c04_window_before_filter: the split rule *)
                    | _ => implb (can_materialize windowed_complexity (consumer_allows u)) (sql_admits_window u)
                    end) all_consumers
  && forallb (fun u => implb (sql_admits_window u) (can_materialize windowed_complexity (consumer_allows u))) all_consumers
  && propagation_shape_ok = true.
Proof. vm_compute. reflexivity. Qed.
Print Assumptions c04_windowed_complexity_sound.

(* preprocess.rs reorder: only row-local column definitions are pulled in front of a take (a window function
   defined after `take n` must see the n taken rows only); nothing is pulled in front of a filter/aggregate/... *)
Theorem c04_reorder_keeps_window_after_take :
  forallb (fun c => implb (reorder_before_take c) (row_local c)) all_cx && negb reorder_before_other = true.
Proof. vm_compute. reflexivity. Qed.
Print Assumptions c04_reorder_keeps_window_after_take.

(* ---------------------------------------------------------------- (c') preprocess.rs reorder, as a function *)
(* Model/WinReorder.v `reorder` mirrors the two loops of reorder_inner over (kind, complexity)-tagged pipelines; it is
   compared with the implementation's input / output on every compile of the end-to-end streams (hook
   verif:preprocess).  What the source says now is the modelled policy: *)
Theorem c04_gen_reorder_policy : reorder_policy_eqb code_reorder_policy model_reorder_policy = true.
Proof. vm_compute. reflexivity. Qed.
Print Assumptions c04_gen_reorder_policy.

(* for EVERY pipeline and every policy: the result is reached by swaps "a Compute moves in front of its left
   neighbour, which the policy lets it cross" and by nothing else *)
Theorem c04_reorder_only_allowed_swaps : forall pol p, rreach pol p (reorder pol p).
Proof. exact reorder_reach. Qed.
Print Assumptions c04_reorder_only_allowed_swaps.

Theorem c04_reorder_is_permutation : forall pol p, Permutation p (reorder pol p).
Proof. exact reorder_perm. Qed.
Print Assumptions c04_reorder_is_permutation.

(* ... hence any meaning of pipelines that is invariant under those single swaps is preserved by reorder *)
Theorem c04_reorder_preserves_invariant_meaning : forall (M : Type) (sem : list ritem -> M) pol,
  (forall l1 x y c l2, snd y = RCompute c -> should_swap pol c (snd x) = true ->
     sem (l1 ++ x :: y :: l2) = sem (l1 ++ y :: x :: l2)) ->
  forall p, sem (reorder pol p) = sem p.
Proof. exact reorder_preserves. Qed.
Print Assumptions c04_reorder_preserves_invariant_meaning.

(* for EVERY pipeline, under the policy of the source (c04_gen_reorder_policy): erase the sorts and the row-local
   (Plain) column definitions -- what is left stands in the same order before and after.  A Windowed (or
   Aggregation, or NonGroup) column definition therefore never moves across a Take, a Filter, an Aggregate, a Join
   or a set operation, in either direction: a window function defined after `take n` / `filter` sees exactly the
   rows that passed it *)
Theorem c04_reorder_keeps_rowset_order : forall p,
  filter (fun i => order_matters (snd i)) (reorder code_reorder_policy p) = filter (fun i => order_matters (snd i)) p.
Proof. intro p. rewrite (reorder_ext _ _ c04_gen_reorder_policy). apply reorder_keeps_rowset_order. Qed.
Print Assumptions c04_reorder_keeps_rowset_order.

(* transforms that are not column definitions keep their order (under any policy), so do the column definitions
   among themselves (a definition never overtakes one it may refer to), and the first transform stays first *)
Theorem c04_reorder_keeps_transforms_and_definitions : forall pol p,
  filter (fun i => negb (is_compute (snd i))) (reorder pol p) = filter (fun i => negb (is_compute (snd i))) p /\
  filter (fun i => is_compute (snd i)) (reorder pol p) = filter (fun i => is_compute (snd i)) p /\
  (forall x t, p = x :: t -> exists t', reorder pol p = x :: t').
Proof.
  intros pol p. split; [apply reorder_keeps_transforms|]. split; [apply reorder_keeps_computes|].
  intros x t ->. apply reorder_head.
Qed.
Print Assumptions c04_reorder_keeps_transforms_and_definitions.

(* ---------------------------------------------------------------- (c'') split_off_back: the complexity half, as a function *)
(* Model/WinAtomic.v `walk` mirrors what split_off_back does with column complexities while it assembles one SELECT from
   the back of the pipeline (get_requirements, allow_up_to, can_materialize); its stopping point is compared with the
   implementation's on every call (hook verif:split_off_back).  For EVERY pipeline and all tables: when the walk has met
   a transform t and later keeps a column definition x (x stands in front of t in the pipeline, both end up in the same
   SELECT), then x is no more complex than anything t requires of x's column; if t is itself a kept definition that
   mentions x's column (so x is inlined into t), x is no more complex than what t's own users allowed t to be; and
   is_split_required said no with what follows x.  Read with x Windowed: a window function stays in a SELECT only if
   every transform of that SELECT that uses it -- directly or through inlined plain expressions -- allows Windowed *)
Theorem c04_kept_definition_sound : forall tb st0 la t lb x sa sb sc sx,
  walk tb st0 la = Some sa -> wstep tb sa t = Some sb -> walk tb sb lb = Some sc -> wstep tb sc x = Some sx ->
  is_compute_kind (t_kind x) = true ->
  (forall c, In (t_id x, c) (reqs_of tb sa t) -> cx_leb tb (t_cx x) c = true) /\
  (is_compute_kind (t_kind t) = true -> In (t_id x) (map fst (reqs_of tb sa t)) ->
   cx_leb tb (t_cx x) (allowed tb (ws_req sa ++ reqs_of tb sa t) (t_id t)) = true) /\
  rt_split tb (t_kind x) (ws_fol sc) = false.
Proof. exact kept_definition_sound. Qed.
Print Assumptions c04_kept_definition_sound.

(* ... and which requirements of the source's tables allow Windowed at all (arm of get_requirements, does SQL admit a
   window function there): the argument of a PLAIN expression, ORDER BY keys (Sort, the sort of a Take), DISTINCT ON keys and
   the output -- not: arguments of aggregate / window / CASE definitions, window partition / order keys, GROUP BY keys,
   WHERE, LIMIT expressions, JOIN conditions.  The one arm that allows more than SQL admits, a Filter with no Aggregate
   behind it (it may become HAVING), is closed by is_split_required: c04_window_before_filter *)
Theorem c04_gen_requirements_admit_windows :
  forallb (fun p : cx * bool => implb (cx_leb code_req_tables CWindowed (fst p)) (snd p))
    [(rt_compute_allows code_req_tables CPlain, sql_admits_window UPlainExpr);
     (rt_compute_allows code_req_tables CNonGroup, false); (rt_compute_allows code_req_tables CWindowed, sql_admits_window UWindowArg);
     (rt_compute_allows code_req_tables CAggregation, sql_admits_window UAggArg);
     (rt_default code_req_tables, sql_admits_window UGroupKey); (rt_default code_req_tables, sql_admits_window UJoinOn);
     (rt_filter_allows code_req_tables true, sql_admits_window UWhere);
     (rt_sort_allows code_req_tables, sql_admits_window UOrderBy); (rt_take_sort_allows code_req_tables, sql_admits_window UOrderBy);
     (rt_distinct_on_allows code_req_tables, true); (rt_highest code_req_tables, sql_admits_window UProjection)]
  && cx_leb code_req_tables CWindowed (rt_compute_allows code_req_tables CPlain)
  && cx_leb code_req_tables CWindowed (rt_sort_allows code_req_tables) = true.
Proof. vm_compute. reflexivity. Qed.
Print Assumptions c04_gen_requirements_admit_windows.

(* the arms of get_requirements the source has now are the modelled tables (the ones the correspondence stream runs with) *)
Theorem c04_gen_req_tables : req_tables_eqb code_req_tables (model_req_tables split_required records) = true.
Proof. vm_compute. reflexivity. Qed.
Print Assumptions c04_gen_req_tables.

(* can_materialize of the source is the comparison the walk uses: complexity <= what is required, in declaration order *)
Theorem c04_gen_can_materialize_is_le :
  forallb (fun a => forallb (fun b => Bool.eqb (can_materialize a b) (cx_leb code_req_tables a b)) all_cx) all_cx = true.
Proof. vm_compute. reflexivity. Qed.
Print Assumptions c04_gen_can_materialize_is_le.

(* ---------------------------------------------------------------- (c3) lowering.rs: which window a column is handed *)
(* Model/WinLower.v: the Lowerer's `window` field (set for the transform call AFTER the call's partition columns and sort
   keys are lowered, taken by Aggregate / Take, None again at the end) and declare_as_column's choice; the real traces
   (hook verif:lowerer_op) are replayed by `lreplay` on every compile.  For EVERY pipeline the trace lower_pipeline
   produces is one declare_as_column agrees with: *)
Theorem c04_lowerer_trace_replays : forall p, lreplay None (ops_of_pipeline p) = true.
Proof. exact pipeline_replays. Qed.
Print Assumptions c04_lowerer_trace_replays.

(* FULL STATEMENT (false, F51):  every column that needs a window is handed the window of the transform call it is lowered for
     forall c n g, In (n, g) (key_windows c ++ body_windows c) -> n = true -> g = Some (tc_win c)        (non-aggregate calls)
   It holds for the columns a derive / select / filter / sort defines; the columns of an aggregate get none (they are
   aggregations); the partition columns and SORT KEYS of the call are lowered while the field is still None: *)
Theorem c04_lowerer_window_partial : forall c cols n g,
  (tc_body c = BColumns cols -> In (n, g) (body_windows c) -> g = if n then Some (tc_win c) else None) /\
  (tc_body c = BAggregate cols -> In (n, g) (body_windows c) -> g = None).
Proof. intros c cols n g. split; [apply body_column_gets_window | apply aggregate_column_gets_none]. Qed.
Print Assumptions c04_lowerer_window_partial.

Theorem c04_lowerer_window_refuted : exists c n g, In (n, g) (key_windows c) /\ n = true /\ g <> Some (tc_win c) /\
  forall c' n' g', In (n', g') (key_windows c') -> g' = None.
Proof.
  exists (mk_tcall [true] 1%N (BColumns [])), true, None. split; [left; reflexivity|]. split; [reflexivity|]. split; [discriminate|].
  exact key_column_gets_none.
Qed.
Print Assumptions c04_lowerer_window_refuted.

(* ---------------------------------------------------------------- (d) rows are kept *)
Theorem c04_window_preserves_rows : forall fr keys cols l,
  (length (Rel.apply (TWinF fr keys cols) l) = length l /\
   Permutation (map (fun r => vals (strip (length cols) r)) (Rel.apply (TWinF fr keys cols) l)) (map vals l)) /\
  (length (Rel.apply (TWin keys cols) l) = length l /\
   Permutation (map (fun r => vals (strip (length cols) r)) (Rel.apply (TWin keys cols) l)) (map vals l)).
Proof. intros. split; [apply twinf_preserves_rows | apply twin_preserves_rows]. Qed.
Print Assumptions c04_window_preserves_rows.

(* inside a group: `group` moves the key columns to the front of every row (by_first); apart from that the
   rows are the input rows with the window columns appended *)
Theorem c04_group_window_preserves_rows : forall by_ fr keys cols l,
  (forall nm w e, In (nm, w, e) cols -> not_key by_ nm) ->
  (length (Rel.apply (TGroupWinF by_ fr keys cols) l) = length l /\
   Permutation (map (fun r => vals (strip (length cols) r)) (Rel.apply (TGroupWinF by_ fr keys cols) l)) (map (fun r => vals (by_first by_ r)) l)) /\
  (length (Rel.apply (TGroupWin by_ keys cols) l) = length l /\
   Permutation (map (fun r => vals (strip (length cols) r)) (Rel.apply (TGroupWin by_ keys cols) l)) (map (fun r => vals (by_first by_ r)) l)).
Proof. intros by_ fr keys cols l H. split; [apply tgroupwinf_preserves_rows | apply tgroupwin_preserves_rows]; exact H. Qed.
Print Assumptions c04_group_window_preserves_rows.

(* the same with all 12 functions (rank_dense included) *)
Theorem c04_xwindow_preserves_rows : forall fr keys cols l,
  length (applyx (XWinF fr keys cols) l) = length l /\
  Permutation (map (fun r => vals (strip (length cols) r)) (applyx (XWinF fr keys cols) l)) (map vals l).
Proof. exact xwin_preserves_rows. Qed.
Print Assumptions c04_xwindow_preserves_rows.

Theorem c04_xgroup_window_preserves_rows : forall by_ fr keys cols l,
  length (applyx (XGroupWinF by_ fr keys cols) l) = length l /\
  (cols_not_keys by_ cols ->
   Permutation (map (fun r => vals (strip (length cols) r)) (applyx (XGroupWinF by_ fr keys cols) l)) (map (fun r => vals (by_first by_ r)) l)).
Proof. intros. split; [apply xgroupwin_length | apply xgroupwin_perm]. Qed.
Print Assumptions c04_xgroup_window_preserves_rows.

(* ... and under a range frame read the generalised way *)
Theorem c04_xwindow_range_preserves_rows : forall a b keys cols l,
  length (applyx (XWinR a b keys cols) l) = length l /\
  Permutation (map (fun r => vals (strip (length cols) r)) (applyx (XWinR a b keys cols) l)) (map vals l).
Proof. exact xwinr_preserves_rows. Qed.
Print Assumptions c04_xwindow_range_preserves_rows.

Theorem c04_xgroup_window_range_preserves_rows : forall by_ a b keys cols l,
  length (applyx (XGroupWinR by_ a b keys cols) l) = length l /\
  (cols_not_keys by_ cols ->
   Permutation (map (fun r => vals (strip (length cols) r)) (applyx (XGroupWinR by_ a b keys cols) l)) (map (fun r => vals (by_first by_ r)) l)).
Proof. intros. split; [apply xgroupwinr_length | apply xgroupwinr_perm]. Qed.
Print Assumptions c04_xgroup_window_range_preserves_rows.

(* per-group `sort | take n` keeps, in each sorted group, exactly the rows whose row_number is <= n
   (what sql/pq/preprocess.rs emits: ROW_NUMBER() OVER (PARTITION BY .. ORDER BY ..) <= n) *)
Theorem c04_take_in_group_is_row_number : forall by_ keys n l,
  Rel.apply (TGroupTake by_ keys None (Some n)) l =
  flat_map (fun g => map (by_first by_) (take_by_row_number n (match keys with [] => snd g | _ => isort (keys_le keys) (snd g) end)))
           (groups (S (length l)) by_ l).
Proof. exact take_in_group_is_row_number. Qed.
Print Assumptions c04_take_in_group_is_row_number.

Theorem c04_row_number_value : forall fr keys e p i, win_applyx fr (WB WRowNumber) keys e p i = VInt (Z.of_nat (S i)).
Proof. exact row_number_value. Qed.
Print Assumptions c04_row_number_value.

(* ---------------------------------------------------------------- non-vacuity *)
Example c04_ex_range_key_ok : range_key_ok w_keys w_part.
Proof. exists w_key. split; [reflexivity|]. intros r [H|[H|[H|[]]]]; subst; eexists; reflexivity. Qed.
Example c04_ex_range_frame : prql_segment (KRange, Some (-1), Some 0) w_keys w_part 2 = [1; 2]%nat
  /\ sql_frame_segment (emit_frame true true (KRange, Some (-1), Some 0)) w_keys w_part 2 = [1; 2]%nat.
Proof. split; vm_compute; reflexivity. Qed.
Example c04_ex_rolling : frame_of (args_rolling 3) = WFrame (KRows, Some (-2), Some 0).
Proof. reflexivity. Qed.
Example c04_ex_rejected : frame_of (args_rows (Some 1) (Some 0)) = WEmptyRange ARows
  /\ frame_of (mk_wargs (Some (Some 1, Some 0)) None (Some true) None) = WEmptyRange ARows
  /\ frame_of (mk_wargs (Some (Some (-1), Some 1)) (Some (Some 2, Some 0)) None None) = WEmptyRange ARange
  /\ frame_of (args_rows (Some 0) (Some (-1))) = WFrame no_window.
Proof. repeat split; reflexivity. Qed.
(* the scoping theorem is not vacuous: the bookkeeping of the tree before 592b6f8 (reset instead of write back)
   hands x3, x4 of  group g (window rows:-1..0 (x1 | group c (x2) | x3) | x4) | x5  no partition / x4 no frame *)
Example c04_ex_scope_old_policy_differs :
  fst (scope_run old_flatten_policy scope_example fstate0) <> scope_spec None no_window scope_example.
Proof. exact scope_old_policy_differs. Qed.
Example c04_ex_scope : scope_spec None no_window scope_example =
  [(1%N, Some 0%N, (KRows, Some (-1), Some 0)); (2%N, Some 1%N, (KRows, Some (-1), Some 0)); (3%N, Some 0%N, (KRows, Some (-1), Some 0));
   (4%N, Some 0%N, no_window); (5%N, None, no_window)].
Proof. vm_compute. reflexivity. Qed.
Example c04_ex_known : known_f22 false true no_window = true /\ known_f22 false false no_window = false /\ known_f22 true true no_window = false.
Proof. repeat split; reflexivity. Qed.
Example c04_ex_not_keys : cols_not_keys [5%N] [(Some 9%N, WRankDense, ECol None 2%N)].
Proof. intros nm w e [H|[]]. injection H as <- _ _. cbn. intros [E|[]]. discriminate. Qed.
(* reorder: `sort | take | derive {w = window fn, y = plain}` -- neither moves (a Compute never overtakes a Compute, the
   Windowed one may not cross the Take); with the plain one first it alone is pulled in front of the Take and the Sort *)
Example c04_ex_reorder :
  reorder_tags model_reorder_policy [0; 2; 3; 12; 10]%N = [0; 1; 2; 3; 4]%N /\
  reorder_tags model_reorder_policy [0; 2; 3; 10; 12]%N = [0; 3; 1; 2; 4]%N /\
  reorder_tags model_reorder_policy [0; 3; 2; 12]%N = [0; 1; 3; 2]%N.
Proof. repeat split; vm_compute; reflexivity. Qed.
(* range frames over two keys with a tie on the first: `range:0..0` separates the tied rows (peers are equal under BOTH
   keys) where one key alone would not; with an offset the clause is one no engine accepts; along a descending key
   `range:-1..0` is the values k+1 down to k *)
Example c04_ex_range_two_keys :
  prql_segmentx (KRange, Some 0, Some 0) x_keys2 t_part 0 = [0%nat] /\
  sql_frame_segment (emit_frame true true (KRange, Some 0, Some 0)) x_keys2 t_part 0 = [0%nat] /\
  prql_segmentx (KRange, Some 0, Some 0) w_keys t_part 0 = [0; 1]%nat /\
  sql_accepts (to_sframe (KRange, Some 0, Some 0)) 2 = true /\
  sql_accepts (to_sframe (KRange, Some (-1), Some 0)) 2 = false /\
  sql_accepts (to_sframe (KRange, Some (-1), Some 0)) 0 = false /\
  prql_segmentx (KRange, Some (-1), Some 0) [(true, w_key)] w_part 1 = [1; 2]%nat.
Proof. exact range_two_keys_witness. Qed.
(* the walk, on `derive {w = sum b} | filter w > 1 | select`: behind the Select and the Filter the windowed definition ends
   the SELECT (2 transforms kept); without the filter all three stay *)
Example c04_ex_walk :
  kept code_req_tables (wstate0 code_req_tables [3%N]) (map titem_of [(9, true, 0, 0, [], [], []); (2, true, 0, 0, [3], [], []); (4, true, 2, 3, [1], [], [])]%N) = 2%nat /\
  kept code_req_tables (wstate0 code_req_tables [3%N]) (map titem_of [(9, true, 0, 0, [], [], []); (4, true, 2, 3, [1], [], [])]%N) = 2%nat.
Proof. split; vm_compute; reflexivity. Qed.

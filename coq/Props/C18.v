(* C18 -- the dialect is chosen by options, then by the query header, then generic.
   Only statements here; proofs are in Proofs/SelectProofs.v.  Tables are Gen/GenDialect.v,
   regenerated from /repo on every run. *)
From Coq Require Import List NArith Bool.
From PV Require Import Lib.ListX Model.Select Proofs.SelectProofs Gen.GenDialect.
Import ListNotations.
Local Open Scope N_scope.

Notation names := GenDialect.dialect_names.
Notation dflt := GenDialect.default_index.
Notation pfx := GenDialect.target_prefix.
Notation any := GenDialect.target_any.
Notation sel := (select_dialect names dflt pfx any).
Notation tname := (target_name names pfx).

(* table obligations on what the source says now *)
Theorem c18_table_ok : table_ok names dflt any = true.
Proof. vm_compute. reflexivity. Qed.
Print Assumptions c18_table_ok.

Theorem c18_default_is_generic : nth dflt names [] = [103;101;110;101;114;105;99] (* "generic" *).
Proof. vm_compute. reflexivity. Qed.
Print Assumptions c18_default_is_generic.

Theorem c18_header_key_consistent :
  leqb GenDialect.header_key_in GenDialect.header_key_out && leqb GenDialect.header_key_out GenDialect.select_key = true.
Proof. vm_compute. reflexivity. Qed.
Print Assumptions c18_header_key_consistent.

(* the header is stored in QueryDef.other; nothing in the resolver reads it *)
Definition allowed_readers : list str :=
  [ [112;114;113;108;99;47;112;114;113;108;99;47;115;114;99;47;99;111;100;101;103;101;110;47;97;115;116;46;114;115] (* prqlc/prqlc/src/codegen/ast.rs : the formatter prints it back *);
    [112;114;113;108;99;47;112;114;113;108;99;47;115;114;99;47;115;113;108;47;112;113;47;103;101;110;95;113;117;101;114;121;46;114;115] (* prqlc/prqlc/src/sql/pq/gen_query.rs : compile_query *) ].
Theorem c18_resolver_ignores_target :
  forallb (fun f => existsb (leqb f) allowed_readers) GenDialect.other_readers = true.
Proof. vm_compute. reflexivity. Qed.
Print Assumptions c18_resolver_ignores_target.

Section Backend.
  Variable rq sql : Type.
  Variable gen : dialect -> rq -> res sql.
  Notation cw := (compile_with names dflt pfx any rq sql gen).

  Theorem c18_option_eq_header : forall d q, (d < length names)%nat ->
    cw (Some d) None q = cw None (Some (tname d)) q.
  Proof. exact (option_eq_header_sql names dflt pfx any c18_table_ok rq sql gen). Qed.

  Theorem c18_option_overrides_header : forall d h q, cw (Some d) h q = gen d q.
  Proof. exact (option_overrides_header_sql names dflt pfx any rq sql gen). Qed.

  Theorem c18_neither_is_generic : forall q, cw None None q = gen dflt q.
  Proof. exact (neither_is_default_sql names dflt pfx any rq sql gen). Qed.

  Theorem c18_unknown_target_is_error : forall s q,
    (forall d, (d < length names)%nat -> s <> tname d) -> s <> pfx ++ any ->
    cw None (Some s) q = Err.
  Proof. exact (unknown_target_is_error_sql names dflt pfx any c18_table_ok rq sql gen). Qed.
End Backend.
Print Assumptions c18_option_eq_header.
Print Assumptions c18_option_overrides_header.
Print Assumptions c18_neither_is_generic.
Print Assumptions c18_unknown_target_is_error.

Theorem c18_from_str_total_inverse : forall s d,
  target_from_str names pfx any s = Some (TSql (Some d)) <-> ((d < length names)%nat /\ s = tname d).
Proof. exact (from_str_total_inverse names dflt pfx any c18_table_ok). Qed.
Print Assumptions c18_from_str_total_inverse.

Theorem c18_header_any_is_generic : sel None (Some (pfx ++ any)) = Ok dflt.
Proof. exact (header_any_is_default names dflt pfx any). Qed.
Print Assumptions c18_header_any_is_generic.

(* non-vacuity: a concrete declared dialect and a concrete unknown name *)
Example c18_ex_sqlite : sel None (Some (pfx ++ [115;113;108;105;116;101])) = Ok 10%nat.
Proof. vm_compute. reflexivity. Qed.
Example c18_ex_unknown : sel None (Some (pfx ++ [83;81;76;105;116;101])) = Err.
Proof. vm_compute. reflexivity. Qed.

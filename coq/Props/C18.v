(* C18 -- the dialect is chosen by options, then by the query header, then generic.
   Only statements here; proofs are in Proofs/SelectProofs.v and Proofs/SelectReadsProofs.v.  Tables are Gen/GenDialect.v and
   Gen/GenDialectReads.v (the inventory of every read of the option / the header / the chosen dialect), regenerated from
   /repo on every run. *)
From Coq Require Import List NArith Bool.
From PV Require Import Lib.ListX Model.Select Proofs.SelectProofs Gen.GenDialect
  Model.SelectReads Proofs.SelectReadsProofs Gen.GenDialectReads.
Import ListNotations.
Local Open Scope N_scope.

Notation names := GenDialect.dialect_names.
Notation dflt := GenDialect.default_index.
Notation pfx := GenDialect.target_prefix.
Notation any := GenDialect.target_any.
Notation sel := (select_dialect names dflt pfx any).
Notation tname := (target_name names pfx).

(* table obligations on what the source says now *)
Theorem c18_table_ok : table_ok names dflt any = true.
Proof. vm_compute. reflexivity. Qed.
Print Assumptions c18_table_ok.

Theorem c18_default_is_generic : nth dflt names [] = [103;101;110;101;114;105;99] (* "generic" *).
Proof. vm_compute. reflexivity. Qed.
Print Assumptions c18_default_is_generic.

Theorem c18_header_key_consistent :
  leqb GenDialect.header_key_in GenDialect.header_key_out && leqb GenDialect.header_key_out GenDialect.select_key = true.
Proof. vm_compute. reflexivity. Qed.
Print Assumptions c18_header_key_consistent.

(* the header is stored in QueryDef.other; nothing in the resolver reads it *)
Definition allowed_readers : list str :=
  [ [112;114;113;108;99;47;112;114;113;108;99;47;115;114;99;47;99;111;100;101;103;101;110;47;97;115;116;46;114;115] (* prqlc/prqlc/src/codegen/ast.rs : the formatter prints it back *);
    [112;114;113;108;99;47;112;114;113;108;99;47;115;114;99;47;115;113;108;47;112;113;47;103;101;110;95;113;117;101;114;121;46;114;115] (* prqlc/prqlc/src/sql/pq/gen_query.rs : compile_query *) ].
Theorem c18_resolver_ignores_target :
  forallb (fun f => existsb (leqb f) allowed_readers) GenDialect.other_readers = true.
Proof. vm_compute. reflexivity. Qed.
Print Assumptions c18_resolver_ignores_target.

Section Backend.
  Variable rq sql : Type.
  Variable gen : dialect -> rq -> res sql.
  Notation cw := (compile_with names dflt pfx any rq sql gen).

  Theorem c18_option_eq_header : forall d q, (d < length names)%nat ->
    cw (Some d) None q = cw None (Some (tname d)) q.
  Proof. exact (option_eq_header_sql names dflt pfx any c18_table_ok rq sql gen). Qed.

  Theorem c18_option_overrides_header : forall d h q, cw (Some d) h q = gen d q.
  Proof. exact (option_overrides_header_sql names dflt pfx any rq sql gen). Qed.

  Theorem c18_neither_is_generic : forall q, cw None None q = gen dflt q.
  Proof. exact (neither_is_default_sql names dflt pfx any rq sql gen). Qed.

  Theorem c18_unknown_target_is_error : forall s q,
    (forall d, (d < length names)%nat -> s <> tname d) -> s <> pfx ++ any ->
    cw None (Some s) q = Err.
  Proof. exact (unknown_target_is_error_sql names dflt pfx any c18_table_ok rq sql gen). Qed.
End Backend.
Print Assumptions c18_option_eq_header.
Print Assumptions c18_option_overrides_header.
Print Assumptions c18_neither_is_generic.
Print Assumptions c18_unknown_target_is_error.

Theorem c18_from_str_total_inverse : forall s d,
  target_from_str names pfx any s = Some (TSql (Some d)) <-> ((d < length names)%nat /\ s = tname d).
Proof. exact (from_str_total_inverse names dflt pfx any c18_table_ok). Qed.
Print Assumptions c18_from_str_total_inverse.

Theorem c18_header_any_is_generic : sel None (Some (pfx ++ any)) = Ok dflt.
Proof. exact (header_any_is_default names dflt pfx any). Qed.
Print Assumptions c18_header_any_is_generic.

(* ---------------------------------------------------------------------------------------------------------------
   The same theorems WITHOUT assuming that the back end is a function of the chosen dialect (Model/SelectReads.v):
   front end and back end are arbitrary programs that may read the option (`options.target` / the `dialect: Option<Dialect>`
   parameter), the header (`QueryDef.other["target"]`) and the chosen dialect (`ctx.dialect`, `ctx.dialect_enum`) -- but
   only at the sites of the inventory [rsites] regenerated from /repo (every occurrence of those names in the Rust source,
   classified).  [c18_reads_inventory_ok] is the obligation on the inventory: outside the command line the option is only
   bound, passed on unchanged, selected on and printed in the signature comment; the header is only declared, stored by
   the parser, printed by the formatter and selected on; the chosen dialect is only read, in the back end, from a Context
   built once by Context::new from compile_query's choice; target names are parsed nowhere else. *)
Notation rsites := GenDialectReads.reads.

Theorem c18_reads_inventory_ok : reads_table_ok rsites = true.
Proof. vm_compute. reflexivity. Qed.
Print Assumptions c18_reads_inventory_ok.

Section ReadSites.
  Variable src rq sql : Type.
  Variable fe : src -> rd rq.      (* parser + resolver + lowering *)
  Variable bk : rq -> rd sql.      (* the SQL back end *)
  Hypothesis FE : forall s, reads_within rsites st_front (fe s).     (* the inventory is complete for the front end ... *)
  Hypothesis BK : forall q, reads_within rsites st_back (bk q).      (* ... and for the back end *)
  Notation crd := (compile_rd names dflt pfx any src rq sql fe bk).

  (* the pipeline is an instance of the abstract model: its output is a function of the selected dialect only *)
  Theorem c18_rd_refines_selection : forall opt hdr s,
    crd opt hdr s = compile_with names dflt pfx any src sql (gen_of dflt src rq sql fe bk) opt hdr s.
  Proof. exact (compile_rd_factor rsites c18_reads_inventory_ok names dflt pfx any src rq sql fe bk FE BK). Qed.

  Theorem c18_rd_option_eq_header : forall d s, (d < length names)%nat ->
    crd (Some d) None s = crd None (Some (tname d)) s.
  Proof. exact (rd_option_eq_header rsites c18_reads_inventory_ok names dflt pfx any c18_table_ok src rq sql fe bk FE BK). Qed.

  Theorem c18_rd_option_overrides_header : forall d h h' s, crd (Some d) h s = crd (Some d) h' s.
  Proof. exact (rd_option_overrides_header rsites c18_reads_inventory_ok names dflt pfx any src rq sql fe bk FE BK). Qed.

  Theorem c18_rd_neither_is_generic : forall s, crd None None s = crd (Some dflt) None s.
  Proof. exact (rd_neither_is_default rsites c18_reads_inventory_ok names dflt pfx any src rq sql fe bk FE BK). Qed.

  Theorem c18_rd_unknown_target_is_error : forall h s,
    (forall d, (d < length names)%nat -> h <> tname d) -> h <> pfx ++ any -> crd None (Some h) s = Err.
  Proof. exact (rd_unknown_target_is_error rsites c18_reads_inventory_ok names dflt pfx any c18_table_ok src rq sql fe bk FE BK). Qed.

  (* the choice never changes which programs the resolver accepts (nor what it produces) *)
  Theorem c18_rd_resolver_ignores_target : forall o h o' h' s,
    resolve_rd dflt src rq fe o h s = resolve_rd dflt src rq fe o' h' s.
  Proof. exact (rd_resolver_ignores_target rsites c18_reads_inventory_ok dflt src rq fe FE). Qed.
End ReadSites.
Print Assumptions c18_rd_refines_selection.
Print Assumptions c18_rd_option_eq_header.
Print Assumptions c18_rd_option_overrides_header.
Print Assumptions c18_rd_neither_is_generic.
Print Assumptions c18_rd_unknown_target_is_error.
Print Assumptions c18_rd_resolver_ignores_target.

(* non-vacuity of the hypotheses: the inventory does offer the back end sites at which it may branch on the chosen dialect
   (so back ends that differ between dialects are covered), e.g. this one reads it at the first such site *)
Example c18_ex_backend_reads_chosen :
  reads_within rsites st_back
    (Read RChosen (first_free rsites st_back k_chosen) (fun a => match a with AChosen d => Ret (Ok d) | _ => Ret Err end)).
Proof. apply RW_read; [vm_compute; reflexivity|]. intros [o|h|d]; apply RW_ret. Qed.
(* the obligation is what carries the theorems: with ONE more site at which the back end may branch on the raw option (the
   shape of `dialect != Some(Dialect::MsSql)` inside translate_query) a back end within the inventory breaks option = header *)
Example c18_ex_option_read_breaks :
  let T' := [(k_opt, (st_back, (9, ([], []))))] in
  let bk' := fun _ : unit => Read ROpt 0 (fun a => match a with AOpt (Some _) => Ret (Ok 1) | _ => Ret (Ok 2) end) in
  reads_table_ok T' = false /\ (forall q, reads_within T' st_back (bk' q)) /\
  compile_rd names dflt pfx any unit unit N (fun _ => Ret (Ok tt)) bk' (Some 0%nat) None tt
    <> compile_rd names dflt pfx any unit unit N (fun _ => Ret (Ok tt)) bk' None (Some (tname 0%nat)) tt.
Proof.
  cbv zeta. split; [vm_compute; reflexivity|]. split.
  - intros q. apply RW_read; [vm_compute; reflexivity|]. intros [[o|]|h|d]; apply RW_ret.
  - vm_compute. discriminate.
Qed.

(* non-vacuity: a concrete declared dialect and a concrete unknown name *)
Example c18_ex_sqlite : sel None (Some (pfx ++ [115;113;108;105;116;101])) = Ok 10%nat.
Proof. vm_compute. reflexivity. Qed.
Example c18_ex_unknown : sel None (Some (pfx ++ [83;81;76;105;116;101])) = Err.
Proof. vm_compute. reflexivity. Qed.

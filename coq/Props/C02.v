(* C02 -- operator precedence, associativity, null and literal folding survive to SQL.
   Only statements here; proofs are in Proofs/.  Tables are Gen/Gen{Pratt,DocPrec,SqlStrength,StdSql,Expand}.v,
   regenerated from /repo on every run. *)
From Coq Require Import List NArith ZArith Bool.
From PV Require Import Lib.ListX Model.Pratt Model.PrqlExpr Proofs.PrattProofs Proofs.PrattNorm Proofs.PrqlProofs
                       Gen.GenPratt Gen.GenDocPrec.
Import ListNotations.

(* ================= Theta-1, generic (re-exported; C14 instantiates the same theorems) ================= *)

(* any parenthesisation that respects a table re-parses to the tree, at any depth *)
Theorem theta1_roundtrip :
  forall (op uop atom fn : Type) (prec : op -> nat) (rassoc : op -> bool) (uprec : uop -> nat) (INF : nat),
  (forall a b, prec a = prec b -> rassoc a = rassoc b) -> (forall o, S (prec o) < INF) ->
  (forall u o, uprec u <> prec o) ->
  forall d : dexpr op uop atom fn, dok op uop atom fn prec rassoc uprec INF d = true ->
  exists fuel, parse op uop atom fn prec rassoc uprec fuel 0 (dprint op uop atom fn d) = Some (erase d, []).
Proof. exact dprint_parse_roundtrip. Qed.
Print Assumptions theta1_roundtrip.

(* policy form with the decidable side condition *)
Theorem print_parse_roundtrip :
  forall (op uop atom fn : Type) (prec : op -> nat) (rassoc : op -> bool) (uprec : uop -> nat) (INF : nat)
         (ops : list op) (uops : list uop), (forall o, In o ops) -> (forall u, In u uops) ->
  forall P : policy op uop, compat op uop prec rassoc uprec INF ops uops P = true ->
  forall e : expr op uop atom fn,
  exists fuel, parse op uop atom fn prec rassoc uprec fuel 0 (print op uop atom fn P e) = Some (e, []).
Proof. exact PrattProofs.print_parse_roundtrip. Qed.
Print Assumptions print_parse_roundtrip.

(* "Both" printers: equal-strength right operands without parentheses re-parse to the rotated tree ... *)
Theorem theta1_both_roundtrip :
  forall (op uop atom fn : Type) (prec : op -> nat) (rassoc : op -> bool) (uprec : uop -> nat) (INF : nat),
  (forall a b, prec a = prec b -> rassoc a = rassoc b) -> (forall o, S (prec o) < INF) ->
  (forall u o, uprec u <> prec o) ->
  forall d : dexpr op uop atom fn, dok_both op uop atom fn prec rassoc uprec INF d = true ->
  exists fuel, parse op uop atom fn prec rassoc uprec fuel 0 (dprint op uop atom fn d)
               = Some (erase (dnorm op uop atom fn prec rassoc uprec INF d), []).
Proof. exact both_roundtrip. Qed.
Print Assumptions theta1_both_roundtrip.

(* ... whose value is the same whenever each rotated operator pair satisfies x o (y o2 z) = (x o y) o2 z *)
Theorem theta1_both_eval :
  forall (op uop atom fn : Type) (prec : op -> nat) (rassoc : op -> bool) (uprec : uop -> nat) (INF : nat)
         (V : Type) (ev : op -> V -> V -> V) (evu : uop -> V -> V) (eva : atom -> V) (evf : fn -> list V -> V)
         (d : dexpr op uop atom fn),
  (forall p, In p (rot_pairs op uop atom fn prec rassoc uprec INF d) -> rot_ok op V ev p) ->
  eval op uop atom fn V ev evu eva evf (erase (dnorm op uop atom fn prec rassoc uprec INF d))
  = eval op uop atom fn V ev evu eva evf (erase d).
Proof. exact eval_dnorm. Qed.
Print Assumptions theta1_both_eval.

(* ================= instance 1: PRQL source text -> operand tree ================= *)

Notation P_prec := PrqlExpr.pprec.
Notation P_table_ok := (table_ok pop unop pprec prassoc puprec PINF pops_all unops_all).

(* table obligation: levels of the .pratt(( )) call are consistent (one associativity per level, unary
   and range above every binary level) *)
Theorem prql_table_ok : P_table_ok = true.
Proof. vm_compute. reflexivity. Qed.
Print Assumptions prql_table_ok.

(* the minimal-parentheses printer of the table passes compat, so Theta-1 is not vacuous here *)
Theorem prql_canon_compat :
  compat pop unop pprec prassoc puprec PINF pops_all unops_all (canon_policy pop unop pprec prassoc puprec PINF) = true.
Proof. vm_compute. reflexivity. Qed.
Print Assumptions prql_canon_compat.

(* pratt_respects_table + uniqueness: a token list has at most one reading that respects the table,
   and the parser returns it.  "Binds as documented" is therefore a property of the table alone. *)
Theorem pratt_unique :
  forall d1 d2 : dexpr pop unop nat nat,
  dok pop unop nat nat pprec prassoc puprec PINF d1 = true ->
  dok pop unop nat nat pprec prassoc puprec PINF d2 = true ->
  dprint pop unop nat nat d1 = dprint pop unop nat nat d2 -> erase d1 = erase d2.
Proof. exact (prql_unique prql_table_ok). Qed.
Print Assumptions pratt_unique.

Theorem pratt_respects_table :
  forall d : dexpr pop unop nat nat, dok pop unop nat nat pprec prassoc puprec PINF d = true ->
  exists fuel, gparse fuel 0 (dprint pop unop nat nat d) = Some (erase d, []).
Proof. exact (prql_parse_finds prql_table_ok). Qed.
Print Assumptions pratt_respects_table.

Theorem prql_print_parse_roundtrip :
  forall P : policy pop unop, compat pop unop pprec prassoc puprec PINF pops_all unops_all P = true ->
  forall e : gexpr, exists fuel, gparse fuel 0 (print pop unop nat nat P e) = Some (e, []).
Proof. exact PrqlProofs.prql_print_parse_roundtrip. Qed.
Print Assumptions prql_print_parse_roundtrip.

(* the code's table is the documented table.
   FULL STATEMENT (false on the unchanged tree):  doc_agrees [] = true.
   The book's table does not list `~=` (finding F31); every other operator, the order of the levels,
   the associativities, the unary and range rows and the layering unary -> range -> pratt agree. *)
Theorem code_table_eq_doc_table_partial : doc_agrees [B_RegexSearch] = true.
Proof. vm_compute. reflexivity. Qed.
Print Assumptions code_table_eq_doc_table_partial.
Theorem code_table_eq_doc_table_refuted : doc_agrees [] = false.
Proof. vm_compute. reflexivity. Qed.
Print Assumptions code_table_eq_doc_table_refuted.

Theorem unary_then_range_then_pratt : layer_order = [s_unary; s_range; s_pratt] /\ unary_nests = false.
Proof. vm_compute. split; reflexivity. Qed.
Print Assumptions unary_then_range_then_pratt.

(* non-vacuity *)
Example ex_parse_neg_pow_add :
  option_map gser (prql_parse [TU U_Neg; TA 0; TO (PBin B_Pow); TA 1; TO (PBin B_Add); TA 2])
  = Some [1; 5; 1; 4; 2; 0; 0; 0; 0; 1; 0; 2]%nat.
Proof. vm_compute. reflexivity. Qed.

(* C02 -- operator precedence, associativity, null and literal folding survive to SQL.
   Only statements here; proofs are in Proofs/.  Tables are Gen/Gen{Pratt,DocPrec,SqlStrength,StdSql,Expand}.v,
   regenerated from /repo on every run. *)
From Coq Require Import List NArith ZArith QArith Bool.
From PV Require Import Lib.ListX Model.Pratt Model.PrqlExpr Proofs.PrattProofs Proofs.PrattNorm Proofs.PrqlProofs
                       Gen.GenPratt Gen.GenDocPrec.
Import ListNotations.
Local Close Scope Q_scope.

(* ================= Theta-1, generic (re-exported; C14 instantiates the same theorems) ================= *)

(* any parenthesisation that respects a table re-parses to the tree, at any depth *)
Theorem theta1_roundtrip :
  forall (op uop atom fn : Type) (prec : op -> nat) (rassoc : op -> bool) (uprec : uop -> nat) (INF : nat),
  (forall a b, prec a = prec b -> rassoc a = rassoc b) -> (forall o, S (prec o) < INF) ->
  (forall u o, uprec u <> prec o) ->
  forall d : dexpr op uop atom fn, dok op uop atom fn prec rassoc uprec INF d = true ->
  exists fuel, parse op uop atom fn prec rassoc uprec fuel 0 (dprint op uop atom fn d) = Some (erase d, []).
Proof. exact dprint_parse_roundtrip. Qed.
Print Assumptions theta1_roundtrip.

(* policy form with the decidable side condition *)
Theorem print_parse_roundtrip :
  forall (op uop atom fn : Type) (prec : op -> nat) (rassoc : op -> bool) (uprec : uop -> nat) (INF : nat)
         (ops : list op) (uops : list uop), (forall o, In o ops) -> (forall u, In u uops) ->
  forall P : policy op uop, compat op uop prec rassoc uprec INF ops uops P = true ->
  forall e : expr op uop atom fn,
  exists fuel, parse op uop atom fn prec rassoc uprec fuel 0 (print op uop atom fn P e) = Some (e, []).
Proof. exact PrattProofs.print_parse_roundtrip. Qed.
Print Assumptions print_parse_roundtrip.

(* "Both" printers: equal-strength right operands without parentheses re-parse to the rotated tree ... *)
Theorem theta1_both_roundtrip :
  forall (op uop atom fn : Type) (prec : op -> nat) (rassoc : op -> bool) (uprec : uop -> nat) (INF : nat),
  (forall a b, prec a = prec b -> rassoc a = rassoc b) -> (forall o, S (prec o) < INF) ->
  (forall u o, uprec u <> prec o) ->
  forall d : dexpr op uop atom fn, dok_both op uop atom fn prec rassoc uprec INF d = true ->
  exists fuel, parse op uop atom fn prec rassoc uprec fuel 0 (dprint op uop atom fn d)
               = Some (erase (dnorm op uop atom fn prec rassoc uprec INF d), []).
Proof. exact both_roundtrip. Qed.
Print Assumptions theta1_both_roundtrip.

(* ... whose value is the same whenever each rotated operator pair satisfies x o (y o2 z) = (x o y) o2 z *)
Theorem theta1_both_eval :
  forall (op uop atom fn : Type) (prec : op -> nat) (rassoc : op -> bool) (uprec : uop -> nat) (INF : nat)
         (V : Type) (ev : op -> V -> V -> V) (evu : uop -> V -> V) (eva : atom -> V) (evf : fn -> list V -> V)
         (d : dexpr op uop atom fn),
  (forall p, In p (rot_pairs op uop atom fn prec rassoc uprec INF d) -> rot_ok op V ev p) ->
  eval op uop atom fn V ev evu eva evf (erase (dnorm op uop atom fn prec rassoc uprec INF d))
  = eval op uop atom fn V ev evu eva evf (erase d).
Proof. exact eval_dnorm. Qed.
Print Assumptions theta1_both_eval.

(* ================= instance 1: PRQL source text -> operand tree ================= *)

Notation P_prec := PrqlExpr.pprec.
Notation P_table_ok := (table_ok pop unop pprec prassoc puprec PINF pops_all unops_all).

(* table obligation: levels of the .pratt(( )) call are consistent (one associativity per level, unary
   and range above every binary level) *)
Theorem prql_table_ok : P_table_ok = true.
Proof. vm_compute. reflexivity. Qed.
Print Assumptions prql_table_ok.

(* the minimal-parentheses printer of the table passes compat, so Theta-1 is not vacuous here *)
Theorem prql_canon_compat :
  compat pop unop pprec prassoc puprec PINF pops_all unops_all (canon_policy pop unop pprec prassoc puprec PINF) = true.
Proof. vm_compute. reflexivity. Qed.
Print Assumptions prql_canon_compat.

(* uniqueness: a token list has at most one reading that respects the table.  "Binds as documented" is
   therefore a property of the table alone. *)
Theorem pratt_unique :
  forall d1 d2 : dexpr pop unop nat nat,
  dok pop unop nat nat pprec prassoc puprec PINF d1 = true ->
  dok pop unop nat nat pprec prassoc puprec PINF d2 = true ->
  dprint pop unop nat nat d1 = dprint pop unop nat nat d2 -> erase d1 = erase d2.
Proof. exact (prql_unique prql_table_ok). Qed.
Print Assumptions pratt_unique.

(* pratt_respects_table: the tree returned for ANY token list is a reading of exactly those tokens
   (n parenthesis layers around d) that respects the table ... *)
Theorem pratt_respects_table :
  forall fuel ts e, gparse fuel 0 ts = Some (e, []) ->
  exists n d, erase d = e /\ dok pop unop nat nat pprec prassoc puprec PINF d = true /\ ts = wrap n (dprint pop unop nat nat d).
Proof. exact (prql_parse_sound prql_table_ok). Qed.
Print Assumptions pratt_respects_table.

(* ... and conversely the parser finds every table-respecting reading (with pratt_unique: exactly one tree) *)
Theorem pratt_finds_table_reading :
  forall d : dexpr pop unop nat nat, dok pop unop nat nat pprec prassoc puprec PINF d = true ->
  exists fuel, gparse fuel 0 (dprint pop unop nat nat d) = Some (erase d, []).
Proof. exact (prql_parse_finds prql_table_ok). Qed.
Print Assumptions pratt_finds_table_reading.

Theorem prql_print_parse_roundtrip :
  forall P : policy pop unop, compat pop unop pprec prassoc puprec PINF pops_all unops_all P = true ->
  forall e : gexpr, exists fuel, gparse fuel 0 (print pop unop nat nat P e) = Some (e, []).
Proof. exact PrqlProofs.prql_print_parse_roundtrip. Qed.
Print Assumptions prql_print_parse_roundtrip.

(* the code's table is the documented table (book: reference/syntax/operators.md): same operators, same
   grouping, same order, same associativity, unary and range rows, layering unary -> range -> pratt.
   (Full strength since /repo 4e57fcb listed `~=`; before, `~=` was a known omission, C02-N1.) *)
Theorem code_table_eq_doc_table : doc_agrees [] = true.
Proof. vm_compute. reflexivity. Qed.
Print Assumptions code_table_eq_doc_table.

Theorem unary_then_range_then_pratt : layer_order = [s_unary; s_range; s_pratt] /\ unary_nests = false.
Proof. vm_compute. split; reflexivity. Qed.
Print Assumptions unary_then_range_then_pratt.

(* non-vacuity *)
Example ex_parse_neg_pow_add :
  option_map gser (prql_parse [TU U_Neg; TA 0; TO (PBin B_Pow); TA 1; TO (PBin B_Add); TA 2])
  = Some [1; 5; 1; 4; 2; 0; 0; 0; 0; 1; 0; 2]%nat.
Proof. vm_compute. reflexivity. Qed.

(* ================= instance 2: SQL emission -> the engine's reading ================= *)
From PV Require Import Model.Value Model.SqlGrammar Model.SqlTree Model.StaticEval Model.SqlPrint Model.SqlCompat Model.SqlSem
                       Model.EvalDoc Model.EvalRq Proofs.SqlLaws Proofs.SqlProofs Proofs.EvalProofs Proofs.OpSound
                       Gen.GenSqlStrength Gen.GenStdSql Gen.GenExpand.

(* ---- table obligations on what the sources say now (Tie A) ---- *)

(* the engine grammar table itself is consistent *)
Theorem engine_table_ok : table_ok sop suop eprec erassoc euprec EINF sops_all suops_all = true.
Proof. vm_compute. reflexivity. Qed.
Print Assumptions engine_table_ok.

(* every template skeleton emitted by the translator renders to exactly the template's text, hole for hole *)
Theorem templates_are_their_text : forallb template_wf templates = true.
Proof. vm_compute. reflexivity. Qed.
Print Assumptions templates_are_their_text.

(* the templates' own structure (e.g. `ABS(x / y) - 0.5`) respects the engine grammar; no template is a bare hole *)
Theorem sql_tables_ok : tables_ok = true.
Proof. vm_compute. reflexivity. Qed.
Print Assumptions sql_tables_ok.

(* the algorithms modelled by hand have, textually, the bodies the models were written against *)
Theorem modelled_algorithms_unchanged : algorithm_shapes_ok && static_eval_shapes_ok && names_agree = true.
Proof. vm_compute. reflexivity. Qed.
Print Assumptions modelled_algorithms_unchanged.

(* sql_compat: whenever the emitter omits parentheses at a (parent, hole, child), the engine regroups to
   the same tree or to a rotation licensed by a law -- for EVERY triple of the dialect (all templates of the
   dialect, the string and date functions and process_concat = f-strings included) outside the two known classes.
   FULL STATEMENT (false):  bad_table d = [].
   known_triple d = F5: the child is a template that declares strength 100 over a top-level `*` or `/`
   (div_i, math.log); C02-N7: the parent is an f-string (std.concat) and d has no CONCAT function, so that the parts,
   which process_concat never parenthesises, sit next to `||` (sql.sqlite here; also redshift, glaredb).
   F2, F4, F30, C02-N2, C02-N3, C02-N6 and C02-N5 were repaired in /repo (bfc17a4, 5dd3d34, 5bac898, ac95a5d, e8f08a7,
   bb7bbd5) and are not excused. *)
Theorem sql_compat_sqlite_partial : sql_compat d_sqlite = true.
Proof. vm_compute. reflexivity. Qed.
Print Assumptions sql_compat_sqlite_partial.
Theorem sql_compat_generic_partial : sql_compat d_generic = true.
Proof. vm_compute. reflexivity. Qed.
Print Assumptions sql_compat_generic_partial.

Definition k_lt : str := (k_op ++ [60])%N.
Definition k_eq : str := (k_op ++ [61])%N.
Definition k_add : str := (k_op ++ [43])%N.
Definition mem_triple (t : triple) (l : list triple) : bool :=
  existsb (fun u => leqb (fst (fst t)) (fst (fst u)) && Nat.eqb (snd (fst t)) (snd (fst u)) && leqb (snd t) (snd u)) l.
Theorem sql_compat_refuted :
  mem_triple (k_concat, 0, k_add)%nat (bad_table d_sqlite) = true      (* C02-N7  d = b + c; f"{d}x" -> b + c || 'x' *)
  /\ mem_triple (k_concat, 2, k_lt)%nat (bad_table d_sqlite) = true.
Proof. vm_compute. repeat split; reflexivity. Qed.
Print Assumptions sql_compat_refuted.

(* the classes repaired in /repo stay repaired: none of their witnesses is a bad triple any more *)
(* Since /repo bb7bbd5 (before: `_outside_pattern_hole`, C02-N5) the LIKE templates contribute no bad triple of their
   own, in either dialect, at ANY of their holes: the only bad triples under a LIKE template are those every parent
   has -- a child that lies about its strength (F5: div_i, math.log).  The pattern hole now asks for strength 12
   (sqlite); the generic templates build the pattern with CONCAT( ). *)
Theorem like_templates_fine :
  forallb (fun d => forallb (fun t => negb (mem (fst (fst t)) concat_pattern_templates)) (bad_table d)) [d_sqlite; d_generic] = true.
Proof. vm_compute. reflexivity. Qed.
Print Assumptions like_templates_fine.
Example ex_like_templates_are_constructs :
  forallb (fun d => forallb (fun n => existsb (fun p => leqb (fst p) n) (constructs d)) concat_pattern_templates) [d_sqlite; d_generic] = true.
Proof. vm_compute. reflexivity. Qed.

(* process_concat on a dialect WITH a CONCAT function is fine at every part (the parts are call arguments), and an
   f-string as an OPERAND is fine in both dialects: the only bad triples that mention it have it as the parent, in
   sql.sqlite.  FULL STATEMENT for sql.sqlite (false, C02-N7): the same without the dialect restriction. *)
Theorem concat_fine_except_parts_next_to_bars :
  forallb (fun t => negb (leqb (fst (fst t)) k_concat) && negb (leqb (snd t) k_concat)) (bad_table d_generic) &&
  forallb (fun t => leqb (fst (fst t)) k_concat || negb (leqb (snd t) k_concat)) (bad_table d_sqlite) &&
  dialect_has_concat d_generic && negb (dialect_has_concat d_sqlite) = true.
Proof. vm_compute. reflexivity. Qed.
Print Assumptions concat_fine_except_parts_next_to_bars.

Theorem repaired_classes_are_fine :
  forallb (fun t => negb (mem_triple t (bad_table d_sqlite)) && negb (mem_triple t (bad_table d_generic)))
    [ (k_add, 0, k_between)%nat      (* F2  (a | in 1..5) + 1 *);
      (k_lt, 0, k_eq)%nat            (* C02-N2 (a == b) < c *);
      (k_lt, 1, k_lt)%nat            (* F4  a < (b < c) *);
      (k_mul, 1, k_mod)%nat          (* F30 a * (b % c) *);
      (k_mul, 1, k_div_f)%nat        (* F30 generic a * (b / c) *);
      (k_lt, 0, k_regex)%nat         (* C02-N3 (a ~= b) < c *);
      (k_text_contains, 0, k_eq)%nat (* C02-N6 (a == b) | text.contains c  was  a = b LIKE ... *);
      (k_lt, 0, k_text_contains)%nat (* C02-N6 (a | text.contains c) < b  was  a LIKE ... < b *);
      (k_text_starts_with, 0, k_add)%nat; (k_mul, 1, k_text_ends_with)%nat;
      (k_mod, 1, k_div_i)%nat (* F5 c % (a // b)  was  c % ROUND(..) * SIGN(a) * SIGN(b) *); (k_mul, 1, k_math_log)%nat; (k_div_i, 1, k_div_i)%nat;
      (k_text_starts_with, 1, k_add)%nat (* C02-N5 text.starts_with (b + c) a  was  a LIKE b + c || '%' *);
      (k_text_contains, 1, k_mul)%nat; (k_text_ends_with, 1, k_lt)%nat ] = true.
Proof. vm_compute. reflexivity. Qed.
Print Assumptions repaired_classes_are_fine.

(* on the emitter's OWN scale: a template's declared binding_strength is not above the strength the
   emitter gives to the template's top-level operator -- all templates of all 12 dialects (since the
   reconciliation with /repo e8f08a7 the string and date templates are included: the LIKE templates now
   declare strength 6).
   FULL STATEMENT (false): for every template.  Known: div_i (default and sqlite), math.log (F5). *)
Definition known_dishonest : list str := [tname_of [] [100;105;118;95;105]; tname_of [115;113;108;105;116;101] [100;105;118;95;105];
                                          tname_of [] [109;97;116;104;46;108;111;103]]%N.
(* FULL STRENGTH since /repo af135b8 (F5: div_i, sqlite div_i and math.log declare 11; before: `_partial` + `_refuted`) *)
Theorem template_strength_honest : forallb template_honest templates = true.
Proof. vm_compute. reflexivity. Qed.
Print Assumptions template_strength_honest.

(* every hole asks for at least what its position in the template text needs (all templates, all 12 dialects).
   Known: the right operand of the infix regex templates of postgres / glaredb (`{text} ~ {pattern}`).
   (bigquery math.degrees / radians, C02-N4, sqlite REGEXP, C02-N3, and the `||` pattern holes of the sqlite / redshift
   LIKE templates, C02-N5, were repaired: eca0a1b, ac95a5d, bb7bbd5.) *)
Definition known_insufficient : list str :=
  [tname_of [112;111;115;116;103;114;101;115] [114;101;103;101;120;95;115;101;97;114;99;104];
   tname_of [103;108;97;114;101;100;98] [114;101;103;101;120;95;115;101;97;114;99;104]]%N.
(* FULL STRENGTH since /repo 17f83f2 (C02-N9: `{text} ~ {pattern:10}`; before: `_partial` + `_refuted`) *)
Theorem hole_strength_sufficient : forallb template_holes_sufficient templates = true.
Proof. vm_compute. reflexivity. Qed.
Print Assumptions hole_strength_sufficient.

(* ---- the theorems over ALL expressions ---- *)

(* sql_print_parse_roundtrip: for a PRQL expression of any depth, if none of the (parent, hole, child)
   triples of its RQ form is structurally bad, the emitted tokens are read by the engine as the emitter's
   tree up to the rotations of dnorm.  (By sql_compat_*_partial a triple can only be bad inside a known class.) *)
Theorem sql_print_parse_roundtrip :
  forall (dialect : str) (e : pexpr) (p : nat * sdexpr),
  sql_tree dialect e = Some p ->
  (forall tv, In tv (tree_triples dialect (rsize (rq_of e)) (rq_of e)) -> struct_ok (snd tv) = true) ->
  exists fuel, eparse fuel 0 (tokens_of p)
               = Some (erase (Pratt.dnorm sop suop satom sfn eprec erassoc euprec EINF (snd p)), []).
Proof. exact (fun d e p => sql_roundtrip d e p sql_tables_ok). Qed.
Print Assumptions sql_print_parse_roundtrip.

(* the laws behind the licensed rotations, in SQLite's semantics, for all values incl. NULL and text: (+,+) (+,-) (*,*)
   (AND,AND) (OR,OR) and, on text and NULL, (||,||) *)
Theorem reassoc_laws : forall q, pair_in q reassoc_ok = true -> rot_ok sop sv sql_ev q.
Proof. exact reassoc_ok_sound. Qed.
Print Assumptions reassoc_laws.

(* syntax + values: what SQLite computes from the emitted text is what the emitter's tree means *)
Theorem sql_engine_reads_intended :
  forall (dialect : str) (e : pexpr) (p : nat * sdexpr),
  sql_tree dialect e = Some p ->
  (forall tv, In tv (tree_triples dialect (rsize (rq_of e)) (rq_of e)) -> verdict_ok (snd tv) = true) ->
  (forall q, In q (Pratt.rot_pairs sop suop satom sfn eprec erassoc euprec EINF (snd p)) -> pair_in q reassoc_ok = true) ->
  exists fuel r, eparse fuel 0 (tokens_of p) = Some (r, []) /\ forall env, eval_sv env r = eval_sv env (erase (snd p)).
Proof. exact (fun d e p => SqlProofs.sql_engine_reads_intended d e p sql_tables_ok). Qed.
Print Assumptions sql_engine_reads_intended.

(* the text layer under Theta-1: a prefix `-` template directly followed by an unparenthesised construct whose text
   starts with `-` would read `--`, an SQL comment.  148aed7 (`-{l:14}`) parenthesises neg over neg, 83e82fa makes a
   negative number bind like a unary minus, and since /repo 2f7a440 (F3b) translate_operator itself wraps an operand whose
   text starts with `-` when the template text in front of it ends with `-` (text tie: GenSqlStrength.minus_guard) --
   which covers the one pair the strengths leave, neg over an s-string that starts with `-`.  The only construct that puts
   a `-` directly in front of a hole is the neg template, which translate_operator emits. *)
Definition k_neg : str := (k_tmpl ++ [110;101;103])%N.
Theorem adjacency_guarded :
  minus_guard = true /\
  forallb (fun d => forallb (fun pc => leqb (fst pc) k_neg) (adjacency_bad d)) [d_sqlite; d_generic] = true.
Proof. vm_compute. split; reflexivity. Qed.
Print Assumptions adjacency_guarded.

(* F3 is repaired for operators and literals: -(-a) renders -(-a), the negation of the literal -5 renders -(-5) *)
Theorem adjacency_neg_neg_fixed :
  sql_text d_sqlite (PUnE U_Neg (PUnE U_Neg (PCol 0))) = Some [45; 40; 45; 97; 41]%N /\
  option_map (fun n : node => render_top (fst (fst n), snd (fst n))) (translate d_sqlite 3 (ROp n_neg [RLit (LInt (-5)%Z)]))
  = Some [45; 40; 45; 53; 41]%N.
Proof. vm_compute. split; reflexivity. Qed.
Print Assumptions adjacency_neg_neg_fixed.

(* ================= the front half: ast_expand and static_eval ================= *)

(* the std library side of the `**` swap: std.math.pow takes the exponent first, for every dialect whose
   template the executable streams use *)
Theorem std_pow_exponent_first : pow_template_ok d_sqlite && pow_template_ok d_generic = true.
Proof. vm_compute. reflexivity. Qed.
Print Assumptions std_pow_exponent_first.

(* operators become std function calls without changing the documented meaning; `**` swaps its operands
   (math.pow exponent base) and the templates swap them back *)
Theorem expand_sound : forall env e, eval_r env (expand e) = eval_doc env e.
Proof. exact EvalProofs.expand_sound. Qed.
Print Assumptions expand_sound.

(* compile-time simplification never changes the value.
   FULL STATEMENT (not demanded, DESIGN.md C02): without the hypothesis.  no_corner excludes `==`/`!=`/in-range
   operands that are not the literal null but are folded to it (e.g. (null ?? null) == a): either reading
   of "comparison with the literal null" can be defended there. *)
Theorem static_eval_sound : forall env r, no_corner r = true -> eval_r env (seval r) = eval_r env r.
Proof. exact EvalProofs.static_eval_sound. Qed.
Print Assumptions static_eval_sound.
Theorem static_eval_corner_refuted :
  exists env r, no_corner r = false /\ eval_r env (seval r) <> eval_r env r.
Proof.
  exists [VInt 1%Z], (ROp n_eq [ROp n_coalesce [RLit LNull; RLit LNull]; RCol 0]).
  split; [vm_compute; reflexivity|vm_compute; discriminate].
Qed.
Print Assumptions static_eval_corner_refuted.

Theorem resolve_sound : forall env e, no_corner (expand e) = true -> eval_r env (resolve e) = eval_doc env e.
Proof. exact EvalProofs.resolve_sound. Qed.
Print Assumptions resolve_sound.

(* ---- folding as a rewriting system (Proofs/FoldAnywhere.v) ---- *)
From PV Require Import Proofs.FoldAnywhere.

(* static_eval_rq_operator / static_eval_case / the `in` desugaring applied at ANY position, in ANY order, any number
   of times, after ast_expand: the result still means what the source expression means (EvalDoc).  The excluded
   corner is a side condition of the single step (fold_step's FS_arg: under `==`, `!=`, in-range a step may not turn
   an operand that is not the literal null into it), not a hypothesis on the expression. *)
Theorem folding_anywhere_sound : forall env e r', fold_steps (expand e) r' -> eval_r env r' = eval_doc env e.
Proof. exact fold_anywhere_doc. Qed.
Print Assumptions folding_anywhere_sound.

(* ... and the resolver's bottom-up pass is one such run (so static_eval_sound is an instance) *)
Theorem resolver_pass_is_a_folding_run : forall r, no_corner r = true -> fold_steps r (seval r).
Proof. exact seval_is_a_run. Qed.
Print Assumptions resolver_pass_is_a_folding_run.

(* the Normalizer (sql/pq/preprocess.rs) never changes the value -- full strength, no side condition -- and leaves
   the literal null on the right of every std.eq (what process_null and the IS NULL emission rely on) *)
Theorem normalize_sound : forall env r, eval_r env (normalize r) = eval_r env r.
Proof. exact FoldAnywhere.normalize_sound. Qed.
Print Assumptions normalize_sound.
Theorem normalize_puts_null_right : forall r, null_on_the_right (normalize r) = true.
Proof. exact FoldAnywhere.normalize_puts_null_right. Qed.
Print Assumptions normalize_puts_null_right.

(* date/time literals (LTemporal: the spelling; no value in the model, lit_eval = None).  folding_anywhere_sound covers
   them: a folder that decided anything about a date/time literal would turn None into Some.  The repaired rule of
   /repo 1aeb8d9 (F17), stated directly: `==` / `!=` of two date/time literals is never folded ... *)
Theorem temporal_comparison_never_folded : forall k s k' s' n, n = n_eq \/ n = n_ne ->
  static_eval_op n [RLit (LTemporal k s); RLit (LTemporal k' s')] = ROp n [RLit (LTemporal k s); RLit (LTemporal k' s')].
Proof. exact temporal_comparison_kept. Qed.
Print Assumptions temporal_comparison_never_folded.
(* ... and the rule it replaced (compare the spellings) is NOT a folding step that preserves the value: two spellings of
   one instant *)
Example ex_f17_rule_would_be_unsound :
  let a := LTemporal 2 [50;48;50;48;45;48;49;45;48;49;84;48;48;58;48;48;58;48;48;90]%N in
  let b := LTemporal 2 [50;48;50;48;45;48;49;45;48;49;84;48;48;58;48;48;58;48;48;43;48;48;58;48;48]%N in
  lit_same_kind a b = true /\ eval_r [] (RLit (LBool (lit_eqb a b))) <> eval_r [] (ROp n_eq [RLit a; RLit b]).
Proof. split; [vm_compute; reflexivity|vm_compute; discriminate]. Qed.

(* non-vacuity: a run that is NOT bottom-up -- the outer `null ?? _` is folded while its operand `!true` is not *)
Example ex_fold_outer_first :
  fold_steps (ROp n_coalesce [RLit LNull; ROp n_not [RLit (LBool true)]]) (ROp n_not [RLit (LBool true)]).
Proof. econstructor; [apply FS_root; apply (FR_op n_coalesce); vm_compute; reflexivity|constructor]. Qed.
Example ex_normalize_swaps :
  normalize (ROp n_eq [RLit LNull; RCol 0]) = ROp n_eq [RCol 0; RLit LNull].
Proof. vm_compute. reflexivity. Qed.

(* ---- date formats (date.to_text): chrono items -> the dialect's format language (Model/DateFormat.v) ---- *)
From PV Require Import Model.DateFormat Gen.GenDateFormat.

(* table obligations on what dialect.rs says now: the six dialects that translate date formats translate exactly the
   same 18 items (a format accepted by one is accepted by all), the hand-written specifier table of the chrono model
   covers exactly those items, and the algorithms around the tables have the modelled text *)
Theorem date_format_tables_ok : date_tables_same_domain && spec_table_covers && date_format_shapes_ok = true.
Proof. vm_compute. reflexivity. Qed.
Print Assumptions date_format_tables_ok.

(* nothing is dropped silently: the translation is defined exactly when every item of the format has a translation, and
   is then the concatenation of the items' translations in order *)
Theorem date_format_itemwise : forall tbl variant items,
  (exists out, map_opt_s (item_text tbl variant) items = Some out /\ length out = length items) <->
  (forall it, In it items -> item_text tbl variant it <> None).
Proof.
  intros tbl variant items. induction items as [|x t IH]; cbn [map_opt_s].
  - split; [intros _ it []|intros _; exists []; split; reflexivity].
  - split.
    + intros [out [E L]]. destruct (item_text tbl variant x) eqn:Ex; [|discriminate].
      destruct (map_opt_s (item_text tbl variant) t) as [ys|] eqn:Et; [|discriminate]. inversion E; subst.
      intros it [<-|Hin]; [rewrite Ex; discriminate|]. apply (proj1 IH); [|exact Hin]. exists ys. split; [reflexivity|]. cbn in L. congruence.
    + intros H. destruct (item_text tbl variant x) eqn:Ex; [|exfalso; apply (H x); [left; reflexivity|exact Ex]].
      destruct (proj2 IH) as [ys [Ey Ly]]; [intros it Hin; apply H; right; exact Hin|]. rewrite Ey.
      exists (s :: ys). split; [reflexivity|]. cbn. congruence.
Qed.
Print Assumptions date_format_itemwise.

(* FULL STRENGTH since /repo 66bf387 (C02-N10, a regression of e3af91e: the dialects escaped a quote of a literal chunk
   for SQL although translate_literal escapes the whole format; duckdb strftime(a, '%Y''''%m') rendered 2020''03):
   no dialect of date_tables escapes the quote twice *)
Theorem date_format_quote_escaped_once : forallb (fun r => negb (quote_escaped_twice (snd r))) date_tables = true.
Proof. vm_compute. reflexivity. Qed.
Print Assumptions date_format_quote_escaped_once.
Example ex_date_fmt_postgres :
  date_fmt [112;111;115;116;103;114;101;115]%N [37;89;45;37;109;32;97;116;32;37;45;72]%N    (* "%Y-%m at %-H" *)
  = Some [89;89;89;89;45;77;77;32;34;97;116;34;32;70;77;72;72;50;52]%N.                    (* YYYY-MM "at" FMHH24 *)
Proof. vm_compute. reflexivity. Qed.

(* ================= operator by operator, executable dialects ================= *)
Theorem div_f_real_sqlite : forall x y, is_num x -> is_num y ->
  sql_value d_sqlite (PBinE B_DivFloat a_ b_) [x; y] = eval_doc [x; y] (PBinE B_DivFloat a_ b_).
Proof. exact OpSound.div_f_real_sqlite. Qed.
Print Assumptions div_f_real_sqlite.

(* FULL STATEMENT (false, F16): the same for d_generic *)
Theorem div_f_real_generic_refuted : exists x y, is_num x /\ is_num y /\
  sql_value d_generic (PBinE B_DivFloat a_ b_) [x; y] <> eval_doc [x; y] (PBinE B_DivFloat a_ b_).
Proof. exact OpSound.div_f_real_generic_refuted. Qed.
Print Assumptions div_f_real_generic_refuted.
Theorem div_f_real_generic_partial : forall x y, is_num x -> is_num y -> is_int x && is_int y = false ->
  sql_value d_generic (PBinE B_DivFloat a_ b_) [x; y] = eval_doc [x; y] (PBinE B_DivFloat a_ b_).
Proof. exact OpSound.div_f_real_generic_partial. Qed.
Print Assumptions div_f_real_generic_partial.

Theorem div_i_trunc_generic : forall x y, is_int x && is_int y = true ->
  sql_value d_generic (PBinE B_DivInt a_ b_) [x; y] = eval_doc [x; y] (PBinE B_DivInt a_ b_).
Proof. exact OpSound.div_i_trunc_generic. Qed.
Print Assumptions div_i_trunc_generic.

(* FULL STATEMENT (false, F1): sql_value d_sqlite (a // b) [VInt a; VInt b] = VInt (Z.quot a b) for b <> 0 *)
Theorem div_i_trunc_sqlite_refuted : exists x y, is_int x && is_int y = true /\
  sql_value d_sqlite (PBinE B_DivInt a_ b_) [x; y] = Some (VRat (Qmake (-1)%Z 1%positive)) /\
  eval_doc [x; y] (PBinE B_DivInt a_ b_) = Some (VInt 0%Z).
Proof. exact OpSound.div_i_trunc_sqlite_refuted. Qed.
Print Assumptions div_i_trunc_sqlite_refuted.
Theorem div_i_trunc_sqlite_partial : forall a b : Z, b <> 0%Z -> (Z.abs b <= Z.abs a)%Z ->
  exists r, sql_value d_sqlite (PBinE B_DivInt a_ b_) [VInt a; VInt b] = Some (VRat r) /\ (r == inject_Z (Z.quot a b))%Q.
Proof. exact OpSound.div_i_trunc_sqlite_partial. Qed.
Print Assumptions div_i_trunc_sqlite_partial.

Theorem mod_sound : forall d x y, d = d_sqlite \/ d = d_generic -> is_int x && is_int y = true ->
  sql_value d (PBinE B_Mod a_ b_) [x; y] = eval_doc [x; y] (PBinE B_Mod a_ b_).
Proof. exact OpSound.mod_sound. Qed.
Print Assumptions mod_sound.

Theorem is_null_sound : forall d x, d = d_sqlite \/ d = d_generic ->
  sql_value d (PBinE B_Eq a_ (PLit LNull)) [x] = eval_doc [x] (PBinE B_Eq a_ (PLit LNull)) /\
  sql_value d (PBinE B_Ne a_ (PLit LNull)) [x] = eval_doc [x] (PBinE B_Ne a_ (PLit LNull)) /\
  sql_value d (PBinE B_Eq (PLit LNull) a_) [x] = eval_doc [x] (PBinE B_Eq (PLit LNull) a_).
Proof. exact OpSound.is_null_sound. Qed.
Print Assumptions is_null_sound.

Theorem coalesce_sound : forall d x y, d = d_sqlite \/ d = d_generic ->
  sql_value d (PBinE B_Coalesce a_ b_) [x; y] = eval_doc [x; y] (PBinE B_Coalesce a_ b_).
Proof. exact OpSound.coalesce_sound. Qed.
Print Assumptions coalesce_sound.

Theorem between_sound : forall d x y z, d = d_sqlite \/ d = d_generic ->
  sql_value d (PIn a_ (Some b_) (Some c_)) [x; y; z] = eval_doc [x; y; z] (PIn a_ (Some b_) (Some c_)) /\
  sql_value d (PIn a_ (Some b_) None) [x; y; z] = eval_doc [x; y; z] (PIn a_ (Some b_) None) /\
  sql_value d (PIn a_ None (Some c_)) [x; y; z] = eval_doc [x; y; z] (PIn a_ None (Some c_)).
Proof. exact OpSound.between_sound. Qed.
Print Assumptions between_sound.

Theorem case_else_sound : forall d x y z, d = d_sqlite \/ d = d_generic ->
  sql_value d (PCase [(a_, b_); (PLit (LBool true), c_)]) [x; y; z] = eval_doc [x; y; z] (PCase [(a_, b_); (PLit (LBool true), c_)]) /\
  sql_value d (PCase [(a_, b_)]) [x; y; z] = eval_doc [x; y; z] (PCase [(a_, b_)]).
Proof. exact OpSound.case_else_sound. Qed.
Print Assumptions case_else_sound.

(* non-vacuity of the hypotheses *)
Example ex_roundtrip_hyp_satisfiable :
  forallb (fun tv => verdict_ok (snd tv))
          (tree_triples d_sqlite 20 (rq_of (PBinE B_Add (PCol 0) (PBinE B_Mul (PCol 1) (PBinE B_Sub (PCol 2) (PCol 0)))))) = true.
Proof. vm_compute. reflexivity. Qed.
Example ex_no_corner : no_corner (expand (PBinE B_Eq (PBinE B_Coalesce (PCol 0) (PLit LNull)) (PLit LNull))) = true.
Proof. vm_compute. reflexivity. Qed.

(* C16 -- every emitted relational query (RQ) is closed and consistently identified.
   Statements only; proofs are in Proofs/RqWfProofs.v (the predicate and what it buys a back end) and
   Proofs/LowererProofs.v (the Lowerer's id discipline, for all operation sequences).

   What is proved here and what is not:
     * rq_wf / rq_wf_lax (Model/RqWf.v) are the property's five clauses as an executable predicate; the check
       evaluates it on the RQ the implementation emits for every generated program (that part is validated per
       program, not proved: the resolver is not modelled).
     * every operation sequence of the Lowerer state machine (Model/Lowerer.v) keeps ids fresh, uses only defined
       ids, declares tables before use and closes every pipeline with a Select of the declared arity -- i.e. emits a
       `closed` RQ, which is all a back end needs for its lookups.  Visibility (clause 2 in its narrow form) depends on
       the resolver's scoping and is not a consequence of the machine; it is the per-program part.
   Full statement "forall programs p, resolver p = Ok q -> rq_wf q = true" is FALSE of the current tree (/repo HEAD):
     open   C16-F1  the carried sort of Take / Window names an id of its own relation that a Select has dropped --
                    rq_wf_lax is what holds modulo F1;
            C16-F6  a function that mentions its relation parameter twice makes the Lowerer lower one PL node twice;
            C16-F7  a column excluded by `select !{..}` in a joined sub-pipeline is still bound from outside;
            C16-F8  a top-level scalar `let` mentioned twice is inlined with one PL node id (same root cause as F6);
            C16-F9  a `select` in a group body drops the group key that the lineage (hence the closing Select) keeps.
     fixed  C16-F2 (8f24a64), C16-F3 (7911778: lookup_cid reports an error instead of panicking),
            C16-F4 (3b8ac37: create_a_table_instance keeps duplicate columns -- Model/Lowerer.v follows, and
            inline_redirects_every_select_id below is the statement that was false of the old model),
            C16-F5 (592b6f8: partition / window frame saved around relational arguments), and the plain-aggregate half
            of F1 (8d54bf7) and the group-aggregate half (f809321).  Their RQs are kept below as c16_regression_*: none of them is tolerated any more. *)
From Coq Require Import List NArith Bool.
From PV Require Import Lib.ListX Model.Rq Model.RqWf Model.RqAgg Model.Lowerer Model.RqEq Model.LowererTrace Model.LowererVis Model.LowererSelect Model.LowererEntries
                       Proofs.RqWfProofs Proofs.LowererProofs Proofs.LowererTraceProofs Proofs.LowererVisProofs Proofs.LowererSelectProofs Proofs.LowererEntriesProofs.
Import ListNotations.
Local Open Scope N_scope.

(* ---- why the invariant matters: the back end's lookups are total and unambiguous ---- *)

Theorem wf_implies_lookups_total : forall q, rq_wf q = true ->
  (forall c, In c (used_cids q) -> lookup_cid q c <> None)
  /\ (forall t, In t (used_tids q) -> lookup_tid q t <> None)
  /\ (forall c d, In (c, d) (all_decls q) -> lookup_cid q c = Some d)
  /\ NoDup (table_ids q).
Proof. exact wf_lookups_total_explicit. Qed.
Print Assumptions wf_implies_lookups_total.

Theorem wf_lax_implies_lookups_total : forall q, rq_wf_lax q = true -> lookups_total q.
Proof. exact wf_lax_lookups_total. Qed.
Print Assumptions wf_lax_implies_lookups_total.

Theorem wf_implies_lax : forall q, rq_wf q = true -> rq_wf_lax q = true.
Proof. exact wf_implies_wf_lax. Qed.
Print Assumptions wf_implies_lax.

(* ---- the clauses, read back from the executable predicate ---- *)

Theorem wf_defined_exactly_once : forall q, rq_wf_lax q = true -> NoDup (all_defs q).
Proof. exact wf_lax_defs_nodup. Qed.
Print Assumptions wf_defined_exactly_once.

Theorem wf_uses_visible : forall defs ldefs w decl p1 t p2 vis,
  pipeline_diags defs ldefs w decl vis (p1 ++ t :: p2) = [] ->
  incl (direct_uses t) (vis_after defs ldefs w decl vis p1)
  /\ (forall sd r f, t = TJoin sd r f -> incl (expr_cids f) (vis_after defs ldefs w decl vis p1 ++ tref_cids r)).
Proof. exact strict_uses_visible. Qed.
Print Assumptions wf_uses_visible.

Theorem wf_tables_declared_earlier : forall q, rq_wf_lax q = true ->
  forall k t, nth_error (q_tables q) k = Some t ->
  incl (relation_trefs (t_relation t)) (firstn k (table_ids q)).
Proof. exact wf_lax_decl_before_use. Qed.
Print Assumptions wf_tables_declared_earlier.

Theorem wf_from_first_select_last : forall q, rq_wf_lax q = true ->
  pipeline_shape (q_relation q) /\ forall t, In t (q_tables q) -> pipeline_shape (t_relation t).
Proof. exact wf_lax_pipeline_shape. Qed.
Print Assumptions wf_from_first_select_last.

(* ---- the Lowerer, for ALL operation sequences ---- *)

Theorem lowerer_ids_fresh : forall ops s, run init ops = Some s ->
  NoDup (defs_of s) /\ (forall c, In c (defs_of s) -> c < next_cid s)
  /\ NoDup (tids_of s) /\ (forall t, In t (tids_of s) -> t < next_tid s).
Proof. exact LowererProofs.lowerer_ids_fresh. Qed.
Print Assumptions lowerer_ids_fresh.

Theorem lowerer_uses_defined : forall ops s, run init ops = Some s ->
  incl (mapping_cids (mapping s)) (defs_of s) /\ incl (uses_of s) (defs_of s).
Proof. exact LowererProofs.lowerer_uses_defined. Qed.
Print Assumptions lowerer_uses_defined.

Theorem push_select_arity : forall ops s, run init ops = Some s ->
  forall t, In t (tables s) -> pipeline_shape (t_relation t).
Proof. exact lowerer_push_select_arity. Qed.
Print Assumptions push_select_arity.

Theorem lowerer_tables_declared_before_use : forall ops s, run init ops = Some s -> tables_ordered (tables s).
Proof. exact lowerer_decl_before_use. Qed.
Print Assumptions lowerer_tables_declared_before_use.

Theorem redirect_preserves_wf : forall pend s rs,
  InvC pend s -> incl (map snd rs) pend ->
  InvC pend (mkL (next_cid s) (next_tid s) (redirect rs (mapping s)) (frames s) (tables s)).
Proof. exact redirect_inv. Qed.
Print Assumptions redirect_preserves_wf.

(* Pulling a sub-pipeline into a table (lower_table_ref, TransformCall arm): after the step NO id of the sub-pipeline's
   closing Select is left in node_mapping -- each was redirected to the fresh id of the instance column at the same
   position -- so no later expression of the enclosing pipeline can name an id that is defined only inside the new
   table.  Full strength since 3b8ac37; before it (itertools::unique on the instance's columns) the statement was false:
   c16_regression_f4_* is the RQ that resulted. *)
Theorem inline_redirects_every_select_id : forall ops s node frame u s',
  run init ops = Some s -> step s (OEndInline node frame u) = Some s' ->
  forall c, In c (map snd frame) -> ~ In c (mapping_cids (mapping s')).
Proof. exact lowerer_inline_redirects_all. Qed.
Print Assumptions inline_redirects_every_select_id.

(* create_a_table_instance: exactly the declared columns of the table, in order, duplicates included, under distinct ids *)
Theorem instance_columns_are_declared : forall s node name t cols r s',
  mk_instance s node name t cols = (r, s') -> map fst (tr_columns r) = cols /\ NoDup (tref_cids r).
Proof. exact instance_has_declared_columns. Qed.
Print Assumptions instance_columns_are_declared.

Theorem lowerer_emits_closed_rq : forall ops s q, run init ops = Some s -> finish s = Some q ->
  rq_closed q /\ lookups_total q.
Proof. exact lowerer_emits_closed. Qed.
Print Assumptions lowerer_emits_closed_rq.

Theorem wf_is_closed : forall q, rq_wf_lax q = true -> rq_closed q.
Proof. exact wf_lax_closed. Qed.
Print Assumptions wf_is_closed.

Theorem toposort_decl_before_use : forall dag fuel start l,
  toposort dag fuel start = Some l ->
  In start l /\ forall i n, nth_error l i = Some n -> incl (dag n) (firstn i l).
Proof. exact toposort_spec. Qed.
Print Assumptions toposort_decl_before_use.

(* ---- the tie: the op trace of semantic/lowering.rs replayed against the machine (Model/LowererTrace.v) ----
   For every generated program the check turns the `verif:lowerer_op` lines of one compilation into a list of operations with
   the values the code observed, and evaluates [replay_ok] on it and on the RQ the implementation returned.  A `true` means: *)

Theorem trace_replay_sound : forall l q,
  replay_ok l q = true -> exists s, run init (map fst l) = Some s /\ finish s = Some q.
Proof. exact replay_ok_sound. Qed.
Print Assumptions trace_replay_sound.

(* ... so the implementation's RQ for that program is closed and all back-end lookups on it are total, by the theorems
   about ALL runs -- not because the RQ was inspected *)
Theorem trace_replay_gives_closed_rq : forall l q, replay_ok l q = true -> rq_closed q /\ lookups_total q.
Proof. exact replay_ok_closed. Qed.
Print Assumptions trace_replay_gives_closed_rq.

(* the comparison of two RQs inside Coq is Leibniz equality *)
Theorem rq_eqb_is_equality : forall a b, rq_eqb a b = true -> a = b.
Proof. exact rq_eqb_sound. Qed.
Print Assumptions rq_eqb_is_equality.

(* ---- clause 2 (visibility) as an invariant of the machine (Model/LowererVis.v) ----
   [vstep] = [step] restricted to operations whose emitted transform uses only ids of [fvis], the set visible in the pipeline
   under construction (From / Join add instance columns, Compute adds its id, Select and Aggregate narrow, a Loop body inherits).
   FULL STRENGTH, for all operation sequences: a finished strict run is an RQ that satisfies all five clauses. *)
Theorem strict_runs_emit_wf_rq : forall ops s q, vrun init ops = Some s -> finish s = Some q -> rq_wf q = true.
Proof. exact strict_runs_emit_wf. Qed.
Print Assumptions strict_runs_emit_wf_rq.

Theorem strict_step_refines_step : forall s o s', vstep s o = Some s' -> step s o = Some s'.
Proof. exact vstep_step. Qed.
Print Assumptions strict_step_refines_step.

(* per program: a trace that replays under the strict machine proves rq_wf of the implementation's RQ *)
Theorem strict_trace_replay_gives_wf_rq : forall l q,
  replay_strict_ok l q = true -> (exists s, vrun init (map fst l) = Some s /\ finish s = Some q) /\ rq_wf q = true.
Proof. exact replay_strict_sound. Qed.
Print Assumptions strict_trace_replay_gives_wf_rq.

(* ---- push_select / lookup_cid (Model/LowererSelect.v): the closing Select computed from the lineage ---- *)

(* the closing Select push_select computes only names ids that node_mapping holds: the side condition `guard` of
   OEndTable / OEndInline is a theorem once the frame is computed by the model instead of being read from the trace *)
Theorem push_select_names_only_mapped_ids : forall s inputs cols f,
  push_select_m (mapping s) inputs cols = Some f -> incl (map snd f) (mapping_cids (mapping s)) /\ guard s (map snd f) = true.
Proof. intros s i c f H. split; [eapply push_select_in_mapping; exact H | eapply push_select_guard; exact H]. Qed.
Print Assumptions push_select_names_only_mapped_ids.

(* every operation with a computed frame is an operation of the machine, so the invariants carry over *)
Theorem computed_frame_runs_emit_closed_rq : forall lops s q,
  lrun init lops = Some s -> finish s = Some q -> rq_closed q /\ lookups_total q.
Proof. exact lrun_emits_closed. Qed.
Print Assumptions computed_frame_runs_emit_closed_rq.

(* the replay the check evaluates since hooks/push-select.diff: frames computed by the machine, compared with what push_select
   returned; strict = true additionally proves rq_wf *)
Theorem computed_frame_replay_sound : forall strict l q, replay_l_ok strict l q = true ->
  (exists ops s, run init ops = Some s /\ finish s = Some q) /\ (strict = true -> rq_wf q = true).
Proof. exact replay_l_sound. Qed.
Print Assumptions computed_frame_replay_sound.

(* toposort (utils/toposort.rs): besides dependencies-first (toposort_decl_before_use above) nothing is listed twice *)
Theorem toposort_lists_each_table_once : forall dag fuel start l, toposort dag fuel start = Some l -> NoDup l.
Proof. exact toposort_nodup. Qed.
Print Assumptions toposort_lists_each_table_once.

(* the dependencies toposort_tables is given (TableDepsCollector) cover -- per program: equal -- the declared tables a table's
   lowering instantiates; then every table a table refers to is lowered before it, for every dag *)
Theorem toposort_lowers_referenced_tables_first : forall dag refs fuel start l,
  (forall n, incl (refs n) (dag n)) -> toposort dag fuel start = Some l ->
  forall i n, nth_error l i = Some n -> incl (refs n) (firstn i l).
Proof. exact toposort_covers_refs. Qed.
Print Assumptions toposort_lowers_referenced_tables_first.

(* Lowerer::lookup_cid (compared with the code on every call since hooks/lookup-cid.diff) only returns ids held by node_mapping *)
Theorem lookup_cid_returns_mapped_id : forall m id name c, lookup_cid_m m id name = Some c -> In c (mapping_cids m).
Proof. exact lookup_cid_m_in. Qed.
Print Assumptions lookup_cid_returns_mapped_id.

(* ---- where column ids enter an expression (Model/LowererEntries.v): lower_expr's Ident arm = a lookup_cid read, find_except_ids,
   the whole-input case of declare_as_columns, the id a declare_as_column hands back, push_select's closing Select ----
   An operation that passes the entry discipline -- every entry in scope when it is read, every id an emitted transform uses is an
   entry of the current window -- is a step of the STRICT machine: inside a window only Computes are pushed, so the visible set only
   grows and an id that was in scope when it was read is in scope when it is used. *)
Theorem entry_discipline_implies_strict_step : forall s es lo bs s' es',
  einv (frames s) es -> estep (s, es) (lo, bs) = Some (s', es') ->
  exists o, elaborate s lo = Some o /\ vstep s o = Some s' /\ einv (frames s') es'.
Proof. exact estep_vstep. Qed.
Print Assumptions entry_discipline_implies_strict_step.

(* per program: a trace that passes it proves rq_wf of the implementation's RQ from facts about single reads *)
Theorem entry_discipline_gives_wf_rq : forall l q, entries_ok l q = true -> rq_wf q = true.
Proof. exact entries_ok_wf. Qed.
Print Assumptions entry_discipline_gives_wf_rq.

(* find_selected_all (`select !{..}`, `t.* except ..`): the ids it keeps are ids of `within` and no excluded id survives -- the
   exclusion itself is sound; finding F7 is a later READ of the excluded column's id from the enclosing pipeline *)
Theorem find_selected_all_excludes : forall within except c, In c (retain_m within except) <-> In c within /\ ~ In c except.
Proof. exact retain_m_spec. Qed.
Print Assumptions find_selected_all_excludes.

(* lower_sorts and the compute list of an aggregate: the ids are the ids consecutive declare_as_column calls handed back, in order
   (Model/LowererEntries.v sorts_check, evaluated on every replayed trace) *)
Theorem sorts_are_consecutive_declare_results : forall top t, sorts_check top t = true ->
  match t with
  | TSort srt => exists pre, top = pre ++ sorts_cids srt
  | TAggregate _ c => exists pre, top = pre ++ c
  | TTake _ _ srt => exists pre post, top = pre ++ sorts_cids srt ++ post
  | TCompute _ _ (Some w) _ => exists pre post, top = pre ++ sorts_cids (w_sort w) ++ post
  | _ => True
  end.
Proof. exact sorts_check_sound. Qed.
Print Assumptions sorts_are_consecutive_declare_results.

(* ---- utils/id_gen.rs: the generators the SQL back end loads from the RQ it is handed (79f4a51) ---- *)

(* a loaded generator only hands out ids that do not occur in the query, and it starts at most at usize::MAX / 2 + 1, so
   the 2^63 ids after it exist as usize values: the `next_id += 1` of gen cannot overflow in any run that terminates *)
Theorem idgen_load_is_fresh_and_leaves_room : forall max_id ids g,
  idgen_load max_id ids = Some g ->
  (forall c, In c ids -> c < g) /\ g <= max_id / 2 + 1
  /\ forall k, fst (idgen_gen (g + k)) = g + k /\ ~ In (g + k) ids.
Proof. exact idgen_load_spec. Qed.
Print Assumptions idgen_load_is_fresh_and_leaves_room.

(* an id above usize::MAX / 2 anywhere in the query is refused (before 79f4a51: `id + 1` on usize::MAX overflowed) *)
Theorem idgen_load_refuses_large_ids : forall max_id ids c,
  In c ids -> max_id / 2 < c -> idgen_load max_id ids = None.
Proof. exact idgen_load_refuses. Qed.
Print Assumptions idgen_load_refuses_large_ids.

Example c16_ex_idgen : idgen_load 18446744073709551615 [3; 0; 7; 2] = Some 8
  /\ idgen_load 18446744073709551615 [3; 9223372036854775807] = Some 9223372036854775808
  /\ idgen_load 18446744073709551615 [3; 9223372036854775808] = None
  /\ idgen_load 18446744073709551615 [18446744073709551615] = None.
Proof. vm_compute. auto. Qed.

(* ---- non-vacuity: a real run.  `from t | derive {x = a + 1} | join (from u | select {id}) (t.id == that.id) | select {x}`
   The term is what vplib/rqcoq.py produces from the implementation's RQ JSON for this program; the operation
   sequence is the Lowerer's (extern tables u, t; main pipeline; inline table for the join). ---- *)

Definition s_id := [105;100]. Definition s_a := [97]. Definition s_x := [120].
Definition s_t := [116]. Definition s_u := [117].
Definition op_add := [115;116;100;46;97;100;100]. Definition op_eq := [115;116;100;46;101;113].

Definition ex_ops : list op :=
  [ ODeclExtern [s_u] [RSingle (Some s_id); RWildcard];
    ODeclExtern [s_t] [RSingle (Some s_a); RSingle (Some s_id); RWildcard];
    OBegin false 10 (Some s_t) (SExisting 1);
    ODeclare 11 (ENode (KOp op_add) [ERef 0; ELit]) None false false;
    OBegin true 12 (Some s_u) (SExisting 0);
    OPush (TSelect [4]);
    OEndInline 13 [(RSingle (Some s_id), 4)] (UJoin JInner (ENode (KOp op_eq) [ERef 1; ERef 6]));
    OPush (TSelect [3]);
    OEndTable None [(RSingle (Some s_x), 3)] ].

Definition ex_rq : rq :=
  (mkRq [(mkTable 0 None (mkRel (KExternRef [[117]]) [(RSingle (Some [105;100])); RWildcard])); (mkTable 1 None (mkRel (KExternRef [[116]]) [(RSingle (Some [97])); (RSingle (Some [105;100])); RWildcard])); (mkTable 2 None (mkRel (KPipeline [(TFrom (mkTRef 0 [((RSingle (Some [105;100])), 4); (RWildcard, 5)] (Some [117]))); (TSelect [4]); (TSelect [4])]) [(RSingle (Some [105;100]))]))] (mkRel (KPipeline [(TFrom (mkTRef 1 [((RSingle (Some [97])), 0); ((RSingle (Some [105;100])), 1); (RWildcard, 2)] (Some [116]))); (TCompute 3 (ENode (KOp [115;116;100;46;97;100;100]) [(ERef 0); ELit]) None false); (TJoin JInner (mkTRef 2 [((RSingle (Some [105;100])), 6)] None) (ENode (KOp [115;116;100;46;101;113]) [(ERef 1); (ERef 6)])); (TSelect [3]); (TSelect [3])]) [(RSingle (Some [120]))])).

Example c16_ex_run_is_impl_rq :
  match run init ex_ops with Some s => finish s | None => None end = Some ex_rq.
Proof. vm_compute. reflexivity. Qed.

Example c16_ex_rq_wf : rq_wf ex_rq = true.
Proof. vm_compute. reflexivity. Qed.

(* the guard: an expression mentioning an id the Lowerer never handed out is not a step *)
Example c16_ex_unknown_cid_is_no_step :
  run init [ODeclExtern [s_t] [RWildcard]; OBegin false 1 None (SExisting 0); OPush (TFilter (ERef 7))] = None.
Proof. vm_compute. reflexivity. Qed.

(* an instance of a table that is not in table_buffer is not a step (create_a_table_instance unwraps it) *)
Example c16_ex_undeclared_table_is_no_step : run init [OBegin false 1 None (SExisting 0)] = None.
Proof. vm_compute. reflexivity. Qed.

Example c16_ex_violations_are_seen :
  rq_diags (mkRq [] (mkRel (KPipeline [TFilter (ERef 0); TCompute 1 ELit None false; TCompute 1 ELit None false;
                                       TAppend (mkTRef 9 [] None)]) [RWildcard]))
  = [DDupCid 1; DUndefined 0 SFilter 0; DTidUndeclared 0 9; DNoFrom 0; DNoSelect 0].
Proof. vm_compute. reflexivity. Qed.

Example c16_ex_toposort : toposort (fun n => match n with 2 => [1; 0] | 1 => [0] | _ => [] end)%nat 10 2 = Some [0; 1; 2]%nat.
Proof. vm_compute. reflexivity. Qed.

(* ---- findings, as concrete RQs: c16_finding_* is what HEAD emits (open, replayed by the check); c16_regression_* is what a
   repaired defect used to produce (a reappearance is a VIOLATION) ---- *)

(* C16-F1  `from t | sort a | select {b} | take 3` : Take.sort names column 0 after Select [1] dropped it *)
Definition finding_f1 : rq :=
  (mkRq [(mkTable 0 None (mkRel (KExternRef [[116]]) [(RSingle (Some [97])); (RSingle (Some [98])); RWildcard]))] (mkRel (KPipeline [(TFrom (mkTRef 0 [((RSingle (Some [97])), 0); ((RSingle (Some [98])), 1); (RWildcard, 2)] (Some [116]))); (TSort [(Asc, 0)]); (TSelect [1]); (TTake (None, (Some ELit)) [] [(Asc, 0)]); (TSelect [1])]) [(RSingle (Some [98]))])).

Example c16_finding_f1_sort_carried_past_select :
  rq_diags finding_f1 = [DNotVisible 1 STakeSort 0] /\ rq_wf finding_f1 = false /\ rq_wf_lax finding_f1 = true.
Proof. vm_compute. auto. Qed.

(* the other half of C16-F1 that was repaired (f809321 "an aggregate inside a group ends the sort in effect too"): what the
   implementation used to emit for `from t | group {g} (sort a | aggregate {n = count this} | take 1)` -- the Aggregate of a group
   body drops column 1 and the Take behind it is still sorted by it.  Regression shape: the check's classifier reports it. *)
Definition regression_f1_group : rq :=
  (mkRq [(mkTable 0 None (mkRel (KExternRef [[116]]) [(RSingle (Some [103])); (RSingle (Some [97])); RWildcard]))] (mkRel (KPipeline [(TFrom (mkTRef 0 [((RSingle (Some [103])), 0); ((RSingle (Some [97])), 1); (RWildcard, 2)] (Some [116]))); (TCompute 3 (ENode (KOp [115;116;100;46;99;111;117;110;116]) [ELit]) None true); (TAggregate [0] [3]); (TTake (None, (Some ELit)) [0] [(Asc, 1)]); (TSelect [0; 3])]) [(RSingle (Some [103])); (RSingle (Some [110]))])).

Example c16_regression_f1_sort_past_group_aggregate :
  rq_diags regression_f1_group = [DNotVisible 1 STakeSort 1] /\ rq_wf regression_f1_group = false.
Proof. vm_compute. auto. Qed.

(* C16-F6  `let dup = rel -> (rel | append rel)` / `from t | derive {x = a + 1} | dup` : the argument pipeline is lowered twice;
   the second copy (table 1) selects Compute 2 of the first, and the main Select names the Append's instance columns *)
Definition finding_f6 : rq :=
  (mkRq [(mkTable 0 None (mkRel (KExternRef [[116]]) [(RSingle (Some [97])); RWildcard])); (mkTable 1 None (mkRel (KPipeline [(TFrom (mkTRef 0 [((RSingle (Some [97])), 3); (RWildcard, 4)] (Some [116]))); (TSelect [3; 4; 2])]) [(RSingle (Some [97])); RWildcard; (RSingle (Some [120]))]))] (mkRel (KPipeline [(TFrom (mkTRef 0 [((RSingle (Some [97])), 0); (RWildcard, 1)] (Some [116]))); (TCompute 2 (ENode (KOp [115;116;100;46;97;100;100]) [(ERef 0); ELit]) None false); (TAppend (mkTRef 1 [((RSingle (Some [97])), 5); (RWildcard, 6); ((RSingle (Some [120])), 7)] None)); (TSelect [5; 6; 7])]) [(RSingle (Some [97])); RWildcard; (RSingle (Some [120]))])).

Example c16_finding_f6_node_lowered_twice :
  rq_diags finding_f6 = [DForeign 1 SSelect 2; DNotVisible 2 SSelect 5; DNotVisible 2 SSelect 6; DNotVisible 2 SSelect 7]
  /\ rq_wf_lax finding_f6 = false.
Proof. vm_compute. auto. Qed.

(* C16-F7  `from t | join (from u | select !{d}) (==id) | select {u.d}` : the main Select names column 2, the `d` of the
   sub-pipeline's own From (table 2) *)
Definition finding_f7 : rq :=
  (mkRq [(mkTable 0 None (mkRel (KExternRef [[117]]) [(RSingle (Some [100])); (RSingle (Some [105;100])); RWildcard])); (mkTable 1 None (mkRel (KExternRef [[116]]) [(RSingle (Some [105;100])); RWildcard])); (mkTable 2 None (mkRel (KPipeline [(TFrom (mkTRef 0 [((RSingle (Some [100])), 2); ((RSingle (Some [105;100])), 3); (RWildcard, 4)] (Some [117]))); (TSelect [3; 4]); (TSelect [3; 4])]) [(RSingle (Some [105;100])); RWildcard]))] (mkRel (KPipeline [(TFrom (mkTRef 1 [((RSingle (Some [105;100])), 0); (RWildcard, 1)] (Some [116]))); (TJoin JInner (mkTRef 2 [((RSingle (Some [105;100])), 5); (RWildcard, 6)] None) (ENode (KOp [115;116;100;46;101;113]) [(ERef 0); (ERef 5)])); (TSelect [2]); (TSelect [2])]) [(RSingle (Some [100]))])).

Example c16_finding_f7_excluded_column_bound_from_outside :
  rq_diags finding_f7 = [DForeign 3 SSelect 2] /\ rq_wf_lax finding_f7 = false.
Proof. vm_compute. auto. Qed.

(* C16-F2 (FIXED in /repo by 8f24a64 "the carried sort does not leak into (or out of) the relational arguments of
   join/append/loop"): what the implementation used to emit for
   `from t | sort a | join (from u | select {id} | take 8) (==id)` -- the Take of the joined sub-pipeline (table 2) sorted
   by column 0, which belongs to the main pipeline.  Kept as a regression shape: it is NOT tolerated by rq_wf_lax (the id
   is foreign to the relation that uses it), so a reappearance is reported as a violation. *)
Definition regression_f2 : rq :=
  (mkRq [(mkTable 0 None (mkRel (KExternRef [[117]]) [(RSingle (Some [105;100])); RWildcard])); (mkTable 1 None (mkRel (KExternRef [[116]]) [(RSingle (Some [97])); (RSingle (Some [105;100])); RWildcard])); (mkTable 2 None (mkRel (KPipeline [(TFrom (mkTRef 0 [((RSingle (Some [105;100])), 3); (RWildcard, 4)] (Some [117]))); (TSelect [3]); (TTake (None, (Some ELit)) [] [(Asc, 0)]); (TSelect [3])]) [(RSingle (Some [105;100]))]))] (mkRel (KPipeline [(TFrom (mkTRef 1 [((RSingle (Some [97])), 0); ((RSingle (Some [105;100])), 1); (RWildcard, 2)] (Some [116]))); (TSort [(Asc, 0)]); (TJoin JInner (mkTRef 2 [((RSingle (Some [105;100])), 5)] None) (ENode (KOp [115;116;100;46;101;113]) [(ERef 1); (ERef 5)])); (TSelect [0; 1; 2; 5])]) [(RSingle (Some [97])); (RSingle (Some [105;100])); RWildcard; (RSingle (Some [105;100]))])).

Example c16_regression_f2_sort_leak_is_rejected :
  rq_diags regression_f2 = [DForeign 2 STakeSort 0] /\ rq_wf regression_f2 = false /\ rq_wf_lax regression_f2 = false.
Proof. vm_compute. auto. Qed.

(* C16-F4 (FIXED in /repo by 3b8ac37 "a table instance keeps both of two unnamed columns instead of merging them"): what
   the implementation used to emit for `from t | join (from u | select {c, d} | join (from v | select {c}) true) true` --
   the closing Select of the main pipeline names column 7, which is defined only inside table 4 (the instance of table 3
   had two columns for three declared ones).  Regression shape: not tolerated. *)
Definition regression_f4 : rq :=
  (mkRq [ mkTable 0 None (mkRel (KExternRef [[118]]) [RSingle (Some [99]); RWildcard]);
          mkTable 1 None (mkRel (KExternRef [[117]]) [RSingle (Some [99]); RSingle (Some [100]); RWildcard]);
          mkTable 2 None (mkRel (KExternRef [[116]]) [RWildcard]);
          mkTable 4 None (mkRel (KPipeline [TFrom (mkTRef 0 [(RSingle (Some [99]), 5); (RWildcard, 6)] (Some [118])); TSelect [5]; TSelect [5]]) [RSingle (Some [99])]);
          mkTable 3 None (mkRel (KPipeline [TFrom (mkTRef 1 [(RSingle (Some [99]), 2); (RSingle (Some [100]), 3); (RWildcard, 4)] (Some [117]));
                                            TSelect [2; 3]; TJoin JInner (mkTRef 4 [(RSingle (Some [99]), 7)] None) ELit; TSelect [2; 3; 7]])
                                 [RSingle (Some [99]); RSingle (Some [100]); RSingle (Some [99])]) ]
        (mkRel (KPipeline [TFrom (mkTRef 2 [(RWildcard, 0)] (Some [116]));
                           TJoin JInner (mkTRef 3 [(RSingle (Some [99]), 8); (RSingle (Some [100]), 9)] None) ELit;
                           TSelect [0; 8; 9; 7]])
               [RWildcard; RSingle (Some [99]); RSingle (Some [100]); RSingle (Some [99])])).

Example c16_regression_f4_foreign_id_in_select_is_rejected :
  rq_diags regression_f4 = [DForeign 5 SSelect 7] /\ rq_wf_lax regression_f4 = false.
Proof. vm_compute. auto. Qed.

(* ... and what HEAD emits for the same program, reproduced term for term by the Lowerer machine: a sub-pipeline whose
   closing Select repeats a column name (c, d, c).  The instance of table 3 has three columns (7, 8, 9), the redirect
   covers 1, 2 and 6, and node_mapping's Input entry for the instance keeps only the last `c` (hm_collect) -- the main
   Select still reaches 7 through the redirected Compute target of the PL node that first named u.c. *)
Definition s_c := [99]. Definition s_d := [100]. Definition s_v := [118].

Definition f4_ops : list op :=
  [ ODeclExtern [s_v] [RSingle (Some s_c); RWildcard];
    ODeclExtern [s_u] [RSingle (Some s_c); RSingle (Some s_d); RWildcard];
    ODeclExtern [s_t] [RWildcard];
    OBegin false 142 (Some s_t) (SExisting 2);
    OBegin true 132 (Some s_u) (SExisting 1);
    ODeclare 134 (ERef 1) None false true;
    ODeclare 135 (ERef 2) None false true;
    OPush (TSelect [1; 2]);
    OBegin true 122 (Some s_v) (SExisting 0);
    ODeclare 124 (ERef 4) None false true;
    OPush (TSelect [4]);
    OEndInline 126 [(RSingle (Some s_c), 4)] (UJoin JInner ELit);
    OEndInline 139 [(RSingle (Some s_c), 1); (RSingle (Some s_d), 2); (RSingle (Some s_c), 6)] (UJoin JInner ELit);
    OEndTable None [(RWildcard, 0); (RSingle (Some s_c), 7); (RSingle (Some s_d), 8); (RSingle (Some s_c), 9)] ].

Definition f4_head_rq : rq :=
  (mkRq [(mkTable 0 None (mkRel (KExternRef [[118]]) [(RSingle (Some [99])); RWildcard])); (mkTable 1 None (mkRel (KExternRef [[117]]) [(RSingle (Some [99])); (RSingle (Some [100])); RWildcard])); (mkTable 2 None (mkRel (KExternRef [[116]]) [RWildcard])); (mkTable 4 None (mkRel (KPipeline [(TFrom (mkTRef 0 [((RSingle (Some [99])), 4); (RWildcard, 5)] (Some [118]))); (TSelect [4]); (TSelect [4])]) [(RSingle (Some [99]))])); (mkTable 3 None (mkRel (KPipeline [(TFrom (mkTRef 1 [((RSingle (Some [99])), 1); ((RSingle (Some [100])), 2); (RWildcard, 3)] (Some [117]))); (TSelect [1; 2]); (TJoin JInner (mkTRef 4 [((RSingle (Some [99])), 6)] None) ELit); (TSelect [1; 2; 6])]) [(RSingle (Some [99])); (RSingle (Some [100])); (RSingle (Some [99]))]))] (mkRel (KPipeline [(TFrom (mkTRef 2 [(RWildcard, 0)] (Some [116]))); (TJoin JInner (mkTRef 3 [((RSingle (Some [99])), 7); ((RSingle (Some [100])), 8); ((RSingle (Some [99])), 9)] None) ELit); (TSelect [0; 7; 8; 9])]) [RWildcard; (RSingle (Some [99])); (RSingle (Some [100])); (RSingle (Some [99]))])).

Example c16_ex_f4_run_is_head_rq :
  match run init f4_ops with Some s => finish s | None => None end = Some f4_head_rq /\ rq_wf f4_head_rq = true.
Proof. vm_compute. auto. Qed.

(* the last `c` is the one the instance can be asked for by name; the first is reachable only through the redirect *)
Example c16_ex_hm_collect_last_wins :
  hm_collect [(RSingle (Some s_c), 7); (RSingle (Some s_d), 8); (RSingle (Some s_c), 9)]
  = [(RSingle (Some s_d), 8); (RSingle (Some s_c), 9)].
Proof. vm_compute. reflexivity. Qed.

(* C16-F5 (FIXED in /repo by 592b6f8 "leaving a nested group/window body restores the enclosing partition and frame ..."; the
   same commit saves partition and window frame around relational arguments): what the implementation used to emit for
   `from t | group {g} (take 2 | append (from u | take 3))` -- the Take of the appended sub-pipeline (table 2) partitioned
   by column 0 of the main pipeline.  Regression shape: not tolerated. *)
Definition regression_f5 : rq :=
  (mkRq [(mkTable 0 None (mkRel (KExternRef [[117]]) [RWildcard])); (mkTable 1 None (mkRel (KExternRef [[116]]) [(RSingle (Some [103])); RWildcard])); (mkTable 2 None (mkRel (KPipeline [(TFrom (mkTRef 0 [(RWildcard, 2)] (Some [117]))); (TTake (None, (Some ELit)) [0] []); (TSelect [2])]) [RWildcard]))] (mkRel (KPipeline [(TFrom (mkTRef 1 [((RSingle (Some [103])), 0); (RWildcard, 1)] (Some [116]))); (TTake (None, (Some ELit)) [0] []); (TAppend (mkTRef 2 [(RWildcard, 3)] None)); (TSelect [0; 1])]) [(RSingle (Some [103])); RWildcard])).

Example c16_regression_f5_partition_leak_is_rejected :
  rq_diags regression_f5 = [DForeign 2 STakePartition 0] /\ rq_wf_lax regression_f5 = false.
Proof. vm_compute. auto. Qed.

(* the half of C16-F1 that 8d54bf7 repaired ("an aggregate outside a group ends the sort in effect"): what the
   implementation used to emit for `from t | sort a | aggregate {n = count this} | take 3` -- Take.sort names column 0 after
   the Aggregate dropped it.  rq_wf_lax (the predicate the lookup theorems need) does not look at WHICH transform dropped the
   id; the check's classifier does, and reports this shape as a violation (only a Select, or the Aggregate of a group body,
   is still recorded under F1). *)
Definition regression_f1_aggregate : rq :=
  (mkRq [(mkTable 0 None (mkRel (KExternRef [[116]]) [(RSingle (Some [97])); RWildcard]))] (mkRel (KPipeline [(TFrom (mkTRef 0 [((RSingle (Some [97])), 0); (RWildcard, 1)] (Some [116]))); (TSort [(Asc, 0)]); (TCompute 2 (ENode (KOp [115;116;100;46;99;111;117;110;116]) [ELit]) None true); (TAggregate [] [2]); (TTake (None, (Some ELit)) [] [(Asc, 0)]); (TSelect [2])]) [(RSingle (Some [110]))])).

Example c16_regression_f1_sort_past_plain_aggregate :
  rq_diags regression_f1_aggregate = [DNotVisible 1 STakeSort 0] /\ rq_wf regression_f1_aggregate = false.
Proof. vm_compute. auto. Qed.

(* the trace of `from t | join (from u | select {c, d} | join (from v | select {c}) true) true` as vplib/props/c16_trace.py
   produces it from the hook's events (14 operations with their observations): it replays, and a corrupted copy does not *)
Definition f4_trace : list (op * list obs) :=
  [(ODeclExtern [[118]] [(RSingle (Some [99])); RWildcard], [(BTable 0)]); (ODeclExtern [[117]] [(RSingle (Some [99])); (RSingle (Some [100])); RWildcard], [(BTable 1)]); (ODeclExtern [[116]] [RWildcard], [(BTable 2)]); (OBegin false 142 (Some [116]) (SExisting 2), [(BDepth 1); (BInput 142 [(RWildcard, 0)]); (BTop (TFrom (mkTRef 2 [(RWildcard, 0)] (Some [116]))))]); (OBegin true 132 (Some [117]) (SExisting 1), [(BReserved 3); (BDepth 2); (BInput 132 [((RSingle (Some [99])), 1); ((RSingle (Some [100])), 2); (RWildcard, 3)]); (BTop (TFrom (mkTRef 1 [((RSingle (Some [99])), 1); ((RSingle (Some [100])), 2); (RWildcard, 3)] (Some [117]))))]); (ODeclare 134 (ERef 1) None false true, [(BCid 134 1)]); (ODeclare 135 (ERef 2) None false true, [(BCid 135 2)]); (OPush (TSelect [1; 2]), [(BTop (TSelect [1; 2]))]); (OBegin true 122 (Some [118]) (SExisting 0), [(BReserved 4); (BDepth 3); (BInput 122 [((RSingle (Some [99])), 4); (RWildcard, 5)]); (BTop (TFrom (mkTRef 0 [((RSingle (Some [99])), 4); (RWildcard, 5)] (Some [118]))))]); (ODeclare 124 (ERef 4) None false true, [(BCid 124 4)]); (OPush (TSelect [4]), [(BTop (TSelect [4]))]); (OEndInline 126 [((RSingle (Some [99])), 4)] (UJoin JInner ELit), [(BTable 4); (BDepth 2); (BInput 126 [((RSingle (Some [99])), 6)]); (BRedirect [(4, 6)]); (BTop (TJoin JInner (mkTRef 4 [((RSingle (Some [99])), 6)] None) ELit))]); (OEndInline 139 [((RSingle (Some [99])), 1); ((RSingle (Some [100])), 2); ((RSingle (Some [99])), 6)] (UJoin JInner ELit), [(BTable 3); (BDepth 1); (BInput 139 [((RSingle (Some [99])), 7); ((RSingle (Some [100])), 8); ((RSingle (Some [99])), 9)]); (BRedirect [(1, 7); (2, 8); (6, 9)]); (BTop (TJoin JInner (mkTRef 3 [((RSingle (Some [99])), 7); ((RSingle (Some [100])), 8); ((RSingle (Some [99])), 9)] None) ELit))]); (OEndTable (Some [109;97;105;110]) [(RWildcard, 0); ((RSingle (Some [99])), 7); ((RSingle (Some [100])), 8); ((RSingle (Some [99])), 9)], [(BTable 5); (BDepth 0)])].

Example c16_ex_trace_replays : replay_ok f4_trace f4_head_rq = true.
Proof. vm_compute. reflexivity. Qed.

Example c16_ex_corrupted_trace_does_not_replay :
  replay_verdict (firstn 5 f4_trace ++ [(ODeclare 134 ELit None false false, [BCid 134 2])] ++ skipn 6 f4_trace) f4_head_rq = 6
  /\ replay_verdict (firstn 13 f4_trace) f4_head_rq = 14.
Proof. vm_compute. auto. Qed.

(* the strict machine: F4's trace replays strictly (so its RQ is rq_wf by strict_trace_replay_gives_wf_rq); an operation
   that names an id the pipeline's Select has dropped is a step of the loose machine (the id is still in node_mapping) and
   not of the strict one *)
Example c16_ex_trace_replays_strictly : replay_strict_ok f4_trace f4_head_rq = true.
Proof. vm_compute. reflexivity. Qed.

Definition scope_ops : list op :=
  [ ODeclExtern [s_t] [RSingle (Some s_a); RSingle (Some s_id); RWildcard];
    OBegin false 1 (Some s_t) (SExisting 0);
    OPush (TSelect [1]);
    OPush (TFilter (ERef 0)) ].

Example c16_ex_out_of_scope_use_is_no_strict_step :
  (exists s, run init scope_ops = Some s) /\ vrun init scope_ops = None /\ (exists s, vrun init (firstn 3 scope_ops) = Some s).
Proof. vm_compute. repeat split; eexists; reflexivity. Qed.

(* C16-F8  `let k = (1 + 2)` / `from t | derive {a1 = k} | append (from u | derive {b1 = k})` : both mentions of k carry one PL
   node id, the second declare is answered from node_mapping (ODeclare's short-circuit: `cached`), and the appended
   sub-pipeline (table 2) selects Compute 1 of the main pipeline.  The loose machine reproduces the run exactly; the strict
   machine refuses operation 6, the OEndInline whose closing Select names id 1. *)
Definition finding_f8 : rq :=
  (mkRq [(mkTable 0 None (mkRel (KExternRef [[117]]) [RWildcard])); (mkTable 1 None (mkRel (KExternRef [[116]]) [RWildcard])); (mkTable 2 None (mkRel (KPipeline [(TFrom (mkTRef 0 [(RWildcard, 2)] (Some [117]))); (TSelect [2; 1])]) [RWildcard; (RSingle (Some [98;49]))]))] (mkRel (KPipeline [(TFrom (mkTRef 1 [(RWildcard, 0)] (Some [116]))); (TCompute 1 (ENode (KOp [115;116;100;46;97;100;100]) [ELit; ELit]) None false); (TAppend (mkTRef 2 [(RWildcard, 3); ((RSingle (Some [98;49])), 4)] None)); (TSelect [0; 4])]) [RWildcard; (RSingle (Some [97;49]))])).

Definition f8_trace : list (op * list obs) :=
  [(ODeclExtern [[117]] [RWildcard], [(BTable 0)]); (ODeclExtern [[116]] [RWildcard], [(BTable 1)]); (OBegin false 134 (Some [116]) (SExisting 1), [(BDepth 1); (BInput 134 [(RWildcard, 0)]); (BTop (TFrom (mkTRef 1 [(RWildcard, 0)] (Some [116]))))]); (ODeclare 111 (ENode (KOp [115;116;100;46;97;100;100]) [ELit; ELit]) None false false, [(BCid 111 1); (BTop (TCompute 1 (ENode (KOp [115;116;100;46;97;100;100]) [ELit; ELit]) None false))]); (OBegin true 124 (Some [117]) (SExisting 0), [(BReserved 2); (BDepth 2); (BInput 124 [(RWildcard, 2)]); (BTop (TFrom (mkTRef 0 [(RWildcard, 2)] (Some [117]))))]); (ODeclare 111 ELit None false false, [(BCid 111 1)]); (OEndInline 128 [(RWildcard, 2); ((RSingle (Some [98;49])), 1)] UAppend, [(BTable 2); (BDepth 1); (BInput 128 [(RWildcard, 3); ((RSingle (Some [98;49])), 4)]); (BRedirect [(1, 4); (2, 3)]); (BTop (TAppend (mkTRef 2 [(RWildcard, 3); ((RSingle (Some [98;49])), 4)] None)))]); (OEndTable (Some [109;97;105;110]) [(RWildcard, 0); ((RSingle (Some [97;49])), 4)], [(BTable 3); (BDepth 0)])].

Example c16_finding_f8_let_value_lowered_once :
  rq_diags finding_f8 = [DForeign 2 SSelect 1; DNotVisible 3 SSelect 4]
  /\ replay_ok f8_trace finding_f8 = true /\ replay_strict_verdict f8_trace finding_f8 = 7.
Proof. vm_compute. auto. Qed.

(* push_select on the state in front of the last operation of F4's run: `t.*` expands to the instance column 0, the three
   Single columns are looked up through the redirected Compute targets (7 8 9); an unknown input or a column that is not in the
   instance's HashMap is an error *)
Example c16_ex_push_select :
  match run init (firstn 13 f4_ops) with
  | Some s => (push_select_m (mapping s) [142; 139] [LAll 142 []; LSingle (Some s_c) 134 None; LSingle (Some s_d) 135 None; LSingle (Some s_c) 124 None],
               push_select_m (mapping s) [139] [LAll 142 []],
               push_select_m (mapping s) [142; 139] [LSingle (Some s_d) 139 (Some [120])],
               push_select_m (mapping s) [142; 139] [LSingle (Some s_c) 139 (Some s_c)])
  | None => (None, None, None, None)
  end
  = (Some [(RWildcard, 0); (RSingle (Some s_c), 7); (RSingle (Some s_d), 8); (RSingle (Some s_c), 9)], None, None,
     Some [(RSingle (Some s_c), 9)]).
Proof. vm_compute. reflexivity. Qed.

(* C16-F9  `from t | group g (sort {-a} | take 1 | select {b, c})` : the select of the group body drops the key (id 0), the closing
   Select computed from the lineage names it again.  The loose machine reproduces the run (with the frame computed by
   push_select_m); the strict machine refuses the last operation, the OEndTable. *)
Definition finding_f9 : rq :=
  (mkRq [(mkTable 0 None (mkRel (KExternRef [[116]]) [(RSingle (Some [103])); (RSingle (Some [97])); (RSingle (Some [98])); (RSingle (Some [99])); RWildcard]))] (mkRel (KPipeline [(TFrom (mkTRef 0 [((RSingle (Some [103])), 0); ((RSingle (Some [97])), 1); ((RSingle (Some [98])), 2); ((RSingle (Some [99])), 3); (RWildcard, 4)] (Some [116]))); (TTake (None, (Some ELit)) [0] [(Desc, 1)]); (TSelect [2; 3]); (TSelect [0; 2; 3])]) [(RSingle (Some [103])); (RSingle (Some [98])); (RSingle (Some [99]))])).

Definition f9_trace : list (lop * list obs) :=
  [(LOp (ODeclExtern [[116]] [(RSingle (Some [103])); (RSingle (Some [97])); (RSingle (Some [98])); (RSingle (Some [99])); RWildcard]), [(BTable 0)]); (LOp (OBegin false 116 (Some [116]) (SExisting 0)), [(BDepth 1); (BInput 116 [((RSingle (Some [103])), 0); ((RSingle (Some [97])), 1); ((RSingle (Some [98])), 2); ((RSingle (Some [99])), 3); (RWildcard, 4)]); (BTop (TFrom (mkTRef 0 [((RSingle (Some [103])), 0); ((RSingle (Some [97])), 1); ((RSingle (Some [98])), 2); ((RSingle (Some [99])), 3); (RWildcard, 4)] (Some [116]))))]); (LOp (ODeclare 118 (ERef 0) None false true), [(BCid 118 0)]); (LOp (ODeclare 148 (ERef 1) None false true), [(BCid 148 1)]); (LOp (OPush (TTake (None, (Some ELit)) [0] [(Desc, 1)])), [(BTop (TTake (None, (Some ELit)) [0] [(Desc, 1)]))]); (LOp (ODeclare 118 ELit None false false), [(BCid 118 0)]); (LOp (ODeclare 148 ELit None false false), [(BCid 148 1)]); (LOp (ODeclare 154 (ERef 2) None false true), [(BCid 154 2)]); (LOp (ODeclare 155 (ERef 3) None false true), [(BCid 155 3)]); (LOp (OPush (TSelect [2; 3])), [(BTop (TSelect [2; 3]))]); (LEndTable (Some [109;97;105;110]) [116] [(LSingle (Some [103]) 118 None); (LSingle (Some [98]) 154 None); (LSingle (Some [99]) 155 None)], [(BFrame [((RSingle (Some [103])), 0); ((RSingle (Some [98])), 2); ((RSingle (Some [99])), 3)]); (BTable 1); (BDepth 0)])].

Example c16_finding_f9_group_select_drops_key :
  rq_diags finding_f9 = [DNotVisible 1 SSelect 0]
  /\ replay_l_verdict false f9_trace finding_f9 = 0 /\ replay_l_verdict true f9_trace finding_f9 = 11.
Proof. vm_compute. auto. Qed.

(* C12-N18: the RQ of `from t | aggregate {n = count this}` with Aggregate.partition set to its own compute list: every id is
   defined and visible (rq_wf accepts it), the back end does not terminate on it; rq_agg_ok rejects it *)
Definition n18_rq : rq :=
  (mkRq [(mkTable 0 None (mkRel (KExternRef [[116]]) [RWildcard]))]
        (mkRel (KPipeline [(TFrom (mkTRef 0 [(RWildcard, 0)] (Some [116])));
                           (TCompute 1 (ENode (KOp [115;116;100;46;99;111;117;110;116]) [ELit]) None true);
                           (TAggregate [1] [1]); (TSelect [1])]) [(RSingle (Some [110]))])).

Example c16_ex_aggregate_partitioned_by_its_own_column :
  rq_wf n18_rq = true /\ agg_overlaps n18_rq = [1] /\ rq_agg_ok n18_rq = false /\ rq_agg_ok f4_head_rq = true.
Proof. vm_compute. auto. Qed.

(* the declare window: `from t | sort {a, -id}`: the Sort's ids are the ids of the two declares in front of it; with the keys swapped
   in the pushed transform the shape check refuses the operation *)
Definition sort_trace (k1 k2 : cid) : list (lop * list obs) :=
  [ (LOp (ODeclExtern [s_t] [RSingle (Some s_a); RSingle (Some s_id); RWildcard]), []);
    (LOp (OBegin false 1 (Some s_t) (SExisting 0)), []);
    (LOp (ODeclare 2 (ERef 0) None false true), []);
    (LOp (ODeclare 3 (ERef 1) None false true), []);
    (LOp (OPush (TSort [(Asc, k1); (Desc, k2)])), []) ].

Example c16_ex_sorts_window : sorts_verdict (sort_trace 0 1) = 0 /\ sorts_verdict (sort_trace 1 0) = 5.
Proof. vm_compute. auto. Qed.

(* C16 -- every emitted relational query (RQ) is closed and consistently identified.
   Statements only; proofs are in Proofs/RqWfProofs.v (the predicate and what it buys a back end) and
   Proofs/LowererProofs.v (the Lowerer's id discipline, for all operation sequences).

   What is proved here and what is not:
     * rq_wf / rq_wf_lax (Model/RqWf.v) are the property's five clauses as an executable predicate; the check
       evaluates it on the RQ the implementation emits for every generated program (that part is validated per
       program, not proved: the resolver is not modelled).
     * every operation sequence of the Lowerer state machine (Model/Lowerer.v) keeps ids fresh, uses only defined
       ids, declares tables before use and closes every pipeline with a Select of the declared arity -- i.e. emits a
       `closed` RQ, which is all a back end needs for its lookups.  Visibility (clause 2 in its narrow form) depends on
       the resolver's scoping and is not a consequence of the machine; it is the per-program part.
   Full statement "forall programs p, resolver p = Ok q -> rq_wf q = true" is FALSE of the current tree
   (open findings C16-F1: the carried sort of Take / Window names an id of its own relation that is no longer visible;
   C16-F4: an id of a sub-pipeline with duplicate column names escapes un-redirected; C16-F3 is a Lowerer panic).
   c16_finding_* below are the concrete RQs; rq_wf_lax is what holds modulo F1.  C16-F2 (carried sort naming an id of
   ANOTHER relation) was repaired in /repo (8f24a64) and is no longer tolerated: c16_regression_f2_*. *)
From Coq Require Import List NArith Bool.
From PV Require Import Lib.ListX Model.Rq Model.RqWf Model.Lowerer Proofs.RqWfProofs Proofs.LowererProofs.
Import ListNotations.
Local Open Scope N_scope.

(* ---- why the invariant matters: the back end's lookups are total and unambiguous ---- *)

Theorem wf_implies_lookups_total : forall q, rq_wf q = true ->
  (forall c, In c (used_cids q) -> lookup_cid q c <> None)
  /\ (forall t, In t (used_tids q) -> lookup_tid q t <> None)
  /\ (forall c d, In (c, d) (all_decls q) -> lookup_cid q c = Some d)
  /\ NoDup (table_ids q).
Proof. exact wf_lookups_total_explicit. Qed.
Print Assumptions wf_implies_lookups_total.

Theorem wf_lax_implies_lookups_total : forall q, rq_wf_lax q = true -> lookups_total q.
Proof. exact wf_lax_lookups_total. Qed.
Print Assumptions wf_lax_implies_lookups_total.

Theorem wf_implies_lax : forall q, rq_wf q = true -> rq_wf_lax q = true.
Proof. exact wf_implies_wf_lax. Qed.
Print Assumptions wf_implies_lax.

(* ---- the clauses, read back from the executable predicate ---- *)

Theorem wf_defined_exactly_once : forall q, rq_wf_lax q = true -> NoDup (all_defs q).
Proof. exact wf_lax_defs_nodup. Qed.
Print Assumptions wf_defined_exactly_once.

Theorem wf_uses_visible : forall defs ldefs w decl p1 t p2 vis,
  pipeline_diags defs ldefs w decl vis (p1 ++ t :: p2) = [] ->
  incl (direct_uses t) (vis_after defs ldefs w decl vis p1)
  /\ (forall sd r f, t = TJoin sd r f -> incl (expr_cids f) (vis_after defs ldefs w decl vis p1 ++ tref_cids r)).
Proof. exact strict_uses_visible. Qed.
Print Assumptions wf_uses_visible.

Theorem wf_tables_declared_earlier : forall q, rq_wf_lax q = true ->
  forall k t, nth_error (q_tables q) k = Some t ->
  incl (relation_trefs (t_relation t)) (firstn k (table_ids q)).
Proof. exact wf_lax_decl_before_use. Qed.
Print Assumptions wf_tables_declared_earlier.

Theorem wf_from_first_select_last : forall q, rq_wf_lax q = true ->
  pipeline_shape (q_relation q) /\ forall t, In t (q_tables q) -> pipeline_shape (t_relation t).
Proof. exact wf_lax_pipeline_shape. Qed.
Print Assumptions wf_from_first_select_last.

(* ---- the Lowerer, for ALL operation sequences ---- *)

Theorem lowerer_ids_fresh : forall ops s, run init ops = Some s ->
  NoDup (defs_of s) /\ (forall c, In c (defs_of s) -> c < next_cid s)
  /\ NoDup (tids_of s) /\ (forall t, In t (tids_of s) -> t < next_tid s).
Proof. exact LowererProofs.lowerer_ids_fresh. Qed.
Print Assumptions lowerer_ids_fresh.

Theorem lowerer_uses_defined : forall ops s, run init ops = Some s ->
  incl (mapping_cids (mapping s)) (defs_of s) /\ incl (uses_of s) (defs_of s).
Proof. exact LowererProofs.lowerer_uses_defined. Qed.
Print Assumptions lowerer_uses_defined.

Theorem push_select_arity : forall ops s, run init ops = Some s ->
  forall t, In t (tables s) -> pipeline_shape (t_relation t).
Proof. exact lowerer_push_select_arity. Qed.
Print Assumptions push_select_arity.

Theorem lowerer_tables_declared_before_use : forall ops s, run init ops = Some s -> tables_ordered (tables s).
Proof. exact lowerer_decl_before_use. Qed.
Print Assumptions lowerer_tables_declared_before_use.

Theorem redirect_preserves_wf : forall pend s rs,
  InvC pend s -> incl (map snd rs) pend ->
  InvC pend (mkL (next_cid s) (next_tid s) (redirect rs (mapping s)) (frames s) (tables s)).
Proof. exact redirect_inv. Qed.
Print Assumptions redirect_preserves_wf.

Theorem lowerer_emits_closed_rq : forall ops s q, run init ops = Some s -> finish s = Some q ->
  rq_closed q /\ lookups_total q.
Proof. exact lowerer_emits_closed. Qed.
Print Assumptions lowerer_emits_closed_rq.

Theorem wf_is_closed : forall q, rq_wf_lax q = true -> rq_closed q.
Proof. exact wf_lax_closed. Qed.
Print Assumptions wf_is_closed.

Theorem toposort_decl_before_use : forall dag fuel start l,
  toposort dag fuel start = Some l ->
  In start l /\ forall i n, nth_error l i = Some n -> incl (dag n) (firstn i l).
Proof. exact toposort_spec. Qed.
Print Assumptions toposort_decl_before_use.

(* ---- non-vacuity: a real run.  `from t | derive {x = a + 1} | join (from u | select {id}) (t.id == that.id) | select {x}`
   The term is what vplib/rqcoq.py produces from the implementation's RQ JSON for this program; the operation
   sequence is the Lowerer's (extern tables u, t; main pipeline; inline table for the join). ---- *)

Definition s_id := [105;100]. Definition s_a := [97]. Definition s_x := [120].
Definition s_t := [116]. Definition s_u := [117].
Definition op_add := [115;116;100;46;97;100;100]. Definition op_eq := [115;116;100;46;101;113].

Definition ex_ops : list op :=
  [ ODeclExtern [s_u] [RSingle (Some s_id); RWildcard];
    ODeclExtern [s_t] [RSingle (Some s_a); RSingle (Some s_id); RWildcard];
    OBegin false 10 (Some s_t) (SExisting 1);
    ODeclare 11 (ENode (KOp op_add) [ERef 0; ELit]) None false false;
    OBegin true 12 (Some s_u) (SExisting 0);
    OPush (TSelect [4]);
    OEndInline 13 [(RSingle (Some s_id), 4)] (UJoin JInner (ENode (KOp op_eq) [ERef 1; ERef 6]));
    OPush (TSelect [3]);
    OEndTable None [(RSingle (Some s_x), 3)] ].

Definition ex_rq : rq :=
  (mkRq [(mkTable 0 None (mkRel (KExternRef [[117]]) [(RSingle (Some [105;100])); RWildcard])); (mkTable 1 None (mkRel (KExternRef [[116]]) [(RSingle (Some [97])); (RSingle (Some [105;100])); RWildcard])); (mkTable 2 None (mkRel (KPipeline [(TFrom (mkTRef 0 [((RSingle (Some [105;100])), 4); (RWildcard, 5)] (Some [117]))); (TSelect [4]); (TSelect [4])]) [(RSingle (Some [105;100]))]))] (mkRel (KPipeline [(TFrom (mkTRef 1 [((RSingle (Some [97])), 0); ((RSingle (Some [105;100])), 1); (RWildcard, 2)] (Some [116]))); (TCompute 3 (ENode (KOp [115;116;100;46;97;100;100]) [(ERef 0); ELit]) None false); (TJoin JInner (mkTRef 2 [((RSingle (Some [105;100])), 6)] None) (ENode (KOp [115;116;100;46;101;113]) [(ERef 1); (ERef 6)])); (TSelect [3]); (TSelect [3])]) [(RSingle (Some [120]))])).

Example c16_ex_run_is_impl_rq :
  match run init ex_ops with Some s => finish s | None => None end = Some ex_rq.
Proof. vm_compute. reflexivity. Qed.

Example c16_ex_rq_wf : rq_wf ex_rq = true.
Proof. vm_compute. reflexivity. Qed.

(* the guard: an expression mentioning an id the Lowerer never handed out is not a step *)
Example c16_ex_unknown_cid_is_no_step :
  run init [ODeclExtern [s_t] [RWildcard]; OBegin false 1 None (SExisting 0); OPush (TFilter (ERef 7))] = None.
Proof. vm_compute. reflexivity. Qed.

(* an instance of a table that is not in table_buffer is not a step (create_a_table_instance unwraps it) *)
Example c16_ex_undeclared_table_is_no_step : run init [OBegin false 1 None (SExisting 0)] = None.
Proof. vm_compute. reflexivity. Qed.

Example c16_ex_violations_are_seen :
  rq_diags (mkRq [] (mkRel (KPipeline [TFilter (ERef 0); TCompute 1 ELit None false; TCompute 1 ELit None false;
                                       TAppend (mkTRef 9 [] None)]) [RWildcard]))
  = [DDupCid 1; DUndefined 0 SFilter 0; DTidUndeclared 0 9; DNoFrom 0; DNoSelect 0].
Proof. vm_compute. reflexivity. Qed.

Example c16_ex_toposort : toposort (fun n => match n with 2 => [1; 0] | 1 => [0] | _ => [] end)%nat 10 2 = Some [0; 1; 2]%nat.
Proof. vm_compute. reflexivity. Qed.

(* ---- known findings, as the concrete RQs the unchanged implementation emits (replayed by the check) ---- *)

(* C16-F1  `from t | sort a | select {b} | take 3` : Take.sort names column 0 after Select [1] dropped it *)
Definition finding_f1 : rq :=
  (mkRq [(mkTable 0 None (mkRel (KExternRef [[116]]) [(RSingle (Some [97])); (RSingle (Some [98])); RWildcard]))] (mkRel (KPipeline [(TFrom (mkTRef 0 [((RSingle (Some [97])), 0); ((RSingle (Some [98])), 1); (RWildcard, 2)] (Some [116]))); (TSort [(Asc, 0)]); (TSelect [1]); (TTake (None, (Some ELit)) [] [(Asc, 0)]); (TSelect [1])]) [(RSingle (Some [98]))])).

Example c16_finding_f1_sort_carried_past_select :
  rq_diags finding_f1 = [DNotVisible 1 STakeSort 0] /\ rq_wf finding_f1 = false /\ rq_wf_lax finding_f1 = true.
Proof. vm_compute. auto. Qed.

(* C16-F2 (FIXED in /repo by 8f24a64 "the carried sort does not leak into (or out of) the relational arguments of
   join/append/loop"): what the implementation used to emit for
   `from t | sort a | join (from u | select {id} | take 8) (==id)` -- the Take of the joined sub-pipeline (table 2) sorted
   by column 0, which belongs to the main pipeline.  Kept as a regression shape: it is NOT tolerated by rq_wf_lax (the id
   is foreign to the relation that uses it), so a reappearance is reported as a violation. *)
Definition regression_f2 : rq :=
  (mkRq [(mkTable 0 None (mkRel (KExternRef [[117]]) [(RSingle (Some [105;100])); RWildcard])); (mkTable 1 None (mkRel (KExternRef [[116]]) [(RSingle (Some [97])); (RSingle (Some [105;100])); RWildcard])); (mkTable 2 None (mkRel (KPipeline [(TFrom (mkTRef 0 [((RSingle (Some [105;100])), 3); (RWildcard, 4)] (Some [117]))); (TSelect [3]); (TTake (None, (Some ELit)) [] [(Asc, 0)]); (TSelect [3])]) [(RSingle (Some [105;100]))]))] (mkRel (KPipeline [(TFrom (mkTRef 1 [((RSingle (Some [97])), 0); ((RSingle (Some [105;100])), 1); (RWildcard, 2)] (Some [116]))); (TSort [(Asc, 0)]); (TJoin JInner (mkTRef 2 [((RSingle (Some [105;100])), 5)] None) (ENode (KOp [115;116;100;46;101;113]) [(ERef 1); (ERef 5)])); (TSelect [0; 1; 2; 5])]) [(RSingle (Some [97])); (RSingle (Some [105;100])); RWildcard; (RSingle (Some [105;100]))])).

Example c16_regression_f2_sort_leak_is_rejected :
  rq_diags regression_f2 = [DForeign 2 STakeSort 0] /\ rq_wf regression_f2 = false /\ rq_wf_lax regression_f2 = false.
Proof. vm_compute. auto. Qed.

(* C16-F4  `from t | join (from u | select {c, d} | join (from v | select {c}) true) true` : the closing Select of the main
   pipeline names column 7, which is defined only inside table 4 (its instance has two columns for three declared ones) *)
Definition finding_f4 : rq :=
  (mkRq [ mkTable 0 None (mkRel (KExternRef [[118]]) [RSingle (Some [99]); RWildcard]);
          mkTable 1 None (mkRel (KExternRef [[117]]) [RSingle (Some [99]); RSingle (Some [100]); RWildcard]);
          mkTable 2 None (mkRel (KExternRef [[116]]) [RWildcard]);
          mkTable 4 None (mkRel (KPipeline [TFrom (mkTRef 0 [(RSingle (Some [99]), 5); (RWildcard, 6)] (Some [118])); TSelect [5]; TSelect [5]]) [RSingle (Some [99])]);
          mkTable 3 None (mkRel (KPipeline [TFrom (mkTRef 1 [(RSingle (Some [99]), 2); (RSingle (Some [100]), 3); (RWildcard, 4)] (Some [117]));
                                            TSelect [2; 3]; TJoin JInner (mkTRef 4 [(RSingle (Some [99]), 7)] None) ELit; TSelect [2; 3; 7]])
                                 [RSingle (Some [99]); RSingle (Some [100]); RSingle (Some [99])]) ]
        (mkRel (KPipeline [TFrom (mkTRef 2 [(RWildcard, 0)] (Some [116]));
                           TJoin JInner (mkTRef 3 [(RSingle (Some [99]), 8); (RSingle (Some [100]), 9)] None) ELit;
                           TSelect [0; 8; 9; 7]])
               [RWildcard; RSingle (Some [99]); RSingle (Some [100]); RSingle (Some [99])])).

Example c16_finding_f4_foreign_id_in_select :
  rq_diags finding_f4 = [DForeign 5 SSelect 7] /\ rq_wf_lax finding_f4 = false.
Proof. vm_compute. auto. Qed.

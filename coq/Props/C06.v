(* C06 -- refactorings PRQL defines as equivalent do not change results.
   Statements only; proofs in Proofs/RewriteProofs.v and Proofs/SubstProofs.v.  Spec layer: every rewrite is an
   equation of the reference semantics Model/Rel.v (shared with C01), for ALL relations, rows and expressions.
   The compiler layer ("base and rewritten program both compile to SQL that means what Rel.v says") is validated
   per pair by execution in vplib/props/c06.py, not proved.
   `ev` is Rel.eval with fuel 50; statements about `ev` carry the depth bound under which the fuel is not
   exhausted, statements about `evalT` (the same evaluator by structural recursion, Model/Subst.v) need none. *)
From Coq Require Import List ZArith QArith NArith Bool.
From Coq Require Import NArith.
From PV Require Import Lib.ListX Model.Scope Model.ModuleWalk Proofs.ModuleWalkProofs.
From PV Require Import Model.Rel Model.Subst Model.Rewrite Proofs.SubstProofs Proofs.RewriteProofs.
Import ListNotations.
Local Open Scope nat_scope.

(* ---- the two evaluators agree below the fuel ---- *)
Theorem c06_eval_fuel : forall f e r, depth e <= f -> eval f r e = evalT r e.
Proof. exact eval_evalT. Qed.
Print Assumptions c06_eval_fuel.

(* ---- (c) filter (a && b)  ==  filter a | filter b   (three-valued: a row passes iff the conjunction is TRUE) ---- *)
Theorem c06_filter_split : forall a b l, depth a < 50 -> depth b < 50 ->
  apply (TFilter (EBin And a b)) l = apply (TFilter b) (apply (TFilter a) l).
Proof. exact filter_split. Qed.
Print Assumptions c06_filter_split.

Theorem c06_filter_split_rowwise : forall a b r,
  is_true (evalT r (EBin And a b)) = is_true (evalT r a) && is_true (evalT r b).
Proof. exact filter_split_T. Qed.
Print Assumptions c06_filter_split_rowwise.

(* ---- (d) transforms that are identities on the frame ---- *)
Theorem c06_id_derive_empty : forall l, apply (TDerive []) l = l.
Proof. exact derive_empty_id. Qed.
Print Assumptions c06_id_derive_empty.

Theorem c06_id_filter_true : forall l, apply (TFilter (ELit (VInt 1))) l = l.
Proof. exact filter_true_id. Qed.
Print Assumptions c06_id_filter_true.

Theorem c06_id_take_open : forall l, apply (TTake (Some 1%Z) None) l = l /\ apply (TTake None None) l = l.
Proof. exact take_open_id. Qed.
Print Assumptions c06_id_take_open.

Theorem c06_id_append_empty : forall l, apply (TAppend []) l = l.
Proof. exact append_empty_id. Qed.
Print Assumptions c06_id_append_empty.

(* a sort directly in front of another sort is overridden, provided the second sort's keys order the rows without
   ties (ord_ok: total, transitive, and only identical rows compare equal both ways -- decidable, Model/Rewrite.v).
   Without that proviso the statement is false: Rel's sort is stable, so ties of k2 would keep k1's order. *)
Theorem c06_id_sort_overridden : forall k1 k2 l, ord_ok (keys_le k2) l = true ->
  apply (TSort k2) (apply (TSort k1) l) = apply (TSort k2) l.
Proof. exact sort_overridden. Qed.
Print Assumptions c06_id_sort_overridden.

(* `select` of all columns of the frame, in order (distinct names): the rows are unchanged up to their relation
   qualifiers, which `select` drops (unq); values and column names are exactly preserved *)
Theorem c06_id_select_all : forall ns l, NoDup ns -> Forall (fun r => map col_name r = map Some ns) l ->
  apply (TSelect (all_cols ns)) l = map unq l.
Proof. exact select_all_id. Qed.
Print Assumptions c06_id_select_all.

Theorem c06_id_select_all_observable : forall ns l, NoDup ns -> Forall (fun r => map col_name r = map Some ns) l ->
  values (apply (TSelect (all_cols ns)) l) = values l /\ names (apply (TSelect (all_cols ns)) l) = names l.
Proof. exact select_all_values. Qed.
Print Assumptions c06_id_select_all_observable.

(* ---- (b) user functions: beta-reduction = evaluation of the body in the row extended by the parameters ---- *)
Theorem c06_subst_sound : forall s e r, evalT r (subst s e) = evalT (bind r (eval_binding r s)) e.
Proof. exact subst_sound. Qed.
Print Assumptions c06_subst_sound.

Theorem c06_beta_sound : forall f c s r, bindings f c = Some s ->
  beta f c = Some (subst s (f_body f)) /\
  evalT r (subst s (f_body f)) = evalT (bind r (eval_binding r s)) (f_body f).
Proof. exact beta_sound. Qed.
Print Assumptions c06_beta_sound.

Theorem c06_beta_sound_ev : forall s body r,
  depth (subst s body) <= 50 -> depth body <= 50 -> Forall (fun b : name * expr => depth (snd b) <= 50) s ->
  ev r (subst s body) = ev (bind r (map (fun b : name * expr => (fst b, ev r (snd b))) s)) body.
Proof. exact beta_sound_ev. Qed.
Print Assumptions c06_beta_sound_ev.

(* positional:  let f = p1 .. pn -> body ;  (f a1 .. an) *)
Theorem c06_beta_positional : forall ps body args r, length args = length ps ->
  exists e', beta {| f_params := pos_params ps; f_body := body |} {| c_named := []; c_pos := args |} = Some e' /\
             evalT r e' = evalT (bind r (combine ps (map (evalT r) args))) body.
Proof. exact beta_positional. Qed.
Print Assumptions c06_beta_positional.

(* named with default:  let f = nd:d p1 .. pn -> body ;  (f a1 .. an): nd is d's value IN THE CALLER'S ROW *)
Theorem c06_beta_default_omitted : forall nd d ps body args r, length args = length ps ->
  exists e', beta {| f_params := named_first nd d ps; f_body := body |} {| c_named := []; c_pos := args |} = Some e' /\
             evalT r e' = evalT (bind r ((nd, evalT r d) :: combine ps (map (evalT r) args))) body.
Proof. exact beta_default_omitted. Qed.
Print Assumptions c06_beta_default_omitted.

(* (f nd:x a1 .. an): the passed value replaces the default *)
Theorem c06_beta_named_passed : forall nd d x ps body args r, length args = length ps ->
  exists e', beta {| f_params := named_first nd d ps; f_body := body |} {| c_named := [(nd, x)]; c_pos := args |} = Some e' /\
             evalT r e' = evalT (bind r ((nd, evalT r x) :: combine ps (map (evalT r) args))) body.
Proof. exact beta_named_passed. Qed.
Print Assumptions c06_beta_named_passed.

(* piped:  (x | f a..)  ==  (f a.. x) *)
Theorem c06_pipe_is_last_argument : forall f c x,
  beta f (pipe x c) = beta f {| c_named := c_named c; c_pos := c_pos c ++ [x] |}.
Proof. exact pipe_is_last_argument. Qed.
Print Assumptions c06_pipe_is_last_argument.

Theorem c06_beta_piped : forall ps p body args x r, length args = length ps ->
  exists e', beta {| f_params := pos_params (ps ++ [p]); f_body := body |} (pipe x {| c_named := []; c_pos := args |}) = Some e' /\
             evalT r e' = evalT (bind r (combine ps (map (evalT r) args) ++ [(p, evalT r x)])) body.
Proof. exact beta_piped. Qed.
Print Assumptions c06_beta_piped.

(* parameters that do not occur in an expression leave it alone: with fresh parameter names, abstraction followed
   by beta-reduction gives the original expression back and captures no column *)
Theorem c06_subst_fresh : forall s e, (forall p, In p (map fst s) -> occurs p e = false) -> subst s e = e.
Proof. exact subst_fresh. Qed.
Print Assumptions c06_subst_fresh.

(* ---- (a) let / into ---- *)
Theorem c06_let_prefix_sound : forall (base : rel) (p rest : list transform),
  run base (p ++ rest) = run (run base p) rest.
Proof. exact let_prefix_sound. Qed.
Print Assumptions c06_let_prefix_sound.

(* any number of references to the let-table (none, one, two: self-join / append) may be inlined *)
Theorem c06_let_inline_sound : forall env x d e, tsem (tlet env x d) e = tsem env (tsubst x d e).
Proof. exact let_inline_sound. Qed.
Print Assumptions c06_let_inline_sound.

Theorem c06_let_then_from : forall env x b p rest,
  tsem (tlet env x (pipeline (TBase b) p)) (pipeline (TVar x) rest) = run b (p ++ rest).
Proof. exact let_then_from. Qed.
Print Assumptions c06_let_then_from.

Theorem c06_let_two_refs_append : forall env x d rest,
  tsem (tlet env x d) (pipeline (TApply (TVar x) (SAppend (TVar x))) rest) = run (tsem env d ++ tsem env d) rest.
Proof. exact let_two_refs_append. Qed.
Print Assumptions c06_let_two_refs_append.

Theorem c06_let_two_refs_join : forall env x d s al uc on rest,
  tsem (tlet env x d) (pipeline (TApply (TVar x) (SJoin s al uc (TVar x) on)) rest)
  = tsem env (pipeline (TApply d (SJoin s al uc d on)) rest).
Proof. exact let_two_refs_join. Qed.
Print Assumptions c06_let_two_refs_join.

(* ---- (e) modules ---- *)
Theorem c06_module_get_insert : forall A path (m m' : module A) n d, minsert m path n d = Some m' -> mget m' path n = Some d.
Proof. exact mget_minsert_same. Qed.
Print Assumptions c06_module_get_insert.

Theorem c06_module_path_irrelevant : forall A (m m1 m2 : module A) path n d,
  minsert m [] n d = Some m1 -> minsert m path n d = Some m2 ->
  mget m2 path n = mget m1 [] n /\ mget m1 [] n = Some d.
Proof. exact module_path_irrelevant. Qed.
Print Assumptions c06_module_path_irrelevant.

(* `m.name` is not a same-named top-level declaration, and putting `name` into m leaves the top level alone *)
Theorem c06_module_other_names_untouched : forall A (m m' : module A) p rest n d q path' n',
  minsert m (p :: rest) n d = Some m' -> q <> p ->
  mget m' (q :: path') n' = mget m (q :: path') n' /\ mget m' [] q = mget m [] q.
Proof. exact mget_minsert_other_top. Qed.
Print Assumptions c06_module_other_names_untouched.

(* ---- the hypotheses are satisfiable / the statements are not vacuous ---- *)
Definition ex_row (i a : Z) : row := [(Some 7%N, Some 1%N, VInt i); (Some 7%N, Some 2%N, VInt a)].
Definition ex_rel : rel := [ex_row 2 5; ex_row 1 5; ex_row 3 0].
Example c06_ex_ord_ok : ord_ok (keys_le [(false, ECol None 2%N); (true, ECol None 1%N)]) ex_rel = true.
Proof. vm_compute. reflexivity. Qed.
Example c06_ex_ord_ties : ord_ok (keys_le [(false, ECol None 2%N)]) ex_rel = false.      (* a = 5 twice: a tie *)
Proof. vm_compute. reflexivity. Qed.
Example c06_ex_sort_not_overridden_with_ties :
  apply (TSort [(false, ECol None 2%N)]) (apply (TSort [(false, ECol None 1%N)]) ex_rel) <> apply (TSort [(false, ECol None 2%N)]) ex_rel.
Proof. vm_compute. discriminate. Qed.
Example c06_ex_three_valued : (* NULL && false is false, NULL && true is unknown: neither row passes, in one filter or in two *)
  let l := [[(None, Some 1%N, VNull); (None, Some 2%N, VInt 0)]; [(None, Some 1%N, VNull); (None, Some 2%N, VInt 1)]] in
  apply (TFilter (EBin And (ECol None 1%N) (ECol None 2%N))) l = [] /\
  apply (TFilter (ECol None 2%N)) (apply (TFilter (ECol None 1%N)) l) = [].
Proof. vm_compute. split; reflexivity. Qed.
Example c06_ex_select_all : NoDup [1%N; 2%N] /\ Forall (fun r => map col_name r = map Some [1%N; 2%N]) ex_rel.
Proof. split; [repeat constructor; cbn; intuition discriminate | repeat constructor]. Qed.
Example c06_ex_beta : (* let f = low:0 high x -> (x - low) / (high - low) ; (sat | f 1600)  with sat = 800 *)
  let f := {| f_params := [(10%N, Some (ELit (VInt 0))); (11%N, None); (12%N, None)];
              f_body := EBin DivF (EBin Sub (ECol None 12%N) (ECol None 10%N)) (EBin Sub (ECol None 11%N) (ECol None 10%N)) |} in
  match beta f (pipe (ECol None 1%N) {| c_named := []; c_pos := [ELit (VInt 1600)] |}) with
  | Some e => show_val (evalT [(None, Some 1%N, VInt 800)] e) = [1%Z; 1%Z; 2%Z]
  | None => False end.
Proof. vm_compute. reflexivity. Qed.
Example c06_ex_param_shadows_column : (* a parameter named like a column shadows it; the qualified column is untouched *)
  evalT [(Some 7%N, Some 1%N, VInt 5)] (subst [(1%N, ELit (VInt 9))] (EBin Add (ECol None 1%N) (ECol (Some 7%N) 1%N))) = VInt 14.
Proof. vm_compute. reflexivity. Qed.
Example c06_ex_module :
  let m : module nat := [(5%N, DVal 1)] in
  match minsert m [8%N; 9%N] 5%N (DVal 2) with
  | Some m' => mget m' [8%N; 9%N] 5%N = Some (DVal 2) /\ mget m' [] 5%N = Some (DVal 1)
  | None => False end.
Proof. vm_compute. split; reflexivity. Qed.


(* ==== (e') modules: WHERE the relative references of a moved declaration are resolved.  On C10's Model/Scope.v (resolve_ident's
   walk over the enclosing modules: d92afac, 7f02b48); Model/ModuleWalk.v adds the place of the find and the module path in effect
   for a body: a let-table is resolved where it is DECLARED, a function body where the function is CALLED. *)

(* found_at is Scope.rel_enclosing's search, with the module added *)
Theorem c06_found_at_is_the_compilers_search : forall c mods sc cur id,
  match found_at c mods sc cur id with
  | Some p => exists x, In p (walk c cur) /\ mlookup mods sc (p ++ fst id, snd id) = [x] /\ rel_enclosing c mods sc cur id = Some x
  | None => rel_enclosing c mods sc cur id = None
  end.
Proof. exact found_at_is_rel_enclosing. Qed.
Print Assumptions c06_found_at_is_the_compilers_search.

(* two let-tables moved into ONE module: the relative reference of the second is found in that module (any depth, either walk) *)
Theorem c06_module_sibling_table_found : forall c mods sc cur id x,
  cur <> [] -> mlookup mods sc (cur ++ fst id, snd id) = [x] ->
  found_at c mods sc cur id = Some cur /\ rel_enclosing c mods sc cur id = Some x.
Proof. exact sibling_table_found. Qed.
Print Assumptions c06_module_sibling_table_found.

(* the referring table in a CHILD module of the one that holds the target: found in the parent (needs the parent walk, 7f02b48) *)
Theorem c06_module_parent_table_found : forall c mods sc m n id x,
  cfg_parent_walk c = true ->
  (forall y, mlookup mods sc ([m; n] ++ fst id, snd id) <> [y]) -> mlookup mods sc ([m] ++ fst id, snd id) = [x] ->
  found_at c mods sc [m; n] id = Some [m].
Proof. exact parent_table_found. Qed.
Print Assumptions c06_module_parent_table_found.

Theorem c06_let_table_body_independent_of_caller : forall c mods sc decl_path caller1 caller2 id,
  body_ref c mods sc DLetTable decl_path caller1 id = body_ref c mods sc DLetTable decl_path caller2 id.
Proof. exact let_table_body_independent_of_caller. Qed.
Print Assumptions c06_let_table_body_independent_of_caller.

(* FULL statement for functions -- "a function body means the same wherever the function is called from" -- is FALSE (F60b):
   `module m { let f2 = .. ; let f1 = y -> (f2 y) }`, f1 called from the root: declared in m, `f2` is the sibling function; at the
   call site it is an inferred column of a wildcard table, an unknown name in a closed frame, ambiguous after a join of two
   wildcard tables -- the three compile errors of finding F60b.  Holds (partial) for names no enclosing module declares, e.g. the
   absolute path `m.f2`. *)
Definition f60b_cfg : cfg := mkCfg true true true true.
Definition f60b_m : str := [109%N].
Definition f60b_f1 : str := [102%N; 49%N].
Definition f60b_f2 : str := [102%N; 50%N].
Definition f60b_mods : list (list str * nkind) := [([f60b_m; f60b_f2], NFunc); ([f60b_m; f60b_f1], NFunc)].
Definition f60b_scope (this : Scope.frame) : scope := Scope.mkScope [(s_std_name, NModule); (s_db_name, NModule); (f60b_m, NModule)] this None [] [].
Definition f60b_wild (n : str) : Scope.input := Scope.mkInput n [] true.

Theorem c06_function_body_resolved_at_call_site_refuted :
  (* where it is declared: the sibling function *)
  body_ref f60b_cfg f60b_mods (f60b_scope (Scope.mkFrame [f60b_wild [116%N]] [])) DLetTable [f60b_m] [] ([], f60b_f2) = RBound (CRoot NFunc) /\
  (* where it is called: `expected a function, but found this.t.f2` / `Unknown name f2` / `Ambiguous name` *)
  (exists i, body_ref f60b_cfg f60b_mods (f60b_scope (Scope.mkFrame [f60b_wild [116%N]] [])) DFunction [f60b_m] [] ([], f60b_f2) = RInferred i) /\
  body_ref f60b_cfg f60b_mods (f60b_scope (Scope.mkFrame [] [[97%N]])) DFunction [f60b_m] [] ([], f60b_f2) = RErr EUnknown /\
  body_ref f60b_cfg f60b_mods (f60b_scope (Scope.mkFrame [f60b_wild [116%N]; f60b_wild [117%N]] [])) DFunction [f60b_m] [] ([], f60b_f2) = RErr EAmbiguous.
Proof. vm_compute. repeat split; try reflexivity. eexists; reflexivity. Qed.
Print Assumptions c06_function_body_resolved_at_call_site_refuted.

Theorem c06_function_body_place_irrelevant_partial : forall c mods sc k decl_path caller_path id,
  (forall p, In p (walk c decl_path) -> exists e, resolve_core_m mods sc (p ++ fst id, snd id) = RErr e) ->
  (forall p, In p (walk c caller_path) -> exists e, resolve_core_m mods sc (p ++ fst id, snd id) = RErr e) ->
  body_ref c mods sc k decl_path caller_path id = body_ref c mods sc DLetTable decl_path caller_path id.
Proof. exact body_ref_place_irrelevant_partial. Qed.
Print Assumptions c06_function_body_place_irrelevant_partial.

(* the workaround: the absolute path `m.f2` in the body means the sibling from the root too *)
Example c06_ex_absolute_path_in_body :
  body_ref f60b_cfg f60b_mods (f60b_scope (Scope.mkFrame [f60b_wild [116%N]] [])) DFunction [f60b_m] [] ([f60b_m], f60b_f2) = RBound (CRoot NFunc).
Proof. vm_compute. reflexivity. Qed.

(* C06 -- refactorings PRQL defines as equivalent do not change results.  (statements only) *)
From Coq Require Import List ZArith QArith NArith Bool.
From PV Require Import Model.Rel.
Import ListNotations.

Theorem c06_let_prefix_sound : forall (base : rel) (p rest : list transform),
  run base (p ++ rest) = run (run base p) rest.
Proof. intros. unfold run. apply fold_left_app. Qed.
Print Assumptions c06_let_prefix_sound.

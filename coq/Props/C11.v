(* C11 -- compilation is a pure function of source tree and options.
   Only statements here.  Models: Model/Globals.v (process-global state machine), Model/Perm.v (what is done
   with hash-map iterations), Model/PermSites.v (the modelled / allow-listed inventory);
   proofs: Proofs/GlobalsProofs.v, Proofs/PermProofs.v.  Gen/GenState.v (inventory of statics, once-cells,
   locks, env reads, clocks, randomness and HashMap/HashSet iterations in prqlc and prqlc-parser) is
   regenerated from /repo on every run.

   PARTIAL: real hash seeds and OS thread schedules are sampled by the harness; the theorems cover
   schedule- and history-independence of the modelled state machine and permutation-invariance of the
   modelled iteration patterns. *)
From Coq Require Import List NArith Bool Arith Permutation.
From PV Require Import Lib.ListX Model.Globals Model.Perm Model.PermSites.
From PV Require Import Proofs.GlobalsProofs Proofs.PermProofs.
From PV Require Import Gen.GenState.
Import ListNotations.

(* ---- inventory obligations on what the source says now ---- *)
Theorem c11_inventory_covered : inventory_covered GenState.rows = true.
Proof. vm_compute. reflexivity. Qed.
Print Assumptions c11_inventory_covered.

Theorem c11_inventory_current : inventory_current GenState.rows = true.
Proof. vm_compute. reflexivity. Qed.
Print Assumptions c11_inventory_current.

(* ---- process-global state: schedules and histories ----
   Since the repair 2f50a3c (LogSuppressLock::drop saturates instead of underflowing) no step of the machine can panic
   on or poison CURRENT_LOG -- EXCEPT an `entry` closure that panics inside debug::log_entry, which runs it under the write
   lock (step SLogEntryPanics).  The statements below hold for ARBITRARY thread programs (compilations and calls of the
   debug API mixed, any number of threads, any schedule) under the one standing assumption `safe_progs`: no entry
   closure panics (the inventory rows `..:log_entry(closure)..` list what each of the ten closures does).  What happens
   without it is c11_panicking_entry_closure_poisons_for_good; when it cannot matter, c11_no_log_no_closure_call. *)
Definition compile_only (p : list step) : Prop := forallb compile_step p = true.
Definition closures_safe (p : list step) : Prop := forallb closure_safe p = true.

(* whatever N threads do concurrently under whatever schedule, a thread that completes has read from the globals
   exactly what it reads when it runs alone in a fresh process *)
Theorem c11_interleaving_independent : forall (cell_init : cell -> N) (env : N) progs sched i p t,
  safe_progs progs ->
  nth_error progs i = Some p ->
  nth_error (snd (run cell_init env g_init (map spawn progs) sched)) i = Some t -> finished t = true ->
  forall t1, nth_error (snd (run cell_init env g_init [spawn p] (repeat 0 (length p)))) 0 = Some t1 -> finished t1 = true ->
  t_reads t = t_reads t1.
Proof. exact interleaving_independent. Qed.
Print Assumptions c11_interleaving_independent.

(* ... and the run-alone reference really completes (the statement above is not vacuous) *)
Theorem c11_alone_finishes : forall (cell_init : cell -> N) (env : N) p, closures_safe p ->
  exists t1, nth_error (snd (run cell_init env g_init [spawn p] (repeat 0 (length p)))) 0 = Some t1 /\ finished t1 = true.
Proof. exact alone_finishes. Qed.
Print Assumptions c11_alone_finishes.

(* no step can panic on, or poison, the log lock *)
Theorem c11_compile_never_poisons : forall (cell_init : cell -> N) (env : N) g progs sched,
  GInv cell_init g -> safe_progs progs ->
  g_poisoned (fst (run cell_init env g (map spawn progs) sched)) = false /\
  forall i t, nth_error (snd (run cell_init env g (map spawn progs) sched)) i = Some t -> t_panicked t = false.
Proof. intros ci env g progs sched HG Hs. split; [apply never_poisons; assumption | apply never_panics; assumption]. Qed.
Print Assumptions c11_compile_never_poisons.

(* after any history (threads of any kind; complete, failed or cut short by a panic of the compiler proper;
   sequential or concurrent) a compilation reads the same constants as in a fresh process *)
Theorem c11_history_independent : forall (cell_init : cell -> N) (env : N) hist hsched p sched t,
  safe_progs hist -> closures_safe p ->
  let g := fst (run cell_init env g_init (map spawn hist) hsched) in
  nth_error (snd (run cell_init env g [spawn p] sched)) 0 = Some t -> finished t = true ->
  t_reads t = expected_reads cell_init env p.
Proof. exact history_independent. Qed.
Print Assumptions c11_history_independent.

(* histories of batches of threads with debug-API calls between the batches (F10h, fixed by 9396557) *)
Theorem c11_history_with_log_api_independent : forall (cell_init : cell -> N) (env : N) hist p sched t,
  Forall hitem_safe hist -> closures_safe p ->
  let g := fold_left (hstep cell_init env) hist g_init in
  nth_error (snd (run cell_init env g [spawn p] sched)) 0 = Some t -> finished t = true ->
  t_reads t = expected_reads cell_init env p /\ t_panicked t = false.
Proof. exact history_with_api_independent. Qed.
Print Assumptions c11_history_with_log_api_independent.

(* The debug API used CONCURRENTLY with compilations -- the statement that was false while F10j was open
   (`c11_concurrent_log_restart_refuted`), now at full strength: after any history, with any threads in any
   interleaving, the lock is not poisoned, nobody panics, and every thread that completes has read the constants. *)
Theorem c11_concurrent_log_api_independent : forall (cell_init : cell -> N) (env : N) hist progs sched,
  Forall hitem_safe hist -> safe_progs progs ->
  let g := fold_left (hstep cell_init env) hist g_init in
  g_poisoned (fst (run cell_init env g (map spawn progs) sched)) = false /\
  forall i p t, nth_error progs i = Some p -> nth_error (snd (run cell_init env g (map spawn progs) sched)) i = Some t ->
    t_panicked t = false /\ (finished t = true -> t_reads t = expected_reads cell_init env p).
Proof. exact concurrent_api_independent. Qed.
Print Assumptions c11_concurrent_log_api_independent.

(* Generated names (`table_N`, `_expr_N`; NameGenerator / IdGenerator of utils/id_gen.rs): the generators are owned by the
   call (AnchorContext, Lowerer, Resolver) -- the inventory has no static, atomic or thread_local row --, so the k-th name a
   call generates is k: after ANY history, among ANY other threads (compiling or using the debug API), under ANY schedule.
   Tie: stream generated-names compares the hook lines of every call (attributed exactly by harness/src/bin/c11names.rs) with
   the lines the same request produces alone in a fresh process. *)
Theorem c11_generated_names_per_call : forall (cell_init : cell -> N) (env : N) hist progs sched i p t,
  Forall hitem_safe hist -> safe_progs progs ->
  let g := fold_left (hstep cell_init env) hist g_init in
  forallb reads_nothing_else p = true ->
  nth_error progs i = Some p -> nth_error (snd (run cell_init env g (map spawn progs) sched)) i = Some t -> finished t = true ->
  t_reads t = map N.of_nat (seq 0 (length (filter is_gen p))).
Proof. exact generated_names_per_call. Qed.
Print Assumptions c11_generated_names_per_call.

(* ---- the assumption dropped: an entry closure that panics ----
   Full statement (FALSE): forall progs sched, [no thread panics and the lock is not poisoned], without `safe_progs`.
   With a debug log active, one panicking closure unwinds through the write guard: CURRENT_LOG is poisoned, and since
   log_start only takes the guard out of the poisoned lock (into_inner) the state is NOT restored -- every later log call
   of every later compilation panics.  Thread 0 starts the log (and restarts it afterwards), thread 1 is the call whose
   closure panics, thread 2 an innocent compilation. *)
Theorem c11_panicking_entry_closure_poisons_for_good : forall (cell_init : cell -> N) (env : N),
  exists progs sched,
    let r := run cell_init env g_init (map spawn progs) sched in
    g_poisoned (fst r) = true
    /\ option_map t_panicked (nth_error (snd r) 1) = Some true
    /\ option_map t_panicked (nth_error (snd r) 2) = Some true
    /\ forallb compile_step (nth 2 progs []) = true /\ forallb closure_safe (nth 2 progs []) = true.
Proof. exact panicking_closure_poisons_for_good. Qed.
Print Assumptions c11_panicking_entry_closure_poisons_for_good.

(* the partial statement: while no log is active (every use of the library without debug::log_start) or while it is
   suppressed, the closure is not even called *)
Theorem c11_no_log_no_closure_call : forall (cell_init : cell -> N) (env : N) g held,
  g_poisoned g = false ->
  (g_log g = None \/ exists es n, g_log g = Some (es, S n)) ->
  gstep cell_init env g held SLogEntryPanics = (g, ONone, held).
Proof.
  intros ci env g held Hp [Hl|[es [n Hl]]]; [apply no_log_no_closure_call | eapply suppressed_no_closure_call]; eassumption.
Qed.
Print Assumptions c11_no_log_no_closure_call.

(* two calls generating names concurrently with a third thread restarting the log: each reads 0, 1 (resp. 0, 1, 2) *)
Example c11_ex_names_two_threads :
  let ci := fun _ : cell => 7%N in
  let r := run ci 0%N g_init (map spawn [[SGenName; SLogEntry 1%N; SGenName]; [SLogFinish; SLogStart]; [SGenName; SGenName; SSuppressInc; SGenName; SSuppressDec]])
               [2; 0; 1; 2; 2; 1; 0; 2; 0; 2]%nat in
  option_map t_reads (nth_error (snd r) 0) = Some [0%N; 1%N] /\ option_map t_reads (nth_error (snd r) 2) = Some [0%N; 1%N; 2%N].
Proof. vm_compute. auto. Qed.

(* the schedule that refuted the statement before 2f50a3c (thread 0 starts a log, thread 1 is the compilation --
   load_std_lib: suppress; ...; drop; log entry --, thread 2 restarts the log in between): the compilation completes *)
Example c11_ex_former_f10j_schedule :
  let ci := fun _ : cell => 0%N in
  let r := run ci 0%N g_init (map spawn [[SLogStart]; [SSuppressInc; SGetOrInit CStd; SSuppressDec; SLogEntry 0%N]; [SLogFinish; SLogStart]])
               [0; 1; 2; 2; 1; 1; 1]%nat in
  g_poisoned (fst r) = false /\ option_map finished (nth_error (snd r) 1) = Some true
  /\ option_map t_reads (nth_error (snd r) 1) = Some [0%N].
Proof. vm_compute. auto. Qed.

(* ---- hash-map iteration: generic pattern lemmas ---- *)
Theorem c11_perm_invariant_sort : forall (A : Type) (leb : A -> A -> bool),
  (forall x y, leb x y = true \/ leb y x = true) ->
  (forall x y z, leb x y = true -> leb y z = true -> leb x z = true) ->
  forall l l', (forall x y, In x l -> In y l -> leb x y = true -> leb y x = true -> x = y) ->
  Permutation l l' -> isort A leb l = isort A leb l'.
Proof. exact perm_invariant_sort. Qed.
Print Assumptions c11_perm_invariant_sort.

Theorem c11_perm_invariant_sort_by_key : forall (V : Type) (l l' : list (nat * V)),
  NoDup (map fst l) -> Permutation l l' -> isort _ (key_leb V) l = isort _ (key_leb V) l'.
Proof. exact perm_invariant_sort_by_key. Qed.
Print Assumptions c11_perm_invariant_sort_by_key.

Theorem c11_perm_invariant_lookup : forall (V : Type) k (l l' : list (nat * V)),
  NoDup (map fst l) -> Permutation l l' -> lookup_last k l = lookup_last k l'.
Proof. exact perm_invariant_lookup. Qed.
Print Assumptions c11_perm_invariant_lookup.

Theorem c11_perm_invariant_map_values : forall (V W : Type) (g : V -> W) l l',
  Permutation l l' -> Permutation (map_values g l) (map_values g l').
Proof. exact perm_invariant_map_values. Qed.
Print Assumptions c11_perm_invariant_map_values.

Theorem c11_perm_invariant_find_unique : forall (A : Type) (p : A -> bool) l l',
  (forall x y, In x l -> In y l -> p x = true -> p y = true -> x = y) ->
  Permutation l l' -> find_first A p l = find_first A p l'.
Proof. exact perm_invariant_find_unique. Qed.
Print Assumptions c11_perm_invariant_find_unique.

Theorem c11_perm_invariant_at_most_one : forall (A B : Type) (f : list A -> B) l l',
  (length l <= 1)%nat -> Permutation l l' -> f l = f l'.
Proof. exact perm_invariant_at_most_one. Qed.
Print Assumptions c11_perm_invariant_at_most_one.

Theorem c11_perm_invariant_all_any_len_max :
  (forall (A : Type) (p : A -> bool) l l', Permutation l l' -> all_of A p l = all_of A p l') /\
  (forall (A : Type) (p : A -> bool) l l', Permutation l l' -> any_of A p l = any_of A p l') /\
  (forall (A : Type) (l l' : list A), Permutation l l' -> length l = length l') /\
  (forall l l', Permutation l l' -> max_of l = max_of l') /\
  (forall x l l', Permutation l l' -> find_value x l = find_value x l').
Proof.
  repeat split; [exact perm_invariant_all | exact perm_invariant_any | exact perm_invariant_len
                | exact perm_invariant_max | exact perm_invariant_find_value].
Qed.
Print Assumptions c11_perm_invariant_all_any_len_max.

Theorem c11_perm_invariant_min : forall l l', Permutation l l' -> min_of l = min_of l'.
Proof. exact perm_invariant_min. Qed.
Print Assumptions c11_perm_invariant_min.

(* ---- the sites named by the property ---- *)

(* semantic/lowering.rs toposort_tables: (ident, deps) pairs pushed in iteration order, then sort_by(ident);
   idents are the keys of a HashMap, hence distinct.  The toposort itself is a function of the sorted Vec. *)
Theorem c11_perm_invariant_toposort_tables : forall (Deps R : Type) (toposort : list (nat * Deps) -> R) l l',
  NoDup (map fst l) -> Permutation l l' ->
  toposort (isort _ (key_leb Deps) l) = toposort (isort _ (key_leb Deps) l').
Proof. intros Deps R toposort l l' Hnd HP. f_equal. apply perm_invariant_sort_by_key; assumption. Qed.
Print Assumptions c11_perm_invariant_toposort_tables.

(* semantic/resolver/names.rs resolve_ident + ambiguous_error on the HashSet returned by Module::lookup:
   0 -> fall through, 1 -> that element, more -> error listing the sorted names *)
Theorem c11_perm_invariant_lookup_result : forall (A B : Type) (leb : A -> A -> bool),
  (forall x y, leb x y = true \/ leb y x = true) ->
  (forall x y z, leb x y = true -> leb y z = true -> leb x z = true) ->
  forall (r0 : B) (r1 : A -> B) (rn : list A -> B) l l',
  (forall x y, In x l -> In y l -> leb x y = true -> leb y x = true -> x = y) ->
  Permutation l l' -> by_len A leb r0 r1 rn l = by_len A leb r0 r1 rn l'.
Proof. intros A B leb Ht Htr r0 r1 rn l l'. apply perm_invariant_by_len; assumption. Qed.
Print Assumptions c11_perm_invariant_lookup_result.

(* parser.rs linearize_tree: non-root files sorted by module path (distinct paths) *)
Theorem c11_perm_invariant_linearize_tree : forall (Content : Type) (l l' : list (nat * Content)),
  NoDup (map fst l) -> Permutation l l' -> isort _ (key_leb Content) l = isort _ (key_leb Content) l'.
Proof. exact perm_invariant_sort_by_key. Qed.
Print Assumptions c11_perm_invariant_linearize_tree.

(* ---- the sites repaired by 9396557 (were F10, F10b..F10g, F10i): full-strength statements ---- *)

(* resolver/functions.rs apply_args_to_closure: named_args.into_keys().min() -- the first element of the sorted names *)
Theorem c11_perm_invariant_apply_args_to_closure : forall (A : Type) (leb : A -> A -> bool),
  (forall x y, leb x y = true \/ leb y x = true) ->
  (forall x y z, leb x y = true -> leb y z = true -> leb x z = true) ->
  forall l l', (forall x y, In x l -> In y l -> leb x y = true -> leb y x = true -> x = y) ->
  Permutation l l' -> head_of A (isort A leb l) = head_of A (isort A leb l').
Proof. intros A leb Ht Htr l l' Ha HP. f_equal. apply perm_invariant_sort; assumption. Qed.
Print Assumptions c11_perm_invariant_apply_args_to_closure.

(* parser/stmt.rs query_def: args.keys().sorted().map(fmt).join(", ") *)
Theorem c11_perm_invariant_text_of_sorted : forall (A B : Type) (leb : A -> A -> bool) (fmt : A -> list B),
  (forall x y, leb x y = true \/ leb y x = true) ->
  (forall x y z, leb x y = true -> leb y z = true -> leb x z = true) ->
  forall l l', (forall x y, In x l -> In y l -> leb x y = true -> leb y x = true -> x = y) ->
  Permutation l l' -> concat_in_order A fmt (isort A leb l) = concat_in_order A fmt (isort A leb l').
Proof. intros A B leb fmt Ht Htr l l' Ha HP. f_equal. apply perm_invariant_sort; assumption. Qed.
Print Assumptions c11_perm_invariant_text_of_sorted.

(* codegen/ast.rs: named arguments (distinct names) sorted by name, then printed *)
Theorem c11_perm_invariant_text_of_sorted_by_key : forall (V B : Type) (fmt : nat * V -> list B) l l',
  NoDup (map fst l) -> Permutation l l' ->
  concat_in_order _ fmt (isort _ (key_leb V) l) = concat_in_order _ fmt (isort _ (key_leb V) l').
Proof. intros V B fmt l l'. apply (perm_invariant_after_sort_by_key (concat_in_order _ fmt)). Qed.
Print Assumptions c11_perm_invariant_text_of_sorted_by_key.

(* semantic/ast_expand.rs: .sorted_by(name).map(expand).try_collect() *)
Theorem c11_perm_invariant_named_args_first_error : forall (V E : Type) (f : nat * V -> option E) l l',
  NoDup (map fst l) -> Permutation l l' ->
  first_error _ f (isort _ (key_leb V) l) = first_error _ f (isort _ (key_leb V) l').
Proof. intros V E f l l'. apply (perm_invariant_after_sort_by_key (first_error _ f)). Qed.
Print Assumptions c11_perm_invariant_named_args_first_error.

(* sql/pq/postprocess.rs alias_last_sorting: column declarations (distinct ids) sorted by id, then the
   (referenced column -> alias) map is collected; repeated referenced columns are resolved by that fixed order *)
Theorem c11_perm_invariant_alias_last_sorting : forall k (l l' : list (nat * (nat * nat))),
  NoDup (map fst l) -> Permutation l l' ->
  lookup_last k (map snd (isort _ (key_leb _) l)) = lookup_last k (map snd (isort _ (key_leb _) l')).
Proof. intros k l l'. apply (perm_invariant_after_sort_by_key (fun s => lookup_last k (map snd s))). Qed.
Print Assumptions c11_perm_invariant_alias_last_sorting.

(* postprocess.rs: relation_instances.iter_mut().filter(source == cte.tid).min_by_key(riid) *)
Theorem c11_perm_invariant_cte_instance : forall (V : Type) (p : nat * V -> bool) l l',
  NoDup (map fst l) -> Permutation l l' ->
  hd_error (isort _ (key_leb V) (filter p l)) = hd_error (isort _ (key_leb V) (filter p l')).
Proof. exact @perm_invariant_filter_min_by_key. Qed.
Print Assumptions c11_perm_invariant_cte_instance.

(* parser.rs linearize_tree: sources.keys().sorted().find(starts_with_uppercase) *)
Theorem c11_perm_invariant_root_choice : forall (A : Type) (leb : A -> A -> bool) (p : A -> bool),
  (forall x y, leb x y = true \/ leb y x = true) ->
  (forall x y z, leb x y = true -> leb y z = true -> leb x z = true) ->
  forall l l', (forall x y, In x l -> In y l -> leb x y = true -> leb y x = true -> x = y) ->
  Permutation l l' -> find_first A p (isort A leb l) = find_first A p (isort A leb l').
Proof. intros A leb p Ht Htr l l' Ha HP. f_equal. apply perm_invariant_sort; assumption. Qed.
Print Assumptions c11_perm_invariant_root_choice.

(* resolver/names.rs collect_columns_in_module: sorted_by((order, ident)) -- a total order, antisymmetric on the
   (distinct) declarations of one module: an instance of c11_perm_invariant_sort *)
Theorem c11_perm_invariant_available_columns : forall (A : Type) (leb : A -> A -> bool),
  (forall x y, leb x y = true \/ leb y x = true) ->
  (forall x y z, leb x y = true -> leb y z = true -> leb x z = true) ->
  forall l l', (forall x y, In x l -> In y l -> leb x y = true -> leb y x = true -> x = y) ->
  Permutation l l' -> isort A leb l = isort A leb l'.
Proof. exact perm_invariant_sort. Qed.
Print Assumptions c11_perm_invariant_available_columns.

(* ---- repaired by 987d30b (was F10k) ----
   resolver/expr.rs construct_tuple_from_module (`this.*`, `t.*`, `this`): the declarations of a module sorted by
   (order, name).  Names are the keys of the map, hence distinct: the order is total and antisymmetric on the entries,
   whatever the `order` values are (an input sub-module and a directly declared column do share one). *)
Theorem c11_perm_invariant_this_wildcard : forall (V : Type) (l l' : list (nat * nat * V)),
  NoDup (map (fun e => snd (fst e)) l) -> Permutation l l' ->
  isort _ (@order_name_leb V) l = isort _ (@order_name_leb V) l'.
Proof. exact perm_invariant_sort_by_order_name. Qed.
Print Assumptions c11_perm_invariant_this_wildcard.

(* ---- LIBRARY LEMMAS (describe no reachable site of the current tree): the order-sensitive operations really are
   order-sensitive, i.e. the sorts / minima introduced by the repair are needed.  first_error is still the shape of
   ir/pl/fold.rs fold_func_call (latent), sort-by-shared-key that of construct_tuple_from_module before 987d30b (an
   input sub-module and a direct column sharing an `order`: F10k). ---- *)
Theorem c11_lib_head_of_order_dependent : exists l l' : list nat, Permutation l l' /\ head_of nat l <> head_of nat l'.
Proof. exact head_of_refuted. Qed.
Print Assumptions c11_lib_head_of_order_dependent.

Theorem c11_lib_concat_in_order_order_dependent :
  exists l l' : list nat, Permutation l l' /\ concat_in_order nat (fun x => [x]) l <> concat_in_order nat (fun x => [x]) l'.
Proof. exact concat_in_order_refuted. Qed.
Print Assumptions c11_lib_concat_in_order_order_dependent.

Theorem c11_lib_first_error_order_dependent :
  exists l l' : list nat, Permutation l l' /\ first_error nat (fun x => Some x) l <> first_error nat (fun x => Some x) l'.
Proof. exact first_error_refuted. Qed.
Print Assumptions c11_lib_first_error_order_dependent.

Theorem c11_lib_lookup_last_order_dependent :
  exists l l' : list (nat * nat), Permutation l l' /\ lookup_last 0 l <> lookup_last 0 l'.
Proof. exact lookup_last_refuted. Qed.
Print Assumptions c11_lib_lookup_last_order_dependent.

Theorem c11_lib_find_first_order_dependent :
  exists l l' : list nat, Permutation l l' /\ find_first nat (fun _ => true) l <> find_first nat (fun _ => true) l'.
Proof. exact find_first_refuted. Qed.
Print Assumptions c11_lib_find_first_order_dependent.

Theorem c11_lib_sort_by_shared_key_order_dependent :
  exists l l' : list (nat * nat), Permutation l l' /\ isort _ (key_leb nat) l <> isort _ (key_leb nat) l'.
Proof. exact sort_by_key_dup_refuted. Qed.
Print Assumptions c11_lib_sort_by_shared_key_order_dependent.

(* non-vacuity *)
(* `from t | join u (==id) | select {d = 1, t.a, u.b} | select {this.*}`: sub-module t (order 0), column d (order 1),
   sub-module u (order 1) -- the tie of d and u is broken by name in either iteration order *)
Example c11_ex_this_wildcard_tie :
  isort _ (@order_name_leb nat) [((1, 21), 0); ((0, 20), 1); ((1, 4), 2)] = [((0, 20), 1); ((1, 4), 2); ((1, 21), 0)]
  /\ isort _ (@order_name_leb nat) [((1, 4), 2); ((1, 21), 0); ((0, 20), 1)] = [((0, 20), 1); ((1, 4), 2); ((1, 21), 0)].
Proof. vm_compute. auto. Qed.

Example c11_ex_sort : isort _ (key_leb nat) [(2, 0); (1, 5); (3, 7)] = isort _ (key_leb nat) [(3, 7); (2, 0); (1, 5)].
Proof. vm_compute. reflexivity. Qed.

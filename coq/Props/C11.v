(* C11 -- compilation is a pure function of source tree and options.
   Only statements here.  Models: Model/Globals.v (process-global state machine), Model/Perm.v (what is done
   with hash-map iterations), Model/PermSites.v (the modelled / allow-listed inventory);
   proofs: Proofs/GlobalsProofs.v, Proofs/PermProofs.v.  Gen/GenState.v (inventory of statics, once-cells,
   locks, env reads, clocks, randomness and HashMap/HashSet iterations in prqlc and prqlc-parser) is
   regenerated from /repo on every run.

   PARTIAL: real hash seeds and OS thread schedules are sampled by the harness; the theorems cover
   schedule- and history-independence of the modelled state machine and permutation-invariance of the
   modelled iteration patterns. *)
From Coq Require Import List NArith Bool Arith Permutation.
From PV Require Import Lib.ListX Model.Globals Model.Perm Model.PermSites.
From PV Require Import Proofs.GlobalsProofs Proofs.PermProofs.
From PV Require Import Gen.GenState.
Import ListNotations.

(* ---- inventory obligations on what the source says now ---- *)
Theorem c11_inventory_covered : inventory_covered GenState.rows = true.
Proof. vm_compute. reflexivity. Qed.
Print Assumptions c11_inventory_covered.

Theorem c11_inventory_current : inventory_current GenState.rows = true.
Proof. vm_compute. reflexivity. Qed.
Print Assumptions c11_inventory_current.

(* ---- process-global state: schedules and histories ---- *)
Definition compile_only (p : list step) : Prop := forallb compile_step p = true.

(* whatever N compilations run concurrently under whatever schedule, a compilation that completes has read
   from the globals exactly what it reads when it runs alone in a fresh process *)
Theorem c11_interleaving_independent : forall (cell_init : cell -> N) (env : N) progs sched i p t,
  Forall compile_only progs ->
  nth_error progs i = Some p ->
  nth_error (snd (run cell_init env g_init (map spawn progs) sched)) i = Some t -> finished t = true ->
  forall t1, nth_error (snd (run cell_init env g_init [spawn p] (repeat 0 (length p)))) 0 = Some t1 -> finished t1 = true ->
  t_reads t = t_reads t1.
Proof. exact interleaving_independent. Qed.
Print Assumptions c11_interleaving_independent.

(* ... and no compile step can panic on, or poison, the log lock *)
Theorem c11_compile_never_poisons : forall (cell_init : cell -> N) (env : N) g progs sched,
  GInv cell_init g -> Forall compile_only progs ->
  forall i t, nth_error (snd (run cell_init env g (map spawn progs) sched)) i = Some t -> t_panicked t = false.
Proof. exact never_panics. Qed.
Print Assumptions c11_compile_never_poisons.

(* after any history of compilations (complete, failed or cut short by a panic; sequential or concurrent) a
   compilation reads the same constants as in a fresh process *)
Theorem c11_history_independent : forall (cell_init : cell -> N) (env : N) hist hsched p sched t,
  Forall compile_only hist -> compile_only p ->
  let g := fst (run cell_init env g_init (map spawn hist) hsched) in
  nth_error (snd (run cell_init env g [spawn p] sched)) 0 = Some t -> finished t = true ->
  t_reads t = expected_reads cell_init env p.
Proof. exact history_independent. Qed.
Print Assumptions c11_history_independent.

(* Full statement including the debug API (false, F10h): histories may also call debug::log_start / log_finish.
   Refuted: log_start while a log is active panics under the write lock; the poisoned lock makes every later
   compilation panic at its first log call. *)
Theorem c11_history_with_log_api_refuted :
  exists hist p, compile_only p /\
    let ci := fun _ : cell => 0%N in
    let g := fst (run ci 0%N g_init [spawn hist] (repeat 0 (length hist))) in
    exists t, nth_error (snd (run ci 0%N g [spawn p] (repeat 0 (length p)))) 0 = Some t /\ t_panicked t = true.
Proof.
  exists [SLogStart; SLogStart], [SLogEntry 0%N; SGetOrInit CStd]. split; [reflexivity|].
  eexists. split; vm_compute; reflexivity.
Qed.
Print Assumptions c11_history_with_log_api_refuted.

(* ---- hash-map iteration: generic pattern lemmas ---- *)
Theorem c11_perm_invariant_sort : forall (A : Type) (leb : A -> A -> bool),
  (forall x y, leb x y = true \/ leb y x = true) ->
  (forall x y z, leb x y = true -> leb y z = true -> leb x z = true) ->
  forall l l', (forall x y, In x l -> In y l -> leb x y = true -> leb y x = true -> x = y) ->
  Permutation l l' -> isort A leb l = isort A leb l'.
Proof. exact perm_invariant_sort. Qed.
Print Assumptions c11_perm_invariant_sort.

Theorem c11_perm_invariant_sort_by_key : forall (V : Type) (l l' : list (nat * V)),
  NoDup (map fst l) -> Permutation l l' -> isort _ (key_leb V) l = isort _ (key_leb V) l'.
Proof. exact perm_invariant_sort_by_key. Qed.
Print Assumptions c11_perm_invariant_sort_by_key.

Theorem c11_perm_invariant_lookup : forall (V : Type) k (l l' : list (nat * V)),
  NoDup (map fst l) -> Permutation l l' -> lookup_last k l = lookup_last k l'.
Proof. exact perm_invariant_lookup. Qed.
Print Assumptions c11_perm_invariant_lookup.

Theorem c11_perm_invariant_map_values : forall (V W : Type) (g : V -> W) l l',
  Permutation l l' -> Permutation (map_values g l) (map_values g l').
Proof. exact perm_invariant_map_values. Qed.
Print Assumptions c11_perm_invariant_map_values.

Theorem c11_perm_invariant_find_unique : forall (A : Type) (p : A -> bool) l l',
  (forall x y, In x l -> In y l -> p x = true -> p y = true -> x = y) ->
  Permutation l l' -> find_first A p l = find_first A p l'.
Proof. exact perm_invariant_find_unique. Qed.
Print Assumptions c11_perm_invariant_find_unique.

Theorem c11_perm_invariant_at_most_one : forall (A B : Type) (f : list A -> B) l l',
  (length l <= 1)%nat -> Permutation l l' -> f l = f l'.
Proof. exact perm_invariant_at_most_one. Qed.
Print Assumptions c11_perm_invariant_at_most_one.

Theorem c11_perm_invariant_all_any_len_max :
  (forall (A : Type) (p : A -> bool) l l', Permutation l l' -> all_of A p l = all_of A p l') /\
  (forall (A : Type) (p : A -> bool) l l', Permutation l l' -> any_of A p l = any_of A p l') /\
  (forall (A : Type) (l l' : list A), Permutation l l' -> length l = length l') /\
  (forall l l', Permutation l l' -> max_of l = max_of l') /\
  (forall x l l', Permutation l l' -> find_value x l = find_value x l').
Proof.
  repeat split; [exact perm_invariant_all | exact perm_invariant_any | exact perm_invariant_len
                | exact perm_invariant_max | exact perm_invariant_find_value].
Qed.
Print Assumptions c11_perm_invariant_all_any_len_max.

(* ---- the sites named by the property ---- *)

(* semantic/lowering.rs toposort_tables: (ident, deps) pairs pushed in iteration order, then sort_by(ident);
   idents are the keys of a HashMap, hence distinct.  The toposort itself is a function of the sorted Vec. *)
Theorem c11_perm_invariant_toposort_tables : forall (Deps R : Type) (toposort : list (nat * Deps) -> R) l l',
  NoDup (map fst l) -> Permutation l l' ->
  toposort (isort _ (key_leb Deps) l) = toposort (isort _ (key_leb Deps) l').
Proof. intros Deps R toposort l l' Hnd HP. f_equal. apply perm_invariant_sort_by_key; assumption. Qed.
Print Assumptions c11_perm_invariant_toposort_tables.

(* semantic/resolver/names.rs resolve_ident + ambiguous_error on the HashSet returned by Module::lookup:
   0 -> fall through, 1 -> that element, more -> error listing the sorted names *)
Theorem c11_perm_invariant_lookup_result : forall (A B : Type) (leb : A -> A -> bool),
  (forall x y, leb x y = true \/ leb y x = true) ->
  (forall x y z, leb x y = true -> leb y z = true -> leb x z = true) ->
  forall (r0 : B) (r1 : A -> B) (rn : list A -> B) l l',
  (forall x y, In x l -> In y l -> leb x y = true -> leb y x = true -> x = y) ->
  Permutation l l' -> by_len A leb r0 r1 rn l = by_len A leb r0 r1 rn l'.
Proof. intros A B leb Ht Htr r0 r1 rn l l'. apply perm_invariant_by_len; assumption. Qed.
Print Assumptions c11_perm_invariant_lookup_result.

(* parser.rs linearize_tree: non-root files sorted by module path (distinct paths) *)
Theorem c11_perm_invariant_linearize_tree : forall (Content : Type) (l l' : list (nat * Content)),
  NoDup (map fst l) -> Permutation l l' -> isort _ (key_leb Content) l = isort _ (key_leb Content) l'.
Proof. exact perm_invariant_sort_by_key. Qed.
Print Assumptions c11_perm_invariant_linearize_tree.

(* Full statement (false): forall site f, Permutation l l' -> f l = f l'.  Refuted for seven sites, each with
   the partial statement "with at most one candidate the result does not depend on the order". *)

(* F10: resolver/functions.rs apply_args_to_closure: named_args.into_iter().next() *)
Theorem c11_apply_args_to_closure_refuted : exists l l' : list nat, Permutation l l' /\ head_of nat l <> head_of nat l'.
Proof. exact head_of_refuted. Qed.
Print Assumptions c11_apply_args_to_closure_refuted.
Theorem c11_apply_args_to_closure_partial : forall (A : Type) (l l' : list A),
  (length l <= 1)%nat -> Permutation l l' -> head_of A l = head_of A l'.
Proof. intros A l l'. apply (perm_invariant_at_most_one A (head_of A)). Qed.
Print Assumptions c11_apply_args_to_closure_partial.

(* F10b / F10c: parser/stmt.rs query_def (unknown header arguments) and codegen/ast.rs (named arguments):
   text produced in iteration order *)
Theorem c11_concat_in_order_refuted :
  exists l l' : list nat, Permutation l l' /\ concat_in_order nat (fun x => [x]) l <> concat_in_order nat (fun x => [x]) l'.
Proof. exact concat_in_order_refuted. Qed.
Print Assumptions c11_concat_in_order_refuted.
Theorem c11_concat_in_order_partial : forall (A B : Type) (fmt : A -> list B) (l l' : list A),
  (length l <= 1)%nat -> Permutation l l' -> concat_in_order A fmt l = concat_in_order A fmt l'.
Proof. intros A B fmt l l'. apply (perm_invariant_at_most_one A (concat_in_order A fmt)). Qed.
Print Assumptions c11_concat_in_order_partial.

(* F10e: semantic/ast_expand.rs (and ir/pl/fold.rs): try_collect over named arguments *)
Theorem c11_named_args_first_error_refuted :
  exists l l' : list nat, Permutation l l' /\ first_error nat (fun x => Some x) l <> first_error nat (fun x => Some x) l'.
Proof. exact first_error_refuted. Qed.
Print Assumptions c11_named_args_first_error_refuted.
Theorem c11_named_args_first_error_partial : forall (A E : Type) (f : A -> option E) (l l' : list A),
  (length l <= 1)%nat -> Permutation l l' -> first_error A f l = first_error A f l'.
Proof. intros A E f l l'. apply (perm_invariant_at_most_one A (first_error A f)). Qed.
Print Assumptions c11_named_args_first_error_partial.

(* F10d: sql/pq/postprocess.rs alias_last_sorting: column -> alias map collected with a repeated key *)
Theorem c11_alias_last_sorting_refuted :
  exists l l' : list (nat * nat), Permutation l l' /\ lookup_last 0 l <> lookup_last 0 l'.
Proof. exact lookup_last_refuted. Qed.
Print Assumptions c11_alias_last_sorting_refuted.
(* partial: with pairwise distinct referenced columns the alias map is order-independent *)
Theorem c11_alias_last_sorting_partial : forall k (l l' : list (nat * nat)),
  NoDup (map fst l) -> Permutation l l' -> lookup_last k l = lookup_last k l'.
Proof. intros k l l'. apply perm_invariant_lookup. Qed.
Print Assumptions c11_alias_last_sorting_partial.

(* F10f / F10g: postprocess.rs relation_instances.iter_mut().find(..) with two instances of one CTE;
   parser.rs linearize_tree sources.keys().find(starts_with_uppercase) with two candidates *)
Theorem c11_find_first_refuted :
  exists l l' : list nat, Permutation l l' /\ find_first nat (fun _ => true) l <> find_first nat (fun _ => true) l'.
Proof. exact find_first_refuted. Qed.
Print Assumptions c11_find_first_refuted.
Theorem c11_find_first_partial : forall (A : Type) (p : A -> bool) l l',
  (forall x y, In x l -> In y l -> p x = true -> p y = true -> x = y) ->
  Permutation l l' -> find_first A p l = find_first A p l'.
Proof. exact perm_invariant_find_unique. Qed.
Print Assumptions c11_find_first_partial.

(* the `distinct orders / distinct keys` side condition of the sort-by-key sites is necessary *)
Theorem c11_sort_by_key_needs_distinct_keys :
  exists l l' : list (nat * nat), Permutation l l' /\ isort _ (key_leb nat) l <> isort _ (key_leb nat) l'.
Proof. exact sort_by_key_dup_refuted. Qed.
Print Assumptions c11_sort_by_key_needs_distinct_keys.

(* non-vacuity *)
Example c11_ex_sort : isort _ (key_leb nat) [(2, 0); (1, 5); (3, 7)] = isort _ (key_leb nat) [(3, 7); (2, 0); (1, 5)].
Proof. vm_compute. reflexivity. Qed.

(* C14 -- formatting preserves the program and is idempotent.
   Statements only; proofs are in Proofs/Fmt*.v.  Tables: Gen/GenCodegen.v, regenerated from /repo on every run
   (formatter: codegen/ast.rs binding_strength / associativity / can_bind_left / keywords / identifier classes;
    parser: parser/expr.rs pratt levels and operator tokens), packaged by Model/FmtInst.v as F_prql / P_prql / I_prql.

   Scope of the theorems: expressions (operators, ranges, calls with named arguments, aliases at every position the
   parser can produce one -- bare on tuple items, pipeline elements and positional arguments, in parentheses on operands,
   range bounds, callees, named-argument values and default values --, parameters in front of `..`, pipelines in
   parentheses, tuples, arrays, case, lambdas `func p.. k:d.. -> body` without type annotations, at every position) and
   annotation expressions, at unlimited width, at token level; identifiers, strings, integers, floats at character level.
   Line breaking, statement layout and types are covered only by the differential oracle of vplib/props/c14.py. *)
From Coq Require Import List NArith ZArith Bool Arith.
From PV Require Import Lib.ListX Model.FmtLit Model.FmtPratt Model.Fmt Model.FmtTy Model.FmtStmt Model.FmtInst
  Proofs.FmtPrattProofs Proofs.FmtProofs Proofs.FmtTyProofs Proofs.FmtStmtProofs Proofs.FmtLitProofs Proofs.FmtInstProofs Gen.GenCodegen.
From PV Require Import Model.FmtLex Model.FmtLexInst.
From PV Require Model.Lexer Model.LexerGen Model.LexerInterp Proofs.FmtInterpProofs Proofs.FmtLexInstProofs.
Import ListNotations.
Local Open Scope N_scope.

Notation wf_expr e := (wf e = true /\ ops_ok nbin nun e = true /\ is_named e = false).

(* ---- tie to the source: the algorithmic functions the models restate are textually unchanged *)
Theorem fmt_source_pins : GenCodegen.pins_changed = [].
Proof. vm_compute. reflexivity. Qed.
Print Assumptions fmt_source_pins.

(* ---- the table obligation: whenever the formatter omits parentheses around a child at (parent, side), the
        parser regroups to the same tree (and the side conditions on symbols, unary layers and strengths) *)
Theorem fmt_compat : compat F_prql P_prql nbin nun = true.
Proof. vm_compute. reflexivity. Qed.
Print Assumptions fmt_compat.

(* ---- expressions (Theta-1, instance 3), at full strength:
        since commit a318687 binary_position no longer leaks below non-binary nodes (Example ex_former_leak);
        since commits 95d15ad / 2a611aa `wf` admits an alias on every operand, range bound, callee and named-argument
        value: the formatter parenthesises it there (`a + (x = b)`, `(x = f) a`, `f n:(x = a) b`);
        since commit 1b7b9df a parameter that starts a range is kept apart from `..` (`($a)..b`, `-($a)..`);
        since commit 95d15ad lambdas are part of the trees: the formatter parenthesises a lambda as case branch and as
        lambda body (where the parser reads a func_call), and a call, a lambda or an aliased expression as default
        value of a parameter (where it reads a plain expression).
   Generic in the tables: any formatter / parser tables that pass `compat` round-trip every well-formed tree. *)
Theorem fmt_expr_roundtrip_generic : forall F T nb nu, compat F T nb nu = true ->
  forall e, wf e = true -> ops_ok nb nu e = true -> is_named e = false ->
  exists f0, forall f, (f0 <= f)%nat -> parse T f (fmt_top F e) = Some e.
Proof. exact (fun F T nb nu H => roundtrip F T nb nu (compat_sound F T nb nu H)). Qed.
Print Assumptions fmt_expr_roundtrip_generic.

Theorem fmt_expr_roundtrip :
  forall e, wf e = true -> ops_ok nbin nun e = true -> is_named e = false ->
  exists f0, forall f, (f0 <= f)%nat -> parse_prql f (fmt_toks e) = Some e.
Proof. exact (roundtrip F_prql P_prql nbin nun (compat_sound _ _ _ _ fmt_compat)). Qed.
Print Assumptions fmt_expr_roundtrip.

(* ---- a parameter is never glued to a following range: in the token list of every well-formed tree, at every state, no
        parameter token stands directly in front of a `..` that binds to the left (the lexer's parameter token takes
        `.`: `$a..b` is the one parameter `a..b`; repaired by commit 1b7b9df: `($a)..b`, `-($a)..`).  The round-trip
        theorems are at token level and cannot see this defect: this statement is about the token adjacency itself. *)
Theorem fmt_param_not_glued_generic : forall F T nb nu, compat F T nb nu = true ->
  forall e st, wf e = true -> ops_ok nb nu e = true -> glued (fmt F e st) = false.
Proof. exact (fun F T nb nu H e st => no_glue F T nb nu (compat_sound F T nb nu H) e st). Qed.
Print Assumptions fmt_param_not_glued_generic.

Theorem fmt_param_not_glued :
  forall e, wf e = true -> ops_ok nbin nun e = true -> glued (fmt_toks e) = false /\ glued (fmt_annotation_toks e) = false.
Proof.
  intros e Hw Ho. split; apply (no_glue F_prql P_prql nbin nun (compat_sound _ _ _ _ fmt_compat)); assumption.
Qed.
Print Assumptions fmt_param_not_glued.

(* ---- annotation expressions (`@expr`): Stmt::write raises the context strength to fmt_annotation_ctx (part of `compat`),
        the parser reads `expr()`: no call, lambda or aliased expression without parentheses (commit 95d15ad: `@(f x)` was
        written `@f x`) *)
Theorem fmt_annotation_roundtrip :
  forall e, wf e = true -> ops_ok nbin nun e = true -> is_named e = false ->
  exists f0, forall f, (f0 <= f)%nat -> parse_expr_prql f (fmt_annotation_toks e) = Some e.
Proof.
  pose proof (compat_sound _ _ _ _ fmt_compat) as C.
  exact (fun e => roundtrip_expr_at F_prql P_prql nbin nun C _ e (H_call_annot _ _ _ _ C) (H_alias_annot _ _ _ _ C)).
Qed.
Print Assumptions fmt_annotation_roundtrip.

(* ---- idempotence: fmt (parse (fmt t)) = fmt t *)
Theorem fmt_idempotent :
  forall e, wf e = true -> ops_ok nbin nun e = true -> is_named e = false ->
  forall f e', parse_prql f (fmt_toks e) = Some e' -> fmt_toks e' = fmt_toks e.
Proof. exact (idempotent F_prql P_prql nbin nun (compat_sound _ _ _ _ fmt_compat)). Qed.
Print Assumptions fmt_idempotent.

(* more fuel never changes a parse: the `exists f0` above is not an artefact of the fuel *)
Theorem parse_fuel_monotone : forall f g ts e, (f <= g)%nat -> parse_prql f ts = Some e -> parse_prql g ts = Some e.
Proof. exact (parse_mono P_prql). Qed.
Print Assumptions parse_fuel_monotone.

(* ================================================================== type expressions (token level) *)
(* codegen/types.rs against parser/types.rs `type_expr`: primitives, identifiers, `func`, `func p.. -> r`, tuples with
   named / unnamed / `*` fields and a trailing `..` / `..ty`, `[]`, `[ty]`.  `wf_ty` = what the parser can produce
   (primitive names are the seven primitives; fields only in tuples, the wildcard last; no parameter of a function type
   ends in a bare `func`: `func func int -> bool` is read as a function type inside a bare one and rejected -- there is no
   way to write such a type).  No table enters: the type grammar has no precedences. *)
Theorem fmt_type_roundtrip : forall t, wf_ty t = true -> is_field t = false ->
  exists f0, forall f, (f0 <= f)%nat -> parse_ty f (fmt_ty t) = Some t.
Proof. exact ty_roundtrip. Qed.
Print Assumptions fmt_type_roundtrip.

Theorem parse_ty_fuel_monotone : forall f g ts t, (f <= g)%nat -> parse_ty f ts = Some t -> parse_ty g ts = Some t.
Proof. exact parse_ty_mono. Qed.
Print Assumptions parse_ty_fuel_monotone.

(* ================================================================== whole programs (statement layer, token level) *)
(* Stmt::write / Vec<Stmt>::write against parser/stmt.rs: annotations, `let` (with and without value), main pipelines
   (one element per line) and `into`, `import` (with alias), `type n = ty` (Model/FmtTy.v), nested `module`s; trees modulo
   doc comments (the formatter prints none and the property ignores them); `let x <ty>` and the `prql` header are outside
   the model.
   Full statement (FALSE -- finding C14-doc-comment-split):
     forall ss, wf_prog ss = true -> ops_ok_prog nbin nun ss = true ->
       exists f0, forall f, f0 <= f -> parse_prog_prql f (fmt_prog_toks ss) = Some ss
   `known_prog ss` holds exactly when, at some nesting level, a main pipeline is directly followed by a main pipeline or
   `into` without annotation (in a parsed tree only a doc comment can separate the two).  The second class of the first
   version of this theorem -- the value of a main pipeline is a pipeline that carries an alias, finding
   C14-main-pipeline-alias -- was repaired by commit e3202e5: Example ex_former_alias_pipeline. *)
Theorem fmt_program_roundtrip_generic : forall F T nb nu, compat F T nb nu = true ->
  forall ss, wf_prog ss = true -> ops_ok_prog nb nu ss = true -> known_prog ss = false ->
  exists f0, forall f, (f0 <= f)%nat -> parse_prog T f (fmt_prog F ss) = Some ss.
Proof. exact (fun F T nb nu H => prog_roundtrip F T nb nu (compat_sound F T nb nu H)). Qed.
Print Assumptions fmt_program_roundtrip_generic.

Theorem fmt_program_roundtrip_partial :
  forall ss, wf_prog ss = true -> ops_ok_prog nbin nun ss = true -> known_prog ss = false ->
  exists f0, forall f, (f0 <= f)%nat -> parse_prog_prql f (fmt_prog_toks ss) = Some ss.
Proof. exact (prog_roundtrip F_prql P_prql nbin nun (compat_sound _ _ _ _ fmt_compat)). Qed.
Print Assumptions fmt_program_roundtrip_partial.

Theorem fmt_program_roundtrip_refuted :
  exists ss, wf_prog ss = true /\ ops_ok_prog nbin nun ss = true /\ forall f, parse_prog_prql f (fmt_prog_toks ss) <> Some ss.
Proof. exists split_witness. exact split_refuted. Qed.
Print Assumptions fmt_program_roundtrip_refuted.

(* the witness: two pipelines that only a doc comment separates *)
Theorem fmt_program_refutation_witness :
  adjacent_mains split_witness = true /\ forall f, parse_prog_prql f (fmt_prog_toks split_witness) <> Some split_witness.
Proof. split; [reflexivity | exact (proj2 (proj2 split_refuted))]. Qed.
Print Assumptions fmt_program_refutation_witness.

Theorem parse_prog_fuel_monotone : forall f g ts p, (f <= g)%nat -> parse_prog_prql f ts = Some p -> parse_prog_prql g ts = Some p.
Proof. exact (parse_prog_mono P_prql). Qed.
Print Assumptions parse_prog_fuel_monotone.

(* ================================================================== text level, through the model of the real lexer *)
(* The finite obligation on the lexer tables regenerated by C17's translator and across the two sets of tables
   (Proofs/FmtLexInstProofs.v text_tables_ok): C17's three table obligations; the words both identifier printers put in
   backticks cover the lexer's keywords and true / false / null, spelled alike; every operator spelling of the formatter is
   a control character or a two-character operator of the lexer, `=` and `|` are control characters, `=>` is an operator;
   the kinds of the spellings read back as the symbols. *)
Theorem fmt_text_tables : FmtLexInstProofs.text_tables_ok = true.
Proof. vm_compute. reflexivity. Qed.
Print Assumptions fmt_text_tables.

(* ================================================================== literals and identifiers (character level) *)

(* ---- integers: Display of Literal::Integer, then lexer number() *)
Theorem fmt_int_roundtrip : forall n, n <= i64_max -> lex_number (show_N n) = Some (NInt n, []).
Proof. exact int_roundtrip. Qed.
Print Assumptions fmt_int_roundtrip.

(* ---- floats.  A float value is the decimal (m, e) Display prints.
   The finite floats are the values a source can denote (since commit d8fda67 the lexer rejects number literals whose
   value is not finite; `FInf` stays in the model as a value only PL JSON can hold, outside the property's quantifier).
   Full statement (FALSE -- finding F11-float-integral):
     forall f, flt_wf f = true -> lex_number (fmt_float f) = Some (NFloat f, []) *)
Theorem fmt_float_roundtrip_refuted : exists f, flt_wf f = true /\ lex_number (fmt_float f) <> Some (NFloat f, []).
Proof. exact float_refuted. Qed.
Print Assumptions fmt_float_roundtrip_refuted.

(* 1.0 prints as `1` and lexes as Integer 1;  inf (PL JSON only) prints as `inf`, which is no number at all *)
Theorem fmt_float_refutation_witnesses :
  flt_wf (FFin 1 0) = true /\ lex_number (fmt_float (FFin 1 0)) = Some (NInt 1, []) /\ lex_number (fmt_float FInf) = None.
Proof. exact float_roundtrip_refuted_witness. Qed.
Print Assumptions fmt_float_refutation_witnesses.

Theorem fmt_float_roundtrip_partial : forall m e,
  flt_wf (FFin m e) = true -> float_prints_as_int (FFin m e) = false ->
  lex_number (fmt_float (FFin m e)) = Some (NFloat (FFin m e), []).
Proof. exact float_roundtrip. Qed.
Print Assumptions fmt_float_roundtrip_partial.

(* ---- strings: quote_string (escape_all_except_quotes s), then multi_quoted_string with escapes; for ALL strings of
        Unicode scalar values since commit 5e36fe1 (content that starts or ends with the chosen quote is written with
        its double quotes escaped) *)
Theorem fmt_string_roundtrip : forall s,
  forallb valid_scalar s = true -> lex_string (fmt_string s) = Some (s, []).
Proof. exact string_roundtrip. Qed.
Print Assumptions fmt_string_roundtrip.

Theorem fmt_raw_string_roundtrip : forall s, forallb raw_ok s = true -> lex_raw (fmt_raw s) = Some (s, []).
Proof. exact raw_roundtrip. Qed.
Print Assumptions fmt_raw_string_roundtrip.

(* ---- identifiers.  Table obligation on the generated classes / keyword lists (bare classes within the lexer's plain
        identifiers; every lexer keyword and true/false/null in both printers' reserved lists), then the two printers:
        display_ident_part (identifier expressions): full strength since commit 8417a86;
        write_ident_part (aliases, parameters, declared names, argument names): full strength since commit 328740d
        (valid_prql_ident no longer accepts the wildcard: a name spelled `*` keeps its backticks).
   Rust's char::is_alphabetic / is_alphanumeric enter only through their ASCII restriction and one inclusion. *)
Theorem fmt_ident_tables : idtab_ok I_prql = true.
Proof. vm_compute. reflexivity. Qed.
Print Assumptions fmt_ident_tables.

Section UnicodeClasses.
  Variable is_alpha is_alnum : N -> bool.
  Hypothesis ascii_alpha : forall c, c < 128 -> is_alpha c = in_ranges letters c.
  Hypothesis ascii_alnum : forall c, c < 128 -> is_alnum c = in_ranges alnum_ascii c.
  Hypothesis alpha_alnum : forall c, is_alpha c = true -> is_alnum c = true.

  Theorem fmt_expr_ident_roundtrip : forall s rest,
    contains c_backtick s = false -> delim is_alnum rest ->
    lex_word is_alpha is_alnum I_prql (display_ident_part I_prql s ++ rest) = Some (WIdent s, rest).
  Proof. exact (display_ident_lexes is_alpha is_alnum ascii_alpha ascii_alnum alpha_alnum I_prql fmt_ident_tables). Qed.

  Theorem fmt_ident_roundtrip : forall s rest,
    contains c_backtick s = false -> delim is_alnum rest ->
    lex_word is_alpha is_alnum I_prql (write_ident_part I_prql s ++ rest) = Some (WIdent s, rest).
  Proof. exact (write_ident_lexes is_alpha is_alnum ascii_alpha ascii_alnum alpha_alnum I_prql fmt_ident_tables). Qed.

  (* ---- s-/f-strings, for ALL part lists the interpolation parser can produce (`canon`: strings non-empty and maximal,
          paths non-empty without backticks, no `}` in a format specifier; any characters otherwise, line breaks included):
          (1) the text display_interpolation writes -- prefix, `"`, the parts with `\`, `"`, `{`, `}` escaped in strings and
          `\`, `"` escaped in identifiers and format specifiers (commit 4d5b01d), `"` -- lexes, through the string lexer
          model, to the content `interp_content parts`; (2) the interpolation parser -- C17's model of
          parser/interpolation.rs, Model/LexerInterp.v -- splits that content into exactly `parts` (positions dropped). *)
  Theorem fmt_interpolation_roundtrip : forall sql parts, FmtInterpProofs.canon parts = true ->
    lex_string (tl (interp_text R_prql sql parts)) = Some (interp_content R_prql parts, []) /\
    option_map (map (fun t => FmtInterpProofs.item_part (LexerInterp.ikind t)))
      (LexerInterp.interp_lex is_alpha is_alnum (interp_content R_prql parts)) = Some parts.
  Proof.
    intros sql parts Hc. split.
    - destruct (FmtInterpProofs.interp_text_lexes R_prql sql parts) as [p [_ H]]. exact H.
    - exact (FmtInterpProofs.interp_content_parses is_alpha is_alnum ascii_alpha ascii_alnum I_prql fmt_ident_tables parts Hc).
  Qed.

  (* ---- the SPACED FRAGMENT at text level (Model/FmtLex.v): a non-empty token list made of bare one-part identifiers,
          true / false / null, non-negative integers up to i64::MAX, double-quoted strings of printable ASCII without quote
          characters and backslash, parameters, binary operator symbols, aliases `name =`, `|` and `=>` -- the tokens
          between any two of which the renderer writes one blank -- is rendered to a text that the model of the real lexer
          (C17: Model/Lexer.v on the regenerated tables) lexes to exactly the kinds of those tokens, and reading those kinds
          back (identifier directly followed by the control `=`: an alias; controls and operators by spelling) gives the
          token list.  Outside the fragment: parentheses, brackets, commas, unary operators, named arguments (no blank at
          their side), ranges, floats, dates, raw strings, interpolations, backticked names, keywords, line breaks. *)
  Theorem fmt_text_lexes : forall ts, spaced_prql ts = true ->
    exists toks, Lexer.lex is_alpha is_alnum LT (render R_prql ts) = Some (Lexer.start_token :: toks) /\
                 map Lexer.tkind toks = kinds_prql ts /\ untok_prql (map Lexer.tkind toks) = Some ts.
  Proof. exact (FmtLexInstProofs.text_lexes fmt_text_tables fmt_ident_tables is_alpha is_alnum ascii_alpha ascii_alnum). Qed.

  (* ---- composed with fmt_expr_roundtrip: for a well-formed tree whose token list is in the fragment, the printed TEXT, read
          by the lexer model and then by the parser model, is the tree *)
  Theorem fmt_expr_text_roundtrip : forall e, wf e = true -> ops_ok nbin nun e = true -> is_named e = false ->
    spaced_prql (fmt_toks e) = true ->
    exists toks f0, Lexer.lex is_alpha is_alnum LT (fmt_text e) = Some (Lexer.start_token :: toks) /\
                    forall f, (f0 <= f)%nat -> parse_kinds f (map Lexer.tkind toks) = Some e.
  Proof. exact (FmtLexInstProofs.expr_text_roundtrip fmt_text_tables fmt_ident_tables is_alpha is_alnum ascii_alpha ascii_alnum fmt_compat). Qed.
End UnicodeClasses.
Print Assumptions fmt_text_lexes.
Print Assumptions fmt_expr_text_roundtrip.
Print Assumptions fmt_expr_ident_roundtrip.
Print Assumptions fmt_ident_roundtrip.
Print Assumptions fmt_interpolation_roundtrip.

(* non-vacuity and regression: concrete trees satisfy the hypotheses; the former counterexamples now round-trip *)
Example ex_wf_tree : wf_expr (EBin 5 (idn 97) (EUn 0 (idn 98))).
Proof. vm_compute. repeat split; reflexivity. Qed.
Example ex_former_leak : wf_expr leak_witness /\ parse_prql 40 (fmt_toks leak_witness) = Some leak_witness.
Proof. vm_compute. repeat split; reflexivity. Qed.
Example ex_roundtrip : parse_prql 40 (fmt_toks (ECall (idn 102) [ENamed [110] (idn 97); EUn 0 (idn 98); EGroup GTup [EAlias [120] (EBin 0 (idn 99) (idn 100))]]))
                       = Some (ECall (idn 102) [ENamed [110] (idn 97); EUn 0 (idn 98); EGroup GTup [EAlias [120] (EBin 0 (idn 99) (idn 100))]]).
Proof. vm_compute. reflexivity. Qed.
Example ex_former_quote_edge : fmt_string [39; 34] = [34; 39; 92; 34; 34] /\ lex_string (fmt_string [39; 34]) = Some ([39; 34], []).
Proof. vm_compute. split; reflexivity. Qed.
(* the positions repaired by commits 95d15ad, 2a611aa, 1b7b9df satisfy the hypotheses of fmt_expr_roundtrip, and parse back *)
Example ex_alias_positions :
  forallb (fun e => wf e && ops_ok nbin nun e && negb (is_named e)) alias_witnesses = true /\
  map (fun e => parse_prql 40 (fmt_toks e)) alias_witnesses = map Some alias_witnesses.
Proof. vm_compute. split; reflexivity. Qed.
Example ex_lambda_positions :
  forallb (fun e => wf e && ops_ok nbin nun e && negb (is_named e)) lambda_witnesses = true /\
  map (fun e => parse_prql 60 (fmt_toks e)) lambda_witnesses = map Some lambda_witnesses.
Proof. vm_compute. split; reflexivity. Qed.
(* case [a => (func y -> y)]   func x -> (func y -> x + y)   func k:(g y) -> k   @(f x) *)
Example ex_lambda_text :
  fmt_text (EGroup GCase [idn 97; lam [121] (idn 121)]) = [99;97;115;101;32;91;97;32;61;62;32;40;102;117;110;99;32;121;32;45;62;32;121;41;93]
  /\ fmt_text (lam [120] (lam [121] (EBin 5 (idn 120) (idn 121)))) = [102;117;110;99;32;120;32;45;62;32;40;102;117;110;99;32;121;32;45;62;32;120;32;43;32;121;41]
  /\ fmt_text (EFunc [] [ENamed [107] (ECall (idn 103) [idn 121])] (idn 107)) = [102;117;110;99;32;107;58;40;103;32;121;41;32;45;62;32;107]
  /\ render R_prql (fmt_annotation_toks (ECall (idn 102) [idn 120])) = [40;102;32;120;41].
Proof. vm_compute. repeat split; reflexivity. Qed.
(* the defect `glued` detects: the tokens of `$a..b` as the formatter wrote them before commit 1b7b9df *)
Example ex_glued_detects : glued [TA (AParam [97]); TRg true true; TA (AIdent [[98]])] = true
  /\ glued (fmt_toks (ERng (par_atom 97) (idn 98))) = false.
Proof. vm_compute. split; reflexivity. Qed.
Example ex_program : wf_prog program_witness = true /\ ops_ok_prog nbin nun program_witness = true /\ known_prog program_witness = false
  /\ parse_prog_prql 60 (fmt_prog_toks program_witness) = Some program_witness.
Proof. vm_compute. repeat split; reflexivity. Qed.
Example ex_former_alias_pipeline : wf_prog alias_pipeline_witness = true /\ known_prog alias_pipeline_witness = false
  /\ parse_prog_prql 40 (fmt_prog_toks alias_pipeline_witness) = Some alias_pipeline_witness.
Proof. vm_compute. repeat split; reflexivity. Qed.
(* f"a {x.`b c`:>10}}} \"q\" " : strings with braces / quotes, a path with a quoted part, a format specifier *)
Example ex_interpolation :
  let parts := [IStr [97; 32]; IExpr [[120]; [98; 32; 99]] (Some [62; 49; 48]); IStr [125; 32; 34; 113; 34; 10]] in
  FmtInterpProofs.canon parts = true /\
  interp_text R_prql false parts = [102;34;97;32;123;120;46;96;98;32;99;96;58;62;49;48;125;125;125;32;92;34;113;92;34;10;34].
Proof. vm_compute. split; reflexivity. Qed.
Example ex_types : forallb (fun t => wf_ty t && negb (is_field t)) type_witnesses = true /\
  map (fun t => parse_ty 30 (fmt_ty t)) type_witnesses = map Some type_witnesses /\
  wf_ty type_nonwitness = false /\ parse_ty 30 (fmt_ty type_nonwitness) = None /\
  fmt_ty_text (nth 0 type_witnesses TyArr0) =
    [123;97;32;61;32;105;110;116;44;32;98;32;61;32;91;116;101;120;116;93;44;32;102;117;110;99;32;105;110;116;32;109;46;116;121;32;45;62;32;98;111;111;108;44;32;99;32;61;32;42;44;32;46;46;125].
Proof. vm_compute. repeat split; reflexivity. Qed.
Example ex_alias_text : fmt_text (EBin 5 (idn 97) (EAlias [120] (idn 98))) = [97; 32; 43; 32; 40; 120; 32; 61; 32; 98; 41]   (* a + (x = b) *)
  /\ fmt_text (ERng (par_atom 97) (idn 98)) = [40; 36; 97; 41; 46; 46; 98]                                                (* ($a)..b *)
  /\ fmt_text (ERngL (EUn 0 (par_atom 97))) = [45; 40; 36; 97; 41; 46; 46].                                               (* -($a).. *)
Proof. vm_compute. repeat split; reflexivity. Qed.
Example ex_former_star : write_ident_part I_prql [42] = bt [42] /\
  lex_word ascii_alpha_f ascii_alnum_f I_prql (write_ident_part I_prql [42] ++ [32]) = Some (WIdent [42], [32]).
Proof. exact star_witness_lexes. Qed.
Example ex_former_keyword_idents :
  display_ident_part I_prql w_true = bt w_true /\ write_ident_part I_prql [105; 109; 112; 111; 114; 116] = bt [105; 109; 112; 111; 114; 116]
  /\ display_ident_part I_prql [36; 97] = bt [36; 97].
Proof. vm_compute. repeat split; reflexivity. Qed.
Example ex_float_ok : flt_wf (FFin 15 (-1)) = true /\ float_prints_as_int (FFin 15 (-1)) = false /\ fmt_float (FFin 15 (-1)) = [49; 46; 53].
Proof. vm_compute. repeat split; reflexivity. Qed.
(* text level: `x = a + 5 | "s t" => $p ?? null` is in the spaced fragment; the model of the real lexer reads the rendered text
   as Ident x, Control =, Ident a, Control +, Integer 5, Control |, String, ArrowFat, Param p, Coalesce, Null *)
Definition text_example : list tok :=
  [TAlias [120]; TA (AIdent [[97]]); TS (sym_index [43]) false; TA (ALit (LInt 5)); TPipe; TA (ALit (LStr [115; 32; 116])); TArrow;
   TA (AParam [112]); TS (sym_index [63; 63]) false; TA (ALit LNull)].
(* `x = a * 5 + $p ?? null`: a tree whose printed text needs no parenthesis -- text, lexer model, parser model, tree *)
Definition text_expr : expr := EAlias [120] (EBin 16 (EBin 5 (EBin 0 (idn 97) (EAtom (ALit (LInt 5)))) (EAtom (AParam [112]))) (EAtom (ALit LNull))).
Example ex_text_expr :
  wf text_expr = true /\ spaced_prql (fmt_toks text_expr) = true /\
  fmt_text text_expr = [120; 32; 61; 32; 97; 32; 42; 32; 53; 32; 43; 32; 36; 112; 32; 63; 63; 32; 110; 117; 108; 108] /\
  match Lexer.lex ascii_alpha_f ascii_alnum_f LT (fmt_text text_expr) with
  | Some (_ :: toks) => parse_kinds 40 (map Lexer.tkind toks) | _ => None end = Some text_expr.
Proof. vm_compute. repeat split; reflexivity. Qed.
Example ex_text_level :
  spaced_prql text_example = true /\
  render R_prql text_example = [120; 32; 61; 32; 97; 32; 43; 32; 53; 32; 124; 32; 34; 115; 32; 116; 34; 32; 61; 62; 32; 36; 112; 32; 63; 63; 32; 110; 117; 108; 108] /\
  option_map (map Lexer.tkind) (Lexer.lex ascii_alpha_f ascii_alnum_f LT (render R_prql text_example)) =
    Some [Lexer.KStart; Lexer.KIdent [120]; Lexer.KControl 61; Lexer.KIdent [97]; Lexer.KControl 43; Lexer.KLiteral (Lexer.LInt 5); Lexer.KControl 124;
          Lexer.KLiteral (Lexer.LString [115; 32; 116]); Lexer.KOp [65; 114; 114; 111; 119; 70; 97; 116]; Lexer.KParam [112];
          Lexer.KOp [67; 111; 97; 108; 101; 115; 99; 101]; Lexer.KLiteral Lexer.LNull] /\
  untok_prql (kinds_prql text_example) = Some text_example /\
  (* outside the fragment: a parenthesis, a unary operator, a range, a keyword used as a name (written in backticks) *)
  forallb (fun t => negb (spaced_tok R_prql (length symtab) t))
          [TOpen GTup; TS 0 true; TRg true true; TA (AIdent [[108; 101; 116]]); TA (ALit (LInt (-1))); TA (ALit (LStr [34]))] = true /\
  spaced_prql [] = false.
Proof. vm_compute. repeat split; reflexivity. Qed.
Example ex_unicode_classes :
  (forall c, c < 128 -> ascii_alpha_f c = in_ranges letters c) /\
  (forall c, c < 128 -> ascii_alnum_f c = in_ranges alnum_ascii c) /\
  (forall c, ascii_alpha_f c = true -> ascii_alnum_f c = true).
Proof. exact ascii_classes_ok. Qed.

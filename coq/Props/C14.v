(* C14 -- formatting preserves the program and is idempotent.  (statements only; under construction) *)
From Coq Require Import List NArith Bool.
From PV Require Import Lib.ListX Gen.GenCodegen.
Import ListNotations.
Local Open Scope N_scope.

Theorem fmt_source_pins : GenCodegen.pins_changed = [].
Proof. vm_compute. reflexivity. Qed.
Print Assumptions fmt_source_pins.

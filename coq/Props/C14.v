(* C14 -- formatting preserves the program and is idempotent.
   Statements only; proofs are in Proofs/Fmt*.v.  Tables: Gen/GenCodegen.v, regenerated from /repo on every run
   (formatter: codegen/ast.rs binding_strength / associativity / can_bind_left / keywords / identifier classes;
    parser: parser/expr.rs pratt levels and operator tokens), packaged by Model/FmtInst.v as F_prql / P_prql / I_prql.

   Scope of the theorems: expressions (operators, ranges, calls with named arguments and aliases, pipelines in
   parentheses, tuples, arrays, case) at unlimited width, at token level; identifiers, strings, integers, floats at
   character level.  Line breaking, statement layout, types, lambdas and annotations are covered only by the
   differential oracle of vplib/props/c14.py. *)
From Coq Require Import List NArith ZArith Bool Arith.
From PV Require Import Lib.ListX Model.FmtLit Model.FmtPratt Model.Fmt Model.FmtInst
  Proofs.FmtPrattProofs Proofs.FmtProofs Proofs.FmtInstProofs Gen.GenCodegen.
Import ListNotations.
Local Open Scope N_scope.

Notation wf_expr e := (wf e = true /\ ops_ok nbin nun e = true /\ is_named e = false).

(* ---- tie to the source: the algorithmic functions the models restate are textually unchanged *)
Theorem fmt_source_pins : GenCodegen.pins_changed = [].
Proof. vm_compute. reflexivity. Qed.
Print Assumptions fmt_source_pins.

(* ---- the table obligation: whenever the formatter omits parentheses around a child at (parent, side), the
        parser regroups to the same tree (and the side conditions on symbols, unary layers and strengths) *)
Theorem fmt_compat : compat F_prql P_prql nbin nun = true.
Proof. vm_compute. reflexivity. Qed.
Print Assumptions fmt_compat.

(* ---- expressions (Theta-1, instance 3).
   Full statement (FALSE of the unchanged tree -- finding C14-range-pow-leak):
     forall e, wf_expr e -> exists f0, forall f, f0 <= f -> parse_prql f (fmt_toks e) = Some e *)
Theorem fmt_expr_roundtrip_refuted :
  exists e, wf e = true /\ ops_ok nbin nun e = true /\ is_named e = false /\
            forall f, parse_prql f (fmt_toks e) <> Some e.
Proof. exact expr_roundtrip_refuted. Qed.
Print Assumptions fmt_expr_roundtrip_refuted.

(* generic in the tables: any formatter / parser tables that pass `compat` round-trip every tree outside the leak class *)
Theorem fmt_expr_roundtrip_generic : forall F T nb nu, compat F T nb nu = true ->
  forall e, wf e = true -> ops_ok nb nu e = true -> is_named e = false -> leak F e PUnspec = false ->
  exists f0, forall f, (f0 <= f)%nat -> parse T f (fmt_top F e) = Some e.
Proof. exact (fun F T nb nu H => roundtrip F T nb nu (compat_sound F T nb nu H)). Qed.
Print Assumptions fmt_expr_roundtrip_generic.

Theorem fmt_expr_roundtrip_partial :
  forall e, wf e = true -> ops_ok nbin nun e = true -> is_named e = false -> leak F_prql e PUnspec = false ->
  exists f0, forall f, (f0 <= f)%nat -> parse_prql f (fmt_toks e) = Some e.
Proof. exact (roundtrip F_prql P_prql nbin nun (compat_sound _ _ _ _ fmt_compat)). Qed.
Print Assumptions fmt_expr_roundtrip_partial.

(* ---- idempotence: fmt (parse (fmt t)) = fmt t.   Full statement false for the same class. *)
Theorem fmt_idempotent_refuted :
  exists e f e', wf e = true /\ ops_ok nbin nun e = true /\ parse_prql f (fmt_toks e) = Some e' /\ fmt_toks e' <> fmt_toks e.
Proof. exact idempotent_refuted. Qed.
Print Assumptions fmt_idempotent_refuted.

Theorem fmt_idempotent_partial :
  forall e, wf e = true -> ops_ok nbin nun e = true -> is_named e = false -> leak F_prql e PUnspec = false ->
  forall f e', parse_prql f (fmt_toks e) = Some e' -> fmt_toks e' = fmt_toks e.
Proof. exact (idempotent F_prql P_prql nbin nun (compat_sound _ _ _ _ fmt_compat)). Qed.
Print Assumptions fmt_idempotent_partial.

(* more fuel never changes a parse: the `exists f0` above is not an artefact of the fuel *)
Theorem parse_fuel_monotone : forall f g ts e, (f <= g)%nat -> parse_prql f ts = Some e -> parse_prql g ts = Some e.
Proof. exact (parse_mono P_prql). Qed.
Print Assumptions parse_fuel_monotone.

(* non-vacuity: concrete trees satisfy the hypotheses, and one of them is in the leak class *)
Example ex_wf_tree : wf_expr (EBin 5 (idn 97) (EUn 0 (idn 98))) /\ leak F_prql (EBin 5 (idn 97) (EUn 0 (idn 98))) PUnspec = false.
Proof. vm_compute. repeat split; reflexivity. Qed.
Example ex_leak_tree : leak F_prql leak_witness PUnspec = true.
Proof. vm_compute. reflexivity. Qed.
Example ex_roundtrip : parse_prql 40 (fmt_toks (ECall (idn 102) [ENamed [110] (idn 97); EUn 0 (idn 98); EGroup GTup [EAlias [120] (EBin 0 (idn 99) (idn 100))]]))
                       = Some (ECall (idn 102) [ENamed [110] (idn 97); EUn 0 (idn 98); EGroup GTup [EAlias [120] (EBin 0 (idn 99) (idn 100))]]).
Proof. vm_compute. reflexivity. Qed.

(* C07 -- every accepted program compiles to SQL the selected dialect parses and binds.
   Only statements here; proofs are in Proofs/SqlScopeProofs.v, Proofs/SqlScopeTok.v, Proofs/SqlScopeDialect.v.
   Tables are Gen/GenDialectFeat.v, regenerated from /repo (sql/dialect.rs, sql/std.sql.prql, sql/gen_expr.rs) on every run.

   The emitted SQL is converted (vplib/sqlast.py, from sqlparser's AST) to the model AST of Model/SqlAst.v and judged by
   the executable [well_scoped] / [dialect_ok]; the theorems below are about that checker (it is not merely a test):
   what a verdict OK means, that no reference of the tree escapes it, CTE order, monotonicity -- and the finite
   dialect / template tables the compiler's own flags must agree with. *)
From Coq Require Import List NArith ZArith Bool.
From PV Require Import Lib.ListX Model.SqlAst Model.SqlScope Model.SqlScopeX Model.SqlScopeTok Model.DialectFeat
  Model.Checked Model.RangeArith Model.SelectClauses Model.TranslateCid
  Proofs.SqlScopeProofs Proofs.SqlScopeXProofs Proofs.SqlScopeTok Proofs.SqlScopeDialect Proofs.SelectClausesProofs Proofs.TranslateCidProofs Gen.GenDialectFeat.
Import ListNotations.
Local Open Scope N_scope.

Notation feats := GenDialectFeat.feats.
Notation std_ops := GenDialectFeat.std_ops.
Notation all_tmpls := (tmpls_of std_ops ++ builtin_tmpls).
Notation unknown_tmpls := (filter (fun t => negb (known_f3 t)) all_tmpls).

(* ------------------------------------------------------------------------------------------ the scope checker *)

(* OK means: every obligation of the query holds, and the obligations cover every table / column / star
   reference, every SELECT and every projection of the syntax tree, each exactly once, in order *)
Theorem c07_well_scoped_refs_resolve : forall P te q,
  well_scoped P te q = OK ->
  exists os, Forall (fun o => obl_ok P o = true) os /\ omap ref_of_obl os = r_query q.
Proof. exact well_scoped_refs_resolve. Qed.
Print Assumptions c07_well_scoped_refs_resolve.

Theorem c07_refs_complete : forall P te q, omap ref_of_obl (obligations P te q) = r_query q.
Proof. exact refs_complete. Qed.
Print Assumptions c07_refs_complete.

Theorem c07_verdict_is_conjunction : forall P te q,
  well_scoped P te q = OK <-> Forall (fun o => obl_ok P o = true) (obligations P te q).
Proof. exact ws_ok_iff. Qed.
Print Assumptions c07_verdict_is_conjunction.

Theorem c07_aliases_unique : forall P te q,
  well_scoped P te q = OK -> forall fr, In (OFrame fr) (obligations P te q) -> NoDup (frame_aliases fr).
Proof. exact aliases_unique. Qed.
Print Assumptions c07_aliases_unique.

Theorem c07_projection_nonempty : forall P te q,
  well_scoped P te q = OK -> zero_cols P = false -> forall n, In (OProj n) (obligations P te q) -> n <> O.
Proof. exact projection_nonempty. Qed.
Print Assumptions c07_projection_nonempty.

Theorem c07_setop_arity : forall P te q,
  well_scoped P te q = OK -> forall a b, In (OArity a b) (obligations P te q) ->
  ropen a = false -> ropen b = false -> length (rcols a) = length (rcols b).
Proof. exact setop_arity. Qed.
Print Assumptions c07_setop_arity.

(* a table named in the FROM list of the j-th CTE of a WITH list is a relation of the enclosing environment, an
   EARLIER CTE of the list, or -- under WITH RECURSIVE, or in a dialect where recursion is implicit (T-SQL) -- the CTE itself;
   never a later one *)
Theorem c07_cte_order : forall P te rc cs body ord lim,
  well_scoped P te (Query rc cs body ord lim) = OK ->
  forall pre n q post, ctes_list cs = pre ++ (n, q) :: post ->
  forall m, In m (dt_query q) ->
    m = 0 \/ In m (map te_name te) \/ In m (map fst pre) \/ (recv P rc = true /\ m = n).
Proof. exact cte_order. Qed.
Print Assumptions c07_cte_order.

(* adding a relation the query never names to the schema changes no verdict *)
Theorem c07_schema_monotone : forall P te q x,
  ~ In (STab (te_name x)) (r_query q) ->
  (well_scoped P (te ++ [x]) q = OK <-> well_scoped P te q = OK).
Proof. exact schema_monotone. Qed.
Print Assumptions c07_schema_monotone.

(* non-vacuity and sensitivity of the checker: the property's own example (ORDER BY naming a table that exists only
   inside a CTE), a forward CTE reference, a dangling alias, an empty projection *)
Definition ex_schema : tenv := [base_table 10 [1; 2] false].
(* WITH x(11) AS (SELECT a(1) FROM t(10)) SELECT x.a FROM x ORDER BY t.a *)
Definition ex_q_order_inner : query :=
  Query false (CCons 11 (Query false CNil (SSelect DNone ENil (IExpr (ECol None 1) 0 INil) (TTable false 10 10 ENil TNil) ENil ENil ENil) ENil no_limit) CNil)
    (SSelect DNone ENil (IExpr (ECol (Some 11) 1) 0 INil) (TTable false 11 11 ENil TNil) ENil ENil ENil)
    (ECons (ECol (Some 10) 1) ENil) no_limit.
Example c07_ex_order_inner_rejected : well_scoped strict ex_schema ex_q_order_inner = Bad (DQual COrder 10 1).
Proof. vm_compute. reflexivity. Qed.
Definition ex_q_good : query :=
  Query false (CCons 11 (Query false CNil (SSelect DNone ENil (IExpr (ECol None 1) 0 INil) (TTable false 10 10 ENil TNil) ENil ENil ENil) ENil no_limit) CNil)
    (SSelect DNone ENil (IExpr (ECol (Some 11) 1) 0 INil) (TTable false 11 11 ENil TNil) ENil ENil ENil)
    (ECons (ECol (Some 11) 1) ENil) no_limit.
Example c07_ex_good : well_scoped strict ex_schema ex_q_good = OK.
Proof. vm_compute. reflexivity. Qed.
(* WITH a(11) AS (SELECT * FROM b(12)), b AS (SELECT * FROM t) SELECT * FROM a *)
Definition ex_q_forward : query :=
  Query false (CCons 11 (Query false CNil (SSelect DNone ENil (IWild 0 0 [] INil) (TTable false 12 12 ENil TNil) ENil ENil ENil) ENil no_limit)
              (CCons 12 (Query false CNil (SSelect DNone ENil (IWild 0 0 [] INil) (TTable false 10 10 ENil TNil) ENil ENil ENil) ENil no_limit) CNil))
    (SSelect DNone ENil (IWild 0 0 [] INil) (TTable false 11 11 ENil TNil) ENil ENil ENil) ENil no_limit.
Example c07_ex_forward_rejected : well_scoped strict ex_schema ex_q_forward = Bad (DTable 12).
Proof. vm_compute. reflexivity. Qed.
Example c07_ex_empty_projection : well_scoped strict ex_schema
  (Query false CNil (SSelect DNone ENil INil (TTable false 10 10 ENil TNil) ENil ENil ENil) ENil no_limit) = Bad DEmptyProj.
Proof. vm_compute. reflexivity. Qed.

(* ------------------------------------------------------------------------------------------ second layer: binding beyond resolution
   (Model/SqlScopeX.v: ambiguity of column references incl. duplicate output names of sub-queries, validity of window
   frames, GROUP BY discipline; same traversal, same environments and frames as the first layer) *)

Theorem c07_x_verdict_is_conjunction : forall XP P te q,
  well_formed_x XP P te q = true <-> Forall (fun o => xobl_ok XP o = true) (xobligations P te q).
Proof. exact xws_ok_iff. Qed.
Print Assumptions c07_x_verdict_is_conjunction.

(* every column reference and every window frame of the syntax tree gets its obligation, exactly once, in order *)
Theorem c07_x_sites_complete : forall P te q, omap site_of_xobl (xobligations P te q) = xr_query q.
Proof. exact xsites_complete. Qed.
Print Assumptions c07_x_sites_complete.

Theorem c07_x_bare_unambiguous : forall XP P te q,
  well_formed_x XP P te q = true -> forall sc al cl c, In (XAmbBare sc al cl c) (xobligations P te q) ->
  ((if mem c al then count_name c al else bare_count sc c) <= 1)%nat.
Proof. exact bare_unambiguous. Qed.
Print Assumptions c07_x_bare_unambiguous.

Theorem c07_x_qualified_unambiguous : forall XP P te q,
  well_formed_x XP P te q = true -> forall sc cl qq c, In (XAmbQual sc cl qq c) (xobligations P te q) ->
  (qual_count sc qq c <= 1)%nat.
Proof. exact qual_unambiguous. Qed.
Print Assumptions c07_x_qualified_unambiguous.

(* a frame the checker accepts obeys the static rules of the SQL grammar for frames *)
Theorem c07_x_frames_valid : forall XP P te q,
  well_formed_x XP P te q = true -> forall u s e n, In (XWFrame u s e n) (xobligations P te q) ->
  s <> WFol None /\ end_of e <> WPrec None /\
  (s = WCur -> forall k, end_of e <> WPrec k) /\
  (forall j, s = WFol j -> exists k, end_of e = WFol k) /\
  (u = 2 -> (bound_has_offset s = true \/ bound_has_offset (end_of e) = true) -> n = 1%nat).
Proof. intros XP P te q H u s e n Hin. apply frame_valid_spec. exact (frames_valid XP P te q H u s e n Hin). Qed.
Print Assumptions c07_x_frames_valid.

(* under the strict profile every column the checker met outside an aggregate call in the select list, HAVING or ORDER BY
   of an aggregate SELECT is a grouping column (or, bare, an output name where the clause admits one) *)
Theorem c07_x_grouped : forall XP P te q, bare_agg XP = false ->
  well_formed_x XP P te q = true -> forall kc ks outs cl qq c, In (XGrouped kc ks outs cl qq c) (xobligations P te q) ->
  key_match kc ks qq c = true \/ (qq = None /\ mem c outs = true).
Proof. exact grouped_columns. Qed.
Print Assumptions c07_x_grouped.

Theorem c07_x_select_list_covered : forall kc ks i qc,
  In qc (fc_items i) -> In (XGrouped kc ks [] CProj (fst qc) (snd qc)) (x_gitems kc ks i).
Proof. exact gitems_cover. Qed.
Print Assumptions c07_x_select_list_covered.

(* sensitivity: the three classes on small queries over t(10) = {a(1), b(2)}; SUM is interned as 3 *)
(* SELECT SUM(a) OVER (RANGE BETWEEN 1 PRECEDING AND 1 FOLLOWING) FROM t      -- finding N14 *)
Example c07_ex_range_frame_rejected : xdiag_codes xstrict strict ex_schema
  (Query false CNil (SSelect DNone ENil (IExpr (EWin 3 (ECons (ECol None 1) ENil) ENil ENil (WFrame 2 (WPrec (Some 1)) (Some (WFol (Some 1))))) 5 INil)
                       (TTable false 10 10 ENil TNil) ENil ENil ENil) ENil no_limit) = [(23, 2, 4, 0)].
Proof. vm_compute. reflexivity. Qed.
(* WITH x(11) AS (SELECT t.a, t.a FROM t) SELECT a FROM x                      -- a sub-query with two columns of one name, read by name *)
Example c07_ex_duplicate_output_rejected : xdiag_codes xstrict strict ex_schema
  (Query false (CCons 11 (Query false CNil (SSelect DNone ENil (IExpr (ECol (Some 10) 1) 0 (IExpr (ECol (Some 10) 1) 0 INil)) (TTable false 10 10 ENil TNil) ENil ENil ENil) ENil no_limit) CNil)
     (SSelect DNone ENil (IExpr (ECol None 1) 0 INil) (TTable false 11 11 ENil TNil) ENil ENil ENil) ENil no_limit) = [(21, 1, 1, 0)].
Proof. vm_compute. reflexivity. Qed.
(* SELECT SUM(a) AS s, b FROM t            -- what fix 8d54bf7 removed; accepted under the SQLite profile only *)
Definition ex_q_ungrouped : query :=
  Query false CNil (SSelect DNone ENil (IExpr (EApp 3 (ECons (ECol None 1) ENil)) 7 (IExpr (ECol None 2) 0 INil)) (TTable false 10 10 ENil TNil) ENil ENil ENil) ENil no_limit.
Example c07_ex_ungrouped_rejected : xdiag_codes xstrict strict ex_schema ex_q_ungrouped = [(24, 1, 0, 2)].
Proof. vm_compute. reflexivity. Qed.
Example c07_ex_ungrouped_sqlite : well_formed_x (mkXProf true) strict ex_schema ex_q_ungrouped = true.
Proof. vm_compute. reflexivity. Qed.
(* SELECT b, SUM(a) AS s FROM t GROUP BY b ORDER BY s *)
Example c07_ex_grouped_ok : well_formed_x xstrict strict ex_schema
  (Query false CNil (SSelect DNone ENil (IExpr (ECol None 2) 0 (IExpr (EApp 3 (ECons (ECol None 1) ENil)) 7 INil)) (TTable false 10 10 ENil TNil) ENil (ECons (ECol None 2) ENil) ENil)
     (ECons (ECol None 7) ENil) no_limit) = true.
Proof. vm_compute. reflexivity. Qed.

(* ------------------------------------------------------------------------------------------ translate_cid: qualified or bare
   (Model/TranslateCid.v mirrors translate_cid / translate_ident / omit_ident_prefix; compared call by call with the hook
   verif:translate_cid).  [fr] is the FROM list of the SELECT being assembled (one item per From / Join), the column belongs
   to the instance known as [a] with relation [r]. *)

(* the reference the function returns resolves in that SELECT, pre- and post-projection *)
Theorem c07_cid_ref_resolves : forall fr sc a r c, find_alias fr a = Some r -> exposes r c = true ->
  forall pre x, translate_cid pre (omit_prefix (length fr)) DRelCol (Some a) (CName c) = Ret x -> ref_resolves (fr :: sc) x = true.
Proof. exact cid_ref_resolves. Qed.
Print Assumptions c07_cid_ref_resolves.

(* a bare name is chosen only when the FROM list has exactly one item *)
Theorem c07_cid_bare_only_single : forall ntables pre d inst col q' c',
  translate_cid pre (omit_prefix ntables) d (Some inst) col = Ret (q', c') -> q' = None -> d = DRelCol -> ntables = 1%nat.
Proof. exact bare_only_single. Qed.
Print Assumptions c07_cid_bare_only_single.

(* full statement, FALSE (open finding N15: the relation behind the single FROM item is a CTE that projects `t.*, u.*`, two
   columns of one name):
     forall fr sc a r c, find_alias fr a = Some r -> exposes r c = true -> forall pre x,
       translate_cid pre (omit_prefix (length fr)) DRelCol (Some a) (CName c) = Ret x -> ref_unique (fr :: sc) x = true *)
Theorem c07_cid_ref_unique_refuted : exists fr sc a r c pre x, find_alias fr a = Some r /\ exposes r c = true /\
  translate_cid pre (omit_prefix (length fr)) DRelCol (Some a) (CName c) = Ret x /\ ref_unique (fr :: sc) x = false.
Proof. exists [(11, mkRel [1; 1] false)], [], 11, (mkRel [1; 1] false), 1, true, (None, CName 1). vm_compute. auto. Qed.
Print Assumptions c07_cid_ref_unique_refuted.

Theorem c07_cid_ref_unique_partial : forall fr sc a r c, find_alias fr a = Some r -> exposes r c = true ->
  forall pre x, (count_name c (rcols r) <= 1)%nat ->
  translate_cid pre (omit_prefix (length fr)) DRelCol (Some a) (CName c) = Ret x -> ref_unique (fr :: sc) x = true.
Proof. exact cid_ref_unique. Qed.
Print Assumptions c07_cid_ref_unique_partial.

(* ------------------------------------------------------------------------------------------ single statement *)

(* generic: if every text chunk of every template is endsafe, nothing the renderer can produce from atoms,
   parentheses and templates contains [;], [--] or [/*] *)
Theorem c07_single_statement_generic : forall T, tmpls_safe T = true -> forall s, Out T s -> no_opener s = true.
Proof. exact single_statement. Qed.
Print Assumptions c07_single_statement_generic.

(* The `neg` template [-{l:14}] parenthesises a negated operand, but a negative number literal or an s-string starting with a
   minus sign is an atom of full strength: the renderer [Out] produces `--3` (finding N11).  fixes/C07-N11 puts a guard into
   translate_operator (an operand whose text starts with `-` behind text that ends in `-` is parenthesised): the renderer is then
   [Outg].  Both states, selected by the regenerated flag [fix_n11 head_fixes] (read off operators.rs):
     not repaired: the template set is not safe for [Out], and [Out] produces an opener;
     repaired:     the template set is safe for the guarded renderer, and no text [Outg] produces has [;], [--] or [/*]. *)
Definition tmpls_ok (fixed : bool) (T : list tmpl) : bool := if fixed then tmpls_safe_g T else tmpls_safe T.
Theorem c07_single_statement_state : tmpls_ok (fix_n11 GenDialectFeat.head_fixes) all_tmpls = fix_n11 GenDialectFeat.head_fixes.
Proof. vm_compute. reflexivity. Qed.
Print Assumptions c07_single_statement_state.

Theorem c07_single_statement : fix_n11 GenDialectFeat.head_fixes = true -> forall s, Outg all_tmpls s -> no_opener s = true.
Proof.
  intros Hf. apply single_statement_guarded. pose proof c07_single_statement_state as H. rewrite Hf in H. exact H.
Qed.
Print Assumptions c07_single_statement.

Theorem c07_single_statement_refuted : fix_n11 GenDialectFeat.head_fixes = false -> exists s, Out all_tmpls s /\ no_opener s = false.
Proof. intros _. apply single_statement_refuted. vm_compute. tauto. Qed.
Print Assumptions c07_single_statement_refuted.

Theorem c07_templates_safe_except_known : tmpls_safe unknown_tmpls = true.
Proof. vm_compute. reflexivity. Qed.
Print Assumptions c07_templates_safe_except_known.

Theorem c07_single_statement_partial : forall s, Out unknown_tmpls s -> no_opener s = true.
Proof. exact (single_statement unknown_tmpls c07_templates_safe_except_known). Qed.
Print Assumptions c07_single_statement_partial.

(* ------------------------------------------------------------------------------------------ dialect tables *)
Definition all_ops_ok (f : list N * feat -> bool) : bool := forallb f feats.
Definition setop_of (n : N) : setop := if N.eqb n 0 then Union else if N.eqb n 1 then Except else Intersect.
Definition quant_of (n : N) : quant := if N.eqb n 0 then QAll else if N.eqb n 1 then QDistinct else QNone.
Definition implies (a b : bool) : bool := negb a || b.

(* the specification table agrees with the support matrix documented in dialect.rs itself *)
Theorem c07_spec_agrees_with_documented_matrix :
  forallb (fun r => match r with (o, q, d, b) => Bool.eqb (supported d (KSetOp (setop_of o) (quant_of q))) b end) GenDialectFeat.setops_doc = true.
Proof. vm_compute. reflexivity. Qed.
Print Assumptions c07_spec_agrees_with_documented_matrix.

Theorem c07_dialects_are_the_twelve : map fst feats = all_dialects.
Proof. vm_compute. reflexivity. Qed.
Print Assumptions c07_dialects_are_the_twelve.

Theorem c07_feat_limit_or_fetch :
  all_ops_ok (fun df => if use_fetch (snd df) then supported (fst df) KFetch else supported (fst df) KLimit) = true.
Proof. vm_compute. reflexivity. Qed.
Print Assumptions c07_feat_limit_or_fetch.

Theorem c07_feat_distinct_on : all_ops_ok (fun df => implies (supports_distinct_on (snd df)) (supported (fst df) KDistinctOn)) = true.
Proof. vm_compute. reflexivity. Qed.
Print Assumptions c07_feat_distinct_on.

Theorem c07_feat_set_ops_distinct :
  all_ops_ok (fun df => forallb (fun o => supported (fst df) (KSetOp o (if set_ops_distinct (snd df) then QDistinct else QNone))) [Union; Except; Intersect]) = true.
Proof. vm_compute. reflexivity. Qed.
Print Assumptions c07_feat_set_ops_distinct.

(* EXCEPT ALL / INTERSECT ALL: the statement in both states of the source.  [fix_n5 head_fixes] is regenerated: "BigQueryDialect
   overrides except_all() with false" (fixes/C07-N5-bigquery-except-all.diff).  Without the repair the full statement is
   false (bigquery inherits except_all() = true, the file's own matrix says no); with it, it holds for all twelve rows. *)
Definition except_all_ok (df : list N * feat) : bool :=
  implies (except_all (snd df)) (supported (fst df) (KSetOp Except QAll))
  && implies (intersect_all (snd df)) (supported (fst df) (KSetOp Intersect QAll)).
Theorem c07_feat_except_all_state : all_ops_ok except_all_ok = fix_n5 GenDialectFeat.head_fixes.
Proof. vm_compute. reflexivity. Qed.
Print Assumptions c07_feat_except_all_state.
Theorem c07_feat_except_all : fix_n5 GenDialectFeat.head_fixes = true -> forall df, In df feats -> except_all_ok df = true.
Proof. exact (proj1 (forallb_state _ _ _ c07_feat_except_all_state)). Qed.
Print Assumptions c07_feat_except_all.
Theorem c07_feat_except_all_refuted : fix_n5 GenDialectFeat.head_fixes = false -> exists df, In df feats /\ except_all_ok df = false.
Proof. exact (proj2 (forallb_state _ _ _ c07_feat_except_all_state)). Qed.
Print Assumptions c07_feat_except_all_refuted.
Theorem c07_feat_except_all_partial : all_ops_ok (fun df => is_ (fst df) [d_bigquery] || except_all_ok df) = true.
Proof. vm_compute. reflexivity. Qed.
Print Assumptions c07_feat_except_all_partial.

Theorem c07_feat_column_exclude :
  all_ops_ok (fun df => implies (N.eqb (column_exclude (snd df)) 1) (supported (fst df) KWildExclude)
                     && implies (N.eqb (column_exclude (snd df)) 2) (supported (fst df) KWildExcept)) = true.
Proof. vm_compute. reflexivity. Qed.
Print Assumptions c07_feat_column_exclude.

(* zero-column SELECT, both states ([fix_n8]: RedshiftDialect no longer overrides supports_zero_columns() with true; the repair is
   blocked by the pinned test queries::compileall::constants_only) *)
Definition zero_cols_ok (df : list N * feat) : bool := implies (supports_zero_columns (snd df)) (supported (fst df) KZeroCols).
Theorem c07_feat_zero_columns_state : all_ops_ok zero_cols_ok = fix_n8 GenDialectFeat.head_fixes.
Proof. vm_compute. reflexivity. Qed.
Print Assumptions c07_feat_zero_columns_state.
Theorem c07_feat_zero_columns : fix_n8 GenDialectFeat.head_fixes = true -> forall df, In df feats -> zero_cols_ok df = true.
Proof. exact (proj1 (forallb_state _ _ _ c07_feat_zero_columns_state)). Qed.
Print Assumptions c07_feat_zero_columns.
Theorem c07_feat_zero_columns_refuted : fix_n8 GenDialectFeat.head_fixes = false -> exists df, In df feats /\ zero_cols_ok df = false.
Proof. exact (proj2 (forallb_state _ _ _ c07_feat_zero_columns_state)). Qed.
Print Assumptions c07_feat_zero_columns_refuted.
Theorem c07_feat_zero_columns_partial : all_ops_ok (fun df => is_ (fst df) [d_redshift] || zero_cols_ok df) = true.
Proof. vm_compute. reflexivity. Qed.
Print Assumptions c07_feat_zero_columns_partial.

(* WITH RECURSIVE (N6) and INTERVAL literals (N3): the dialect flags the repairs introduce (absent method = emitted for every
   dialect), both states *)
Definition recursive_ok (df : list N * feat) : bool := implies (recursive_keyword (snd df)) (supported (fst df) KRecursive).
Theorem c07_feat_recursive_state : all_ops_ok recursive_ok = fix_n6 GenDialectFeat.head_fixes.
Proof. vm_compute. reflexivity. Qed.
Print Assumptions c07_feat_recursive_state.
Theorem c07_feat_recursive : fix_n6 GenDialectFeat.head_fixes = true -> forall df, In df feats -> recursive_ok df = true.
Proof. exact (proj1 (forallb_state _ _ _ c07_feat_recursive_state)). Qed.
Print Assumptions c07_feat_recursive.
Theorem c07_feat_recursive_refuted : fix_n6 GenDialectFeat.head_fixes = false -> exists df, In df feats /\ recursive_ok df = false.
Proof. exact (proj2 (forallb_state _ _ _ c07_feat_recursive_state)). Qed.
Print Assumptions c07_feat_recursive_refuted.
Theorem c07_feat_recursive_partial : all_ops_ok (fun df => is_ (fst df) [d_mssql] || recursive_ok df) = true.
Proof. vm_compute. reflexivity. Qed.
Print Assumptions c07_feat_recursive_partial.

Definition interval_ok (df : list N * feat) : bool := implies (interval_literal (snd df)) (supported (fst df) KInterval).
Theorem c07_feat_interval_state : all_ops_ok interval_ok = fix_n3 GenDialectFeat.head_fixes.
Proof. vm_compute. reflexivity. Qed.
Print Assumptions c07_feat_interval_state.
Theorem c07_feat_interval : fix_n3 GenDialectFeat.head_fixes = true -> forall df, In df feats -> interval_ok df = true.
Proof. exact (proj1 (forallb_state _ _ _ c07_feat_interval_state)). Qed.
Print Assumptions c07_feat_interval.
Theorem c07_feat_interval_refuted : fix_n3 GenDialectFeat.head_fixes = false -> exists df, In df feats /\ interval_ok df = false.
Proof. exact (proj2 (forallb_state _ _ _ c07_feat_interval_state)). Qed.
Print Assumptions c07_feat_interval_refuted.
Theorem c07_feat_interval_partial : all_ops_ok (fun df => is_ (fst df) [d_sqlite; d_mssql] || interval_ok df) = true.
Proof. vm_compute. reflexivity. Qed.
Print Assumptions c07_feat_interval_partial.

(* the tree under test: the repairs of N3 (19e2c2a), N5 (ae779df), N6 (3318626) and N11 (2f7a440) are in it; the repair of N8 is
   blocked by a pinned test.  A regression of one of the four -- or a landing N8 repair -- stops this obligation; the statements
   above need no edit. *)
Theorem c07_head_fixes : GenDialectFeat.head_fixes = mkFixes true true true false true.
Proof. vm_compute. reflexivity. Qed.
Print Assumptions c07_head_fixes.

(* hence, on this tree, at full strength: *)
Theorem c07_head_except_all : forall df, In df feats -> except_all_ok df = true.
Proof. apply c07_feat_except_all. now rewrite c07_head_fixes. Qed.
Print Assumptions c07_head_except_all.
Theorem c07_head_recursive : forall df, In df feats -> recursive_ok df = true.
Proof. apply c07_feat_recursive. now rewrite c07_head_fixes. Qed.
Print Assumptions c07_head_recursive.
Theorem c07_head_interval : forall df, In df feats -> interval_ok df = true.
Proof. apply c07_feat_interval. now rewrite c07_head_fixes. Qed.
Print Assumptions c07_head_interval.

Theorem c07_feat_paren_operand : all_ops_ok (fun df => implies (prefers_paren (snd df)) (supported (fst df) KParenOperand)) = true.
Proof. vm_compute. reflexivity. Qed.
Print Assumptions c07_feat_paren_operand.

Theorem c07_feat_ident_quote : all_ops_ok (fun df => supported (fst df) (KQuote (ident_quote (snd df)))) = true.
Proof. vm_compute. reflexivity. Qed.
Print Assumptions c07_feat_ident_quote.

Theorem c07_feat_group_star_concat :
  all_ops_ok (fun df => implies (stars_in_group (snd df)) (supported (fst df) KGroupStar)
                     && implies (has_concat_function (snd df)) (supported (fst df) KConcatN)) = true.
Proof. vm_compute. reflexivity. Qed.
Print Assumptions c07_feat_group_star_concat.

(* string literals (fix d2c1667: string_literal_backslash_escape).  The flag is set only where the engine reads backslash
   escapes (doubling elsewhere would change the value) ... *)
Theorem c07_feat_backslash_sound :
  all_ops_ok (fun df => implies (backslash_escape (snd df)) (reads_backslash_escape (fst df))) = true.
Proof. vm_compute. reflexivity. Qed.
Print Assumptions c07_feat_backslash_sound.

(* ... full statement of the converse, still FALSE (open finding N13: bigquery reads backslash escapes, the flag is off, `'a\'`
   swallows its closing quote):
     all_ops_ok (fun df => implies (reads_backslash_escape (fst df)) (backslash_escape (snd df))) = true *)
Definition backslash_ok (df : list N * feat) : bool := implies (reads_backslash_escape (fst df)) (backslash_escape (snd df)).
Theorem c07_witness_bigquery_backslash : existsb (fun df => negb (backslash_ok df)) feats = true.
Proof. vm_compute. reflexivity. Qed.
Print Assumptions c07_witness_bigquery_backslash.
Theorem c07_feat_backslash_refuted : exists df, In df feats /\ backslash_ok df = false.
Proof. destruct (proj1 (existsb_exists _ _) c07_witness_bigquery_backslash) as (df & Hin & H). exists df. split; [exact Hin|]. now destruct (backslash_ok df). Qed.
Print Assumptions c07_feat_backslash_refuted.
Theorem c07_feat_backslash_partial : all_ops_ok (fun df => is_ (fst df) [d_bigquery] || backslash_ok df) = true.
Proof. vm_compute. reflexivity. Qed.
Print Assumptions c07_feat_backslash_partial.

(* LIMIT / OFFSET / FETCH as translate_select_pipeline emits them, for every take range.
   F27 is repaired (limit_for_bare_offset): an engine without OFFSET-without-LIMIT has the flag *)
Definition has_bare (f : feat) : bool := match bare_offset_limit f with Some _ => true | None => false end.
Theorem c07_feat_bare_offset : all_ops_ok (fun df => supported (fst df) KOffsetNoLimit || has_bare (snd df)) = true.
Proof. vm_compute. reflexivity. Qed.
Print Assumptions c07_feat_bare_offset.

(* full statement, still FALSE (open finding N7: OFFSET n ROWS without ORDER BY under use_fetch):
     forall d f, In (d, f) feats -> forall ordered s e, forallb (supported d) (take_uses (use_fetch f) (has_bare f) ordered s e) = true *)
Theorem c07_take_witness : existsb (fun df => negb (forallb (supported (fst df)) (take_uses (use_fetch (snd df)) (has_bare (snd df)) false (Some 3) None))) feats = true.
Proof. vm_compute. reflexivity. Qed.
Print Assumptions c07_take_witness.
Theorem c07_take_ok_refuted : exists d f ordered s e,
  In (d, f) feats /\ forallb (supported d) (take_uses (use_fetch f) (has_bare f) ordered s e) = false.
Proof.
  destruct (proj1 (existsb_exists _ _) c07_take_witness) as ([d f] & Hin & H).
  exists d, f, false, (Some 3), None. split; [exact Hin|]. cbn [fst snd] in H. now destruct (forallb _ _).
Qed.
Print Assumptions c07_take_ok_refuted.

Theorem c07_take_table_except_known : take_table use_fetch has_bare feats true = true.
Proof. vm_compute. reflexivity. Qed.
Print Assumptions c07_take_table_except_known.

Theorem c07_take_ok_partial : forall d f, In (d, f) feats -> forall ordered s e,
  take_known_b (use_fetch f) ordered (has_off s) (has_lim e) = false ->
  forallb (supported d) (take_uses (use_fetch f) (has_bare f) ordered s e) = true.
Proof. exact (fun d f Hin o s e Hk => take_table_sound use_fetch has_bare feats true c07_take_table_except_known d f Hin o s e Hk). Qed.
Print Assumptions c07_take_ok_partial.

(* in particular (F27, now a full-strength statement): no dialect without use_fetch emits a LIMIT/OFFSET shape its engine lacks *)
Theorem c07_take_ok_limit_dialects : forall d f, In (d, f) feats -> use_fetch f = false -> forall ordered s e,
  forallb (supported d) (take_uses (use_fetch f) (has_bare f) ordered s e) = true.
Proof.
  intros d f Hin Hu o s e. apply (c07_take_ok_partial d f Hin). unfold take_known_b. now rewrite Hu.
Qed.
Print Assumptions c07_take_ok_limit_dialects.

(* ---- value level: Model/SelectClauses.v mirrors the LIMIT/OFFSET/FETCH/ORDER BY tail of translate_select_pipeline on
   the inputs the hook verif:select_pipeline_in logs (every Take range of the atomic pipeline, the last Sort, Distinct, the
   projection); the harness compares it field by field with verif:select_pipeline_out.  Its clause record has, for ALL
   inputs, the shape the presence model predicts: *)
Theorem c07_select_clauses_shape : forall uf bare nsort dist proj off lim,
  shape (select_clauses uf bare nsort dist proj (off, lim)) =
  limit_model_b uf (is_some bare) (nz nsort) (negb (Z.eqb off 0)) (is_some lim).
Proof. exact shape_refines. Qed.
Print Assumptions c07_select_clauses_shape.

(* full statement, still FALSE (N7):
     forall d f, In (d, f) feats -> forall nsort dist proj takes c,
       select_limit (use_fetch f) (bare_offset_limit f) nsort dist proj takes = Ret c -> forallb (supported d) (clause_uses c) = true *)
Definition n7_takes : list erange := [ERange (Some (BInt 3)) None].
Theorem c07_select_clauses_witness :
  existsb (fun df => match select_limit (use_fetch (snd df)) (bare_offset_limit (snd df)) O false [] n7_takes with
                     | Ret c => negb (forallb (supported (fst df)) (clause_uses c)) | _ => false end) feats = true.
Proof. vm_compute. reflexivity. Qed.
Print Assumptions c07_select_clauses_witness.
Theorem c07_select_clauses_accepted_refuted : exists d f nsort dist proj takes c,
  In (d, f) feats /\ select_limit (use_fetch f) (bare_offset_limit f) nsort dist proj takes = Ret c /\
  forallb (supported d) (clause_uses c) = false.
Proof.
  destruct (proj1 (existsb_exists _ _) c07_select_clauses_witness) as ([d f] & Hin & H). cbn [fst snd] in H.
  destruct (select_limit (use_fetch f) (bare_offset_limit f) O false [] n7_takes) as [c| |] eqn:E; try discriminate.
  exists d, f, O, false, [], n7_takes, c. split; [exact Hin|]. split; [exact E|]. now destruct (forallb _ _).
Qed.
Print Assumptions c07_select_clauses_accepted_refuted.

(* every dialect row of the regenerated table, every list of take ranges (any bounds, any number of takes), every sort,
   every projection: outside the known class the emitted clause combination is one the engine's grammar has *)
Theorem c07_select_clauses_accepted_partial : forall d f, In (d, f) feats -> forall nsort dist proj takes c,
  select_limit (use_fetch f) (bare_offset_limit f) nsort dist proj takes = Ret c ->
  clauses_known c = false -> forallb (supported d) (clause_uses c) = true.
Proof.
  intros d f Hin nsort dist proj takes c Hc Hk.
  exact (select_clauses_supported use_fetch bare_offset_limit feats true c07_take_table_except_known d f Hin nsort dist proj takes c Hc Hk).
Qed.
Print Assumptions c07_select_clauses_accepted_partial.

(* full strength for every dialect without use_fetch (eleven of the twelve rows) *)
Theorem c07_select_clauses_accepted_limit_dialects : forall d f, In (d, f) feats -> use_fetch f = false ->
  forall nsort dist proj takes c,
  select_limit (use_fetch f) (bare_offset_limit f) nsort dist proj takes = Ret c -> forallb (supported d) (clause_uses c) = true.
Proof.
  intros d f Hin Hu nsort dist proj takes c Hc. apply (c07_select_clauses_accepted_partial d f Hin nsort dist proj takes c Hc).
  rewrite Hu in Hc. exact (clauses_known_no_fetch _ _ _ _ _ _ Hc).
Qed.
Print Assumptions c07_select_clauses_accepted_limit_dialects.

(* the numbers behind LIMIT, OFFSET and FETCH FIRST are non-negative for every list of takes the resolver lets through *)
Theorem c07_select_quantities_nonneg : forall uf bare nsort dist proj rs c, Forall valid rs ->
  select_limit uf bare nsort dist proj (map lit rs) = Ret c ->
  (forall z, k_limit c = Some (LNum z) -> (0 <= z)%Z) /\ (forall z r, k_offset c = Some (z, r) -> (0 <= z)%Z) /\
  (forall z, k_fetch c = Some z -> (0 <= z)%Z).
Proof. exact select_limit_nonneg. Qed.
Print Assumptions c07_select_quantities_nonneg.

(* the LIMIT numeral is plain decimal digits for every value (full strength since fix 1cedbd3; was refuted by `take 4294967296`
   -> `LIMIT 4294967296L`, finding N17; the clauses stream compares the spelling on every real call) *)
Theorem c07_limit_plain : forall uf bare nsort dist proj takes c z,
  select_limit uf bare nsort dist proj takes = Ret c -> k_limit c = Some (LNum z) -> lim_long z = false.
Proof. reflexivity. Qed.
Print Assumptions c07_limit_plain.

Example c07_ex_select_clauses_mssql :
  clauses_code (select_limit true None 1 false [] [ERange (Some (BInt 2)) (Some (BInt 4)); ERange (Some (BInt 2)) None])
  = (1, ((0, 0%Z, []), (1, 2%Z, true), (1, 2%Z), (0, 1, 0))).
Proof. vm_compute. reflexivity. Qed.

(* an operator that is not emitted natively and has no usable template for the dialect (a `null` body, or no
   implementation at all) is a compile error of the model; the harness compares [op_outcome] with the compiler for
   every (dialect, operator) *)
Theorem c07_unsupported_is_error : forall d op,
  existsb (leqb op) GenDialectFeat.native_ops = false -> resolve_op std_ops d op <> Some false ->
  op_outcome std_ops GenDialectFeat.native_ops d op = CompileError.
Proof. exact (unsupported_is_error std_ops GenDialectFeat.native_ops). Qed.
Print Assumptions c07_unsupported_is_error.

(* every `null` of the root module is one of the natively emitted binary operators: no dialect loses them *)
Theorem c07_root_nulls_are_native :
  forallb (fun o => match o with (m, op, isnull, _) =>
     implies (isnull && match m with [] => true | _ => false end) (existsb (leqb op) GenDialectFeat.native_ops) end) std_ops = true.
Proof. vm_compute. reflexivity. Qed.
Print Assumptions c07_root_nulls_are_native.

Example c07_ex_mssql_regex : op_outcome std_ops GenDialectFeat.native_ops d_mssql
  [115;116;100;46;114;101;103;101;120;95;115;101;97;114;99;104] = CompileError.
Proof. vm_compute. reflexivity. Qed.

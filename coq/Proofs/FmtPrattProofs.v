(* C14 -- facts about the parser model of Model/FmtPratt.v that do not mention the formatter:
   more fuel never changes a successful parse. *)
From Coq Require Import List NArith Bool Arith Lia.
From PV Require Import Lib.ListX Model.FmtLit Model.FmtPratt.
Import ListNotations.

Section Mono.
  Variable T : ptab.

  Record ple (P Q : parsers) : Prop := {
    le_term : forall ts r, q_term P ts = Some r -> q_term Q ts = Some r;
    le_bin : forall m ts r, q_bin P m ts = Some r -> q_bin Q m ts = Some r;
    le_loop : forall m l ts r, q_loop P m l ts = Some r -> q_loop Q m l ts = Some r;
    le_call : forall ts r, q_call P ts = Some r -> q_call Q ts = Some r;
    le_args : forall ts r, q_args P ts = Some r -> q_args Q ts = Some r;
    le_items : forall k ts r, q_items P k ts = Some r -> q_items Q k ts = Some r;
    le_params : forall ts r, q_params P ts = Some r -> q_params Q ts = Some r;
    le_lam : forall ts r, q_lam P ts = Some r -> q_lam Q ts = Some r;
  }.

  (* case-split the matches of hypothesis H; calls to P's parsers are rewritten to Q's through `ple` *)
  Ltac mono_tac L H :=
    repeat match type of H with
    | context [match ?d with _ => _ end] =>
        lazymatch d with
        | q_term _ ?a => let E := fresh "E" in destruct d as [[? ?]|] eqn:E; [rewrite (le_term _ _ L _ _ E) | discriminate H]
        | q_bin _ ?m ?a => let E := fresh "E" in destruct d as [[? ?]|] eqn:E; [rewrite (le_bin _ _ L _ _ _ E) | discriminate H]
        | q_loop _ ?m ?l ?a => let E := fresh "E" in destruct d as [[? ?]|] eqn:E; [rewrite (le_loop _ _ L _ _ _ _ E) | discriminate H]
        | q_call _ ?a => let E := fresh "E" in destruct d as [[? ?]|] eqn:E; [rewrite (le_call _ _ L _ _ E) | discriminate H]
        | q_args _ ?a => let E := fresh "E" in destruct d as [[? ?]|] eqn:E; [rewrite (le_args _ _ L _ _ E) | discriminate H]
        | q_items _ ?k ?a => let E := fresh "E" in destruct d as [[? ?]|] eqn:E; [rewrite (le_items _ _ L _ _ _ E) | discriminate H]
        | q_params _ ?a => let E := fresh "E" in destruct d as [[? ?]|] eqn:E; [rewrite (le_params _ _ L _ _ E) | discriminate H]
        | q_lam _ ?a => let E := fresh "E" in destruct d as [[? ?]|] eqn:E; [rewrite (le_lam _ _ L _ _ E) | discriminate H]
        | _ => destruct d eqn:?; try discriminate H
        end
    end.

  Lemma p_unary_mono P Q (L : ple P Q) ts r : p_unary T P ts = Some r -> p_unary T Q ts = Some r.
  Proof. unfold p_unary. intro H. mono_tac L H; try exact H; try (apply (le_term _ _ L); exact H). Qed.

  Lemma p_range_mono P Q (L : ple P Q) ts r : p_range T P ts = Some r -> p_range T Q ts = Some r.
  Proof.
    unfold p_range. intro H.
    repeat match type of H with
    | context [match ?d with _ => _ end] =>
        lazymatch d with
        | p_unary _ _ ?a => let E := fresh "E" in destruct d as [[? ?]|] eqn:E; [rewrite (p_unary_mono _ _ L _ _ E) | discriminate H]
        | _ => destruct d eqn:?; try discriminate H
        end
    end; exact H.
  Qed.

  Lemma p_lc_mono P Q (L : ple P Q) ts r : p_lc P ts = Some r -> p_lc Q ts = Some r.
  Proof. unfold p_lc. intro H. mono_tac L H; try exact H; try (apply (le_call _ _ L); exact H); try (apply (le_lam _ _ L); exact H). Qed.

  Lemma p_nested_mono P Q (L : ple P Q) b ts r : p_nested P b ts = Some r -> p_nested Q b ts = Some r.
  Proof.
    unfold p_nested. intro H.
    repeat match type of H with
    | context [match ?d with _ => _ end] =>
        lazymatch d with
        | p_lc _ ?a => let E := fresh "E" in destruct d as [[? ?]|] eqn:E; [rewrite (p_lc_mono _ _ L _ _ E) | discriminate H]
        | _ => destruct d eqn:?; try discriminate H
        end
    end; try exact H; try (apply (p_lc_mono _ _ L); exact H).
  Qed.

  Lemma p_item_mono P Q (L : ple P Q) k ts r : p_item P k ts = Some r -> p_item Q k ts = Some r.
  Proof.
    unfold p_item. intro H.
    repeat match type of H with
    | context [match ?d with _ => _ end] =>
        lazymatch d with
        | p_nested _ ?b ?a => let E := fresh "E" in destruct d as [[? ?]|] eqn:E; [rewrite (p_nested_mono _ _ L _ _ _ E) | discriminate H]
        | q_call _ ?a => let E := fresh "E" in destruct d as [[? ?]|] eqn:E; [rewrite (le_call _ _ L _ _ E) | discriminate H]
        | _ => destruct d eqn:?; try discriminate H
        end
    end; exact H.
  Qed.

  Lemma step_mono P Q : ple P Q -> ple (step T P) (step T Q).
  Proof.
    intro L. constructor.
    - intros ts r H. cbn [step q_term] in *. mono_tac L H; exact H.
    - intros m ts r H. cbn [step q_bin] in *.
      destruct (p_range T P ts) as [[l r0]|] eqn:E; [|discriminate].
      rewrite (p_range_mono _ _ L _ _ E). apply (le_loop _ _ L). exact H.
    - intros m l ts r H. cbn [step q_loop] in *. mono_tac L H; try exact H; try (apply (le_loop _ _ L); exact H).
    - intros ts r H. cbn [step q_call] in *. mono_tac L H; exact H.
    - intros ts r H. cbn [step q_args] in *. mono_tac L H; exact H.
    - intros k ts r H. cbn [step q_items] in *.
      repeat match type of H with
      | context [match ?d with _ => _ end] =>
          lazymatch d with
          | p_item _ ?k ?a => let E := fresh "E" in destruct d as [[? ?]|] eqn:E; [rewrite (p_item_mono _ _ L _ _ _ E) | discriminate H]
          | q_items _ ?k ?a => let E := fresh "E" in destruct d as [[? ?]|] eqn:E; [rewrite (le_items _ _ L _ _ _ E) | discriminate H]
          | _ => destruct d eqn:?; try discriminate H
          end
      end; exact H.
    - intros ts r H. cbn [step q_params] in *. mono_tac L H; exact H.
    - intros ts r H. cbn [step q_lam] in *. mono_tac L H; exact H.
  Qed.

  Lemma ple_refl P : ple P P.
  Proof. constructor; auto. Qed.
  Lemma ple_trans P Q R : ple P Q -> ple Q R -> ple P R.
  Proof. intros A B. constructor; intros; [apply (le_term _ _ B), (le_term _ _ A)|apply (le_bin _ _ B), (le_bin _ _ A)|apply (le_loop _ _ B), (le_loop _ _ A)|apply (le_call _ _ B), (le_call _ _ A)|apply (le_args _ _ B), (le_args _ _ A)|apply (le_items _ _ B), (le_items _ _ A)|apply (le_params _ _ B), (le_params _ _ A)|apply (le_lam _ _ B), (le_lam _ _ A)]; assumption. Qed.

  Lemma par_S f : ple (par T f) (par T (S f)).
  Proof.
    induction f as [|f IH].
    - constructor; cbn; intros; discriminate.
    - cbn [par]. apply step_mono. exact IH.
  Qed.

  Lemma par_le f g : f <= g -> ple (par T f) (par T g).
  Proof. induction 1; [apply ple_refl | eapply ple_trans; [eassumption | apply par_S]]. Qed.

  Lemma parse_mono f g ts e : f <= g -> parse T f ts = Some e -> parse T g ts = Some e.
  Proof.
    intros Hle. unfold parse. intro H.
    destruct (p_nested (par T f) true ts) as [[e0 r]|] eqn:E; [|discriminate].
    rewrite (p_nested_mono _ _ (par_le _ _ Hle) _ _ _ E). exact H.
  Qed.
  Lemma parse_expr_mono f g ts e : f <= g -> parse_expr T f ts = Some e -> parse_expr T g ts = Some e.
  Proof.
    intros Hle. unfold parse_expr. intro H.
    destruct (q_bin (par T f) 0 ts) as [[e0 r]|] eqn:E; [|discriminate].
    rewrite (le_bin _ _ (par_le _ _ Hle) _ _ _ E). exact H.
  Qed.
End Mono.

(* Minimality of Model/FloatRyu.v shortest: for every digit count tried before the one that succeeded, NO multiple of that
   count's unit  10^(p-k+1)  lies in the rounding interval of the float (p = lead_pos, the position of the float's leading
   decimal digit) -- so no decimal with fewer significant digits reads back as the float. *)
From Coq Require Import List NArith ZArith Bool Lia.
From PV Require Import Lib.ListX Model.SqlLex Model.Literal Model.FloatFmt Model.FloatRyu Proofs.FloatRyuProofs.
Import ListNotations.
Local Open Scope N_scope.
Local Arguments N.eqb : simpl never.
Local Arguments N.leb : simpl never.
Local Arguments N.ltb : simpl never.
Local Arguments N.div : simpl never.
Local Arguments N.mul : simpl never.
Local Arguments N.add : simpl never.
Local Arguments N.sub : simpl never.
Local Arguments N.pow : simpl never.

(* ------------------------------------------------------------------ order on the fractions *)
Definition wf (a : rat) : Prop := snd a <> 0.

Lemma rle_spec a b : rle a b = true <-> fst a * snd b <= fst b * snd a.
Proof. unfold rle. apply N.leb_le. Qed.
Lemma rlt_spec a b : rlt a b = true <-> fst a * snd b < fst b * snd a.
Proof. unfold rlt. apply N.ltb_lt. Qed.
Lemma rle_false a b : rle a b = false <-> fst b * snd a < fst a * snd b.
Proof. unfold rle. rewrite N.leb_gt. tauto. Qed.
Lemma rlt_false a b : rlt a b = false <-> fst b * snd a <= fst a * snd b.
Proof. unfold rlt. rewrite N.ltb_ge. tauto. Qed.

Lemma le_trans_frac a1 a2 b1 b2 c1 c2 : b2 <> 0 ->
  a1 * b2 <= b1 * a2 -> b1 * c2 <= c1 * b2 -> a1 * c2 <= c1 * a2.
Proof.
  intros Hb H1 H2. apply (N.mul_le_mono_pos_r _ _ b2); [lia|].
  assert (a1 * c2 * b2 = a1 * b2 * c2) as -> by lia.
  assert (c1 * a2 * b2 = c1 * b2 * a2) as -> by lia.
  transitivity (b1 * a2 * c2); [apply N.mul_le_mono_r; exact H1|].
  assert (b1 * a2 * c2 = b1 * c2 * a2) as -> by lia. apply N.mul_le_mono_r. exact H2.
Qed.

Lemma lt_le_trans_frac a1 a2 b1 b2 c1 c2 : b2 <> 0 -> a2 <> 0 ->
  a1 * b2 < b1 * a2 -> b1 * c2 <= c1 * b2 -> c2 <> 0 -> a1 * c2 < c1 * a2.
Proof.
  intros Hb Ha H1 H2 Hc. apply (N.mul_lt_mono_pos_r b2); [lia|].
  assert (a1 * c2 * b2 = a1 * b2 * c2) as -> by lia.
  assert (c1 * a2 * b2 = c1 * b2 * a2) as -> by lia.
  apply N.lt_le_trans with (b1 * a2 * c2); [apply N.mul_lt_mono_pos_r; [lia | exact H1]|].
  assert (b1 * a2 * c2 = b1 * c2 * a2) as -> by lia. apply N.mul_le_mono_r. exact H2.
Qed.

Lemma le_lt_trans_frac a1 a2 b1 b2 c1 c2 : b2 <> 0 -> a2 <> 0 -> c2 <> 0 ->
  a1 * b2 <= b1 * a2 -> b1 * c2 < c1 * b2 -> a1 * c2 < c1 * a2.
Proof.
  intros Hb Ha Hc H1 H2. apply (N.mul_lt_mono_pos_r b2); [lia|].
  assert (a1 * c2 * b2 = a1 * b2 * c2) as -> by lia.
  assert (c1 * a2 * b2 = c1 * b2 * a2) as -> by lia.
  apply N.le_lt_trans with (b1 * a2 * c2); [apply N.mul_le_mono_r; exact H1|].
  assert (b1 * a2 * c2 = b1 * c2 * a2) as -> by lia. apply N.mul_lt_mono_pos_r; [lia | exact H2].
Qed.

(* ------------------------------------------------------------------ the interval is convex and contains the float *)
Definition ival_lo (f : N * Z) : rat := rsub (bin_rat (fst f) (snd f)) (fst (half_gaps f)).
Definition ival_hi (f : N * Z) : rat := radd (bin_rat (fst f) (snd f)) (snd (half_gaps f)).

Lemma in_interval_unfold f x :
  in_interval f x = if N.even (fst f) then rle (ival_lo f) x && rle x (ival_hi f) else rlt (ival_lo f) x && rlt x (ival_hi f).
Proof. unfold in_interval, ival_lo, ival_hi. destruct (half_gaps f) as [down up]. reflexivity. Qed.

Lemma bin_rat_wf m q : wf (bin_rat m q).
Proof. unfold wf, bin_rat. destruct q; cbn [snd]; try discriminate; try (apply N.pow_nonzero; discriminate). Qed.
Lemma dec_rat_wf m e : wf (dec_rat m e).
Proof. exact (dec_rat_den m e). Qed.
Lemma radd_wf a b : wf a -> wf b -> wf (radd a b).
Proof. unfold wf, radd. cbn [snd]. intros. apply N.neq_mul_0. auto. Qed.
Lemma rsub_wf a b : wf a -> wf b -> wf (rsub a b).
Proof. unfold wf, rsub. cbn [snd]. intros. apply N.neq_mul_0. auto. Qed.

Lemma half_gaps_wf f : wf (fst (half_gaps f)) /\ wf (snd (half_gaps f)).
Proof.
  unfold half_gaps. destruct f as [mant q]. cbn [fst snd].
  destruct ((mant =? P52) && (MIN_Q <? q)%Z); cbn [fst snd]; split; apply bin_rat_wf.
Qed.

Lemma ival_lo_wf f : wf (ival_lo f).
Proof. apply rsub_wf; [apply bin_rat_wf | apply half_gaps_wf]. Qed.
Lemma ival_hi_wf f : wf (ival_hi f).
Proof. apply radd_wf; [apply bin_rat_wf | apply half_gaps_wf]. Qed.

(* lo <= v <= hi, as fractions *)
Lemma lo_le_v f : let v := bin_rat (fst f) (snd f) in fst (ival_lo f) * snd v <= fst v * snd (ival_lo f).
Proof.
  cbv zeta. unfold ival_lo, rsub. cbn [fst snd]. set (v := bin_rat (fst f) (snd f)). set (d := fst (half_gaps f)).
  nia.
Qed.
Lemma v_le_hi f : let v := bin_rat (fst f) (snd f) in fst v * snd (ival_hi f) <= fst (ival_hi f) * snd v.
Proof.
  cbv zeta. unfold ival_hi, radd. cbn [fst snd]. set (v := bin_rat (fst f) (snd f)). set (u := snd (half_gaps f)).
  nia.
Qed.

Lemma bin_rat_one_pos q : fst (bin_rat 1 q) <> 0.
Proof.
  unfold bin_rat. destruct q; cbn [fst]; try discriminate; try (apply N.neq_mul_0; split; [discriminate | apply N.pow_nonzero; discriminate]).
Qed.
Lemma bin_rat_pos m q : m <> 0 -> fst (bin_rat m q) <> 0.
Proof.
  intro H. unfold bin_rat. destruct q; cbn [fst]; try assumption; apply N.neq_mul_0; split; try assumption; apply N.pow_nonzero; discriminate.
Qed.

Lemma up_pos f : fst (snd (half_gaps f)) <> 0.
Proof.
  unfold half_gaps. destruct f as [mant q]. destruct ((mant =? P52) && (MIN_Q <? q)%Z); cbn [fst snd]; apply bin_rat_one_pos.
Qed.
Lemma down_pos f : fst (fst (half_gaps f)) <> 0.
Proof.
  unfold half_gaps. destruct f as [mant q]. destruct ((mant =? P52) && (MIN_Q <? q)%Z); cbn [fst snd]; apply bin_rat_one_pos.
Qed.

Lemma v_lt_hi f : let v := bin_rat (fst f) (snd f) in fst v * snd (ival_hi f) < fst (ival_hi f) * snd v.
Proof.
  cbv zeta. unfold ival_hi, radd. cbn [fst snd].
  pose proof (bin_rat_wf (fst f) (snd f)) as W. pose proof (up_pos f) as U. pose proof (proj2 (half_gaps_wf f)) as WU.
  unfold wf in *. set (v := bin_rat (fst f) (snd f)) in *. set (u := snd (half_gaps f)) in *.
  assert (0 < fst u * snd v * snd v) as P by (repeat apply N.mul_pos_pos; lia). nia.
Qed.
Lemma lo_lt_v f : fst f <> 0 -> let v := bin_rat (fst f) (snd f) in fst (ival_lo f) * snd v < fst v * snd (ival_lo f).
Proof.
  intro Hf. cbv zeta. unfold ival_lo, rsub. cbn [fst snd].
  pose proof (bin_rat_wf (fst f) (snd f)) as W. pose proof (down_pos f) as D. pose proof (proj1 (half_gaps_wf f)) as WD.
  pose proof (bin_rat_pos (fst f) (snd f) Hf) as VP.
  unfold wf in *. set (v := bin_rat (fst f) (snd f)) in *. set (d := fst (half_gaps f)) in *.
  assert (0 < fst d * snd v * snd v) as P by (repeat apply N.mul_pos_pos; lia).
  assert (0 < fst v * snd v * snd d) as P2 by (repeat apply N.mul_pos_pos; lia).
  destruct (N.le_gt_cases (fst d * snd v) (fst v * snd d)) as [L|G]; nia.
Qed.

(* a point at or below the float that is outside the interval: everything below it is outside too *)
Lemma outside_below f a b : fst f <> 0 -> wf a -> wf b ->
  rle a (bin_rat (fst f) (snd f)) = true -> in_interval f a = false -> rle b a = true -> in_interval f b = false.
Proof.
  intros Hf Wa Wb Hav Ha Hba. rewrite in_interval_unfold in *.
  pose proof (bin_rat_wf (fst f) (snd f)) as Wv. pose proof (ival_lo_wf f) as Wl. pose proof (ival_hi_wf f) as Wh.
  pose proof (v_le_hi f) as VH. pose proof (v_lt_hi f) as VH'. cbv zeta in *. unfold wf in *.
  apply rle_spec in Hav, Hba.
  destruct (N.even (fst f)).
  - apply andb_false_iff in Ha as [Ha|Ha].
    + apply rle_false in Ha. apply andb_false_iff. left. apply rle_false.
      exact (le_lt_trans_frac _ _ _ _ _ _ Wa Wb Wl Hba Ha).
    + exfalso. apply rle_false in Ha.
      pose proof (le_trans_frac _ _ _ _ _ _ Wv Hav VH) as T. lia.
  - apply andb_false_iff in Ha as [Ha|Ha].
    + apply rlt_false in Ha. apply andb_false_iff. left. apply rlt_false.
      exact (le_trans_frac _ _ _ _ _ _ Wa Hba Ha).
    + exfalso. apply rlt_false in Ha.
      pose proof (le_lt_trans_frac _ _ _ _ _ _ Wv Wa Wh Hav VH') as T. lia.
Qed.

Lemma outside_above f a b : fst f <> 0 -> wf a -> wf b ->
  rle (bin_rat (fst f) (snd f)) a = true -> in_interval f a = false -> rle a b = true -> in_interval f b = false.
Proof.
  intros Hf Wa Wb Hva Ha Hab. rewrite in_interval_unfold in *.
  pose proof (bin_rat_wf (fst f) (snd f)) as Wv. pose proof (ival_lo_wf f) as Wl. pose proof (ival_hi_wf f) as Wh.
  pose proof (lo_le_v f) as LV. pose proof (lo_lt_v f Hf) as LV'. cbv zeta in *. unfold wf in *.
  apply rle_spec in Hva, Hab.
  destruct (N.even (fst f)).
  - apply andb_false_iff in Ha as [Ha|Ha].
    + exfalso. apply rle_false in Ha.
      pose proof (le_trans_frac _ _ _ _ _ _ Wv LV Hva) as T. lia.
    + apply rle_false in Ha. apply andb_false_iff. right. apply rle_false.
      exact (lt_le_trans_frac _ _ _ _ _ _ Wa Wh Ha Hab Wb).
  - apply andb_false_iff in Ha as [Ha|Ha].
    + exfalso. apply rlt_false in Ha.
      pose proof (lt_le_trans_frac _ _ _ _ _ _ Wv Wl LV' Hva Wa) as T. lia.
    + apply rlt_false in Ha. apply andb_false_iff. right. apply rlt_false.
      exact (le_trans_frac _ _ _ _ _ _ Wa Ha Hab).
Qed.

(* ------------------------------------------------------------------ the two candidates bracket the float *)
Definition cand_lo (v : rat) (x : Z) : N :=
  match x with
  | Zneg px => fst v * 10 ^ Npos px / snd v
  | _ => fst v / (snd v * 10 ^ Z.to_N x)
  end.

Lemma candidates_eq v p k : candidates v p k =
  let x := (p - Z.of_nat k + 1)%Z in [(cand_lo v x, x); (cand_lo v x + 1, x)].
Proof. reflexivity. Qed.

Lemma bracket v x : wf v ->
  rle (dec_rat (cand_lo v x) x) v = true /\ rle v (dec_rat (cand_lo v x + 1) x) = true.
Proof.
  unfold wf. destruct v as [n d]. cbn [snd]. intro Hd. unfold cand_lo, dec_rat, rle. cbn [fst snd].
  destruct x as [|px|px]; cbn [Z.to_N]; rewrite ?N.pow_0_r, ?N.mul_1_r.
  - pose proof (N.mul_div_le n d Hd) as H1. pose proof (N.mul_succ_div_gt n d Hd) as H2. rewrite <- N.add_1_r in H2.
    set (q := n / d) in *. cbn [fst snd]. rewrite ?N.mul_1_r. split; apply N.leb_le; lia.
  - set (P := 10 ^ N.pos px).
    assert (d * P <> 0) as H0 by (apply N.neq_mul_0; split; [exact Hd | apply N.pow_nonzero; discriminate]).
    pose proof (N.mul_div_le n _ H0) as H1. pose proof (N.mul_succ_div_gt n _ H0) as H2. rewrite <- N.add_1_r in H2.
    set (q := n / (d * P)) in *. cbn [fst snd]. rewrite ?N.mul_1_r.
    split; apply N.leb_le.
    + replace (q * P * d) with (d * P * q) by lia. lia.
    + replace ((q + 1) * P * d) with (d * P * (q + 1)) by lia. lia.
  - set (P := 10 ^ N.pos px).
    pose proof (N.mul_div_le (n * P) d Hd) as H1. pose proof (N.mul_succ_div_gt (n * P) d Hd) as H2. rewrite <- N.add_1_r in H2.
    set (q := n * P / d) in *. cbn [fst snd]. split; apply N.leb_le; lia.
Qed.

Lemma dec_rat_mono a b x : a <= b -> rle (dec_rat a x) (dec_rat b x) = true.
Proof.
  intro H. unfold dec_rat, rle. destruct x; cbn [fst snd]; apply N.leb_le; nia.
Qed.

(* no candidate passed the test: no non-zero multiple of 10^x is in the interval *)
Lemma no_candidate_no_multiple f x : fst f <> 0 ->
  best f (bin_rat (fst f) (snd f)) [(cand_lo (bin_rat (fst f) (snd f)) x, x); (cand_lo (bin_rat (fst f) (snd f)) x + 1, x)] = None ->
  forall D, D <> 0 -> in_interval f (dec_rat D x) = false.
Proof.
  intros Hf Hb D HD. set (v := bin_rat (fst f) (snd f)) in *. set (lo := cand_lo v x) in *.
  pose proof (bin_rat_wf (fst f) (snd f)) as Wv. fold v in Wv.
  destruct (bracket v x Wv) as [B1 B2]. fold lo in B1, B2.
  unfold best in Hb. cbn [filter fst snd] in Hb.
  assert (forall c, c <> 0 -> (c = lo \/ c = lo + 1) -> in_interval f (dec_rat c x) = false) as OUT.
  { intros c Hc Hor. destruct (in_interval f (dec_rat c x)) eqn:I; [|reflexivity]. exfalso.
    apply N.eqb_neq in Hc.
    destruct Hor as [-> | ->]; rewrite Hc, I in Hb; cbn [negb andb fst snd] in Hb;
      repeat match type of Hb with context [if ?b then _ else _] => destruct b; cbn [fst snd] in Hb end; discriminate. }
  destruct (N.le_gt_cases D lo) as [L|G].
  - assert (lo <> 0) as Hlo by lia.
    apply (outside_below f (dec_rat lo x) (dec_rat D x) Hf (dec_rat_wf _ _) (dec_rat_wf _ _) B1 (OUT lo Hlo (or_introl eq_refl))).
    apply dec_rat_mono. exact L.
  - assert (lo + 1 <> 0) as Hlo by lia.
    apply (outside_above f (dec_rat (lo + 1) x) (dec_rat D x) Hf (dec_rat_wf _ _) (dec_rat_wf _ _) B2 (OUT (lo + 1) Hlo (or_intror eq_refl))).
    apply dec_rat_mono. lia.
Qed.

(* MINIMALITY along the k-loop: when the search started at digit count k answers with a decimal whose last digit sits at
   position x, then for every digit count k' tried before (k <= k', unit 10^(p-k'+1) coarser than 10^x) no non-zero
   multiple of that unit lies in the interval *)
Theorem shortest_from_minimal f p : fst f <> 0 -> forall fuel k c,
  shortest_from fuel f (bin_rat (fst f) (snd f)) p k = Some c ->
  forall k', (k <= k')%nat -> (snd c < p - Z.of_nat k' + 1)%Z ->
  forall D, D <> 0 -> in_interval f (dec_rat D (p - Z.of_nat k' + 1)) = false.
Proof.
  intros Hf. induction fuel as [|fu IH]; intros k c H k' Hk Hx D HD; [discriminate|].
  cbn [shortest_from] in H. rewrite candidates_eq in H. cbv zeta in H.
  destruct (best f _ _) as [c'|] eqn:B.
  - injection H as <-. exfalso. destruct (best_sound _ _ _ _ B) as [Hin _].
    assert (snd c' = (p - Z.of_nat k + 1)%Z) as E by (destruct Hin as [<-|[<-|[]]]; reflexivity). lia.
  - destruct (Nat.eq_dec k' k) as [->|NE].
    + exact (no_candidate_no_multiple f _ Hf B D HD).
    + apply (IH (S k) c H k'); [lia | exact Hx | exact HD].
Qed.

Theorem shortest_minimal f D x : fst f <> 0 -> shortest f = Some (D, x) ->
  let p := lead_pos (bin_rat (fst f) (snd f)) in
  forall k', (1 <= k')%nat -> (x < p - Z.of_nat k' + 1)%Z ->
  forall D', D' <> 0 -> in_interval f (dec_rat D' (p - Z.of_nat k' + 1)) = false.
Proof.
  intros Hf H p k' Hk Hx D' HD'. unfold shortest in H. pose proof Hf as Hf'. apply N.eqb_neq in Hf'. rewrite Hf' in H.
  exact (shortest_from_minimal f p Hf 17 1 (D, x) H k' Hk Hx D' HD').
Qed.

(* ------------------------------------------------------------------ lead_pos is the position of the leading decimal digit *)
Lemma base_value_acc_lower : forall w a, a * 10 ^ N.of_nat (length w) <= base_value_acc 10 a w.
Proof.
  induction w as [|c w IH]; intro a.
  - cbn [length base_value_acc]. change (N.of_nat 0) with 0. rewrite N.pow_0_r. lia.
  - cbn [length base_value_acc]. rewrite Nat2N.inj_succ, N.pow_succ_r'.
    specialize (IH (a * 10 + hex_val c)). nia.
Qed.

Lemma digits_len_bounds m : m <> 0 ->
  10 ^ N.of_nat (length (digits_of m) - 1) <= m < 10 ^ N.of_nat (length (digits_of m)).
Proof.
  intro Hm. pose proof (LiteralProofs.digits_of_value m) as V. unfold base_value in V.
  destruct (LiteralProofs.digits_of_shape m) as [[E _]|[_ (c & w & E & Hc & Hz & Hw)]]; [contradiction|].
  rewrite E in *. cbn [length]. replace (S (length w) - 1)%nat with (length w) by lia. split.
  - cbn [base_value_acc] in V. pose proof (base_value_acc_lower w (0 * 10 + hex_val c)) as L. rewrite V in L.
    apply LiteralProofs.is_digit_spec in Hc. assert (1 <= hex_val c) as H1.
    { unfold hex_val. assert (is_digit c = true) as D by (apply LiteralProofs.is_digit_spec; exact Hc). rewrite D. lia. }
    nia.
  - assert (forallb (LiteralProofs.digit_ok 10) (c :: w) = true) as F.
    { assert (forall x, is_digit x = true -> LiteralProofs.digit_ok 10 x = true) as K.
      { intros x Hx. unfold LiteralProofs.digit_ok, digit_val. unfold is_hex. rewrite Hx. cbn [orb].
        apply LiteralProofs.is_digit_spec in Hx as R. unfold hex_val.
        assert (is_digit x = true) as D by (apply LiteralProofs.is_digit_spec; exact R). rewrite D.
        replace (x - 48 <? 10) with true by (symmetry; apply N.ltb_lt; lia). reflexivity. }
      cbn [forallb]. rewrite (K c Hc). cbn [andb]. rewrite forallb_forall in Hw. rewrite forallb_forall. intros x Hx. apply K, Hw, Hx. }
    pose proof (LiteralProofs.base_value_acc_bound 10 (c :: w) 0 F) as B. rewrite V in B. cbn [length] in B. lia.
Qed.

(* for a value of at least one *)
Lemma lead_pos_ge1 v : wf v -> snd v <= fst v ->
  let p := lead_pos v in (0 <= p)%Z /\
  10 ^ Z.to_N p * snd v <= fst v /\ fst v < 10 ^ (Z.to_N p + 1) * snd v.
Proof.
  unfold wf. destruct v as [n d]. cbn [fst snd]. intros Hd Hle. unfold lead_pos. cbn [fst snd].
  apply N.leb_le in Hle as Hb. rewrite Hb. set (m := n / d).
  assert (m <> 0) as Hm. { subst m. intro Z. apply N.div_small_iff in Z; [lia | exact Hd]. }
  destruct (digits_len_bounds m Hm) as [L U]. set (len := length (digits_of m)) in *.
  assert (1 <= len)%nat as Hlen.
  { destruct (LiteralProofs.digits_of_cons m) as (c & w & E & _). subst len. rewrite E. cbn [length]. lia. }
  split; [lia|].
  replace (Z.to_N (Z.of_nat len - 1)) with (N.of_nat (len - 1)) by lia.
  replace (N.of_nat (len - 1) + 1) with (N.of_nat len) by lia.
  pose proof (N.mul_div_le n d Hd) as D1. pose proof (N.mul_succ_div_gt n d Hd) as D2. fold m in D1, D2.
  split; nia.
Qed.

(* for a value below one (and not below 10^-(j+fuel-1)): the first j with 10^-j <= v *)
Lemma neg_pos_spec : forall fuel v j,
  rle (1, 10 ^ (j + N.of_nat fuel - 1)) v = true -> (1 <= fuel)%nat -> 1 <= j -> rlt v (1, 10 ^ (j - 1)) = true ->
  exists J, neg_pos fuel v j = (- Z.of_N J)%Z /\ j <= J /\ rle (1, 10 ^ J) v = true /\ rlt v (1, 10 ^ (J - 1)) = true.
Proof.
  induction fuel as [|f IH]; intros v j Hb Hf Hj Hlt; [lia|].
  cbn [neg_pos]. destruct (rle (1, 10 ^ j) v) eqn:T.
  - exists j. repeat split; [lia | exact T | exact Hlt].
  - destruct f as [|f'].
    + exfalso. replace (j + N.of_nat 1 - 1) with j in Hb by lia. congruence.
    + destruct (IH v (j + 1)) as (J & E & HJ & A & B).
      * replace (j + 1 + N.of_nat (S f') - 1) with (j + N.of_nat (S (S f')) - 1) by lia. exact Hb.
      * lia.
      * lia.
      * replace (j + 1 - 1) with j by lia. apply rlt_spec. apply rle_false in T. cbn [fst snd] in *. lia.
      * exists J. repeat split; [exact E | lia | exact A | exact B].
Qed.

Lemma lead_pos_lt1 v : wf v -> fst v < snd v -> rle (1, 10 ^ 400) v = true ->
  exists J, lead_pos v = (- Z.of_N J)%Z /\ 1 <= J /\ rle (1, 10 ^ J) v = true /\ rlt v (1, 10 ^ (J - 1)) = true.
Proof.
  intros W Hlt Hb. unfold lead_pos. apply N.leb_gt in Hlt as Hb'. rewrite Hb'.
  destruct (neg_pos_spec 400 v 1) as (J & E & HJ & A & B); try lia.
  - exact Hb.
  - change (10 ^ (1 - 1)) with 1. apply rlt_spec. cbn [fst snd]. lia.
  - exists J. auto.
Qed.

(* Minimality of Model/FloatRyu.v shortest: for every digit count tried before the one that succeeded, NO multiple of that
   count's unit  10^(p-k+1)  lies in the rounding interval of the float (p = lead_pos, the position of the float's leading
   decimal digit) -- so no decimal with fewer significant digits reads back as the float. *)
From Coq Require Import List NArith ZArith Bool Lia.
From PV Require Import Lib.ListX Model.SqlLex Model.Literal Model.FloatFmt Model.FloatRyu Proofs.FloatRyuProofs.
Import ListNotations.
Local Open Scope N_scope.
Local Arguments N.eqb : simpl never.
Local Arguments N.leb : simpl never.
Local Arguments N.ltb : simpl never.
Local Arguments N.div : simpl never.
Local Arguments N.mul : simpl never.
Local Arguments N.add : simpl never.
Local Arguments N.sub : simpl never.
Local Arguments N.pow : simpl never.

(* ------------------------------------------------------------------ order on the fractions *)
Definition wf (a : rat) : Prop := snd a <> 0.

Lemma rle_spec a b : rle a b = true <-> fst a * snd b <= fst b * snd a.
Proof. unfold rle. apply N.leb_le. Qed.
Lemma rlt_spec a b : rlt a b = true <-> fst a * snd b < fst b * snd a.
Proof. unfold rlt. apply N.ltb_lt. Qed.
Lemma rle_false a b : rle a b = false <-> fst b * snd a < fst a * snd b.
Proof. unfold rle. rewrite N.leb_gt. tauto. Qed.
Lemma rlt_false a b : rlt a b = false <-> fst b * snd a <= fst a * snd b.
Proof. unfold rlt. rewrite N.ltb_ge. tauto. Qed.

Lemma le_trans_frac a1 a2 b1 b2 c1 c2 : b2 <> 0 ->
  a1 * b2 <= b1 * a2 -> b1 * c2 <= c1 * b2 -> a1 * c2 <= c1 * a2.
Proof.
  intros Hb H1 H2. apply (N.mul_le_mono_pos_r _ _ b2); [lia|].
  assert (a1 * c2 * b2 = a1 * b2 * c2) as -> by lia.
  assert (c1 * a2 * b2 = c1 * b2 * a2) as -> by lia.
  transitivity (b1 * a2 * c2); [apply N.mul_le_mono_r; exact H1|].
  assert (b1 * a2 * c2 = b1 * c2 * a2) as -> by lia. apply N.mul_le_mono_r. exact H2.
Qed.

Lemma lt_le_trans_frac a1 a2 b1 b2 c1 c2 : b2 <> 0 -> a2 <> 0 ->
  a1 * b2 < b1 * a2 -> b1 * c2 <= c1 * b2 -> c2 <> 0 -> a1 * c2 < c1 * a2.
Proof.
  intros Hb Ha H1 H2 Hc. apply (N.mul_lt_mono_pos_r b2); [lia|].
  assert (a1 * c2 * b2 = a1 * b2 * c2) as -> by lia.
  assert (c1 * a2 * b2 = c1 * b2 * a2) as -> by lia.
  apply N.lt_le_trans with (b1 * a2 * c2); [apply N.mul_lt_mono_pos_r; [lia | exact H1]|].
  assert (b1 * a2 * c2 = b1 * c2 * a2) as -> by lia. apply N.mul_le_mono_r. exact H2.
Qed.

Lemma le_lt_trans_frac a1 a2 b1 b2 c1 c2 : b2 <> 0 -> a2 <> 0 -> c2 <> 0 ->
  a1 * b2 <= b1 * a2 -> b1 * c2 < c1 * b2 -> a1 * c2 < c1 * a2.
Proof.
  intros Hb Ha Hc H1 H2. apply (N.mul_lt_mono_pos_r b2); [lia|].
  assert (a1 * c2 * b2 = a1 * b2 * c2) as -> by lia.
  assert (c1 * a2 * b2 = c1 * b2 * a2) as -> by lia.
  apply N.le_lt_trans with (b1 * a2 * c2); [apply N.mul_le_mono_r; exact H1|].
  assert (b1 * a2 * c2 = b1 * c2 * a2) as -> by lia. apply N.mul_lt_mono_pos_r; [lia | exact H2].
Qed.

(* ------------------------------------------------------------------ the interval is convex and contains the float *)
Definition ival_lo (f : N * Z) : rat := rsub (bin_rat (fst f) (snd f)) (fst (half_gaps f)).
Definition ival_hi (f : N * Z) : rat := radd (bin_rat (fst f) (snd f)) (snd (half_gaps f)).

Lemma in_interval_unfold f x :
  in_interval f x = if N.even (fst f) then rle (ival_lo f) x && rle x (ival_hi f) else rlt (ival_lo f) x && rlt x (ival_hi f).
Proof. unfold in_interval, ival_lo, ival_hi. destruct (half_gaps f) as [down up]. reflexivity. Qed.

Lemma bin_rat_wf m q : wf (bin_rat m q).
Proof. unfold wf, bin_rat. destruct q; cbn [snd]; try discriminate. apply N.pow_nonzero. discriminate. Qed.
Lemma dec_rat_wf m e : wf (dec_rat m e).
Proof. exact (dec_rat_den m e). Qed.
Lemma radd_wf a b : wf a -> wf b -> wf (radd a b).
Proof. unfold wf, radd. cbn [snd]. intros. apply N.neq_mul_0. auto. Qed.
Lemma rsub_wf a b : wf a -> wf b -> wf (rsub a b).
Proof. unfold wf, rsub. cbn [snd]. intros. apply N.neq_mul_0. auto. Qed.

Lemma half_gaps_wf f : wf (fst (half_gaps f)) /\ wf (snd (half_gaps f)).
Proof.
  unfold half_gaps. destruct f as [mant q]. cbn [fst snd].
  destruct ((mant =? P52) && (MIN_Q <? q)%Z); cbn [fst snd]; split; apply bin_rat_wf.
Qed.

Lemma ival_lo_wf f : wf (ival_lo f).
Proof. apply rsub_wf; [apply bin_rat_wf | apply half_gaps_wf]. Qed.
Lemma ival_hi_wf f : wf (ival_hi f).
Proof. apply radd_wf; [apply bin_rat_wf | apply half_gaps_wf]. Qed.

(* lo <= v <= hi, as fractions *)
Lemma lo_le_v f : let v := bin_rat (fst f) (snd f) in fst (ival_lo f) * snd v <= fst v * snd (ival_lo f).
Proof.
  cbv zeta. unfold ival_lo, rsub. cbn [fst snd]. set (v := bin_rat (fst f) (snd f)). set (d := fst (half_gaps f)).
  nia.
Qed.
Lemma v_le_hi f : let v := bin_rat (fst f) (snd f) in fst v * snd (ival_hi f) <= fst (ival_hi f) * snd v.
Proof.
  cbv zeta. unfold ival_hi, radd. cbn [fst snd]. set (v := bin_rat (fst f) (snd f)). set (u := snd (half_gaps f)).
  nia.
Qed.

(* Lemmas about the checked primitives of Model/Checked.v *)
From Coq Require Import List ZArith Bool Lia.
From PV Require Import Model.Checked.
Import ListNotations.
Local Open Scope Z_scope.

Lemma in_i64_spec z : in_i64 z = true <-> i64_min <= z <= i64_max.
Proof. unfold in_i64. rewrite andb_true_iff, !Z.leb_le. tauto. Qed.

Lemma in_usize_spec z : in_usize z = true <-> 0 <= z <= usize_max.
Proof. unfold in_usize. rewrite andb_true_iff, !Z.leb_le. tauto. Qed.

Lemma chk64_ret z r : chk64 z = Ret r -> r = z /\ i64_min <= z <= i64_max.
Proof.
  unfold chk64. destruct (in_i64 z) eqn:E; intro H; [|discriminate].
  injection H as <-. split; [reflexivity | apply in_i64_spec; exact E].
Qed.

Lemma chk64_in z : i64_min <= z <= i64_max -> chk64 z = Ret z.
Proof. intro H. unfold chk64. apply in_i64_spec in H. rewrite H. reflexivity. Qed.

Lemma chk64_cases z : chk64 z = Ret z \/ chk64 z = Panic.
Proof. unfold chk64. destruct (in_i64 z); auto. Qed.

Lemma chk64_panic z : chk64 z = Panic <-> ~ (i64_min <= z <= i64_max).
Proof.
  unfold chk64. destruct (in_i64 z) eqn:E.
  - apply in_i64_spec in E. split; [discriminate | tauto].
  - split; [|reflexivity]. intros _ H. apply in_i64_spec in H. congruence.
Qed.

Lemma chk64_not_fail z : chk64 z <> Fail.
Proof. unfold chk64. destruct (in_i64 z); discriminate. Qed.

Lemma opt64_some z r : opt64 z = Some r -> r = z /\ i64_min <= z <= i64_max.
Proof.
  unfold opt64. destruct (in_i64 z) eqn:E; intro H; [|discriminate].
  injection H as <-. split; [reflexivity | apply in_i64_spec; exact E].
Qed.

Lemma opt64_in z : i64_min <= z <= i64_max -> opt64 z = Some z.
Proof. intro H. unfold opt64. apply in_i64_spec in H. rewrite H. reflexivity. Qed.

Lemma opt64_none z : opt64 z = None <-> ~ (i64_min <= z <= i64_max).
Proof.
  unfold opt64. destruct (in_i64 z) eqn:E.
  - apply in_i64_spec in E. split; [discriminate | tauto].
  - split; [|reflexivity]. intros _ H. apply in_i64_spec in H. congruence.
Qed.

Lemma bind_not_panic {A B} (x : out A) (f : A -> out B) :
  x <> Panic -> (forall a, f a <> Panic) -> bind x f <> Panic.
Proof. destruct x; cbn; intros H1 H2; [apply H2 | discriminate | congruence]. Qed.

Lemma ok_or_not_panic {A} (o : option A) : ok_or o <> Panic.
Proof. destruct o; discriminate. Qed.

Lemma chkus_ret z r : chkus z = Ret r -> r = z /\ 0 <= z <= usize_max.
Proof.
  unfold chkus. destruct (in_usize z) eqn:E; intro H; [|discriminate].
  injection H as <-. split; [reflexivity | apply in_usize_spec; exact E].
Qed.

Lemma chkus_in z : 0 <= z <= usize_max -> chkus z = Ret z.
Proof. intro H. unfold chkus. apply in_usize_spec in H. rewrite H. reflexivity. Qed.

Lemma chkus_panic z : chkus z = Panic <-> ~ (0 <= z <= usize_max).
Proof.
  unfold chkus. destruct (in_usize z) eqn:E.
  - apply in_usize_spec in E. split; [discriminate | tauto].
  - split; [|reflexivity]. intros _ H. apply in_usize_spec in H. congruence.
Qed.

Lemma bind_ret {A B} (x : out A) (f : A -> out B) r :
  bind x f = Ret r -> exists a, x = Ret a /\ f a = Ret r.
Proof. destruct x; cbn; intro H; try discriminate. eauto. Qed.

Lemma bind_panic {A B} (x : out A) (f : A -> out B) :
  bind x f = Panic -> x = Panic \/ exists a, x = Ret a /\ f a = Panic.
Proof. destruct x; cbn; intro H; try discriminate; eauto. Qed.

Lemma slice_ret {A} (l : list A) a b r :
  slice l a b = Ret r -> (a <= b <= length l)%nat /\ r = firstn (b - a) (skipn a l).
Proof.
  unfold slice. destruct (Nat.leb a b && Nat.leb b (length l)) eqn:E; intro H; [|discriminate].
  injection H as <-. apply andb_true_iff in E as [E1 E2].
  apply Nat.leb_le in E1. apply Nat.leb_le in E2. split; [lia | reflexivity].
Qed.

Lemma slice_total {A} (l : list A) a b : (a <= b <= length l)%nat -> slice l a b <> Panic.
Proof.
  intros [H1 H2]. unfold slice.
  apply Nat.leb_le in H1. apply Nat.leb_le in H2. rewrite H1, H2. discriminate.
Qed.

Lemma index_total {A} (l : list A) i : (i < length l)%nat -> index l i <> Panic.
Proof.
  intro H. unfold index, unwrap. destruct (nth_error l i) eqn:E; [discriminate|].
  apply nth_error_None in E. lia.
Qed.

(* C04 -- proofs about Model/WinAtomic.v: a column definition that the walk keeps in the SELECT is no more complex than
   anything a later transform of that SELECT allowed it to be -- directly, or through a kept definition that uses it. *)
From Coq Require Import List NArith Bool Arith Lia.
From PV Require Import Lib.ListX Model.WindowFns Model.SplitBase Model.WinAtomic.
Import ListNotations.

Section Walk.
  Variable tb : req_tables.
  Notation "a <=c b" := (cx_leb tb a b = true) (at level 70).

  Lemma cx_leb_refl a : a <=c a.
  Proof. unfold cx_leb, cx_le. apply Nat.leb_refl. Qed.
  Lemma cx_leb_trans a b c : a <=c b -> b <=c c -> a <=c c.
  Proof. unfold cx_leb, cx_le. rewrite !Nat.leb_le. lia. Qed.
  Lemma cmin_le_l a b : cmin tb a b <=c a.
  Proof.
    unfold cmin. destruct (cx_leb tb a b) eqn:E; [apply cx_leb_refl|].
    unfold cx_leb, cx_le in *. apply Nat.leb_gt in E. apply Nat.leb_le. lia.
  Qed.
  Lemma cmin_le_r a b : cmin tb a b <=c b.
  Proof. unfold cmin. destruct (cx_leb tb a b) eqn:E; [exact E | apply cx_leb_refl]. Qed.

  (* the fold of Complexity::min: below its start value and below every requirement of that column *)
  Lemma allowed_fold_le id : forall req init,
    fold_left (fun c r => if N.eqb (fst r) id then cmin tb c (snd r) else c) req init <=c init /\
    (forall c, In (id, c) req -> fold_left (fun c r => if N.eqb (fst r) id then cmin tb c (snd r) else c) req init <=c c).
  Proof.
    induction req as [|[i c0] req IH]; intro init; cbn [fold_left fst snd].
    - split; [apply cx_leb_refl | intros c []].
    - destruct (N.eqb i id) eqn:E.
      + destruct (IH (cmin tb init c0)) as [H1 H2]. split.
        * eapply cx_leb_trans; [exact H1 | apply cmin_le_l].
        * intros c [H|H]; [|apply H2; exact H]. injection H as _ <-. eapply cx_leb_trans; [exact H1 | apply cmin_le_r].
      + destruct (IH init) as [H1 H2]. split; [exact H1|].
        intros c [H|H]; [|apply H2; exact H]. injection H as -> _. rewrite N.eqb_refl in E. discriminate.
  Qed.

  Lemma allowed_le req id c : In (id, c) req -> allowed tb req id <=c c.
  Proof. intro H. unfold allowed. apply (proj2 (allowed_fold_le id req (rt_highest tb))). exact H. Qed.

  Definition fol_after (st : wstate) (t : titem) : list nm :=
    if rt_records tb (t_kind t) then as_name (t_kind t) :: ws_fol st else ws_fol st.
  (* what the transform requires of its inputs, in the state the walk meets it in *)
  Definition reqs_of (st : wstate) (t : titem) : reqs := requirements tb t (fol_after st t) (ws_req st).

  Lemma wstep_no_split st t st' : wstep tb st t = Some st' -> rt_split tb (t_kind t) (ws_fol st) = false.
  Proof. unfold wstep. destruct (rt_split tb (t_kind t) (ws_fol st)); [discriminate | reflexivity]. Qed.

  Lemma wstep_fol st t st' : wstep tb st t = Some st' -> ws_fol st' = fol_after st t.
  Proof.
    unfold wstep, fol_after. destruct (rt_split tb (t_kind t) (ws_fol st)); [discriminate|].
    destruct (is_compute_kind (t_kind t)).
    - destruct (cx_leb tb (t_cx t) _); [|discriminate]. intro H. injection H as <-. reflexivity.
    - destruct (forallb _ (t_agg t)); [|discriminate]. intro H. injection H as <-. reflexivity.
  Qed.

  (* requirements are only ever appended *)
  Lemma wstep_incl st t st' : wstep tb st t = Some st' -> incl (ws_req st ++ reqs_of st t) (ws_req st').
  Proof.
    unfold wstep, reqs_of, fol_after. destruct (rt_split tb (t_kind t) (ws_fol st)); [discriminate|].
    destruct (is_compute_kind (t_kind t)).
    - destruct (cx_leb tb (t_cx t) _); [|discriminate]. intro H. injection H as <-. cbn [ws_req]. apply incl_appl. apply incl_refl.
    - destruct (forallb _ (t_agg t)); [|discriminate]. intro H. injection H as <-. cbn [ws_req]. apply incl_refl.
  Qed.

  Lemma walk_incl : forall l st st', walk tb st l = Some st' -> incl (ws_req st) (ws_req st').
  Proof.
    induction l as [|t l IH]; intros st st' H; cbn [walk] in H.
    - injection H as <-. apply incl_refl.
    - destruct (wstep tb st t) as [s1|] eqn:E; [|discriminate].
      eapply incl_tran; [|apply (IH s1 st' H)]. eapply incl_tran; [|apply (wstep_incl st t s1 E)]. apply incl_appl. apply incl_refl.
  Qed.

  (* a kept column definition: its complexity is below everything required of its column so far *)
  Lemma wstep_compute_le st x st' : wstep tb st x = Some st' -> is_compute_kind (t_kind x) = true ->
    forall c, In (t_id x, c) (ws_req st ++ reqs_of st x) -> t_cx x <=c c.
  Proof.
    unfold wstep, reqs_of, fol_after. destruct (rt_split tb (t_kind x) (ws_fol st)); [discriminate|].
    intros H K. rewrite K in H.
    destruct (cx_leb tb (t_cx x) (allowed tb _ (t_id x))) eqn:E; [|discriminate].
    intros c Hc. eapply cx_leb_trans; [exact E | apply allowed_le; exact Hc].
  Qed.

  (* the transitive requirements a kept definition y hands on: every column it mentions, at y's own allowance *)
  Definition handed_on (st : wstate) (y : titem) : reqs :=
    with_cx (allowed tb (ws_req st ++ reqs_of st y) (t_id y)) (map fst (reqs_of st y)).
  Lemma wstep_compute_hands_on st y st' : wstep tb st y = Some st' -> is_compute_kind (t_kind y) = true ->
    incl (handed_on st y) (ws_req st').
  Proof.
    unfold wstep, handed_on, reqs_of, fol_after. destruct (rt_split tb (t_kind y) (ws_fol st)); [discriminate|].
    intros H K. rewrite K in H. destruct (cx_leb tb (t_cx y) _); [|discriminate]. injection H as <-. cbn [ws_req].
    apply incl_appr. apply incl_refl.
  Qed.

  (* MAIN: the walk meets t (after la), later x (after lb) -- in the pipeline x stands in front of t -- and keeps both.
     Whatever t requires of x's column, directly, x is not more complex than; and if t is itself a kept definition that
     mentions x's column, x is not more complex than what t was allowed to be *)
  Theorem kept_definition_sound st0 la t lb x sa sb sc sx :
    walk tb st0 la = Some sa -> wstep tb sa t = Some sb -> walk tb sb lb = Some sc -> wstep tb sc x = Some sx ->
    is_compute_kind (t_kind x) = true ->
    (forall c, In (t_id x, c) (reqs_of sa t) -> t_cx x <=c c) /\
    (is_compute_kind (t_kind t) = true -> In (t_id x) (map fst (reqs_of sa t)) ->
     t_cx x <=c allowed tb (ws_req sa ++ reqs_of sa t) (t_id t)) /\
    rt_split tb (t_kind x) (ws_fol sc) = false.
  Proof.
    intros _ Ht Hlb Hx Kx. split; [|split].
    - intros c Hc. apply (wstep_compute_le sc x sx Hx Kx c). apply in_or_app. left.
      apply (walk_incl lb sb sc Hlb). apply (wstep_incl sa t sb Ht). apply in_or_app. right. exact Hc.
    - intros Kt Hin. apply (wstep_compute_le sc x sx Hx Kx). apply in_or_app. left.
      apply (walk_incl lb sb sc Hlb). apply (wstep_compute_hands_on sa t sb Ht Kt).
      unfold handed_on, with_cx. apply in_map_iff. exists (t_id x). split; [reflexivity | exact Hin].
    - apply (wstep_no_split sc x sx Hx).
  Qed.

  (* the output of the SELECT is required at the highest complexity only: it never forces a split *)
  Lemma output_requirement out id c : In (id, c) (ws_req (wstate0 tb out)) -> c = rt_highest tb.
  Proof. cbn [wstate0 ws_req]. unfold with_cx. intro H. apply in_map_iff in H as [i [E _]]. injection E as _ <-. reflexivity. Qed.
End Walk.

(* C17, structural part: every token parser of Model/Lexer.v returns a strict suffix of its input
   (p_token_strict), one lexing step splits its input into  inline-whitespace gap ++ token text ++ rest
   with the span exactly around the token text (p_lex_token_split), hence lexing never runs out of fuel
   (lex_loop_fuel) and the tokens tile the source (lex_tiles).
   Everything is generic in the character classes and in the tables; the only table hypothesis is
   [tables_wf] (keywords, operator texts and the words true/false/null are non-empty). *)
From Coq Require Import List NArith Bool Lia Arith.
From PV Require Import Lib.ListX Model.Lexer.
Import ListNotations.
Local Open Scope N_scope.

Local Arguments N.add : simpl never.
Local Arguments N.sub : simpl never.
Local Arguments N.mul : simpl never.

(* ---------------------------------------------------------------- suffixes and byte lengths *)
Definition suf (r s : str) : Prop := exists pre, s = pre ++ r.
Lemma suf_refl s : suf s s. Proof. now exists []. Qed.
Lemma suf_cons c r s : suf r s -> suf r (c :: s). Proof. intros [p ->]. now exists (c :: p). Qed.
Lemma suf_trans r m s : suf r m -> suf m s -> suf r s.
Proof. intros [p1 ->] [p2 ->]. exists (p2 ++ p1). now rewrite app_assoc. Qed.
Lemma suf_len r s : suf r s -> (List.length r <= List.length s)%nat.
Proof. intros [p ->]. rewrite app_length. lia. Qed.
Lemma suf_uncons c m s : suf (c :: m) s -> suf m s.
Proof. intros [p ->]. exists (p ++ [c]). now rewrite <- app_assoc. Qed.
#[global] Hint Resolve suf_refl suf_cons : suf.

Lemma utf8_len_pos c : 1 <= utf8_len c.
Proof. unfold utf8_len. destruct (c <? 128); [lia|]. destruct (c <? 2048); [lia|]. destruct (c <? 65536); lia. Qed.
Lemma blen_app a b : blen (a ++ b) = blen a + blen b.
Proof. induction a as [|c a IH]; cbn [blen app]; [lia|]. rewrite IH. lia. Qed.
Lemma suf_blen r s : suf r s -> blen r <= blen s.
Proof. intros [p ->]. rewrite blen_app. lia. Qed.
Lemma blen_pos s : s <> [] -> 1 <= blen s.
Proof. destruct s as [|c s]; [congruence|]. intros _. cbn [blen]. pose proof (utf8_len_pos c). lia. Qed.

(* a suffix of the same length is the whole list *)
Lemma suf_same_len r s : suf r s -> List.length r = List.length s -> r = s.
Proof.
  intros [p ->] H. rewrite app_length in H. destruct p; [reflexivity|]. cbn in H. lia.
Qed.

(* ---------------------------------------------------------------- primitive facts *)
Lemma eat_suf c s r : eat c s = Some r -> suf r s /\ List.length s = S (List.length r).
Proof. unfold eat. destruct s as [|x t]; [discriminate|]. destruct (x =? c); [|discriminate].
       intros H; inversion H; subst. split; auto with suf. Qed.
Lemma eat_inv c s r : eat c s = Some r -> s = c :: r.
Proof. unfold eat. destruct s as [|x t]; [discriminate|]. destruct (x =? c) eqn:E; [|discriminate].
       apply N.eqb_eq in E. intros H; inversion H; subst. reflexivity. Qed.
Lemma eat2_suf a b s r : eat2 a b s = Some r -> suf r s /\ List.length s = S (S (List.length r)).
Proof. unfold eat2. destruct (eat a s) eqn:E; [|discriminate]. intros H.
       apply eat_suf in E as [S1 L1]. apply eat_suf in H as [S2 L2]. split; [eapply suf_trans; eauto|lia]. Qed.
Lemma eat2_inv a b s r : eat2 a b s = Some r -> s = a :: b :: r.
Proof. unfold eat2. destruct (eat a s) eqn:E; [|discriminate]. intros H.
       apply eat_inv in E. apply eat_inv in H. congruence. Qed.
Lemma opt_eat_weak c s : suf (opt_eat c s) s /\ (List.length (opt_eat c s) <= List.length s)%nat.
Proof. unfold opt_eat. destruct (eat c s) eqn:E; [apply eat_suf in E as [A B]; split; [auto|lia]|split; auto with suf]. Qed.

Lemma span_while_suf p s a r : span_while p s = (a, r) -> suf r s /\ (List.length a + List.length r = List.length s)%nat.
Proof.
  revert a r; induction s as [|c t IH]; cbn; intros a r H.
  - inversion H; subst; split; auto with suf.
  - destruct (p c).
    + destruct (span_while p t) as [a' b'] eqn:E. inversion H; subst. destruct (IH _ _ eq_refl) as [S1 L1].
      split; auto with suf. cbn. lia.
    + inversion H; subst. split; auto with suf.
Qed.
(* the exact decomposition: s = a ++ r, all of a satisfies p, r does not start with a p-character *)
Lemma span_while_spec p s a r : span_while p s = (a, r) ->
  s = a ++ r /\ forallb p a = true /\ match r with [] => True | c :: _ => p c = false end.
Proof.
  revert a r; induction s as [|c t IH]; cbn; intros a r H.
  - inversion H; subst; auto.
  - destruct (p c) eqn:Pc.
    + destruct (span_while p t) as [a' b'] eqn:E. inversion H; subst. destruct (IH _ _ eq_refl) as [S1 [S2 S3]].
      cbn. rewrite Pc, S2. subst t. auto.
    + inversion H; subst. cbn. rewrite Pc. auto.
Qed.
Lemma span_while_max_suf p n s a r : span_while_max p n s = (a, r) ->
  suf r s /\ (List.length a + List.length r = List.length s)%nat.
Proof.
  revert s a r; induction n as [|n IH]; intros s a r H; cbn in H.
  - destruct s; inversion H; subst; split; auto with suf.
  - destruct s as [|c t]; [inversion H; subst; split; auto with suf|].
    destruct (p c).
    + destruct (span_while_max p n t) as [a' b'] eqn:E. inversion H; subst. destruct (IH _ _ _ E) as [S1 L1].
      split; auto with suf. cbn. lia.
    + inversion H; subst. split; auto with suf.
Qed.
Lemma strip_prefix_suf pre s r : strip_prefix pre s = Some r ->
  suf r s /\ (List.length s = List.length pre + List.length r)%nat.
Proof. intros H. apply strip_prefix_spec in H. subst. split; [now exists pre|apply app_length]. Qed.
Lemma skip_ws_suf s : suf (skip_ws s) s /\ (List.length (skip_ws s) <= List.length s)%nat.
Proof. unfold skip_ws. destruct (span_while is_iws s) as [a r] eqn:E. apply span_while_suf in E as [S1 L1]. cbn. split; auto. lia. Qed.
Lemma skip_ws_spec s : exists gap, s = gap ++ skip_ws s /\ forallb is_iws gap = true /\
  match skip_ws s with [] => True | c :: _ => is_iws c = false end.
Proof. unfold skip_ws. destruct (span_while is_iws s) as [a r] eqn:E. apply span_while_spec in E. exists a. exact E. Qed.

(* A parser "consumes" : returns a strict suffix *)
Definition strict (r s : str) : Prop := suf r s /\ (List.length r < List.length s)%nat.
Definition weak (r s : str) : Prop := suf r s /\ (List.length r <= List.length s)%nat.

Ltac facts :=
  repeat match goal with
  | H : eat _ _ = Some _ |- _ => apply eat_suf in H as [? ?]
  | H : eat2 _ _ _ = Some _ |- _ => apply eat2_suf in H as [? ?]
  | H : span_while _ _ = (_, _) |- _ => apply span_while_suf in H as [? ?]
  | H : span_while_max _ _ _ = (_, _) |- _ => apply span_while_max_suf in H as [? ?]
  | H : strip_prefix _ _ = Some _ |- _ => apply strip_prefix_suf in H as [? ?]
  end.
Ltac crush :=
  repeat match goal with
  | H : Some _ = Some _ |- _ => inversion H; subst; clear H
  | H : None = Some _ |- _ => discriminate
  | H : (_, _) = (_, _) |- _ => inversion H; subst; clear H
  | H : match ?x with _ => _ end = Some _ |- _ => destruct x eqn:?
  | H : (if ?b then _ else _) = Some _ |- _ => destruct b eqn:?
  | H : (let (_, _) := ?x in _) = Some _ |- _ => destruct x eqn:?
  end.
Ltac chain :=
  match goal with
  | |- suf ?r ?r => apply suf_refl
  | H : suf ?r ?m |- suf ?r ?s => apply (suf_trans r m s H); chain
  | H : suf (?c :: ?r) ?m |- suf ?r ?s => apply (suf_trans r m s (suf_uncons c r m H)); chain
  | |- suf ?r (?c :: ?s) => apply suf_cons; chain
  end.
Ltac fin := split; [chain | cbn [List.length] in *; lia].
Ltac opt_facts :=
  repeat match goal with
  | |- context [opt_eat ?c ?s] => let A := fresh in let B := fresh in destruct (opt_eat_weak c s) as [A B]; generalize dependent (opt_eat c s); intros
  | H : context [opt_eat ?c ?s] |- _ => let A := fresh in let B := fresh in destruct (opt_eat_weak c s) as [A B]; generalize dependent (opt_eat c s); intros
  end.

Lemma p_newline_strict s r : p_newline s = Some r -> strict r s.
Proof. unfold p_newline. intros H. crush; opt_facts; facts; fin. Qed.

Lemma p_comment_raw_strict s k r : p_comment_raw s = Some (k, r) -> strict r s.
Proof. unfold p_comment_raw. intros H. crush; facts; fin. Qed.
Lemma p_comment_strict s k r : p_comment s = Some (k, r) -> strict r s.
Proof. unfold p_comment. intros H. crush. eapply p_comment_raw_strict; eauto. Qed.

Lemma lw_comments_weak f s ks r : lw_comments f s = (ks, r) -> weak r s.
Proof.
  revert s ks r; induction f as [|f IH]; intros s ks r H; cbn in H.
  - inversion H; subst. split; auto with suf.
  - destruct (p_comment_raw (skip_ws s)) as [[k r1]|] eqn:E1; [|inversion H; subst; split; auto with suf].
    destruct (p_newline r1) as [r2|] eqn:E2; [|inversion H; subst; split; auto with suf].
    destruct (lw_comments f r2) as [ks' r3] eqn:E3. inversion H; subst.
    apply p_comment_raw_strict in E1 as [A1 B1]. apply p_newline_strict in E2 as [A2 B2].
    destruct (IH _ _ _ E3) as [A3 B3]. destruct (skip_ws_suf s) as [A0 B0].
    split; [|lia]. eapply suf_trans; [exact A3|]. eapply suf_trans; [exact A2|]. eapply suf_trans; [exact A1|exact A0].
Qed.

Lemma p_line_wrap_strict s k r : p_line_wrap s = Some (k, r) -> strict r s.
Proof.
  unfold p_line_wrap. intros H.
  destruct (p_newline s) as [r0|] eqn:E0; [|discriminate].
  destruct (lw_comments (List.length r0) r0) as [ks r1] eqn:E1.
  destruct (eat 92 (skip_ws r1)) as [r2|] eqn:E2; [|discriminate]. inversion H; subst.
  apply p_newline_strict in E0 as [A0 B0]. apply lw_comments_weak in E1 as [A1 B1].
  destruct (skip_ws_suf r1) as [A2 B2]. apply eat_suf in E2 as [A3 B3].
  split; [|lia]. eapply suf_trans; [exact A3|]. eapply suf_trans; [exact A2|]. eapply suf_trans; [exact A1|exact A0].
Qed.

Lemma p_newline_tok_strict s k r : p_newline_tok s = Some (k, r) -> strict r s.
Proof. unfold p_newline_tok. intros H. crush. now apply p_newline_strict. Qed.

(* ---- numbers (table independent) ---- *)
Lemma p_integer_strict s d r : p_integer s = Some (d, r) -> strict r s.
Proof. unfold p_integer. intros H. crush; facts; fin. Qed.

Lemma first_prefix_weak cands s u r : first_prefix cands s = Some (u, r) -> weak r s.
Proof.
  induction cands as [|c cs IH]; cbn; intros H; [discriminate|].
  destruct (strip_prefix c s) eqn:E.
  - inversion H; subst. apply strip_prefix_suf in E as [A B]. split; auto. lia.
  - auto.
Qed.
Lemma first_prefix_strict cands s u r :
  forallb (fun c => negb (Nat.eqb (List.length c) 0)) cands = true -> first_prefix cands s = Some (u, r) -> strict r s.
Proof.
  induction cands as [|c cs IH]; cbn; intros W H; [discriminate|].
  apply andb_true_iff in W as [W1 W2].
  destruct (strip_prefix c s) eqn:E.
  - inversion H; subst. apply strip_prefix_suf in E as [A B]. split; auto.
    destruct u; [discriminate|]. cbn in B. lia.
  - auto.
Qed.

Lemma p_frac_weak r f r1 : p_frac r = (f, r1) -> weak r1 r.
Proof.
  unfold p_frac. intros H.
  destruct (eat 46 r) as [[|d r']|] eqn:E1; try (inversion H; subst; split; [apply suf_refl|lia]).
  destruct (is_digit d); [|inversion H; subst; split; [apply suf_refl|lia]].
  destruct (span_while is_digit_us r') as [t r''] eqn:E2. inversion H; subst.
  facts. split; [chain|cbn [List.length] in *; lia].
Qed.
Lemma p_sign_weak r sg r1 : p_sign r = (sg, r1) -> weak r1 r.
Proof.
  unfold p_sign. intros H. destruct r as [|c t]; [inversion H; subst; split; [apply suf_refl|lia]|].
  destruct ((c =? 43) || (c =? 45)); inversion H; subst; split; auto with suf; cbn; lia.
Qed.
Lemma p_exp_weak r ex r2 : p_exp r = (ex, r2) -> weak r2 r.
Proof.
  unfold p_exp. intros H. destruct r as [|e r']; [inversion H; subst; split; [apply suf_refl|lia]|].
  destruct ((e =? 101) || (e =? 69)); [|inversion H; subst; split; [apply suf_refl|lia]].
  destruct (p_sign r') as [sg r''] eqn:ES. apply p_sign_weak in ES as [W1 W2].
  destruct (span_while is_digit r'') as [[|d ds] r3] eqn:E3; inversion H; subst; try (split; [apply suf_refl|lia]).
  facts. split; [apply suf_cons; eapply suf_trans; eauto|cbn [List.length] in *; lia].
Qed.

Lemma p_number_strict s l r : p_number s = Some (l, r) -> strict r s.
Proof.
  unfold p_number. intros H.
  destruct (p_integer s) as [[ip r0]|] eqn:E0; [|discriminate].
  apply p_integer_strict in E0 as [A0 B0].
  destruct (p_frac r0) as [frac r1] eqn:EF. apply p_frac_weak in EF as [F1 F2].
  destruct (p_exp r1) as [ex r2] eqn:EE. apply p_exp_weak in EE as [G1 G2].
  assert (strict r2 s) by (split; [eapply suf_trans; [exact G1|eapply suf_trans; eauto]|lia]).
  destruct frac, ex; crush; auto.
Qed.

Lemma p_raw_strict s l r : p_raw s = Some (l, r) -> strict r s.
Proof. unfold p_raw. intros H. crush; facts; fin. Qed.

Lemma p_digits_n_weak n s d r : p_digits_n n s = Some (d, r) -> weak r s.
Proof. unfold p_digits_n. intros H. crush; facts. split; [chain|lia]. Qed.
Lemma p_digits_1_max_weak m s d r : p_digits_1_max m s = Some (d, r) -> weak r s.
Proof.
  unfold p_digits_1_max. intros H. destruct (span_while_max is_digit m s) as [[|a b] c] eqn:E; [discriminate|].
  inversion H; subst. facts. split; auto. lia.
Qed.
Lemma opt_comp_weak sep p s d r :
  (forall x y z, p x = Some (y, z) -> weak z x) -> opt_comp sep p s = (d, r) -> weak r s.
Proof.
  intros Hp. unfold opt_comp. intros H. destruct s as [|c t]; [inversion H; subst; split; [apply suf_refl|lia]|].
  destruct (c =? sep); [|inversion H; subst; split; [apply suf_refl|lia]].
  destruct (p t) as [[d' r']|] eqn:E; inversion H; subst; [|split; [apply suf_refl|lia]].
  apply Hp in E as [A B]. split; [apply suf_cons; auto|cbn; lia].
Qed.

Lemma count_prefix_weak q s n r : count_prefix q s = (n, r) ->
  suf r s /\ (List.length s = n + List.length r)%nat.
Proof.
  revert n r; induction s as [|c t IH]; cbn; intros n r H.
  - inversion H; subst. split; auto with suf.
  - destruct (c =? q).
    + destruct (count_prefix q t) as [n' r'] eqn:E. inversion H; subst.
      destruct (IH _ _ eq_refl) as [A B]. split; auto with suf. cbn. lia.
    + inversion H; subst. split; auto with suf.
Qed.
Lemma take_quotes_weak q n s r : take_quotes q n s = Some r -> suf r s /\ (List.length s = n + List.length r)%nat.
Proof.
  revert s; induction n as [|n IH]; intros s H; cbn in H.
  - inversion H; subst. split; auto with suf.
  - destruct s as [|c t]; [discriminate|]. destruct (c =? q); [|discriminate].
    destruct (IH _ H) as [A B]. split; auto with suf. cbn. lia.
Qed.

Definition nonempty (s : str) : bool := negb (Nat.eqb (List.length s) 0).
(* the only table condition the structural theorems need *)
Definition tables_wf (T : tables) : bool :=
  forallb nonempty (t_keywords T) && forallb (fun o => nonempty (fst o)) (t_ops T)
  && nonempty (t_true T) && nonempty (t_false T) && nonempty (t_null T).

Section WithTables.
  Variable is_alpha is_alnum : chr -> bool.
  Variable T : tables.
  Hypothesis WF : tables_wf T = true.

  Notation end_expr := (end_expr T).
  Notation p_token := (p_token is_alpha is_alnum T).
  Notation p_lex_token := (p_lex_token is_alpha is_alnum T).
  Notation lex_loop := (lex_loop is_alpha is_alnum T).
  Notation lex := (lex is_alpha is_alnum T).

  Lemma wf_parts : forallb nonempty (t_keywords T) = true /\ forallb (fun o => nonempty (fst o)) (t_ops T) = true
    /\ nonempty (t_true T) = true /\ nonempty (t_false T) = true /\ nonempty (t_null T) = true.
  Proof. unfold tables_wf in WF. repeat (apply andb_true_iff in WF as [WF ?]). auto. Qed.

  Lemma p_ident_plain_strict s i r : p_ident_plain is_alpha is_alnum s = Some (i, r) -> strict r s.
  Proof. unfold p_ident_plain. intros H. crush; facts; fin. Qed.
  Lemma p_ident_bt_strict s i r : p_ident_bt s = Some (i, r) -> strict r s.
  Proof. unfold p_ident_bt. intros H. crush; facts; fin. Qed.
  Lemma p_ident_part_strict s i r : p_ident_part is_alpha is_alnum s = Some (i, r) -> strict r s.
  Proof.
    unfold p_ident_part, orelse. intros H. destruct (p_ident_plain is_alpha is_alnum s) as [[? ?]|] eqn:E.
    - inversion H; subst. eapply p_ident_plain_strict; eauto.
    - eapply p_ident_bt_strict; eauto.
  Qed.
  Lemma p_ident_strict s k r : p_ident is_alpha is_alnum s = Some (k, r) -> strict r s.
  Proof. unfold p_ident. intros H. crush. eapply p_ident_part_strict; eauto. Qed.

  Lemma p_param_strict s k r : p_param is_alnum s = Some (k, r) -> strict r s.
  Proof. unfold p_param. intros H. crush; facts; fin. Qed.

  Lemma p_ops_strict ops s k r :
    forallb (fun o => nonempty (fst o)) ops = true -> p_ops T ops s = Some (k, r) -> strict r s.
  Proof.
    induction ops as [|[txt [name ne]] ops IH]; cbn [p_ops forallb fst]; intros W H; [discriminate|].
    apply andb_true_iff in W as [W1 W2].
    assert (G : forall r0, strip_prefix txt s = Some r0 -> strict r0 s).
    { intros r0 E. apply strip_prefix_suf in E as [A B]. split; auto. unfold nonempty in W1.
      destruct txt; [discriminate|]. cbn in B. lia. }
    destruct (strip_prefix txt s) as [r0|] eqn:E; [|auto].
    destruct ne.
    - destruct (end_expr r0); [inversion H; subst; auto|auto].
    - inversion H; subst; auto.
  Qed.
  Lemma p_multi_strict s k r : p_multi T s = Some (k, r) -> strict r s.
  Proof. unfold p_multi. apply p_ops_strict. apply wf_parts. Qed.

  (* ---- strings ---- *)
  Lemma p_escape_u_weak s c r : p_escape_u T s = (c, r) -> weak r s.
  Proof.
    unfold p_escape_u. intros H. destruct (span_while_max is_hex (t_u_hex_max T) s) as [h r2] eqn:E.
    inversion H; subst. opt_facts. facts. split; [chain|lia].
  Qed.
  Lemma p_escape_x_weak c0 s c r : p_escape_x T c0 s = (c, r) -> weak r s.
  Proof.
    unfold p_escape_x. intros H. destruct (span_while_max is_hex (t_x_hex_len T) s) as [h r2] eqn:E.
    facts. destruct (Nat.eqb (List.length h) (t_x_hex_len T)); inversion H; subst; split; auto; lia.
  Qed.
  Lemma p_escape_weak s c r : p_escape T s = (c, r) -> weak r s.
  Proof.
    unfold p_escape. intros H. destruct s as [|x t]; [inversion H; subst; split; auto with suf|].
    destruct (lookup x (t_escapes T)); [inversion H; subst; split; [auto with suf|cbn; lia]|].
    destruct ((x =? 117) && peek_is 123 t).
    - apply p_escape_u_weak in H as [A B]. destruct (opt_eat_weak 123 t) as [A1 B1].
      split; [apply suf_cons; eapply suf_trans; eauto|cbn; lia].
    - destruct (x =? 120).
      + apply p_escape_x_weak in H as [A B]. split; [apply suf_cons; auto|cbn; lia].
      + inversion H; subst. split; [auto with suf|cbn; lia].
  Qed.

  Lemma mq_body_weak f q n s b r : mq_body T f q n s = Some (b, r) ->
    suf r s /\ (n + List.length r <= List.length s)%nat.
  Proof.
    revert s b r; induction f as [|f IH]; intros s b r H; cbn in H; [discriminate|].
    destruct (take_quotes q n s) as [r0|] eqn:E0.
    - inversion H; subst. apply take_quotes_weak in E0 as [A B]. split; auto. lia.
    - destruct s as [|c t]; [discriminate|].
      destruct (c =? 92).
      + destruct (p_escape T t) as [e r1] eqn:E1.
        destruct (mq_body T f q n r1) as [[b' r2]|] eqn:E2; [|discriminate]. inversion H; subst.
        apply p_escape_weak in E1 as [A1 B1]. destruct (IH _ _ _ E2) as [A2 B2].
        split; [apply suf_cons; eapply suf_trans; eauto|cbn; lia].
      + destruct (mq_body T f q n t) as [[b' r2]|] eqn:E2; [|discriminate]. inversion H; subst.
        destruct (IH _ _ _ E2) as [A2 B2]. split; [apply suf_cons; auto|cbn; lia].
  Qed.

  Lemma p_multi_quoted_strict q s b r : p_multi_quoted T q s = Some (b, r) -> strict r s.
  Proof.
    unfold p_multi_quoted. intros H. destruct (count_prefix q s) as [n r0] eqn:E0.
    apply count_prefix_weak in E0 as [A0 B0].
    destruct n as [|n]; [discriminate|].
    destruct (Nat.even (S n)).
    - inversion H; subst. split; auto. lia.
    - apply mq_body_weak in H as [A1 B1]. split; [eapply suf_trans; eauto|lia].
  Qed.

  Lemma p_quoted_strict s b r : p_quoted T s = Some (b, r) -> strict r s.
  Proof.
    unfold p_quoted, orelse. intros H.
    destruct (p_multi_quoted T 34 s) as [[b1 r1]|] eqn:E1.
    - inversion H; subst. eapply p_multi_quoted_strict; eauto.
    - eapply p_multi_quoted_strict; eauto.
  Qed.

  Lemma p_interp_strict s k r : p_interp T s = Some (k, r) -> strict r s.
  Proof.
    unfold p_interp. intros H. crush.
    match goal with H : p_quoted _ _ = Some _ |- _ => apply p_quoted_strict in H as [? ?] end. fin.
  Qed.

  (* ---- literals ---- *)
  Lemma p_based_entry_strict e s l r : p_based_entry e s = Some (l, r) -> strict r s.
  Proof.
    unfold p_based_entry. destruct e as [pre [base [maxd cls]]]. intros H.
    destruct (strip_prefix pre s) as [r0|] eqn:E0; [|discriminate].
    destruct (span_while_max (digit_class cls) maxd (opt_eat 95 r0)) as [[|d ds] r2] eqn:E1; [discriminate|].
    inversion H; subst. destruct (opt_eat_weak 95 r0) as [A B]. facts.
    split; [chain|cbn [List.length] in *; lia].
  Qed.
  Lemma p_based_nth_strict i s l r : p_based_nth T i s = Some (l, r) -> strict r s.
  Proof. unfold p_based_nth. destruct (nth_error (t_based T) i); [apply p_based_entry_strict|discriminate]. Qed.

  Lemma p_string_strict s l r : p_string T s = Some (l, r) -> strict r s.
  Proof. unfold p_string. intros H. crush. eapply p_quoted_strict; eauto. Qed.

  Lemma p_value_unit_strict s l r : p_value_unit T s = Some (l, r) -> strict r s.
  Proof.
    unfold p_value_unit. intros H. crush.
    match goal with H : p_integer _ = Some _ |- _ => apply p_integer_strict in H as [? ?] end.
    match goal with H : first_prefix _ _ = Some _ |- _ => apply first_prefix_weak in H as [? ?] end.
    fin.
  Qed.

  Lemma p_word_end_strict w s r : nonempty w = true -> p_word_end T w s = Some r -> strict r s.
  Proof.
    unfold p_word_end. intros Hw H. crush.
    match goal with H : strip_prefix _ _ = Some _ |- _ => apply strip_prefix_suf in H as [A B] end.
    split; auto. destruct w; [discriminate|]. cbn in B. lia.
  Qed.
  Lemma p_boolean_strict s l r : p_boolean T s = Some (l, r) -> strict r s.
  Proof.
    unfold p_boolean. intros H. destruct wf_parts as (_ & _ & W1 & W2 & _).
    destruct (p_word_end T (t_true T) s) eqn:E1.
    - inversion H; subst. eapply (p_word_end_strict (t_true T)); eauto.
    - destruct (p_word_end T (t_false T) s) eqn:E2; [|discriminate].
      inversion H; subst. eapply (p_word_end_strict (t_false T)); eauto.
  Qed.
  Lemma p_null_strict s l r : p_null T s = Some (l, r) -> strict r s.
  Proof.
    unfold p_null. intros H. destruct wf_parts as (_ & _ & _ & _ & W).
    destruct (p_word_end T (t_null T) s) eqn:E1; [|discriminate].
    inversion H; subst. eapply (p_word_end_strict (t_null T)); eauto.
  Qed.

  Lemma p_lit_alt_strict i s l r : p_lit_alt T i s = Some (l, r) -> strict r s.
  Proof.
    unfold p_lit_alt. intros H.
    repeat match type of H with (if ?b then _ else _) = _ => destruct b end;
      eauto using p_based_nth_strict, p_string_strict, p_raw_strict, p_value_unit_strict, p_number_strict,
        p_boolean_strict, p_null_strict.
    discriminate.
  Qed.
  Lemma first_lit_strict ids s l r : first_lit T ids s = Some (l, r) -> strict r s.
  Proof.
    induction ids as [|i ids IH]; cbn [first_lit]; intros H; [discriminate|].
    destruct (p_lit_alt T i s) as [[l0 r0]|] eqn:E; [|auto].
    inversion H; subst. eapply p_lit_alt_strict; eauto.
  Qed.
  Lemma p_literal_strict s k r : p_literal T s = Some (k, r) -> strict r s.
  Proof. unfold p_literal. intros H. crush. eapply first_lit_strict; eauto. Qed.

  Lemma p_keyword_strict s k r : p_keyword T s = Some (k, r) -> strict r s.
  Proof.
    unfold p_keyword. intros H. destruct (first_prefix (t_keywords T) s) as [[k0 r0]|] eqn:E; [|discriminate].
    destruct (end_expr r0); [|discriminate]. inversion H; subst.
    eapply first_prefix_strict; [|exact E]. apply wf_parts.
  Qed.

  (* ---- date / time ---- *)
  Ltac use_dig :=
    repeat match goal with
    | H : p_digits_n _ _ = Some (_, _) |- _ => apply p_digits_n_weak in H as [? ?]
    end.

  Lemma p_date_inner_weak s d r : p_date_inner T s = Some (d, r) -> weak r s.
  Proof. unfold p_date_inner. intros H. crush; use_dig; facts. split; [chain|lia]. Qed.

  Lemma p_tz_weak s d r : p_tz T s = (d, r) -> weak r s.
  Proof.
    unfold p_tz. intros E4.
    destruct (eat 90 s) as [r'|] eqn:Z; [inversion E4; subst; facts; split; [chain|lia]|].
    destruct s as [|sg r']; [inversion E4; subst; split; [apply suf_refl|lia]|].
    destruct ((sg =? 43) || (sg =? 45)); [|inversion E4; subst; split; [apply suf_refl|lia]].
    destruct (p_digits_n (zd T 0) r') as [[hh r'']|] eqn:D1; [|inversion E4; subst; split; [apply suf_refl|lia]].
    apply p_digits_n_weak in D1 as [C1 C2].
    destruct (p_digits_n (zd T 1) (opt_eat 58 r'')) as [[mm r5]|] eqn:D2; inversion E4; subst; [|split; [apply suf_refl|lia]].
    apply p_digits_n_weak in D2 as [C3 C4]. destruct (opt_eat_weak 58 r'') as [C5 C6].
    split; [apply suf_cons; eapply suf_trans; [exact C3|]; eapply suf_trans; eauto|cbn [List.length] in *; lia].
  Qed.

  Lemma p_time_inner_weak s d r : p_time_inner T s = Some (d, r) -> weak r s.
  Proof.
    unfold p_time_inner. intros H.
    destruct (p_digits_n (td T 0) s) as [[h r0]|] eqn:E0; [|discriminate]. apply p_digits_n_weak in E0 as [A0 B0].
    destruct (opt_comp 58 (p_digits_n (td T 1)) r0) as [mi r1] eqn:E1.
    apply opt_comp_weak in E1 as [A1 B1]; [|intros; eapply p_digits_n_weak; eauto].
    destruct (opt_comp 58 (p_digits_n (td T 2)) r1) as [se r2] eqn:E2.
    apply opt_comp_weak in E2 as [A2 B2]; [|intros; eapply p_digits_n_weak; eauto].
    destruct (opt_comp 46 (p_digits_1_max (t_ms_max T)) r2) as [ms r3] eqn:E3.
    apply opt_comp_weak in E3 as [A3 B3]; [|intros; eapply p_digits_1_max_weak; eauto].
    destruct (p_tz T r3) as [tz r4] eqn:E4. apply p_tz_weak in E4 as [A4 B4].
    inversion H; subst. split; [chain|lia].
  Qed.

  Lemma p_timestamp_weak s k r : p_timestamp T s = Some (k, r) -> weak r s.
  Proof.
    unfold p_timestamp. intros H. crush.
    repeat match goal with
    | H : p_date_inner _ _ = Some _ |- _ => apply p_date_inner_weak in H as [? ?]
    | H : p_time_inner _ _ = Some _ |- _ => apply p_time_inner_weak in H as [? ?]
    end; facts. split; [chain|lia].
  Qed.
  Lemma p_date_weak s k r : p_date T s = Some (k, r) -> weak r s.
  Proof. unfold p_date. intros H. crush. eapply p_date_inner_weak; eauto. Qed.
  Lemma p_time_weak s k r : p_time T s = Some (k, r) -> weak r s.
  Proof. unfold p_time. intros H. crush. eapply p_time_inner_weak; eauto. Qed.

  Lemma p_date_token_strict s k r : p_date_token T s = Some (k, r) -> strict r s.
  Proof.
    unfold p_date_token, orelse. intros H.
    destruct (eat 64 s) as [r0|] eqn:E0; [|discriminate]. apply eat_suf in E0 as [A0 B0].
    match type of H with (if ?b then _ else _) = _ => destruct b; [|discriminate] end.
    assert (G : forall x, weak x r0 -> strict x s) by (intros x [X1 X2]; split; [chain|lia]).
    destruct (p_timestamp T r0) as [[k1 r1]|] eqn:E1.
    { inversion H; subst. apply G. eapply p_timestamp_weak; eauto. }
    destruct (p_date T r0) as [[k2 r2]|] eqn:E2.
    { inversion H; subst. apply G. eapply p_date_weak; eauto. }
    apply G. eapply p_time_weak; eauto.
  Qed.

  Lemma p_control_strict s k r : p_control T s = Some (k, r) -> strict r s.
  Proof. unfold p_control. intros H. crush. fin. Qed.
  Lemma p_annotate_strict s k r : p_annotate s = Some (k, r) -> strict r s.
  Proof. unfold p_annotate. intros H. crush; facts; fin. Qed.

  Lemma p_alt_strict i s k r : p_alt is_alpha is_alnum T i s = Some (k, r) -> strict r s.
  Proof.
    unfold p_alt. intros H.
    repeat match type of H with (if ?b then _ else _) = _ => destruct b end;
      eauto using p_line_wrap_strict, p_newline_tok_strict, p_multi_strict, p_interp_strict, p_param_strict,
        p_date_token_strict, p_annotate_strict, p_control_strict, p_literal_strict, p_keyword_strict,
        p_ident_strict, p_comment_strict.
    discriminate.
  Qed.
  Lemma first_alt_strict ids s k r : first_alt is_alpha is_alnum T ids s = Some (k, r) -> strict r s.
  Proof.
    induction ids as [|i ids IH]; cbn [first_alt]; intros H; [discriminate|].
    destruct (p_alt is_alpha is_alnum T i s) as [[k0 r0]|] eqn:E; [|auto].
    inversion H; subst. eapply p_alt_strict; eauto.
  Qed.

  (* every token parser consumes at least one character *)
  Lemma p_token_strict s k r : p_token s = Some (k, r) -> strict r s.
  Proof. apply first_alt_strict. Qed.

  (* ---- one lexing step ---- *)
  Lemma p_lex_token_strict pos s t r : p_lex_token pos s = Some (t, r) -> strict r s.
  Proof.
    unfold Lexer.p_lex_token. intros H. destruct (skip_ws_suf s) as [W1 W2].
    destruct (eat2 46 46 (skip_ws s)) as [r0|] eqn:E.
    - inversion H; subst; clear H. apply eat2_suf in E as [A B]. destruct (skip_ws_suf r0) as [V1 V2].
      split; [chain|lia].
    - destruct (p_token (skip_ws s)) as [[k r1]|] eqn:E1; [|discriminate]. inversion H; subst; clear H.
      apply p_token_strict in E1 as [A B]. split; [chain|lia].
  Qed.

  (* the exact shape of one step:  s = gap ++ text ++ r  with gap inline whitespace, text non-empty,
     span = exactly the bytes of text; a range token has no gap (it owns its whitespace), any other token is
     what p_token returns on text ++ r, which does not start with inline whitespace nor with ".." *)
  Definition range_text (x : str) : Prop :=
    exists g1 g2, x = g1 ++ 46 :: 46 :: g2 /\ forallb is_iws g1 = true /\ forallb is_iws g2 = true.

  Lemma p_lex_token_split pos s t r : p_lex_token pos s = Some (t, r) ->
    exists gap text, s = gap ++ text ++ r /\ forallb is_iws gap = true /\ text <> [] /\
      tstart t = pos + blen gap /\ tend t = tstart t + blen text /\
      ((gap = [] /\ range_text text /\ (match r with [] => True | c :: _ => is_iws c = false end) /\
        exists bl br, tkind t = KRange bl br /\ (bl = true <-> (match text with c :: _ => is_iws c = false | [] => True end)) /\
                      (br = true <-> (match rev text with c :: _ => is_iws c = false | [] => True end)))
       \/ (p_token (text ++ r) = Some (tkind t, r) /\ eat2 46 46 (text ++ r) = None /\
           match text with c :: _ => is_iws c = false | [] => True end)).
  Proof.
    unfold Lexer.p_lex_token. intros H.
    destruct (skip_ws_spec s) as [gap [G1 [G2 G3]]].
    destruct (eat2 46 46 (skip_ws s)) as [r0|] eqn:E.
    - inversion H; subst t r; clear H. cbn [tstart tend tkind].
      apply eat2_inv in E. destruct (skip_ws_spec r0) as [g2 [H1 [H2 H3]]].
      exists [], (gap ++ 46 :: 46 :: g2).
      assert (S0 : s = (gap ++ 46 :: 46 :: g2) ++ skip_ws r0).
      { rewrite G1 at 1. rewrite E. rewrite H1 at 1. rewrite <- !app_assoc. reflexivity. }
      split; [exact S0|]. split; [reflexivity|]. split; [destruct gap; discriminate|].
      split; [cbn [blen]; lia|]. split.
      { rewrite S0 at 1. rewrite blen_app. cbn [blen]. lia. }
      left. split; [reflexivity|]. split; [exists gap, g2; auto|]. split; [exact H3|].
      eexists _, _. split; [reflexivity|]. split.
      + (* bind_left <-> no whitespace before *)
        rewrite negb_involutive. rewrite Nat.eqb_eq. split.
        * intros L. assert (gap = []) as ->.
          { rewrite G1 in L at 2. rewrite app_length in L. destruct gap; [reflexivity|cbn in L; lia]. }
          cbn. reflexivity.
        * intros Hh. destruct gap as [|c g]; [cbn in G1; now rewrite <- G1|].
          cbn in Hh. cbn in G2. rewrite Hh in G2. discriminate.
      + rewrite negb_involutive. rewrite Nat.eqb_eq. rewrite rev_app_distr. cbn [rev]. split.
        * intros L. assert (g2 = []) as ->.
          { rewrite H1 in L at 2. rewrite app_length in L. destruct g2; [reflexivity|cbn in L; lia]. }
          cbn. reflexivity.
        * intros Hh. destruct g2 as [|c g] using rev_ind; [cbn in H1; now rewrite <- H1|].
          rewrite rev_app_distr in Hh. cbn in Hh. rewrite forallb_app in H2. cbn in H2. rewrite Hh in H2.
          rewrite andb_false_r in H2. discriminate.
    - destruct (p_token (skip_ws s)) as [[k r1]|] eqn:E1; [|discriminate]. inversion H; subst t r1; clear H.
      cbn [tstart tend tkind].
      pose proof (p_token_strict _ _ _ E1) as [[text Ht] L].
      exists gap, text. rewrite <- Ht, <- G1.
      split; [reflexivity|]. split; [exact G2|].
      split. { intro; subst text. cbn in Ht. rewrite Ht in L. lia. }
      assert (B1 : blen s = blen gap + blen (skip_ws s)) by (rewrite G1 at 1; apply blen_app).
      assert (B2 : blen (skip_ws s) = blen text + blen r) by (rewrite Ht at 1; apply blen_app).
      split; [lia|]. split; [lia|]. right. split; [exact E1|]. split; [exact E|].
      destruct text as [|c text]; [trivial|]. rewrite Ht in G3. exact G3.
  Qed.

  (* ---- fuel: length + 1 is always enough; the result does not depend on extra fuel ---- *)
  Lemma lex_loop_fuel f pos s : (List.length s < f)%nat -> lex_loop f pos s = lex_loop (S f) pos s.
  Proof.
    revert pos s; induction f as [|f IH]; intros pos s H; [lia|].
    cbn [Lexer.lex_loop]. destruct (p_lex_token pos s) as [[t r]|] eqn:E; [|reflexivity].
    apply p_lex_token_strict in E as [A B].
    rewrite (IH (tend t) r) by lia. reflexivity.
  Qed.
  Lemma lex_loop_fuel_ge f g pos s : (List.length s < f)%nat -> (f <= g)%nat -> lex_loop g pos s = lex_loop f pos s.
  Proof.
    intros H L. induction L as [|g L IH]; [reflexivity|].
    rewrite <- IH. symmetry. apply lex_loop_fuel. lia.
  Qed.

  Theorem lex_terminates s f pos : (List.length s < f)%nat -> lex_loop f pos s = lex_loop (S (List.length s)) pos s.
  Proof. intros H. apply lex_loop_fuel_ge; lia. Qed.
  Theorem reject_no_tokens s : lex s = None -> forall ts, lex s <> Some ts.
  Proof. intros H ts E. rewrite H in E. discriminate. Qed.

  (* ---- tiling ---- *)
  Inductive tiles : N -> str -> list token -> Prop :=
  | tiles_nil pos s : forallb is_iws s = true -> tiles pos s []
  | tiles_cons pos gap text r t ts :
      forallb is_iws gap = true -> text <> [] ->
      tstart t = pos + blen gap -> tend t = tstart t + blen text ->
      tiles (tend t) r ts -> tiles pos (gap ++ text ++ r) (t :: ts).

  Lemma skip_ws_nil s : skip_ws s = [] -> forallb is_iws s = true.
  Proof. intros H. destruct (skip_ws_spec s) as [gap [G1 [G2 _]]]. rewrite H, app_nil_r in G1. now subst. Qed.

  Lemma lex_loop_tiles f pos s ts : lex_loop f pos s = Some ts -> tiles pos s ts.
  Proof.
    revert pos s ts; induction f as [|f IH]; intros pos s ts H; cbn [Lexer.lex_loop] in H; [discriminate|].
    destruct (p_lex_token pos s) as [[t r]|] eqn:E.
    - destruct (lex_loop f (tend t) r) as [ts'|] eqn:L; [|discriminate]. inversion H; subst.
      apply p_lex_token_split in E as (gap & text & -> & G & NE & S1 & S2 & _).
      apply IH in L. constructor; auto.
    - destruct (skip_ws s) eqn:W; [|discriminate]. inversion H; subst. constructor. now apply skip_ws_nil.
  Qed.

  (* what an accepted source is: the token loop succeeded and no token is a non-finite number literal *)
  Lemma lex_inv s ts : lex s = Some ts ->
    exists ts', lex_loop (S (List.length s)) 0 s = Some ts' /\ forallb (tok_finite) ts' = true /\ ts = start_token :: ts'.
  Proof.
    unfold Lexer.lex. destruct (lex_loop (S (List.length s)) 0 s) as [ts'|] eqn:E; [|discriminate].
    destruct (forallb tok_finite ts') eqn:F; [|discriminate]. intros H; inversion H; subst. exists ts'. auto.
  Qed.

  (* an accepted source contains no non-finite number literal *)
  Theorem lex_tokens_finite s ts t : lex s = Some ts -> In t ts -> tok_finite t = true.
  Proof.
    intros H I. apply lex_inv in H as (ts' & _ & F & ->). destruct I as [<-|I]; [reflexivity|].
    rewrite forallb_forall in F. auto.
  Qed.

  Theorem lex_tiles s ts : lex s = Some ts -> exists ts', ts = start_token :: ts' /\ tiles 0 s ts'.
  Proof.
    intros H. apply lex_inv in H as (ts' & E & _ & ->). exists ts'. split; [reflexivity|]. eapply lex_loop_tiles; eauto.
  Qed.
End WithTables.

(* Lemmas about Model/Ident.v: bare / quoted identifier emission and reading. *)
From Coq Require Import List NArith Bool Lia.
From PV Require Import Lib.ListX Model.Escape Model.SqlLex Model.Ident Proofs.EscapeProofs.
Import ListNotations.
Local Open Scope N_scope.
Local Arguments N.eqb : simpl never.
Local Arguments N.leb : simpl never.

Lemma mem_str_spec x l : mem_str x l = true <-> In x l.
Proof.
  unfold mem_str. rewrite existsb_exists. split.
  - intros [y [Hy E]]. apply leqb_spec in E. subst. exact Hy.
  - intro H. exists x. split; [exact H | apply leqb_refl].
Qed.

Lemma mem_str_false x l : mem_str x l = false <-> ~ In x l.
Proof.
  split; intro H.
  - intro Hin. apply mem_str_spec in Hin. congruence.
  - destruct (mem_str x l) eqn:E; [apply mem_str_spec in E; contradiction | reflexivity].
Qed.

(* ------------------------------------------------------------------ character classes *)

Lemma nrange_In lo hi c : lo <= c <= hi -> In c (nrange lo hi).
Proof.
  intros [H1 H2]. unfold nrange. assert (lo <=? hi = true) as E by (apply N.leb_le; lia). rewrite E.
  apply in_map_iff. exists (N.to_nat (c - lo)). split; [lia|]. apply in_seq. lia.
Qed.

Lemma class_all_spec P cls c : class_all P cls = true -> in_class cls c = true -> P c = true.
Proof.
  unfold class_all, in_class. rewrite forallb_forall, existsb_exists. intros H [r [Hr Hc]].
  apply andb_true_iff in Hc as [H1 H2]. apply N.leb_le in H1, H2.
  specialize (H r Hr). rewrite forallb_forall in H. apply H. apply nrange_In. lia.
Qed.

Lemma classes_ok_spec start rest : classes_ok start rest = true ->
  (forall c, in_class start c = true -> is_alpha c = true) /\
  (forall c, in_class rest c = true -> is_wordc c = true) /\
  (forall c, in_class start c = true -> lower_ascii_c c = c) /\
  (forall c, in_class rest c = true -> lower_ascii_c c = c).
Proof.
  unfold classes_ok. intro H. apply andb_true_iff in H as [H H4]. apply andb_true_iff in H as [H H3].
  apply andb_true_iff in H as [H1 H2]. repeat split; intros c Hc.
  - exact (class_all_spec _ _ _ H1 Hc).
  - exact (class_all_spec _ _ _ H2 Hc).
  - apply N.eqb_eq. exact (class_all_spec _ _ _ H3 Hc).
  - apply N.eqb_eq. exact (class_all_spec _ _ _ H4 Hc).
Qed.

Lemma valid_not_star start rest s : valid_ident start rest s = true -> is_star s = false ->
  exists c r, s = c :: r /\ in_class start c = true /\ forallb (in_class rest) r = true.
Proof.
  unfold valid_ident. intros H Hs. rewrite Hs in H. cbn [orb] in H.
  destruct s as [|c r]; [discriminate|]. apply andb_true_iff in H as [H1 H2]. exists c, r. auto.
Qed.

(* ------------------------------------------------------------------ bare identifiers *)

Lemma forallb_impl {A} (P Q : A -> bool) l : (forall x, P x = true -> Q x = true) -> forallb P l = true -> forallb Q l = true.
Proof. intros H F. rewrite forallb_forall in *. intros x Hx. apply H, F, Hx. Qed.

Theorem bare_lexes_as_word start rest d s :
  classes_ok start rest = true -> valid_ident start rest s = true -> is_star s = false ->
  sql_lex d s = [TWord s].
Proof.
  intros Hc Hv Hs. destruct (classes_ok_spec _ _ Hc) as (C1 & C2 & _ & _).
  destruct (valid_not_star _ _ _ Hv Hs) as (c & r & -> & Hc1 & Hr).
  pose proof (lex_word d c r [] (C1 c Hc1) (forallb_impl _ _ _ C2 Hr) eq_refl) as L.
  rewrite app_nil_r in L. exact L.
Qed.

Theorem bare_casefold_fixpoint start rest s :
  classes_ok start rest = true -> valid_ident start rest s = true -> lower_ascii s = s.
Proof.
  intros Hc Hv. destruct (classes_ok_spec _ _ Hc) as (_ & _ & C3 & C4).
  destruct (is_star s) eqn:Hs.
  - destruct s as [|c [|c2 r]]; [discriminate| |cbn [is_star is_nil] in Hs; rewrite andb_false_r in Hs; discriminate].
    cbn [is_star is_nil] in Hs. rewrite andb_true_r in Hs. apply N.eqb_eq in Hs. subst. reflexivity.
  - destruct (valid_not_star _ _ _ Hv Hs) as (c & r & -> & Hc1 & Hr).
    unfold lower_ascii. cbn [map]. rewrite (C3 c Hc1). f_equal. clear Hv Hs Hc1.
    induction r as [|x r IH]; [reflexivity|]. cbn [forallb] in Hr. apply andb_true_iff in Hr as [Hx Hr].
    cbn [map]. rewrite (C4 x Hx), (IH Hr). reflexivity.
Qed.

(* ------------------------------------------------------------------ quoted identifiers *)

Theorem quoted_lexes_as_name d q s : (q = 34 \/ q = 96) -> esc_known q s = false ->
  sql_lex d (emit_quoted q s) = [TQuoted q s].
Proof.
  intros Hq Hk. rewrite emit_quoted_not_known; [| destruct Hq; subst; discriminate | exact Hk].
  exact (lex_quoted_ident d q s [] Hq eq_refl).
Qed.

Theorem ident_quoted_lexes_as_name d q s : (q = 34 \/ q = 96) ->
  sql_lex d (emit_ident_quoted q s) = [TQuoted q s].
Proof.
  intros Hq. rewrite emit_ident_quoted_eq.
  exact (lex_quoted_ident d q s [] Hq eq_refl).
Qed.

(* ------------------------------------------------------------------ the round trip *)

Theorem ident_roundtrip_ok start rest common d k s :
  classes_ok start rest = true -> (iq d = 34 \/ iq d = 96) ->
  (k = FoldUpper -> always_quoted d = true) -> is_star s = false ->
  ident_denotes k (iq d) (emit_ident start rest common d s) = Some s.
Proof.
  intros Hc Hq Hk Hs. unfold ident_denotes, emit_ident.
  assert (ident_of_tokens k (iq d) (sql_lex std_sql (emit_ident_quoted (iq d) s)) = Some s) as Q.
  { rewrite ident_quoted_lexes_as_name by assumption. cbn [ident_of_tokens]. rewrite N.eqb_refl. reflexivity. }
  destruct (always_quoted d) eqn:A; [exact Q|].
  destruct (valid_ident start rest s && negb (is_keyword common (extra_kw d) s)) eqn:B; [|exact Q].
  apply andb_true_iff in B as [Hv _].
  rewrite (bare_lexes_as_word start rest std_sql s Hc Hv Hs). cbn [ident_of_tokens]. f_equal.
  destruct k; cbn [fold_name].
  - reflexivity.
  - apply (bare_casefold_fixpoint start rest s Hc Hv).
  - specialize (Hk eq_refl). discriminate.
Qed.

(* ------------------------------------------------------------------ multi-part names *)

(* one emitted part in front of any text that starts with a dot: one identifier token, then the rest *)
Lemma emit_ident_before_dot start rest common d k s suf :
  classes_ok start rest = true -> (iq d = 34 \/ iq d = 96) ->
  (k = FoldUpper -> always_quoted d = true) -> is_star s = false ->
  exists t, sql_lex std_sql (emit_ident start rest common d s ++ 46 :: suf) = t :: TPunct 46 :: sql_lex std_sql suf /\
            ident_of_tokens k (iq d) [t] = Some s.
Proof.
  intros Hc Hq Hk Hs.
  assert (sql_lex std_sql (46 :: suf) = TPunct 46 :: sql_lex std_sql suf) as Dot by reflexivity.
  assert (exists t, sql_lex std_sql (emit_ident_quoted (iq d) s ++ 46 :: suf) = t :: TPunct 46 :: sql_lex std_sql suf /\
                    ident_of_tokens k (iq d) [t] = Some s) as Q.
  { exists (TQuoted (iq d) s). split.
    - rewrite emit_ident_quoted_eq. unfold sql_lex.
      change ((iq d :: dbl (iq d) s ++ [iq d]) ++ 46 :: suf) with (iq d :: (dbl (iq d) s ++ [iq d]) ++ 46 :: suf).
      rewrite <- app_assoc.
      rewrite (lex_quoted_ident std_sql (iq d) s (46 :: suf) Hq); [reflexivity|].
      destruct Hq as [E|E]; rewrite E; reflexivity.
    - cbn [ident_of_tokens]. rewrite N.eqb_refl. reflexivity. }
  unfold emit_ident. destruct (always_quoted d) eqn:A; [exact Q|].
  destruct (valid_ident start rest s && negb (is_keyword common (extra_kw d) s)) eqn:B; [|exact Q].
  apply andb_true_iff in B as [Hv _].
  destruct (classes_ok_spec _ _ Hc) as (C1 & C2 & _ & _).
  destruct (valid_not_star _ _ _ Hv Hs) as (c & r & -> & Hc1 & Hr).
  exists (TWord (c :: r)). split.
  - unfold sql_lex. rewrite (lex_word std_sql c r (46 :: suf) (C1 c Hc1) (forallb_impl _ _ _ C2 Hr) eq_refl). reflexivity.
  - cbn [ident_of_tokens]. f_equal. destruct k; cbn [fold_name].
    + reflexivity.
    + apply (bare_casefold_fixpoint start rest (c :: r) Hc Hv).
    + specialize (Hk eq_refl). discriminate.
Qed.

Lemma path_of_tokens_cons k q t s r ss :
  ident_of_tokens k q [t] = Some s -> path_of_tokens k q r = Some ss ->
  path_of_tokens k q (t :: TPunct 46 :: r) = Some (s :: ss).
Proof. intros H1 H2. cbn [path_of_tokens]. rewrite H1. change (46 =? 46) with true. cbn iota. rewrite H2. reflexivity. Qed.

(* a non-empty path of parts, none of which is the wildcard, is read back as exactly those parts *)
Theorem path_roundtrip_ok start rest common d k :
  classes_ok start rest = true -> (iq d = 34 \/ iq d = 96) ->
  (k = FoldUpper -> always_quoted d = true) ->
  forall parts, parts <> [] -> forallb (fun s => negb (is_star s)) parts = true ->
  path_denotes k (iq d) (emit_path start rest common d parts) = Some parts.
Proof.
  intros Hc Hq Hk. induction parts as [|p ps IH]; intros Hne Hst; [contradiction|].
  cbn [forallb] in Hst. apply andb_true_iff in Hst as [Hp Hps]. apply negb_true_iff in Hp.
  unfold path_denotes, emit_path in *. destruct ps as [|p2 ps'].
  - cbn [map join_dots].
    pose proof (ident_roundtrip_ok start rest common d k p Hc Hq Hk Hp) as R. unfold ident_denotes in R.
    destruct (sql_lex std_sql (emit_ident start rest common d p)) as [|t [|t2 r]].
    + discriminate R.
    + cbn [path_of_tokens]. rewrite R. reflexivity.
    + exfalso. destruct t; cbn in R; discriminate.
  - change (join_dots (map (emit_ident start rest common d) (p :: p2 :: ps')))
      with (emit_ident start rest common d p ++ 46 :: join_dots (map (emit_ident start rest common d) (p2 :: ps'))).
    destruct (emit_ident_before_dot start rest common d k p (join_dots (map (emit_ident start rest common d) (p2 :: ps'))) Hc Hq Hk Hp)
      as (t & -> & Ht).
    apply path_of_tokens_cons; [exact Ht|]. apply IH; [discriminate | exact Hps].
Qed.

(* a path in front of any text that starts with a dot *)
Lemma path_before_dot start rest common d k :
  classes_ok start rest = true -> (iq d = 34 \/ iq d = 96) ->
  (k = FoldUpper -> always_quoted d = true) ->
  forall parts suf, parts <> [] -> forallb (fun s => negb (is_star s)) parts = true ->
  exists toks, sql_lex std_sql (emit_path start rest common d parts ++ 46 :: suf) = toks ++ TPunct 46 :: sql_lex std_sql suf /\
               path_of_tokens k (iq d) toks = Some parts.
Proof.
  intros Hc Hq Hk. induction parts as [|p ps IH]; intros suf Hne Hst; [contradiction|].
  cbn [forallb] in Hst. apply andb_true_iff in Hst as [Hp Hps]. apply negb_true_iff in Hp.
  unfold emit_path in *. destruct ps as [|p2 ps'].
  - cbn [map join_dots].
    destruct (emit_ident_before_dot start rest common d k p suf Hc Hq Hk Hp) as (t & E & Ht).
    exists [t]. split; [exact E|]. cbn [path_of_tokens]. rewrite Ht. reflexivity.
  - change (join_dots (map (emit_ident start rest common d) (p :: p2 :: ps')))
      with (emit_ident start rest common d p ++ 46 :: join_dots (map (emit_ident start rest common d) (p2 :: ps'))).
    rewrite <- app_assoc. cbn [app].
    destruct (IH suf ltac:(discriminate) Hps) as (toks' & E' & P').
    destruct (emit_ident_before_dot start rest common d k p
                (join_dots (map (emit_ident start rest common d) (p2 :: ps')) ++ 46 :: suf) Hc Hq Hk Hp) as (t & E & Ht).
    exists (t :: TPunct 46 :: toks'). split.
    + rewrite E, E'. reflexivity.
    + apply path_of_tokens_cons; assumption.
Qed.

(* t.* : the qualifier is read back as exactly its parts *)
Theorem qualified_star_roundtrip_ok start rest common d k :
  classes_ok start rest = true -> (iq d = 34 \/ iq d = 96) ->
  (k = FoldUpper -> always_quoted d = true) ->
  forall parts, parts <> [] -> forallb (fun s => negb (is_star s)) parts = true ->
  qualified_star_denotes k (iq d) (emit_qualified_star start rest common d parts) = Some parts.
Proof.
  intros Hc Hq Hk parts Hne Hst. unfold qualified_star_denotes, emit_qualified_star.
  destruct (path_before_dot start rest common d k Hc Hq Hk parts [42] Hne Hst) as (toks & E & P).
  rewrite E. change (sql_lex std_sql [42]) with [TPunct 42].
  unfold split_qualified_star. rewrite rev_app_distr. cbn [rev app].
  change ((42 =? 42) && (46 =? 46)) with true. cbn iota. rewrite rev_involutive. exact P.
Qed.

Theorem qualified_star_roundtrip_rows start rest common extra rows :
  classes_ok start rest = true -> quotes_ok rows = true ->
  forall row k parts, In row rows -> (k = FoldUpper -> snd row = true) ->
  parts <> [] -> forallb (fun s => negb (is_star s)) parts = true ->
  qualified_star_denotes k (snd (fst row)) (emit_qualified_star start rest common (identd_of extra row) parts) = Some parts.
Proof.
  intros Hc Q [[name q] a] k parts Hin Hk Hne Hst. cbn [fst snd] in *.
  unfold quotes_ok in Q. rewrite forallb_forall in Q. specialize (Q _ Hin). cbn [fst snd] in Q.
  apply (qualified_star_roundtrip_ok start rest common (identd_of extra (name, q, a)) k Hc); [|exact Hk|exact Hne|exact Hst].
  apply orb_true_iff in Q as [Q|Q]; apply N.eqb_eq in Q; [left | right]; exact Q.
Qed.

Theorem path_roundtrip_rows start rest common extra rows :
  classes_ok start rest = true -> quotes_ok rows = true ->
  forall row k parts, In row rows -> (k = FoldUpper -> snd row = true) ->
  parts <> [] -> forallb (fun s => negb (is_star s)) parts = true ->
  path_denotes k (snd (fst row)) (emit_path start rest common (identd_of extra row) parts) = Some parts.
Proof.
  intros Hc Q [[name q] a] k parts Hin Hk Hne Hst. cbn [fst snd] in *.
  unfold quotes_ok in Q. rewrite forallb_forall in Q. specialize (Q _ Hin). cbn [fst snd] in Q.
  apply (path_roundtrip_ok start rest common (identd_of extra (name, q, a)) k Hc); [|exact Hk|exact Hne|exact Hst].
  apply orb_true_iff in Q as [Q|Q]; apply N.eqb_eq in Q; [left | right]; exact Q.
Qed.

(* different paths are never emitted as the same text *)
Theorem emit_path_injective start rest common extra rows :
  classes_ok start rest = true -> quotes_ok rows = true ->
  forall row p1 p2, In row rows -> p1 <> [] -> p2 <> [] ->
  forallb (fun s => negb (is_star s)) p1 = true -> forallb (fun s => negb (is_star s)) p2 = true ->
  emit_path start rest common (identd_of extra row) p1 = emit_path start rest common (identd_of extra row) p2 -> p1 = p2.
Proof.
  intros Hc Q row p1 p2 Hin N1 N2 S1 S2 E.
  pose proof (path_roundtrip_rows start rest common extra rows Hc Q row FoldNone p1 Hin ltac:(discriminate) N1 S1) as R1.
  pose proof (path_roundtrip_rows start rest common extra rows Hc Q row FoldNone p2 Hin ltac:(discriminate) N2 S2) as R2.
  rewrite E in R1. rewrite R1 in R2. injection R2 as ->. reflexivity.
Qed.

(* ------------------------------------------------------------------ keywords *)

Lemma keywords_cover_spec engine common x : keywords_cover engine common = true -> In x engine -> mem_str x common = true.
Proof. unfold keywords_cover. rewrite forallb_forall. intros H Hx. apply H, Hx. Qed.

Theorem keyword_not_bare start rest common engine d s :
  keywords_cover engine common = true -> mem_str (upper_ascii s) engine = true ->
  emit_ident start rest common d s = emit_ident_quoted (iq d) s.
Proof.
  intros Hc Hm. unfold emit_ident. destruct (always_quoted d); [reflexivity|].
  apply mem_str_spec in Hm. pose proof (keywords_cover_spec _ _ _ Hc Hm) as K.
  unfold is_keyword. rewrite K. cbn [orb negb]. rewrite andb_false_r. reflexivity.
Qed.

Lemma emit_quoted_starts q s : starts_with q (emit_ident_quoted q s) = true.
Proof. unfold emit_ident_quoted. cbn [emit_quoted starts_with]. apply N.eqb_refl. Qed.

(* ------------------------------------------------------------------ the statements of Props/C09.v, generic in the tables *)

Theorem ident_roundtrip_rows start rest common extra rows :
  classes_ok start rest = true -> quotes_ok rows = true ->
  forall row k s, In row rows -> (k = FoldUpper -> snd row = true) -> is_star s = false ->
  ident_denotes k (snd (fst row)) (emit_ident start rest common (identd_of extra row) s) = Some s.
Proof.
  intros Hc Q [[name q] a] k s Hin Hk Hs. cbn [fst snd] in *.
  unfold quotes_ok in Q. rewrite forallb_forall in Q. specialize (Q _ Hin). cbn [fst snd] in Q.
  apply (ident_roundtrip_ok start rest common (identd_of extra (name, q, a)) k s Hc).
  - apply orb_true_iff in Q as [Q|Q]; apply N.eqb_eq in Q; [left | right]; exact Q.
  - exact Hk.
  - exact Hs.
Qed.

(* different names are never emitted as the same text (no two user objects can be merged) *)
Theorem emit_ident_injective start rest common extra rows :
  classes_ok start rest = true -> quotes_ok rows = true ->
  forall row s1 s2, In row rows -> is_star s1 = false -> is_star s2 = false ->
  emit_ident start rest common (identd_of extra row) s1 = emit_ident start rest common (identd_of extra row) s2 -> s1 = s2.
Proof.
  intros Hc Q row s1 s2 Hin H1 H2 E.
  pose proof (ident_roundtrip_rows start rest common extra rows Hc Q row FoldNone s1 Hin ltac:(discriminate) H1) as R1.
  pose proof (ident_roundtrip_rows start rest common extra rows Hc Q row FoldNone s2 Hin ltac:(discriminate) H2) as R2.
  rewrite E in R1. rewrite R1 in R2. injection R2 as ->. reflexivity.
Qed.

Theorem keyword_quoted_rows start rest common engine :
  keywords_cover engine common = true ->
  forall d s, mem_str (upper_ascii s) engine = true ->
  emit_ident start rest common d s = emit_ident_quoted (iq d) s /\ starts_with (iq d) (emit_ident start rest common d s) = true.
Proof.
  intros Hc d s H. pose proof (keyword_not_bare start rest common engine d s Hc H) as E.
  split; [exact E | rewrite E; apply emit_quoted_starts].
Qed.

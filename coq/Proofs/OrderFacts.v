(* C03, specification side: facts about the reference semantics Model/Rel.v.
   sort returns a sorted permutation (stable); filter, take, and key-preserving maps (select/derive
   that leave the sort keys' values alone) keep a sorted relation sorted; take a..b returns exactly
   the rows at positions a..b. *)
From Coq Require Import List ZArith Bool Lia Permutation Sorting.Sorted.
From PV Require Import Model.Rel.
Import ListNotations.

Section Order.
  Variable le : row -> row -> bool.
  Hypothesis le_total : forall x y, le x y = true \/ le y x = true.
  Hypothesis le_trans : forall x y z, le x y = true -> le y z = true -> le x z = true.
  Notation R := (fun x y => le x y = true).

  Lemma insert_perm x l : Permutation (insert le x l) (x :: l).
  Proof.
    induction l as [|y t IH]; cbn [insert]; [reflexivity|].
    destruct (le x y); [reflexivity|]. rewrite IH. apply perm_swap.
  Qed.

  Lemma isort_perm l : Permutation (isort le l) l.
  Proof.
    unfold isort. induction l as [|x t IH]; cbn [fold_right]; [reflexivity|].
    rewrite insert_perm. constructor. exact IH.
  Qed.

  Lemma insert_sorted x l : StronglySorted R l -> StronglySorted R (insert le x l).
  Proof.
    induction 1 as [|y t Ht IH Hy]; cbn [insert]; [repeat constructor|].
    destruct (le x y) eqn:E.
    - constructor; [constructor; assumption|]. constructor; [exact E|].
      rewrite Forall_forall in *. intros z Hz. apply (le_trans x y z E). apply Hy; exact Hz.
    - constructor; [exact IH|]. rewrite Forall_forall in *. intros z Hz.
      apply (Permutation_in z (insert_perm x t)) in Hz. destruct Hz as [<-|Hz].
      + destruct (le_total x y) as [H|H]; [congruence|exact H].
      + apply Hy; exact Hz.
  Qed.

  Lemma isort_sorted l : StronglySorted R (isort le l).
  Proof.
    unfold isort. induction l as [|x t IH]; cbn [fold_right]; [constructor|]. apply insert_sorted; exact IH.
  Qed.

  (* order-retaining transforms *)
  Lemma filter_keeps_sorted p l : StronglySorted R l -> StronglySorted R (filter p l).
  Proof.
    induction 1 as [|y t Ht IH Hy]; cbn [filter]; [constructor|].
    destruct (p y); [|exact IH]. constructor; [exact IH|].
    rewrite Forall_forall in *. intros z Hz. apply filter_In in Hz as [Hz _]. apply Hy; exact Hz.
  Qed.

  Lemma skipn_keeps_sorted n : forall l, StronglySorted R l -> StronglySorted R (skipn n l).
  Proof.
    induction n as [|n IH]; intros l H; [exact H|]. destruct l as [|x t]; [constructor|].
    cbn [skipn]. apply IH. inversion H; assumption.
  Qed.

  Lemma In_firstn (A : Type) n : forall (l : list A) z, In z (firstn n l) -> In z l.
  Proof.
    induction n as [|n IH]; intros l z H; [destruct H|]. destruct l as [|x t]; [destruct H|].
    cbn [firstn] in H. destruct H as [<-|H]; [left; reflexivity | right; apply IH; exact H].
  Qed.

  Lemma firstn_keeps_sorted n : forall l, StronglySorted R l -> StronglySorted R (firstn n l).
  Proof.
    induction n as [|n IH]; intros l H; [constructor|]. destruct l as [|x t]; [constructor|].
    cbn [firstn]. inversion H as [|? ? Ht Hx]; subst. constructor; [apply IH; exact Ht|].
    rewrite Forall_forall in *. intros z Hz. apply Hx. eapply In_firstn; eauto.
  Qed.

  Lemma take_keeps_sorted s e l : StronglySorted R l -> StronglySorted R (take_range s e l).
  Proof.
    intro H. unfold take_range. destruct e; [apply firstn_keeps_sorted|]; apply skipn_keeps_sorted; exact H.
  Qed.

  (* select/derive: a row-wise map that does not change how rows compare keeps the order *)
  Lemma map_keeps_sorted (f : row -> row) l :
    (forall x y, le x y = true -> le (f x) (f y) = true) -> StronglySorted R l -> StronglySorted R (map f l).
  Proof.
    intros Hf. induction 1 as [|y t Ht IH Hy]; cbn [map]; [constructor|].
    constructor; [exact IH|]. rewrite Forall_forall in *. intros z Hz.
    apply in_map_iff in Hz as [w [<- Hw]]. apply Hf. apply Hy; exact Hw.
  Qed.
End Order.

(* take a..b returns the rows at positions a..b (1-based, inclusive) of the current order *)
Lemma nth_error_skipn (A : Type) n : forall (l : list A) i, nth_error (skipn n l) i = nth_error l (n + i).
Proof. induction n as [|n IH]; intros l i; [reflexivity|]. destruct l; [destruct i; reflexivity|]. cbn. apply IH. Qed.

Lemma nth_error_firstn_lt (A : Type) n : forall (l : list A) i, (i < n)%nat -> nth_error (firstn n l) i = nth_error l i.
Proof.
  induction n as [|n IH]; intros l i H; [lia|]. destruct l; [destruct i; reflexivity|].
  destruct i; [reflexivity|]. cbn. apply IH. lia.
Qed.

Lemma nth_error_firstn_ge (A : Type) n : forall (l : list A) i, (n <= i)%nat -> nth_error (firstn n l) i = None.
Proof. intros l i H. apply nth_error_None. rewrite firstn_length. lia. Qed.

Theorem take_positions (A : Type) (a b : Z) (l : list A) (i : nat) : (1 <= a)%Z -> (a <= b)%Z ->
  nth_error (take_range (Some a) (Some b) l) i =
  if (Z.of_nat i <=? b - a)%Z then nth_error l (Z.to_nat (a - 1) + i) else None.
Proof.
  intros Ha Hb. unfold take_range.
  destruct (Z.of_nat i <=? b - a)%Z eqn:E.
  - apply Z.leb_le in E. rewrite nth_error_firstn_lt by lia. apply nth_error_skipn.
  - apply Z.leb_gt in E. apply nth_error_firstn_ge. lia.
Qed.

Theorem take_n_positions (A : Type) (n : Z) (l : list A) (i : nat) : (0 <= n)%Z ->
  nth_error (take_range None (Some n) l) i = if (Z.of_nat i <? n)%Z then nth_error l i else None.
Proof.
  intro Hn. unfold take_range. cbn [skipn]. rewrite Z.sub_0_r.
  destruct (Z.of_nat i <? n)%Z eqn:E.
  - apply Z.ltb_lt in E. apply nth_error_firstn_lt. lia.
  - apply Z.ltb_ge in E. apply nth_error_firstn_ge. lia.
Qed.

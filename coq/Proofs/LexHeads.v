(* C17, re-lexing: what the input of each alternative of token() / literal() starts with when it succeeds. *)
From Coq Require Import List NArith Bool Lia Arith.
From PV Require Import Lib.ListX Model.Lexer Proofs.LexProofs Proofs.LexRelexDefs.
Import ListNotations.
Local Open Scope N_scope.

Lemma hd_newline y r : p_newline y = Some r -> exists c t, y = c :: t /\ is_nl c = true.
Proof.
  unfold p_newline. intros H. destruct (eat 10 y) eqn:E1; [apply eat_inv in E1; subst; eauto|].
  destruct (eat 13 y) eqn:E2; [apply eat_inv in E2; subst; eauto|discriminate].
Qed.
Lemma hd_line_wrap y v : p_line_wrap y = Some v -> exists c t, y = c :: t /\ is_nl c = true.
Proof. unfold p_line_wrap. intros H. destruct (p_newline y) eqn:E; [eapply hd_newline; eauto|discriminate]. Qed.
Lemma hd_newline_tok y v : p_newline_tok y = Some v -> exists c t, y = c :: t /\ is_nl c = true.
Proof. unfold p_newline_tok. intros H. destruct (p_newline y) eqn:E; [eapply hd_newline; eauto|discriminate]. Qed.
Lemma hd_comment y v : p_comment y = Some v -> exists t, y = 35 :: t.
Proof.
  unfold p_comment, p_comment_raw. intros H. destruct (eat2 35 33 y) eqn:E1; [apply eat2_inv in E1; subst; eauto|].
  destruct (eat 35 y) eqn:E2; [apply eat_inv in E2; subst; eauto|discriminate].
Qed.
Lemma hd_annotate y v : p_annotate y = Some v -> exists t, y = 64 :: t.
Proof. unfold p_annotate. intros H. destruct (eat 64 y) eqn:E; [apply eat_inv in E; subst; eauto|discriminate]. Qed.
Lemma hd_integer y v : p_integer y = Some v -> exists c t, y = c :: t /\ is_digit c = true.
Proof.
  unfold p_integer. intros H. destruct y as [|c t]; [discriminate|]. exists c, t. split; [reflexivity|].
  destruct (is_digit c && negb (c =? 48)) eqn:D; [now apply andb_true_iff in D|].
  destruct (c =? 48) eqn:Z; [apply N.eqb_eq in Z; subst; reflexivity|discriminate].
Qed.
Lemma hd_number y v : p_number y = Some v -> exists c t, y = c :: t /\ is_digit c = true.
Proof. unfold p_number. intros H. destruct (p_integer y) eqn:E; [eapply hd_integer; eauto|discriminate]. Qed.
Lemma hd_raw y v : p_raw y = Some v -> exists q t, y = 114 :: q :: t /\ is_quote q = true.
Proof.
  unfold p_raw. intros H. destruct (eat 114 y) as [[|q r]|] eqn:E; try discriminate. apply eat_inv in E. subst.
  destruct (is_quote q) eqn:Q; [eauto|discriminate].
Qed.

Section Heads.
  Variable is_alpha is_alnum : chr -> bool.
  Variable T : tables.
  Hypothesis WF : tables_wf T = true.
  Hypothesis TK : relex_tables_ok T = true.

  Lemma hd_ops ops y v : (forall o, In o ops -> In o (t_ops T)) -> p_ops T ops y = Some v ->
    exists a b t name ne, y = a :: b :: t /\ sym a = true /\ In ([a; b], (name, ne)) ops /\ v = (KOp name, t) /\
      (ne = true -> end_expr T t = true).
  Proof.
    induction ops as [|[txt [name ne]] ops IH]; cbn [p_ops]; intros Sub H; [discriminate|].
    destruct (tk_ops T TK (txt, (name, ne)) (Sub _ (or_introl eq_refl))) as (a & b & E & S). cbn [fst] in E. subst txt.
    assert (Sub' : forall o, In o ops -> In o (t_ops T)) by (intros o I; apply Sub; now right).
    assert (REC : p_ops T ops y = Some v -> exists a' b' t n' e', y = a' :: b' :: t /\ sym a' = true /\
              In ([a'; b'], (n', e')) ((([a; b] : str), (name, ne)) :: ops) /\ v = (KOp n', t) /\ (e' = true -> end_expr T t = true)).
    { intros H'. destruct (IH Sub' H') as (a' & b' & t & n' & e' & ? & ? & ? & ? & ?). exists a', b', t, n', e'. repeat split; auto. now right. }
    destruct (strip_prefix [a; b] y) as [r|] eqn:E; [|now apply REC].
    apply strip_prefix_spec in E. cbn [app] in E. subst y.
    destruct ne.
    - destruct (end_expr T r) eqn:EE; [|now apply REC]. inversion H; subst. exists a, b, r, name, true. repeat split; auto. now left.
    - inversion H; subst. exists a, b, r, name, false. repeat split; auto; [now left|discriminate].
  Qed.
  Lemma hd_multi y v : p_multi T y = Some v -> exists a b t, y = a :: b :: t /\ sym a = true.
  Proof. unfold p_multi. intros H. apply hd_ops in H; [|auto]. destruct H as (a & b & t & ? & ? & ? & ? & _). eauto. Qed.

  Lemma hd_quoted y v : p_quoted T y = Some v -> exists q t, y = q :: t /\ is_quote q = true.
  Proof.
    unfold p_quoted, orelse, p_multi_quoted. intros H. destruct y as [|c t]; [discriminate|]. exists c, t. split; [reflexivity|].
    cbn [count_prefix] in H. unfold is_quote. destruct (c =? 34) eqn:A; [now rewrite orb_true_r|].
    destruct (c =? 39) eqn:B; [reflexivity|discriminate].
  Qed.
  Lemma hd_interp y v : p_interp T y = Some v -> exists c q t, y = c :: q :: t /\ lower c = true /\ c <> 114 /\ is_quote q = true.
  Proof.
    unfold p_interp. intros H. destruct y as [|c t]; [discriminate|]. destruct (c_in c (t_interp T)) eqn:C; [|discriminate].
    destruct (p_quoted T t) as [[b r]|] eqn:E; [|discriminate]. apply hd_quoted in E as (q & t' & -> & Q).
    destruct (tk_interp T TK c C). exists c, q, t'. auto.
  Qed.
  Lemma hd_param y v : p_param is_alnum y = Some v -> exists t, y = 36 :: t.
  Proof. unfold p_param. intros H. destruct (eat 36 y) eqn:E; [apply eat_inv in E; subst; eauto|discriminate]. Qed.
  Lemma hd_date_token y v : p_date_token T y = Some v -> exists d t, y = 64 :: d :: t /\ is_digit d = true.
  Proof.
    unfold p_date_token. intros H. destruct (eat 64 y) as [r|] eqn:E; [|discriminate]. apply eat_inv in E. subst.
    destruct r as [|d t]; [discriminate|]. destruct (is_digit d) eqn:D; [eauto|discriminate].
  Qed.
  Lemma hd_control y v : p_control T y = Some v -> exists c t, y = c :: t /\ sym c = true /\ v = (KControl c, t).
  Proof.
    unfold p_control. intros H. destruct y as [|c t]; [discriminate|]. destruct (c_in c (t_controls T)) eqn:C; [|discriminate].
    inversion H; subst. exists c, t. repeat split; auto. now apply (tk_controls T TK).
  Qed.
  Lemma hd_ident y v : p_ident is_alpha is_alnum y = Some v -> exists c t, y = c :: t /\ (is_ident_start is_alpha c = true \/ c = 96).
  Proof.
    unfold p_ident, p_ident_part, orelse, p_ident_plain, p_ident_bt. intros H. destruct y as [|c t]; [discriminate|]. exists c, t. split; [reflexivity|].
    destruct (is_ident_start is_alpha c) eqn:S; [now left|]. right.
    destruct (eat 96 (c :: t)) eqn:E; [apply eat_inv in E; congruence|discriminate].
  Qed.
  Lemma hd_based i y v : p_based_nth T i y = Some v -> exists b t, y = 48 :: b :: t /\ lower b = true.
  Proof.
    unfold p_based_nth. destruct (nth_error (t_based T) i) as [e|] eqn:N; [|discriminate]. apply nth_error_In in N.
    destruct (tk_based T TK e N) as (b & E & L). unfold p_based_entry. destruct e as [pre [base [maxd cls]]]. cbn [fst] in E. subst pre.
    intros H. destruct (strip_prefix [48; b] y) as [r|] eqn:S; [|discriminate]. apply strip_prefix_spec in S. cbn [app] in S. subst y. eauto.
  Qed.
  Lemma hd_word_end w y r : In w (words T) -> p_word_end T w y = Some r -> exists c t, y = c :: t /\ lower c = true /\ y = w ++ r /\ end_expr T r = true.
  Proof.
    intros I. unfold p_word_end. intros H. destruct (strip_prefix w y) as [r0|] eqn:E; [|discriminate].
    destruct (end_expr T r0) eqn:EE; [|discriminate]. inversion H; subst. apply strip_prefix_spec in E.
    pose proof (tk_words T TK w I) as L. unfold lower_word, nonempty in L. apply andb_true_iff in L as [L1 L2].
    destruct w as [|c w']; [discriminate|]. cbn [forallb] in L2. apply andb_true_iff in L2 as [L2 _].
    subst y. exists c, (w' ++ r). auto.
  Qed.
  Lemma hd_keyword y v : p_keyword T y = Some v -> exists k r c t, In k (t_keywords T) /\ y = k ++ r /\ end_expr T r = true /\ v = (KKeyword k, r)
    /\ y = c :: t /\ lower c = true.
  Proof.
    unfold p_keyword. intros H. destruct (first_prefix (t_keywords T) y) as [[k r]|] eqn:E; [|discriminate].
    destruct (end_expr T r) eqn:EE; [|discriminate]. inversion H; subst.
    assert (G : forall l, first_prefix l y = Some (k, r) -> In k l /\ y = k ++ r).
    { induction l as [|a l IH]; cbn [first_prefix]; [discriminate|]. destruct (strip_prefix a y) eqn:S.
      - intros X; inversion X; subst. apply strip_prefix_spec in S. split; [now left|exact S].
      - intros X. destruct (IH X). split; [now right|assumption]. }
    destruct (G _ E) as [I Y].
    pose proof (tk_keywords T TK k I) as L. unfold lower_word, nonempty in L. apply andb_true_iff in L as [L1 L2].
    destruct k as [|c k']; [discriminate|]. cbn [forallb] in L2. apply andb_true_iff in L2 as [L2 _].
    exists (c :: k'), r, c, (k' ++ r). subst y. repeat split; auto.
  Qed.
End Heads.

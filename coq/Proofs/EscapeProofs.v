(* Lemmas about Model/Escape.v (sqlparser's EscapeQuotedString) and Model/SqlLex.v (the reading side). *)
From Coq Require Import List NArith Bool Lia.
From PV Require Import Lib.ListX Model.Escape Model.SqlLex.
Import ListNotations.
Local Open Scope N_scope.
Local Arguments N.eqb : simpl never.
Local Arguments N.leb : simpl never.

(* ------------------------------------------------------------------ EscapeQuotedString *)

Lemma contains2_cons a b x y r :
  contains2 a b (x :: y :: r) = ((x =? a) && (y =? b)) || contains2 a b (y :: r).
Proof. reflexivity. Qed.

(* outside the known class the Rust loop's own test succeeds at every quote *)
Lemma known_false_good q : q <> BSLASH -> forall s prev,
  contains2 q q s = false -> contains2 BSLASH q (prev :: s) = false -> good q prev s = true.
Proof.
  intros Hq. induction s as [|c r IH]; intros prev H1 H2; [reflexivity|].
  cbn [good]. rewrite contains2_cons in H2. apply orb_false_iff in H2 as [H2a H2b].
  destruct (c =? q) eqn:Ec.
  - apply N.eqb_eq in Ec. subst c.
    rewrite andb_true_r in H2a.
    assert (good q q r = true /\ match r with c2 :: _ => negb (c2 =? q) | [] => true end = true) as [G1 G2].
    { destruct r as [|c2 r2]; [split; reflexivity|].
      rewrite contains2_cons in H1. apply orb_false_iff in H1 as [H1a H1b].
      rewrite N.eqb_refl in H1a. cbn [andb] in H1a. split.
      - apply IH; [exact H1b | exact H2b].
      - rewrite H1a. reflexivity. }
    rewrite H2a, G1, G2. reflexivity.
  - apply IH; [|exact H2b].
    destruct r as [|c2 r2]; [reflexivity|]. rewrite contains2_cons in H1.
    apply orb_false_iff in H1 as [_ H1]. exact H1.
Qed.

Lemma not_known_good q s : q <> BSLASH -> esc_known q s = false -> good q 0 s = true.
Proof.
  intros Hq H. unfold esc_known in H. apply orb_false_iff in H as [H1 H2].
  apply known_false_good; [exact Hq | exact H1 |].
  destruct s as [|c r]; [reflexivity|]. rewrite contains2_cons.
  replace (0 =? BSLASH) with false by reflexivity. exact H2.
Qed.

(* where the loop's test succeeds everywhere, the output is "every quote doubled" *)
Lemma esc_good q : forall s prev, good q prev s = true -> esc q prev s = dbl q s.
Proof.
  induction s as [|c r IH]; intros prev G; [reflexivity|].
  cbn [good] in G. cbn [esc dbl]. destruct (c =? q) eqn:Ec.
  - apply andb_true_iff in G as [G G3]. apply andb_true_iff in G as [G1 G2].
    apply negb_true_iff in G1. rewrite G1.
    destruct r as [|c2 r2]; [reflexivity|].
    apply negb_true_iff in G2. rewrite G2. rewrite (IH c G3). reflexivity.
  - rewrite (IH c G). reflexivity.
Qed.

(* text in which every quote is already doubled passes through unchanged: the repair is sound *)
Lemma esc_dbl q : forall s prev, esc q prev (dbl q s) = dbl q s.
Proof.
  induction s as [|c r IH]; intros prev; [reflexivity|].
  cbn [dbl]. destruct (c =? q) eqn:Ec.
  - cbn [esc]. rewrite !Ec. destruct (prev =? BSLASH) eqn:Ep; rewrite IH; reflexivity.
  - cbn [esc]. rewrite Ec. rewrite IH. reflexivity.
Qed.

Lemma emit_string_not_known s : esc_known QUOTE s = false -> emit_string s = QUOTE :: dbl QUOTE s ++ [QUOTE].
Proof.
  intro H. unfold emit_string. rewrite (esc_good QUOTE s 0); [reflexivity|].
  apply not_known_good; [discriminate | exact H].
Qed.

(* whatever the backslash flag: sqlparser's Display adds the outer quotes to prqlc's prepared text and nothing else *)
Lemma emit_literal_string_eq bs s : emit_literal_string bs s = QUOTE :: prep_literal bs s ++ [QUOTE].
Proof. unfold emit_literal_string, emit_string, prep_literal. rewrite esc_dbl. reflexivity. Qed.

Lemma dbl_absent q : forall s, existsb (N.eqb q) s = false -> dbl q s = s.
Proof.
  induction s as [|c r IH]; intro H; [reflexivity|].
  cbn [existsb] in H. apply orb_false_iff in H as [H1 H2]. cbn [dbl]. rewrite N.eqb_sym, H1, (IH H2). reflexivity.
Qed.

Lemma emit_quoted_not_known q s : q <> BSLASH -> esc_known q s = false -> emit_quoted q s = q :: dbl q s ++ [q].
Proof.
  intros Hq H. unfold emit_quoted. rewrite (esc_good q s 0); [reflexivity|].
  apply not_known_good; assumption.
Qed.

Lemma emit_ident_quoted_eq q s : emit_ident_quoted q s = q :: dbl q s ++ [q].
Proof. unfold emit_ident_quoted, emit_quoted. rewrite esc_dbl. reflexivity. Qed.

(* ------------------------------------------------------------------ the lexer composes *)

Lemma run_app d : forall a st b, run d st (a ++ b) = emitted d st a ++ run d (state_after d st a) b.
Proof.
  induction a as [|c a IH]; intros st b; [reflexivity|].
  cbn [app run emitted state_after]. destruct (step d st c) as [st' out] eqn:E. cbn [fst].
  rewrite IH, app_assoc. reflexivity.
Qed.

Lemma sql_lex_closed_prefix d pre : closed_prefix d pre = true -> sql_lex d pre = emitted d L0 pre.
Proof.
  intro H. unfold sql_lex. rewrite <- (app_nil_r pre) at 1. rewrite run_app.
  unfold closed_prefix in H. destruct (state_after d L0 pre); try discriminate.
  cbn [run finish]. apply app_nil_r.
Qed.

Definition starts_with (c : N) (s : str) : bool := match s with x :: _ => x =? c | [] => false end.

(* leaving a token-final state on a character that cannot continue the token *)
Lemma run_flush d t st : (forall c, step d st c = flush_then t c) -> finish st = [t] ->
  forall suf, run d st suf = t :: run d L0 suf.
Proof.
  intros Hs Hf [|c r]; [exact Hf|].
  cbn [run]. rewrite Hs. unfold flush_then. cbn [step]. destruct (step0 c) as [st' out]. reflexivity.
Qed.

(* ------------------------------------------------------------------ strings *)

Definition bs_free (d : sqld) (s : str) : bool := negb (bs_escapes d) || negb (existsb (N.eqb BSLASH) s).

(* the condition under which the string round trip holds for dialect d *)
Definition str_ok (d : sqld) (s : str) : bool := negb (esc_known QUOTE s) && bs_free d s.

Lemma bs_free_cons d c r : bs_free d (c :: r) = true ->
  (bs_escapes d && (c =? 92) = false) /\ bs_free d r = true.
Proof.
  unfold bs_free. cbn [existsb]. destruct (bs_escapes d); cbn [negb orb andb]; [|auto].
  intro H. apply negb_true_iff in H. apply orb_false_iff in H as [H1 H2].
  rewrite N.eqb_sym. change BSLASH with 92 in H1. rewrite H1, H2. auto.
Qed.

Lemma step_LStr_quote d acc : step d (LStr acc) 39 = (LStrQ acc, []).
Proof. reflexivity. Qed.
Lemma step_LStrQ_quote d acc : step d (LStrQ acc) 39 = (LStr (39 :: acc), []).
Proof. reflexivity. Qed.
Lemma step0_quote : step0 39 = (LStr [], []).
Proof. reflexivity. Qed.

Lemma lex_dbl d : forall s acc rest, bs_free d s = true ->
  run d (LStr acc) (dbl QUOTE s ++ rest) = run d (LStr (rev s ++ acc)) rest.
Proof.
  unfold QUOTE. induction s as [|c r IH]; intros acc rest Hb; [reflexivity|].
  apply bs_free_cons in Hb as [Hc Hr].
  cbn [dbl]. destruct (c =? 39) eqn:Ec.
  - apply N.eqb_eq in Ec. subst c. cbn [app]. cbn [run]. rewrite step_LStr_quote. cbn [app].
    cbn [run]. rewrite step_LStrQ_quote. cbn [app].
    rewrite IH by exact Hr. cbn [rev]. rewrite <- app_assoc. reflexivity.
  - cbn [app]. cbn [run step]. rewrite Ec, Hc. cbn [app].
    rewrite IH by exact Hr. cbn [rev]. rewrite <- app_assoc. reflexivity.
Qed.

Lemma run_LStrQ d acc suf : starts_with 39 suf = false ->
  run d (LStrQ acc) suf = TString (rev acc) :: run d L0 suf.
Proof.
  destruct suf as [|c r]; intro H; [reflexivity|].
  cbn [starts_with] in H. cbn [run step]. rewrite H. unfold flush_then.
  cbn [run step]. destruct (step0 c) as [st' out]. reflexivity.
Qed.

(* quoted text, every quote doubled, read from between two tokens: one string token with that value *)
Lemma lex_quoted_dbl d s suf : bs_free d s = true -> starts_with 39 suf = false ->
  run d L0 (QUOTE :: dbl QUOTE s ++ [QUOTE] ++ suf) = TString s :: run d L0 suf.
Proof.
  intros Hb Hs. change (QUOTE :: dbl QUOTE s ++ [QUOTE] ++ suf) with (39 :: (dbl QUOTE s ++ 39 :: suf)).
  cbn [run]. change (step d L0 39) with (step0 39). rewrite step0_quote. cbn [app].
  rewrite lex_dbl by exact Hb. cbn [run]. rewrite step_LStr_quote. cbn [app].
  rewrite run_LStrQ by exact Hs. rewrite app_nil_r, rev_involutive. reflexivity.
Qed.

Theorem string_in_context d s pre suf :
  str_ok d s = true -> closed_prefix d pre = true -> starts_with 39 suf = false ->
  sql_lex d (pre ++ emit_string s ++ suf) = sql_lex d pre ++ TString s :: sql_lex d suf.
Proof.
  intros Hok Hp Hs. unfold str_ok in Hok. apply andb_true_iff in Hok as [Hk Hb].
  apply negb_true_iff in Hk. rewrite (emit_string_not_known s Hk).
  rewrite (sql_lex_closed_prefix d pre Hp). unfold sql_lex at 1. rewrite run_app.
  unfold closed_prefix in Hp. destruct (state_after d L0 pre); try discriminate.
  f_equal. change ((QUOTE :: dbl QUOTE s ++ [QUOTE]) ++ suf) with (QUOTE :: (dbl QUOTE s ++ [QUOTE]) ++ suf).
  rewrite <- app_assoc. apply lex_quoted_dbl; assumption.
Qed.

Theorem string_roundtrip_ok d s : str_ok d s = true -> sql_lex d (emit_string s) = [TString s].
Proof.
  intro H. pose proof (string_in_context d s [] [] H eq_refl eq_refl) as E.
  cbn [app] in E. rewrite app_nil_r in E. exact E.
Qed.

Lemma bs_free_std s : bs_free std_sql s = true.
Proof. reflexivity. Qed.

Theorem string_roundtrip_std s : esc_known QUOTE s = false -> sql_lex std_sql (emit_string s) = [TString s].
Proof. intro H. apply string_roundtrip_ok. unfold str_ok. rewrite H. reflexivity. Qed.

(* ------------------------------------------------------------------ string literals as prqlc emits them NOW *)

(* the reading side of a doubled backslash: one backslash, on every dialect of the backslash family (MySQL included:
   only \% and \_ keep their backslash there) *)
Lemma bs_decode_backslash d : bs_decode d 92 = [92].
Proof. unfold bs_decode. destruct (keep_wild d); reflexivity. Qed.

(* backslash family, backslashes AND quotes doubled: the content is read back character by character *)
Lemma lex_dbl_bs d : bs_escapes d = true -> forall s acc rest,
  run d (LStr acc) (dbl QUOTE (dbl BSLASH s) ++ rest) = run d (LStr (rev s ++ acc)) rest.
Proof.
  intro Hd. unfold QUOTE, BSLASH. induction s as [|c r IH]; intros acc rest; [reflexivity|].
  cbn [dbl]. destruct (c =? 92) eqn:Eb.
  - apply N.eqb_eq in Eb. subst c. cbn [dbl]. replace (92 =? 39) with false by reflexivity.
    cbn [app]. cbn [run step]. replace (92 =? 39) with false by reflexivity.
    rewrite Hd. replace (92 =? 92) with true by reflexivity. cbn [andb app].
    cbn [run step]. rewrite bs_decode_backslash. cbn [app].
    rewrite IH. cbn [rev]. rewrite <- app_assoc. reflexivity.
  - cbn [dbl]. destruct (c =? 39) eqn:Ec.
    + apply N.eqb_eq in Ec. subst c. cbn [app]. cbn [run]. rewrite step_LStr_quote. cbn [app].
      cbn [run]. rewrite step_LStrQ_quote. cbn [app].
      rewrite IH. cbn [rev]. rewrite <- app_assoc. reflexivity.
    + cbn [app]. cbn [run step]. rewrite Ec, Eb, andb_false_r. cbn [app].
      rewrite IH. cbn [rev]. rewrite <- app_assoc. reflexivity.
Qed.

(* the writer's flag w fits reader d on value s: the flags are equal, or there is no backslash to disagree about *)
Definition no_backslash (s : str) : bool := negb (existsb (N.eqb BSLASH) s).
Definition compatible (w : bool) (d : sqld) (s : str) : bool := Bool.eqb w (bs_escapes d) || no_backslash s.

Lemma compatible_same d s : compatible (bs_escapes d) d s = true.
Proof. unfold compatible. rewrite Bool.eqb_reflx. reflexivity. Qed.

Lemma lex_prep w d s acc rest : compatible w d s = true ->
  run d (LStr acc) (prep_literal w s ++ rest) = run d (LStr (rev s ++ acc)) rest.
Proof.
  unfold compatible, prep_literal. intro H. apply orb_true_iff in H as [H|H].
  - apply Bool.eqb_prop in H. subst w. destruct (bs_escapes d) eqn:E.
    + apply lex_dbl_bs. exact E.
    + apply lex_dbl. unfold bs_free. rewrite E. reflexivity.
  - unfold no_backslash in H. apply negb_true_iff in H.
    assert ((if w then dbl BSLASH s else s) = s) as -> by (destruct w; [apply dbl_absent; exact H | reflexivity]).
    apply lex_dbl. unfold bs_free. rewrite H. apply orb_true_r.
Qed.

(* prepared text in quotes, read from between two tokens: one string token with that value *)
Lemma lex_quoted_prep w d s suf : compatible w d s = true -> starts_with 39 suf = false ->
  run d L0 (QUOTE :: prep_literal w s ++ [QUOTE] ++ suf) = TString s :: run d L0 suf.
Proof.
  intros Hc Hs. change (QUOTE :: prep_literal w s ++ [QUOTE] ++ suf) with (39 :: (prep_literal w s ++ 39 :: suf)).
  cbn [run]. change (step d L0 39) with (step0 39). rewrite step0_quote. cbn [app].
  rewrite lex_prep by exact Hc. cbn [run]. rewrite step_LStr_quote. cbn [app].
  rewrite run_LStrQ by exact Hs. rewrite app_nil_r, rev_involutive. reflexivity.
Qed.

(* GENERAL FORM: writer flag w, reader d, value s compatible -> one string token with value s, in every context *)
Theorem literal_string_in_context_gen w d s pre suf :
  compatible w d s = true -> closed_prefix d pre = true -> starts_with 39 suf = false ->
  sql_lex d (pre ++ emit_literal_string w s ++ suf) = sql_lex d pre ++ TString s :: sql_lex d suf.
Proof.
  intros Hc Hp Hs. rewrite emit_literal_string_eq.
  rewrite (sql_lex_closed_prefix d pre Hp). unfold sql_lex at 1. rewrite run_app.
  unfold closed_prefix in Hp. destruct (state_after d L0 pre); try discriminate.
  f_equal. change ((QUOTE :: prep_literal w s ++ [QUOTE]) ++ suf) with (QUOTE :: (prep_literal w s ++ [QUOTE]) ++ suf).
  rewrite <- app_assoc. apply lex_quoted_prep; assumption.
Qed.

Theorem literal_string_roundtrip_gen w d s : compatible w d s = true -> sql_lex d (emit_literal_string w s) = [TString s].
Proof.
  intro H. pose proof (literal_string_in_context_gen w d s [] [] H eq_refl eq_refl) as E.
  cbn [app] in E. rewrite app_nil_r in E. exact E.
Qed.

(* a string with neither quote nor backslash is compatible with every configuration *)
Definition plain_chars (s : str) : bool := negb (existsb (fun c => (c =? 39) || (c =? 92)) s).
Lemma plain_compatible w d s : plain_chars s = true -> compatible w d s = true.
Proof.
  intro H. unfold compatible. apply orb_true_iff. right. unfold no_backslash, plain_chars in *.
  apply negb_true_iff in H. apply negb_true_iff.
  induction s as [|c r IH]; [reflexivity|]. cbn [existsb] in *. apply orb_false_iff in H as [H1 H2].
  apply orb_false_iff in H1 as [_ H1]. rewrite N.eqb_sym. change BSLASH with 92. rewrite H1. exact (IH H2).
Qed.

(* FULL STRENGTH: when the writer doubles backslashes exactly when the reader treats them as escapes, EVERY string
   comes back as one string token with its value, in every context *)
Theorem literal_string_in_context d s pre suf :
  closed_prefix d pre = true -> starts_with 39 suf = false ->
  sql_lex d (pre ++ emit_literal_string (bs_escapes d) s ++ suf) = sql_lex d pre ++ TString s :: sql_lex d suf.
Proof. apply literal_string_in_context_gen, compatible_same. Qed.

Theorem literal_string_roundtrip d s : sql_lex d (emit_literal_string (bs_escapes d) s) = [TString s].
Proof. apply literal_string_roundtrip_gen, compatible_same. Qed.

(* the two classes *)
Theorem literal_string_roundtrip_std s : sql_lex std_sql (emit_literal_string false s) = [TString s].
Proof. exact (literal_string_roundtrip std_sql s). Qed.

Theorem literal_string_roundtrip_bs d s : bs_escapes d = true -> sql_lex d (emit_literal_string true s) = [TString s].
Proof. intro H. pose proof (literal_string_roundtrip d s) as L. rewrite H in L. exact L. Qed.

Theorem literal_string_in_context_std s pre suf :
  closed_prefix std_sql pre = true -> starts_with 39 suf = false ->
  sql_lex std_sql (pre ++ emit_literal_string false s ++ suf) = sql_lex std_sql pre ++ TString s :: sql_lex std_sql suf.
Proof. exact (literal_string_in_context std_sql s pre suf). Qed.

Theorem literal_string_in_context_bs d s pre suf : bs_escapes d = true ->
  closed_prefix d pre = true -> starts_with 39 suf = false ->
  sql_lex d (pre ++ emit_literal_string true s ++ suf) = sql_lex d pre ++ TString s :: sql_lex d suf.
Proof. intro H. pose proof (literal_string_in_context d s pre suf) as L. rewrite H in L. exact L. Qed.

(* strings without quote and backslash are fine everywhere (dates, times, numbers in quotes) *)
Lemma safe_chars_ok d s : forallb (fun c => negb (c =? 39) && negb (c =? 92)) s = true -> str_ok d s = true.
Proof.
  intro H. unfold str_ok. apply andb_true_iff. split.
  - apply negb_true_iff. unfold esc_known. apply orb_false_iff.
    assert (forall a, contains2 a QUOTE s = false) as C.
    { intro a. induction s as [|x r IH]; [reflexivity|].
      cbn [forallb] in H. apply andb_true_iff in H as [Hx Hr]. destruct r as [|y r2]; [reflexivity|].
      rewrite contains2_cons. rewrite (IH Hr). cbn [forallb] in Hr. apply andb_true_iff in Hr as [Hy _].
      apply andb_true_iff in Hy as [Hy _]. apply negb_true_iff in Hy. change QUOTE with 39. rewrite Hy.
      rewrite andb_false_r. reflexivity. }
    split; apply C.
  - unfold bs_free. apply orb_true_iff. right. apply negb_true_iff.
    induction s as [|x r IH]; [reflexivity|]. cbn [forallb] in H. apply andb_true_iff in H as [Hx Hr].
    apply andb_true_iff in Hx as [_ Hx]. apply negb_true_iff in Hx. cbn [existsb].
    rewrite N.eqb_sym. change BSLASH with 92. rewrite Hx. exact (IH Hr).
Qed.

(* ------------------------------------------------------------------ quoted identifiers (C09) *)

Lemma step_LQId_quote d q acc : step d (LQId q acc) q = (LQIdQ q acc, []).
Proof. cbn [step]. rewrite N.eqb_refl. reflexivity. Qed.
Lemma step_LQIdQ_quote d q acc : step d (LQIdQ q acc) q = (LQId q (q :: acc), []).
Proof. cbn [step]. rewrite N.eqb_refl. reflexivity. Qed.

Lemma lex_qid_dbl d q : forall s acc rest,
  run d (LQId q acc) (dbl q s ++ rest) = run d (LQId q (rev s ++ acc)) rest.
Proof.
  induction s as [|c r IH]; intros acc rest; [reflexivity|].
  cbn [dbl]. destruct (c =? q) eqn:Ec.
  - apply N.eqb_eq in Ec. subst c. cbn [app]. cbn [run]. rewrite step_LQId_quote. cbn [app].
    cbn [run]. rewrite step_LQIdQ_quote. cbn [app].
    rewrite IH. cbn [rev]. rewrite <- app_assoc. reflexivity.
  - cbn [app]. cbn [run step]. rewrite Ec. cbn [app]. rewrite IH. cbn [rev]. rewrite <- app_assoc. reflexivity.
Qed.

Lemma lex_quoted_ident d q s suf : (q = 34 \/ q = 96) -> starts_with q suf = false ->
  run d L0 (q :: dbl q s ++ [q] ++ suf) = TQuoted q s :: run d L0 suf.
Proof.
  intros Hq Hs. cbn [run]. change (step d L0 q) with (step0 q).
  assert (step0 q = (LQId q [], @nil tok)) as E by (destruct Hq; subst q; reflexivity).
  rewrite E. cbn [app]. change (dbl q s ++ [q] ++ suf) with (dbl q s ++ q :: suf).
  rewrite lex_qid_dbl. cbn [run]. rewrite step_LQId_quote. cbn [app]. rewrite app_nil_r.
  destruct suf as [|c r].
  - cbn [run finish]. rewrite rev_involutive. reflexivity.
  - cbn [starts_with] in Hs. cbn [run step]. rewrite Hs. unfold flush_then. cbn [run step].
    destruct (step0 c) as [st' out]. rewrite rev_involutive. reflexivity.
Qed.

(* ------------------------------------------------------------------ words and numbers *)

Lemma lex_word_body d : forall w acc suf, forallb is_wordc w = true ->
  run d (LWord acc) (w ++ suf) = run d (LWord (rev w ++ acc)) suf.
Proof.
  induction w as [|c r IH]; intros acc suf H; [reflexivity|].
  cbn [forallb] in H. apply andb_true_iff in H as [Hc Hr].
  cbn [app run step]. rewrite Hc. cbn [app]. rewrite IH by exact Hr. cbn [rev]. rewrite <- app_assoc. reflexivity.
Qed.

Definition word_boundary (suf : str) : bool := match suf with c :: _ => negb (is_wordc c) | [] => true end.

Lemma run_LWord_end d acc suf : word_boundary suf = true ->
  run d (LWord acc) suf = TWord (rev acc) :: run d L0 suf.
Proof.
  destruct suf as [|c r]; intro H; [reflexivity|].
  cbn [word_boundary] in H. apply negb_true_iff in H. cbn [run step]. rewrite H. unfold flush_then.
  cbn [run step]. destruct (step0 c) as [st' out]. reflexivity.
Qed.

Lemma lex_word d c w suf : is_alpha c = true -> forallb is_wordc w = true -> word_boundary suf = true ->
  run d L0 ((c :: w) ++ suf) = TWord (c :: w) :: run d L0 suf.
Proof.
  intros Hc Hw Hs. cbn [app run step].
  assert (step0 c = (LWord [c], @nil tok)) as E.
  { unfold step0.
    assert (is_space c = false) as E1.
    { unfold is_space. unfold is_alpha in Hc.
      destruct (c =? 32) eqn:A; [apply N.eqb_eq in A; subst; discriminate|].
      destruct (c =? 9) eqn:B; [apply N.eqb_eq in B; subst; discriminate|].
      destruct (c =? 10) eqn:C; [apply N.eqb_eq in C; subst; discriminate|].
      destruct (c =? 13) eqn:D; [apply N.eqb_eq in D; subst; discriminate|]. reflexivity. }
    rewrite E1.
    destruct (c =? 39) eqn:A; [apply N.eqb_eq in A; subst; discriminate|].
    destruct (c =? 34) eqn:B; [apply N.eqb_eq in B; subst; discriminate|].
    destruct (c =? 96) eqn:C; [apply N.eqb_eq in C; subst; discriminate|]. cbn [orb].
    destruct (is_digit c) eqn:D.
    { exfalso. unfold is_digit in D. unfold is_alpha in Hc. apply andb_true_iff in D as [D1 D2].
      apply N.leb_le in D1, D2.
      repeat (apply orb_true_iff in Hc as [Hc|Hc]).
      - apply andb_true_iff in Hc as [X _]. apply N.leb_le in X. lia.
      - apply andb_true_iff in Hc as [X _]. apply N.leb_le in X. lia.
      - apply N.eqb_eq in Hc. lia.
      - apply N.leb_le in Hc. lia. }
    rewrite Hc. reflexivity. }
  rewrite E. cbn [app]. rewrite lex_word_body by exact Hw. rewrite run_LWord_end by exact Hs.
  rewrite rev_app_distr. cbn [rev app]. rewrite rev_involutive. reflexivity.
Qed.

Definition num_boundary (suf : str) : bool :=
  match suf with c :: _ => negb (is_wordc c || (c =? 46)) | [] => true end.

Lemma digit_not_e c : is_digit c = true -> (c =? 101) || (c =? 69) = false.
Proof.
  unfold is_digit. intro H. apply andb_true_iff in H as [H1 H2]. apply N.leb_le in H1, H2.
  apply orb_false_iff. split; apply N.eqb_neq; lia.
Qed.

Lemma digit_wordc c : is_digit c = true -> is_wordc c = true.
Proof. intro H. unfold is_wordc. rewrite H. rewrite orb_true_r. reflexivity. Qed.

Lemma lex_num_body d : forall w acc suf, forallb is_digit w = true ->
  run d (LNum acc) (w ++ suf) = run d (LNum (rev w ++ acc)) suf.
Proof.
  induction w as [|c r IH]; intros acc suf H; [reflexivity|].
  cbn [forallb] in H. apply andb_true_iff in H as [Hc Hr].
  cbn [app run step]. unfold num_continues. rewrite (digit_wordc c Hc). cbn [orb app].
  rewrite IH by exact Hr. cbn [rev]. rewrite <- app_assoc. reflexivity.
Qed.

Lemma lex_digits d c w suf : is_digit c = true -> forallb is_digit w = true -> num_boundary suf = true ->
  run d L0 ((c :: w) ++ suf) = TNumber (c :: w) :: run d L0 suf.
Proof.
  intros Hc Hw Hs. cbn [app run step].
  assert (step0 c = (LNum [c], @nil tok)) as E.
  { unfold step0. pose proof Hc as Hc'. unfold is_digit in Hc'. apply andb_true_iff in Hc' as [D1 D2].
    apply N.leb_le in D1, D2.
    assert (is_space c = false) as E1.
    { unfold is_space. repeat (apply orb_false_iff; split); apply N.eqb_neq; lia. }
    rewrite E1.
    replace (c =? 39) with false by (symmetry; apply N.eqb_neq; lia).
    replace (c =? 34) with false by (symmetry; apply N.eqb_neq; lia).
    replace (c =? 96) with false by (symmetry; apply N.eqb_neq; lia).
    cbn [orb]. rewrite Hc. reflexivity. }
  rewrite E. cbn [app]. rewrite lex_num_body by exact Hw.
  assert (exists x l, rev w ++ [c] = x :: l /\ is_digit x = true) as (x & l & El & Hx).
  { destruct (rev w) as [|x l] eqn:Er.
    - exists c, []. split; [reflexivity | exact Hc].
    - exists x, (l ++ [c]). split; [reflexivity|].
      assert (In x (rev w)) as Hin by (rewrite Er; left; reflexivity).
      apply in_rev in Hin. rewrite forallb_forall in Hw. apply Hw. exact Hin. }
  destruct suf as [|c2 r2].
  - cbn [run finish]. rewrite rev_app_distr. cbn [rev app]. rewrite rev_involutive. reflexivity.
  - cbn [num_boundary] in Hs. apply negb_true_iff in Hs. cbn [run step].
    unfold num_continues. rewrite Hs. rewrite El. rewrite (digit_not_e x Hx). rewrite andb_false_r. cbn [orb].
    unfold flush_then. cbn [run step]. destruct (step0 c2) as [st' out].
    rewrite <- El. rewrite rev_app_distr. cbn [rev app]. rewrite rev_involutive. reflexivity.
Qed.

(* Lemmas about Model/Literal.v: decimal printing/reading of integers, PRQL number spellings,
   based numbers, the PRQL string spelling that denotes any given value, raw strings, f-string text. *)
From Coq Require Import List NArith ZArith Bool Lia.
From PV Require Import Lib.ListX Model.Escape Model.SqlLex Model.Literal Proofs.EscapeProofs.
Import ListNotations.
Local Open Scope N_scope.
Local Arguments N.eqb : simpl never.
Local Arguments N.leb : simpl never.
Local Arguments N.ltb : simpl never.
Local Arguments N.div : simpl never.
Local Arguments N.modulo : simpl never.
Local Arguments N.mul : simpl never.
Local Arguments N.add : simpl never.
Local Arguments N.sub : simpl never.
Local Arguments N.pow : simpl never.

(* ------------------------------------------------------------------ digit strings *)

Lemma base_value_acc_app b : forall x a y,
  base_value_acc b a (x ++ y) = base_value_acc b (base_value_acc b a x) y.
Proof. induction x as [|c x IH]; intros a y; [reflexivity|]. cbn [app base_value_acc]. apply IH. Qed.

Lemma digits_pos_fuel_acc : forall f n acc, digits_pos_fuel f n acc = digits_pos_fuel f n [] ++ acc.
Proof.
  induction f as [|f IH]; intros n acc; cbn [digits_pos_fuel]; [reflexivity|].
  destruct (n =? 0); [reflexivity|]. rewrite IH. rewrite (IH _ [_]). rewrite <- app_assoc. reflexivity.
Qed.

Lemma is_digit_spec c : is_digit c = true <-> 48 <= c <= 57.
Proof.
  unfold is_digit. rewrite andb_true_iff. rewrite !N.leb_le. tauto.
Qed.

Lemma digit_char m : m < 10 -> is_digit (48 + m) = true /\ hex_val (48 + m) = m.
Proof.
  intro H. assert (is_digit (48 + m) = true) as D by (apply is_digit_spec; lia).
  split; [exact D|]. unfold hex_val. rewrite D. lia.
Qed.

Lemma pow2_succ f : 2 ^ N.of_nat (S f) = 2 * 2 ^ N.of_nat f.
Proof. rewrite Nat2N.inj_succ. apply N.pow_succ_r'. Qed.

Lemma digits_fuel_zero f : digits_pos_fuel f 0 [] = [].
Proof. destruct f; reflexivity. Qed.

Lemma digits_value : forall f n, n < 2 ^ N.of_nat f -> base_value_acc 10 0 (digits_pos_fuel f n []) = n.
Proof.
  induction f as [|f IH]; intros n H.
  - cbn in H. assert (n = 0) by lia. subst. reflexivity.
  - cbn [digits_pos_fuel]. destruct (n =? 0) eqn:E; [apply N.eqb_eq in E; subst; reflexivity|].
    rewrite digits_pos_fuel_acc, base_value_acc_app.
    rewrite pow2_succ in H.
    assert (n / 10 < 2 ^ N.of_nat f) as Hd by (apply N.div_lt_upper_bound; lia).
    rewrite (IH _ Hd). cbn [base_value_acc].
    assert (n mod 10 < 10) as Hm by (apply N.mod_lt; lia).
    destruct (digit_char _ Hm) as [_ Hv]. rewrite Hv.
    pose proof (N.div_mod' n 10). lia.
Qed.

Lemma digits_all_digit : forall f n, forallb is_digit (digits_pos_fuel f n []) = true.
Proof.
  induction f as [|f IH]; intros n; [reflexivity|].
  cbn [digits_pos_fuel]. destruct (n =? 0); [reflexivity|].
  rewrite digits_pos_fuel_acc, forallb_app, IH. cbn [forallb andb].
  assert (n mod 10 < 10) as Hm by (apply N.mod_lt; lia).
  destruct (digit_char _ Hm) as [Hd _]. rewrite Hd. reflexivity.
Qed.

Lemma digits_head : forall f n, n <> 0 -> n < 2 ^ N.of_nat f ->
  exists c w, digits_pos_fuel f n [] = c :: w /\ is_digit c = true /\ c <> 48.
Proof.
  induction f as [|f IH]; intros n Hn H.
  - cbn in H. lia.
  - cbn [digits_pos_fuel]. destruct (n =? 0) eqn:E; [apply N.eqb_eq in E; contradiction|].
    rewrite digits_pos_fuel_acc. rewrite pow2_succ in H.
    assert (n mod 10 < 10) as Hm by (apply N.mod_lt; lia).
    destruct (digit_char _ Hm) as [Hd Hv].
    destruct (N.eq_dec (n / 10) 0) as [Z|NZ].
    + rewrite Z, digits_fuel_zero. exists (48 + n mod 10), []. split; [reflexivity|]. split; [exact Hd|].
      pose proof (N.div_mod' n 10). lia.
    + assert (n / 10 < 2 ^ N.of_nat f) as Hlt by (apply N.div_lt_upper_bound; lia).
      destruct (IH _ NZ Hlt) as (c & w & Ew & Hc & Hz). rewrite Ew.
      exists c, (w ++ [48 + n mod 10]). split; [reflexivity|]. split; assumption.
Qed.

Lemma digits_of_fuel n : n <> 0 -> n < 2 ^ N.of_nat (S (N.to_nat (N.log2 n))).
Proof.
  intro H. rewrite Nat2N.inj_succ, N2Nat.id. apply N.log2_spec. lia.
Qed.

Lemma digits_of_nonzero n : n <> 0 -> digits_of n = digits_pos_fuel (S (N.to_nat (N.log2 n))) n [].
Proof. intro H. unfold digits_of. apply N.eqb_neq in H. rewrite H. reflexivity. Qed.

Lemma digits_of_value n : base_value 10 (digits_of n) = n.
Proof.
  destruct (N.eq_dec n 0) as [->|H]; [reflexivity|].
  rewrite digits_of_nonzero by exact H. apply digits_value, digits_of_fuel, H.
Qed.

Lemma digits_of_all_digit n : forallb is_digit (digits_of n) = true.
Proof.
  destruct (N.eq_dec n 0) as [->|H]; [reflexivity|].
  rewrite digits_of_nonzero by exact H. apply digits_all_digit.
Qed.

(* shape: a single 0, or a non-zero digit followed by digits *)
Lemma digits_of_shape n :
  (n = 0 /\ digits_of n = [48]) \/
  (n <> 0 /\ exists c w, digits_of n = c :: w /\ is_digit c = true /\ c <> 48 /\ forallb is_digit w = true).
Proof.
  destruct (N.eq_dec n 0) as [->|H]; [left; split; reflexivity|]. right. split; [exact H|].
  pose proof (digits_of_all_digit n) as A.
  rewrite digits_of_nonzero in * by exact H.
  destruct (digits_head _ n H (digits_of_fuel n H)) as (c & w & E & Hc & Hz).
  exists c, w. rewrite E in A. cbn [forallb] in A. apply andb_true_iff in A as [_ A]. repeat split; assumption.
Qed.

Lemma digits_of_cons n : exists c w, digits_of n = c :: w /\ is_digit c = true /\ forallb is_digit w = true.
Proof.
  destruct (digits_of_shape n) as [[_ E]|[_ (c & w & E & Hc & _ & Hw)]].
  - exists 48, []. rewrite E. repeat split.
  - exists c, w. repeat split; assumption.
Qed.

Lemma sql_int_value_digits n : sql_int_value (digits_of n) = Some n.
Proof.
  unfold sql_int_value, all_digits. destruct (digits_of_cons n) as (c & w & E & _ & _).
  pose proof (digits_of_all_digit n) as A. pose proof (digits_of_value n) as V.
  rewrite E in *. rewrite A, V. reflexivity.
Qed.

(* ------------------------------------------------------------------ integers: SQL side *)

Theorem int_in_context d n pre suf :
  closed_prefix d pre = true -> num_boundary suf = true ->
  sql_lex d (pre ++ digits_of n ++ suf) = sql_lex d pre ++ TNumber (digits_of n) :: sql_lex d suf.
Proof.
  intros Hp Hs. rewrite (sql_lex_closed_prefix d pre Hp). unfold sql_lex at 1. rewrite run_app.
  unfold closed_prefix in Hp. destruct (state_after d L0 pre); try discriminate.
  f_equal. destruct (digits_of_cons n) as (c & w & E & Hc & Hw). rewrite E.
  apply lex_digits; assumption.
Qed.

(* every integer, negative ones included (i64::MIN too): the tokens of  emit_int z  in any closed context *)
Definition int_tokens (z : Z) : list tok :=
  match z with
  | Z0 => [TNumber [48]]
  | Zpos p => [TNumber (digits_of (Npos p))]
  | Zneg p => [TPunct 45; TNumber (digits_of (Npos p))]
  end.

Lemma run_minus_digit d c w : is_digit c = true -> run d L0 (45 :: c :: w) = TPunct 45 :: run d L0 (c :: w).
Proof.
  intro Hc. cbn [run]. change (step d L0 45) with (LMinus, @nil tok). cbn [app]. cbn [run step].
  apply is_digit_spec in Hc. replace (c =? 45) with false by (symmetry; apply N.eqb_neq; lia).
  unfold flush_then. change (step d L0 c) with (step0 c). destruct (step0 c) as [st' out]. reflexivity.
Qed.

Theorem int_z_in_context d z pre suf :
  closed_prefix d pre = true -> num_boundary suf = true ->
  sql_lex d (pre ++ emit_int z ++ suf) = sql_lex d pre ++ int_tokens z ++ sql_lex d suf.
Proof.
  intros Hp Hs. destruct z as [|p|p]; cbn [emit_int int_tokens].
  - exact (int_in_context d 0 pre suf Hp Hs).
  - exact (int_in_context d (Npos p) pre suf Hp Hs).
  - rewrite (sql_lex_closed_prefix d pre Hp). unfold sql_lex at 1. rewrite run_app.
    unfold closed_prefix in Hp. destruct (state_after d L0 pre); try discriminate. f_equal.
    destruct (digits_of_cons (Npos p)) as (c & w & E & Hc & Hw). rewrite E. cbn [app].
    rewrite (run_minus_digit d c (w ++ suf) Hc). cbn [app]. f_equal.
    exact (lex_digits d c w suf Hc Hw Hs).
Qed.

Definition int_of_tokens (l : list tok) : option Z :=
  match l with
  | [TNumber s] => option_map Z.of_N (sql_int_value s)
  | [TPunct 45; TNumber s] => option_map (fun n => Z.opp (Z.of_N n)) (sql_int_value s)
  | _ => None
  end.

Lemma lex_digits_alone d n : sql_lex d (digits_of n) = [TNumber (digits_of n)].
Proof.
  pose proof (int_in_context d n [] [] eq_refl eq_refl) as E. cbn [app] in E.
  rewrite app_nil_r in E. exact E.
Qed.

Lemma lex_neg_digits d n : sql_lex d (45 :: digits_of n) = [TPunct 45; TNumber (digits_of n)].
Proof.
  unfold sql_lex. cbn [run]. change (step d L0 45) with (LMinus, @nil tok). cbn [app].
  destruct (digits_of_cons n) as (c & w & E & Hc & Hw). rewrite E.
  cbn [run step]. apply is_digit_spec in Hc as Hr.
  replace (c =? 45) with false by (symmetry; apply N.eqb_neq; lia).
  unfold flush_then. pose proof (lex_digits d c w [] Hc Hw eq_refl) as L. rewrite app_nil_r in L.
  cbn [run] in L. change (step d L0 c) with (step0 c) in L. destruct (step0 c) as [st' out].
  cbn [app]. rewrite L. reflexivity.
Qed.

Theorem int_roundtrip d z : int_of_tokens (sql_lex d (emit_int z)) = Some z.
Proof.
  destruct z as [|p|p]; cbn [emit_int].
  - reflexivity.
  - rewrite lex_digits_alone. cbn [int_of_tokens]. rewrite sql_int_value_digits. reflexivity.
  - rewrite lex_neg_digits. cbn [int_of_tokens]. rewrite sql_int_value_digits. reflexivity.
Qed.

(* ------------------------------------------------------------------ PRQL number spellings *)

Lemma span_p_app p : forall w rest, forallb p w = true ->
  match rest with c :: _ => p c = false | [] => True end -> span_p p (w ++ rest) = (w, rest).
Proof.
  induction w as [|c w IH]; intros rest Hw Hr.
  - cbn [app]. destruct rest as [|c r]; [reflexivity|]. cbn [span_p]. rewrite Hr. reflexivity.
  - cbn [forallb] in Hw. apply andb_true_iff in Hw as [Hc Hw]. cbn [app span_p]. rewrite Hc.
    rewrite (IH rest Hw Hr). reflexivity.
Qed.

Definition prql_num_boundary (rest : str) : bool :=
  match rest with
  | [] => true
  | c :: _ => negb (is_digit_us c || (c =? 46) || (c =? 101) || (c =? 69))
  end.

Lemma boundary_parts rest : prql_num_boundary rest = true ->
  match rest with c :: _ => is_digit_us c = false | [] => True end /\
  parse_frac rest = ([], rest) /\ parse_exp rest = (None, rest).
Proof.
  destruct rest as [|c r]; intro H; [repeat split|].
  cbn [prql_num_boundary] in H. apply negb_true_iff in H.
  apply orb_false_iff in H as [H H4]. apply orb_false_iff in H as [H H3]. apply orb_false_iff in H as [H1 H2].
  split; [exact H1|]. split.
  - unfold parse_frac. destruct r; [reflexivity|]. rewrite H2. reflexivity.
  - unfold parse_exp. rewrite H3, H4. reflexivity.
Qed.

Lemma digit_is_digit_us c : is_digit c = true -> is_digit_us c = true.
Proof. intro H. unfold is_digit_us. rewrite H. reflexivity. Qed.

Lemma forallb_digit_us w : forallb is_digit w = true -> forallb is_digit_us w = true.
Proof.
  intro H. rewrite forallb_forall in *. intros x Hx. apply digit_is_digit_us, H, Hx.
Qed.

Lemma no_us_digit_us_free w : forallb is_digit w = true -> no_us w = w.
Proof.
  induction w as [|c w IH]; intro H; [reflexivity|].
  cbn [forallb] in H. apply andb_true_iff in H as [Hc Hw]. cbn [no_us filter].
  apply is_digit_spec in Hc. replace (c =? 95) with false by (symmetry; apply N.eqb_neq; lia).
  cbn [negb]. fold (no_us w). rewrite (IH Hw). reflexivity.
Qed.

(* the decimal spelling of n lexes to the integer n (when it fits i64) *)
Theorem lex_number_int n rest : n <= I64_MAX -> prql_num_boundary rest = true ->
  lex_number (digits_of n ++ rest) = Some (NInt n, rest).
Proof.
  intros Hn Hb. destruct (boundary_parts rest Hb) as (B1 & B2 & B3).
  pose proof (digits_of_value n) as V. pose proof (digits_of_all_digit n) as A.
  destruct (digits_of_shape n) as [[-> E]|[Hnz (c & w & E & Hc & Hz & Hw)]].
  - rewrite E. unfold lex_number. cbn [app parse_integer].
    replace (is_digit 48 && negb (48 =? 48)) with false by reflexivity.
    replace (48 =? 48) with true by reflexivity. rewrite B2, B3. reflexivity.
  - rewrite E in *. unfold lex_number. cbn [app parse_integer]. rewrite Hc.
    apply N.eqb_neq in Hz. rewrite Hz. cbn [negb andb].
    rewrite (span_p_app is_digit_us w rest (forallb_digit_us w Hw) B1). rewrite B2, B3.
    rewrite (no_us_digit_us_free (c :: w) A). rewrite V.
    apply N.leb_le in Hn. rewrite Hn. reflexivity.
Qed.

(* underscores in the integer part do not change the value: inserting one anywhere after the first digit *)
Theorem lex_number_underscore c a b rest :
  is_digit c = true -> c <> 48 -> forallb is_digit_us a = true -> forallb is_digit_us b = true ->
  match rest with x :: _ => is_digit_us x = false | [] => True end ->
  lex_number ((c :: a ++ 95 :: b) ++ rest) = lex_number ((c :: a ++ b) ++ rest).
Proof.
  intros Hc Hz Ha Hb Hr. unfold lex_number. cbn [app parse_integer]. rewrite Hc.
  apply N.eqb_neq in Hz. rewrite Hz. cbn [negb andb].
  assert (forallb is_digit_us (a ++ 95 :: b) = true) as H1.
  { rewrite forallb_app, Ha. cbn [forallb]. rewrite Hb. reflexivity. }
  assert (forallb is_digit_us (a ++ b) = true) as H2 by (rewrite forallb_app, Ha, Hb; reflexivity).
  rewrite (span_p_app is_digit_us _ rest H1 Hr), (span_p_app is_digit_us _ rest H2 Hr).
  assert (no_us (c :: a ++ 95 :: b) = no_us (c :: a ++ b)) as E.
  { unfold no_us. cbn [filter]. rewrite !filter_app. cbn [filter].
    replace (95 =? 95) with true by reflexivity. reflexivity. }
  rewrite E. reflexivity.
Qed.

(* ------------------------------------------------------------------ based numbers *)

Definition digit_ok (base c : N) : bool := match digit_val base c with Some _ => true | None => false end.

Lemma digit_ok_lt base c : digit_ok base c = true -> hex_val c + 1 <= base.
Proof.
  unfold digit_ok, digit_val. destruct (is_hex c && (hex_val c <? base)) eqn:E; [|discriminate].
  intros _. apply andb_true_iff in E as [_ E]. apply N.ltb_lt in E. lia.
Qed.

Lemma base_value_acc_bound b : forall ds a, forallb (digit_ok b) ds = true ->
  base_value_acc b a ds + 1 <= (a + 1) * b ^ N.of_nat (length ds).
Proof.
  induction ds as [|c r IH]; intros a H.
  - cbn [base_value_acc length]. change (N.of_nat 0) with 0. rewrite N.pow_0_r. lia.
  - cbn [forallb] in H. apply andb_true_iff in H as [Hc Hr]. apply digit_ok_lt in Hc.
    cbn [base_value_acc length]. rewrite Nat2N.inj_succ, N.pow_succ_r'.
    specialize (IH (a * b + hex_val c) Hr).
    eapply N.le_trans; [exact IH|].
    rewrite N.mul_assoc. apply N.mul_le_mono_r. lia.
Qed.

Lemma take_digits_spec base : forall n s ds r, take_digits base n s = (ds, r) ->
  (length ds <= n)%nat /\ forallb (digit_ok base) ds = true.
Proof.
  induction n as [|n IH]; intros s ds r H.
  - cbn [take_digits] in H. injection H as <- <-. split; [cbn; lia | reflexivity].
  - destruct s as [|c s']; cbn [take_digits] in H.
    + injection H as <- <-. split; [cbn; lia | reflexivity].
    + destruct (digit_val base c) eqn:E.
      * destruct (take_digits base n s') as [a b] eqn:T. injection H as <- <-.
        destruct (IH _ _ _ T) as [L F]. split; [cbn [length]; lia|].
        cbn [forallb]. unfold digit_ok at 1. rewrite E. exact F.
      * injection H as <- <-. split; [cbn; lia | reflexivity].
Qed.

(* parse_number_with_base without the `unwrap_or(Literal::Integer(0))` fallback *)
Definition based_number_raw (row : str * N * nat) (s : str) : option (N * str) :=
  let '(prefix, base, maxd) := row in
  match strip_prefix prefix s with
  | None => None
  | Some r =>
      let r := match r with u :: r' => if u =? 95 then r' else r | [] => r end in
      let '(ds, r') := take_digits base maxd r in
      match ds with [] => None | _ => Some (base_value base ds, r') end
  end.

Definition row_fits (row : str * N * nat) : bool :=
  let '(_, base, maxd) := row in base ^ N.of_nat maxd <=? I64_MAX + 1.

(* with the digit caps in the source, i64::from_str_radix never overflows: the fallback is dead *)
Theorem based_no_overflow row s : row_fits row = true -> based_number row s = based_number_raw row s.
Proof.
  destruct row as [[prefix base] maxd]. unfold row_fits, based_number, based_number_raw. intro Hf.
  apply N.leb_le in Hf.
  destruct (strip_prefix prefix s) as [r|]; [|reflexivity].
  set (r1 := match r with u :: r' => if u =? 95 then r' else r | [] => r end).
  destruct (take_digits base maxd r1) as [ds r'] eqn:T.
  destruct (take_digits_spec _ _ _ _ _ T) as [L F].
  destruct ds as [|c ds']; [reflexivity|].
  pose proof (base_value_acc_bound base (c :: ds') 0 F) as B.
  fold (base_value base (c :: ds')) in B.
  assert (base <> 0) as Hb.
  { cbn [forallb] in F. apply andb_true_iff in F as [Fc _]. apply digit_ok_lt in Fc. lia. }
  assert (base ^ N.of_nat (length (c :: ds')) <= base ^ N.of_nat maxd) as P.
  { apply N.pow_le_mono_r; [exact Hb | lia]. }
  assert (base_value base (c :: ds') <=? I64_MAX = true) as Q by (apply N.leb_le; lia).
  rewrite Q. reflexivity.
Qed.

Theorem based_rows_no_overflow rows : forallb row_fits rows = true ->
  forall row s, In row rows -> based_number row s = based_number_raw row s.
Proof. intros F row s Hin. apply based_no_overflow. rewrite forallb_forall in F. exact (F row Hin). Qed.

(* what take_digits consumed, and where it stopped *)
Lemma take_digits_split base : forall n s ds r, take_digits base n s = (ds, r) ->
  s = ds ++ r /\ forallb (digit_ok base) ds = true /\ (length ds <= n)%nat /\
  ((length ds < n)%nat -> match r with c :: _ => digit_ok base c = false | [] => True end).
Proof.
  induction n as [|n IH]; intros s ds r H.
  - cbn [take_digits] in H. injection H as <- <-. cbn [length app]. repeat split; try reflexivity; lia.
  - destruct s as [|c s']; cbn [take_digits] in H.
    + injection H as <- <-. cbn [length]. repeat split; try reflexivity; lia.
    + destruct (digit_val base c) eqn:E.
      * destruct (take_digits base n s') as [a b] eqn:T. injection H as <- <-.
        destruct (IH _ _ _ T) as (E1 & F & L & St). cbn [app length forallb]. rewrite <- E1.
        unfold digit_ok at 1. rewrite E. repeat split; [exact F | lia | intro; apply St; lia].
      * injection H as <- <-. cbn [app length forallb]. repeat split; [lia|]. intros _. unfold digit_ok. rewrite E. reflexivity.
Qed.

(* THE VALUE OF A BASED LITERAL (0x / 0o / 0b): the literal the lexer produces has exactly the value of the digits it
   consumed, that value fits i64 (never the unwrap_or(Integer(0)) fallback), and the literal can only stop in front of
   another digit of the base when it has consumed the maximal number of digits -- "the value of the spelling, or the
   spelling is split in two tokens (and rejected by the parser)".  A change that lets an over-long literal through as
   one token with another value (seeded change C08/5: 0x8000000000000000 = 0) contradicts this theorem. *)
Theorem based_value_or_split row s v r : row_fits row = true -> based_number row s = Some (v, r) ->
  let '(prefix, base, maxd) := row in
  exists us ds, s = prefix ++ us ++ ds ++ r /\ (us = [] \/ us = [95]) /\ ds <> [] /\
                forallb (digit_ok base) ds = true /\ v = base_value base ds /\ v <= I64_MAX /\
                (match r with c :: _ => digit_ok base c = true | [] => False end -> length ds = maxd).
Proof.
  intros Hf H. rewrite (based_no_overflow row s Hf) in H.
  destruct row as [[prefix base] maxd]. unfold based_number_raw in H. unfold row_fits in Hf. apply N.leb_le in Hf.
  destruct (strip_prefix prefix s) as [r0|] eqn:P; [|discriminate]. apply strip_prefix_spec in P.
  set (r1 := match r0 with u :: r' => if u =? 95 then r' else r0 | [] => r0 end) in *.
  assert (exists us, r0 = us ++ r1 /\ (us = [] \/ us = [95])) as (us & Eus & Hus).
  { subst r1. destruct r0 as [|u r']; [exists []; auto|]. destruct (u =? 95) eqn:U.
    - apply N.eqb_eq in U. subst u. exists [95]. auto.
    - exists []. auto. }
  destruct (take_digits base maxd r1) as [ds r'] eqn:T.
  destruct (take_digits_split base maxd r1 ds r' T) as (E1 & F & L & St).
  destruct ds as [|d0 ds']; [discriminate|]. injection H as <- <-.
  exists us, (d0 :: ds'). split; [rewrite P, Eus, E1; reflexivity|]. split; [exact Hus|]. split; [discriminate|].
  split; [exact F|]. split; [reflexivity|]. split.
  - pose proof (base_value_acc_bound base (d0 :: ds') 0 F) as B. unfold base_value.
    assert (base ^ N.of_nat (length (d0 :: ds')) <= base ^ N.of_nat maxd) as M.
    { destruct (N.eq_dec base 0) as [->|NZ].
      - cbn [forallb] in F. apply andb_true_iff in F as [F0 _]. apply digit_ok_lt in F0. lia.
      - apply N.pow_le_mono_r; [exact NZ | lia]. }
    lia.
  - intro Hd. destruct (Nat.eq_dec (length (d0 :: ds')) maxd) as [E|NE]; [exact E|].
    assert (length (d0 :: ds') < maxd)%nat as Lt by lia. specialize (St Lt).
    destruct r' as [|c r'']; [contradiction|]. rewrite St in Hd. discriminate.
Qed.

(* ------------------------------------------------------------------ a PRQL spelling for every string value *)

(* "..." with backslash and double quote escaped by a backslash *)
Fixpoint spell (v : str) : str :=
  match v with
  | [] => []
  | c :: r => if (c =? 92) || (c =? 34) then 92 :: c :: spell r else c :: spell r
  end.

Definition table_ok (tbl : list (N * N)) : bool :=
  match assoc 92 tbl, assoc 34 tbl with Some 92, None => true | _, _ => false end.

Lemma table_ok_spec tbl : table_ok tbl = true -> assoc 92 tbl = Some 92 /\ assoc 34 tbl = None.
Proof.
  unfold table_ok. destruct (assoc 92 tbl) as [x|]; [|discriminate].
  destruct (assoc 34 tbl); [destruct (N.eq_dec x 92); subst; try discriminate;
    destruct x as [|p]; try discriminate; repeat (destruct p; try discriminate)|].
  destruct (N.eq_dec x 92) as [->|Hx]; [auto|].
  intro H. exfalso. apply Hx.
  destruct x as [|p]; [discriminate|].
  do 7 (destruct p as [p|p|]; try discriminate). reflexivity.
Qed.

Lemma parse_escape_bs tbl X : assoc 92 tbl = Some 92 -> parse_escape tbl (92 :: X) = (92, X).
Proof. intro H. unfold parse_escape. rewrite H. reflexivity. Qed.
Lemma parse_escape_dq tbl X : assoc 34 tbl = None -> parse_escape tbl (34 :: X) = (34, X).
Proof. intro H. unfold parse_escape. rewrite H. reflexivity. Qed.

Lemma mq_spell tbl : table_ok tbl = true -> forall v fuel rest, (length (spell v) < fuel)%nat ->
  mq_body tbl fuel 34 1 true (spell v ++ 34 :: rest) = Some (v, rest).
Proof.
  intro Ht. destruct (table_ok_spec tbl Ht) as [T1 T2].
  induction v as [|c r IH]; intros fuel rest Hf; (destruct fuel as [|fuel]; [cbn in Hf; lia|]).
  - reflexivity.
  - revert Hf. cbn [spell]. destruct ((c =? 92) || (c =? 34)) eqn:E; intro Hf.
    + cbn [length] in Hf. cbn [app mq_body take_q].
      replace (92 =? 34) with false by reflexivity. replace (92 =? 92) with true by reflexivity.
      cbn [andb].
      apply orb_true_iff in E as [E|E]; apply N.eqb_eq in E; subst c.
      * rewrite parse_escape_bs by exact T1. rewrite IH by lia. reflexivity.
      * rewrite parse_escape_dq by exact T2. rewrite IH by lia. reflexivity.
    + apply orb_false_iff in E as [E1 E2]. cbn [length] in Hf. cbn [app mq_body take_q].
      rewrite E2, E1. cbn [andb]. rewrite IH by lia. reflexivity.
Qed.

Lemma count_q_spell v rest : v <> [] -> count_q 34 (spell v ++ 34 :: rest) = (O, spell v ++ 34 :: rest).
Proof.
  destruct v as [|c r]; [contradiction|]. intros _. cbn [spell].
  destruct ((c =? 92) || (c =? 34)) eqn:E.
  - reflexivity.
  - apply orb_false_iff in E as [_ E]. cbn [app count_q]. rewrite E. reflexivity.
Qed.

(* every string value v is denoted by the PRQL literal  " spell v "  *)
Theorem spell_roundtrip tbl v rest : table_ok tbl = true -> starts_with 34 rest = false ->
  quoted_string tbl true (34 :: spell v ++ 34 :: rest) = Some (v, rest).
Proof.
  intros Ht Hr. unfold quoted_string, multi_quoted.
  destruct v as [|c r].
  - cbn [spell app count_q]. replace (34 =? 34) with true by reflexivity.
    destruct rest as [|x rest'].
    + reflexivity.
    + cbn [starts_with] in Hr. cbn [count_q]. rewrite Hr. reflexivity.
  - cbn [count_q]. replace (34 =? 34) with true by reflexivity.
    rewrite count_q_spell by discriminate. cbn [Nat.even].
    rewrite mq_spell; [reflexivity | exact Ht |].
    rewrite app_length. cbn [length]. lia.
Qed.

(* ------------------------------------------------------------------ raw strings *)

Definition raw_char_ok (c : N) : bool := negb (is_anyquote c || (c =? 10) || (c =? 13)).

Lemma raw_body_app : forall v rest, forallb raw_char_ok v = true -> raw_body (v ++ 34 :: rest) = (v, 34 :: rest).
Proof.
  induction v as [|c v IH]; intros rest H; [reflexivity|].
  cbn [forallb] in H. apply andb_true_iff in H as [Hc Hv]. unfold raw_char_ok in Hc. apply negb_true_iff in Hc.
  cbn [app raw_body]. rewrite Hc. rewrite (IH rest Hv). reflexivity.
Qed.

Theorem raw_roundtrip v rest : forallb raw_char_ok v = true ->
  raw_string (114 :: 34 :: v ++ 34 :: rest) = Some (v, rest).
Proof. intro H. unfold raw_string. cbn [andb]. change ((114 =? 114) && is_anyquote 34) with true. cbn iota.
  rewrite (raw_body_app v rest H). reflexivity.
Qed.

(* ------------------------------------------------------------------ f-string text *)

Fixpoint brace_escape (t : str) : str :=
  match t with
  | [] => []
  | c :: r => if (c =? 123) || (c =? 125) then c :: c :: brace_escape r else c :: brace_escape r
  end.

Definition text_pieces (l : str) : list piece := match l with [] => [] | _ => [PText (rev l)] end.

Lemma fpieces_text : forall t cur fuel, (length (brace_escape t) < fuel)%nat ->
  fpieces fuel cur (brace_escape t) = Some (text_pieces (rev t ++ cur)).
Proof.
  induction t as [|c r IH]; intros cur fuel Hf; (destruct fuel as [|fuel]; [cbn in Hf; lia|]).
  - cbn [brace_escape fpieces rev app]. destruct cur; reflexivity.
  - revert Hf. cbn [brace_escape]. destruct ((c =? 123) || (c =? 125)) eqn:E; intro Hf.
    + cbn [length] in Hf. cbn [fpieces].
      apply orb_true_iff in E as [E|E]; apply N.eqb_eq in E; subst c.
      * replace (123 =? 123) with true by reflexivity.
        destruct fuel as [|fuel]; [lia|].
        rewrite IH by lia. cbn [rev]. rewrite <- app_assoc. reflexivity.
      * replace (125 =? 123) with false by reflexivity. replace (125 =? 125) with true by reflexivity.
        rewrite IH by lia. cbn [rev]. rewrite <- app_assoc. reflexivity.
    + apply orb_false_iff in E as [E1 E2]. cbn [length] in Hf. cbn [fpieces]. rewrite E1, E2.
      rewrite IH by lia. cbn [rev]. rewrite <- app_assoc. reflexivity.
Qed.

(* text with its braces doubled is one text piece with exactly that value *)
Theorem fstring_text t : t <> [] -> fstring_pieces (brace_escape t) = Some [PText t].
Proof.
  intro H. unfold fstring_pieces. rewrite fpieces_text by lia. rewrite app_nil_r.
  unfold text_pieces. destruct (rev t) eqn:E.
  - exfalso. apply H. rewrite <- (rev_involutive t), E. reflexivity.
  - rewrite <- E, rev_involutive. reflexivity.
Qed.

(* ------------------------------------------------------------------ date literals carry only harmless characters *)

Definition safe_char (c : N) : bool := negb (c =? 39) && negb (c =? 92).

Lemma digit_safe c : is_digit c = true -> safe_char c = true.
Proof.
  intro H. apply is_digit_spec in H. unfold safe_char.
  replace (c =? 39) with false by (symmetry; apply N.eqb_neq; lia).
  replace (c =? 92) with false by (symmetry; apply N.eqb_neq; lia). reflexivity.
Qed.

Lemma take_n_digits_safe : forall n s ds r, take_n_digits n s = Some (ds, r) -> forallb safe_char ds = true.
Proof.
  induction n as [|n IH]; intros s ds r H; cbn [take_n_digits] in H.
  - injection H as <- <-. reflexivity.
  - destruct s as [|c s']; [discriminate|]. destruct (is_digit c) eqn:D; [|discriminate].
    destruct (take_n_digits n s') as [[a b]|] eqn:T; [|discriminate]. cbn [option_map fst snd] in H.
    injection H as <- <-. cbn [forallb]. rewrite (digit_safe c D), (IH _ _ _ T). reflexivity.
Qed.

Theorem date_inner_safe s d r : date_inner s = Some (d, r) -> forallb safe_char d = true.
Proof.
  unfold date_inner. destruct (take_n_digits 4 s) as [[y [|c1 r1]]|] eqn:Y; try discriminate.
  destruct (c1 =? 45); [|discriminate].
  destruct (take_n_digits 2 r1) as [[m [|c2 r2]]|] eqn:M; try discriminate.
  destruct (c2 =? 45); [|discriminate].
  destruct (take_n_digits 2 r2) as [[dd r3]|] eqn:D; [|discriminate].
  intro H. injection H as <- <-.
  pose proof (take_n_digits_safe _ _ _ _ Y) as A. pose proof (take_n_digits_safe _ _ _ _ M) as B.
  pose proof (take_n_digits_safe _ _ _ _ D) as C.
  cbn [app]. rewrite forallb_app. cbn [forallb]. rewrite forallb_app. cbn [forallb]. rewrite A, B, C. reflexivity.
Qed.

(* ------------------------------------------------------------------ time and timestamp texts *)

Lemma is_hex_safe c : is_hex c = true -> safe_char c = true.
Proof.
  unfold is_hex, is_digit, safe_char. intro H.
  assert (48 <= c <= 57 \/ 65 <= c <= 70 \/ 97 <= c <= 102) as R.
  { apply orb_true_iff in H as [H|H]; [apply orb_true_iff in H as [H|H]|];
      apply andb_true_iff in H as [A B]; apply N.leb_le in A, B; lia. }
  replace (c =? 39) with false by (symmetry; apply N.eqb_neq; lia).
  replace (c =? 92) with false by (symmetry; apply N.eqb_neq; lia). reflexivity.
Qed.

Lemma take_digits_safe base : forall n s ds r, take_digits base n s = (ds, r) -> forallb safe_char ds = true.
Proof.
  induction n as [|n IH]; intros s ds r H.
  - cbn [take_digits] in H. injection H as <- <-. reflexivity.
  - destruct s as [|c s']; cbn [take_digits] in H; [injection H as <- <-; reflexivity|].
    unfold digit_val in H. destruct (is_hex c && (hex_val c <? base)) eqn:E.
    + destruct (take_digits base n s') as [a b] eqn:T. injection H as <- <-.
      apply andb_true_iff in E as [E _]. cbn [forallb]. rewrite (is_hex_safe c E), (IH _ _ _ T). reflexivity.
    + injection H as <- <-. reflexivity.
Qed.

Lemma opt_comp_safe sep n s d r : safe_char sep = true -> opt_comp sep n s = (d, r) -> forallb safe_char d = true.
Proof.
  intros Hs. unfold opt_comp. destruct s as [|c s']; [intro H; injection H as <- <-; reflexivity|].
  destruct (c =? sep) eqn:E; [|intro H; injection H as <- <-; reflexivity].
  destruct (take_n_digits n s') as [[dd r']|] eqn:T; intro H; injection H as <- <-; [|reflexivity].
  apply N.eqb_eq in E. subst c. cbn [forallb]. rewrite Hs, (take_n_digits_safe _ _ _ _ T). reflexivity.
Qed.

Theorem time_inner_safe inp val rest : time_inner inp = Some (val, rest) -> forallb safe_char val = true.
Proof.
  unfold time_inner. destruct (take_n_digits 2 inp) as [[hh r0]|] eqn:H0; [|discriminate].
  destruct (opt_comp 58 2 r0) as [mm r1] eqn:H1. destruct (opt_comp 58 2 r1) as [ss r2] eqn:H2.
  pose proof (take_n_digits_safe _ _ _ _ H0) as S0.
  pose proof (opt_comp_safe 58 _ _ _ _ eq_refl H1) as S1. pose proof (opt_comp_safe 58 _ _ _ _ eq_refl H2) as S2.
  (* fractional seconds *)
  assert (forall ms r3, match r2 with
                        | c :: r => if c =? 46 then let '(ds, r') := take_digits 10 6 r in
                                                    match ds with [] => ([], r2) | _ => (c :: ds, r') end
                                    else ([], r2)
                        | [] => ([], r2) end = (ms, r3) -> forallb safe_char ms = true) as Sms.
  { intros ms r3. destruct r2 as [|c r]; [intro H; injection H as <- <-; reflexivity|].
    destruct (c =? 46) eqn:E; [|intro H; injection H as <- <-; reflexivity].
    destruct (take_digits 10 6 r) as [ds r'] eqn:T. pose proof (take_digits_safe _ _ _ _ _ T) as Sd.
    destruct ds as [|x ds']; intro H; injection H as <- <-; [reflexivity|].
    apply N.eqb_eq in E. subst c. cbn [forallb] in *. exact Sd. }
  destruct (match r2 with
            | c :: r => if c =? 46 then let '(ds, r') := take_digits 10 6 r in
                                        match ds with [] => ([], r2) | _ => (c :: ds, r') end
                        else ([], r2)
            | [] => ([], r2) end) as [ms r3] eqn:H3.
  specialize (Sms ms r3 eq_refl).
  (* time zone *)
  assert (forall tz r4, match r3 with
                        | c :: r =>
                            if c =? 90 then ([90], r)
                            else if (c =? 43) || (c =? 45) then
                              match take_n_digits 2 r with
                              | Some (h2, r') =>
                                  let r'' := match r' with k :: t => if k =? 58 then t else r' | [] => r' end in
                                  match take_n_digits 2 r'' with
                                  | Some (m2, r''') => (c :: h2 ++ m2, r''')
                                  | None => ([], r3) end
                              | None => ([], r3) end
                            else ([], r3)
                        | [] => ([], r3) end = (tz, r4) -> forallb safe_char tz = true) as Stz.
  { intros tz r4. destruct r3 as [|c r]; [intro H; injection H as <- <-; reflexivity|].
    destruct (c =? 90) eqn:EZ; [intro H; injection H as <- <-; reflexivity|].
    destruct ((c =? 43) || (c =? 45)) eqn:ES; [|intro H; injection H as <- <-; reflexivity].
    destruct (take_n_digits 2 r) as [[h2 r']|] eqn:T1; [|intro H; injection H as <- <-; reflexivity].
    cbv zeta.
    destruct (take_n_digits 2 match r' with k :: t0 => if k =? 58 then t0 else r' | [] => r' end) as [[m2 r''']|] eqn:T2;
      intro H; injection H as <- <-; [|reflexivity].
    cbn [forallb]. rewrite forallb_app, (take_n_digits_safe _ _ _ _ T1), (take_n_digits_safe _ _ _ _ T2).
    assert (safe_char c = true) as ->; [|reflexivity].
    apply orb_true_iff in ES as [ES|ES]; apply N.eqb_eq in ES; subst c; reflexivity. }
  destruct (match r3 with
            | c :: r =>
                if c =? 90 then ([90], r)
                else if (c =? 43) || (c =? 45) then
                  match take_n_digits 2 r with
                  | Some (h2, r') =>
                      let r'' := match r' with k :: t => if k =? 58 then t else r' | [] => r' end in
                      match take_n_digits 2 r'' with
                      | Some (m2, r''') => (c :: h2 ++ m2, r''')
                      | None => ([], r3) end
                  | None => ([], r3) end
                else ([], r3)
            | [] => ([], r3) end) as [tz r4] eqn:H4.
  specialize (Stz tz r4 eq_refl).
  intro H. injection H as <- <-. rewrite !forallb_app, S0, S1, S2, Sms, Stz. reflexivity.
Qed.

(* every date / time / timestamp literal the lexer produces carries only harmless characters *)
Theorem date_token_safe s l r : date_token s = Some (l, r) ->
  match l with LDate v | LTime v | LTimestamp v => forallb safe_char v = true | _ => False end.
Proof.
  unfold date_token. destruct s as [|a s']; [discriminate|].
  destruct ((a =? 64) && match s' with c :: _ => is_digit c | [] => false end); [|discriminate].
  assert (forall x, match time_inner s' with
                    | Some (tm, r2) => if end_expr r2 then Some (LTime tm, r2) else None
                    | None => None end = Some x ->
          match fst x with LDate v | LTime v | LTimestamp v => forallb safe_char v = true | _ => False end) as HT.
  { intros x. destruct (time_inner s') as [[tm r2]|] eqn:T; [|discriminate].
    destruct (end_expr r2); [|discriminate]. intro H. injection H as <-. cbn [fst]. exact (time_inner_safe _ _ _ T). }
  destruct (match date_inner s' with
            | Some (d, t :: r1) =>
                if t =? 84 then
                  match time_inner r1 with
                  | Some (tm, r2) => if end_expr r2 then Some (LTimestamp (d ++ [84] ++ tm), r2) else None
                  | None => None end
                else None
            | _ => None end) as [[l0 r0]|] eqn:TS.
  - intro H. injection H as <- <-.
    destruct (date_inner s') as [[d [|t r1]]|] eqn:D; try discriminate.
    destruct (t =? 84); [|discriminate]. destruct (time_inner r1) as [[tm r2]|] eqn:T; [|discriminate].
    destruct (end_expr r2); [|discriminate]. injection TS as <- <-.
    rewrite forallb_app, (date_inner_safe _ _ _ D). cbn [app forallb]. rewrite (time_inner_safe _ _ _ T). reflexivity.
  - destruct (date_inner s') as [[d r1]|] eqn:D.
    + destruct (end_expr r1).
      * intro H. injection H as <- <-. exact (date_inner_safe _ _ _ D).
      * intro H. exact (HT (l, r) H).
    + intro H. exact (HT (l, r) H).
Qed.

(* the sqlite rewrite of a trailing time zone: [+-]HHMM becomes [+-]HH:MM, anything else is left alone; it adds
   nothing but a colon *)
Lemma tz_colon_zone pre sg h1 h2 m1 m2 :
  is_digit h1 = true -> is_digit h2 = true -> is_digit m1 = true -> is_digit m2 = true -> (sg =? 43) || (sg =? 45) = true ->
  tz_colon (pre ++ [sg; h1; h2; m1; m2]) = pre ++ [sg; h1; h2; 58; m1; m2].
Proof.
  intros A B C D E. unfold tz_colon. rewrite rev_app_distr.
  change (rev [sg; h1; h2; m1; m2] ++ rev pre) with (m2 :: m1 :: h2 :: h1 :: sg :: rev pre). cbv iota beta.
  rewrite D, C, B, A, E. cbn [andb]. rewrite rev_involutive. reflexivity.
Qed.

Lemma tz_colon_safe v : forallb safe_char v = true -> forallb safe_char (tz_colon v) = true.
Proof.
  intro H. unfold tz_colon.
  destruct (rev v) as [|m2 [|m1 [|h2 [|h1 [|sg pre]]]]] eqn:E; try exact H.
  destruct (is_digit m2 && is_digit m1 && is_digit h2 && is_digit h1 && ((sg =? 43) || (sg =? 45))); [|exact H].
  assert (forallb safe_char (rev v) = true) as Hr.
  { rewrite forallb_forall in *. intros x Hx. apply H. apply in_rev. exact Hx. }
  rewrite E in Hr. cbn [forallb] in Hr.
  repeat (apply andb_true_iff in Hr as [? Hr]).
  rewrite forallb_app. cbn [forallb].
  assert (forallb safe_char (rev pre) = true) as ->.
  { rewrite forallb_forall in *. intros x Hx. apply Hr. apply in_rev. exact Hx. }
  repeat match goal with H : safe_char _ = true |- _ => rewrite H; clear H end. reflexivity.
Qed.

(* the token structure of an emitted date / time / timestamp literal: sqlite  FN ( 'text' ) , elsewhere  TYPE 'text' ;
   the string token carries exactly the literal's text (sqlite: with the colon in the zone) *)
Definition datetime_fns (l : lit) : option (str * str * str) :=
  match l with
  | LDate v => Some (s_DATE, s_DATE, v) | LTime v => Some (s_TIME, s_TIME, v) | LTimestamp v => Some (s_DATETIME, s_TIMESTAMP, v)
  | _ => None
  end.

Theorem datetime_literal_tokens d bs s l r : date_token s = Some (l, r) ->
  exists fs fo v, datetime_fns l = Some (fs, fo, v) /\
    (exists t, emit_literal true bs l = Some t /\ sql_lex d t = [TWord fs; TPunct 40; TString (tz_colon v); TPunct 41]) /\
    (exists t, emit_literal false bs l = Some t /\ sql_lex d t = [TWord fo; TString v]).
Proof.
  intro H. pose proof (date_token_safe s l r H) as S.
  assert (forall fs fo v, forallb safe_char v = true ->
            sql_lex d (fs ++ [40]) = [TWord fs; TPunct 40] -> closed_prefix d (fs ++ [40]) = true ->
            sql_lex d (fo ++ [32]) = [TWord fo] -> closed_prefix d (fo ++ [32]) = true ->
            sql_lex d (emit_datetime true fs fo v) = [TWord fs; TPunct 40; TString (tz_colon v); TPunct 41] /\
            sql_lex d (emit_datetime false fs fo v) = [TWord fo; TString v]) as K.
  { intros fs fo v Sv L1 C1 L2 C2. unfold emit_datetime. split.
    - rewrite app_assoc.
      rewrite (string_in_context d (tz_colon v) (fs ++ [40]) [41] (safe_chars_ok d _ (tz_colon_safe v Sv)) C1 eq_refl).
      rewrite L1. reflexivity.
    - rewrite app_assoc. rewrite <- (app_nil_r (emit_string v)).
      rewrite (string_in_context d v (fo ++ [32]) [] (safe_chars_ok d _ Sv) C2 eq_refl).
      rewrite L2. reflexivity. }
  destruct l; try contradiction; eexists _, _, _; (split; [reflexivity|]);
    match goal with |- (exists t, emit_literal true _ ?l = _ /\ _) /\ _ =>
      cbn [emit_literal];
      match goal with |- (exists t, Some (emit_datetime true ?fs ?fo ?v) = _ /\ _) /\ _ =>
        destruct (K fs fo v S eq_refl eq_refl eq_refl eq_refl) as [K1 K2]; split; eexists; (split; [reflexivity|]); assumption
      end
    end.
Qed.

Lemma emit_rlit_of_lit sq bs l r : rlit_of_lit l = Some r -> emit_rlit sq bs r = emit_literal sq bs l.
Proof. destruct l; cbn [rlit_of_lit]; intro H; try discriminate; injection H as <-; reflexivity. Qed.

(* ------------------------------------------------------------------ compositions *)

(* PRQL spelling -> value -> SQL text -> value read by the database: the same v.
   d is the reading side; the writer's backslash flag is the one that fits it (which named dialects are configured
   that way: string_roundtrip_by_dialect below) *)
Theorem string_literal_end_to_end tbl d v : table_ok tbl = true ->
  exists src, quoted_string tbl true src = Some (v, []) /\
              (forall sq, emit_literal sq (bs_escapes d) (LString v) = Some (emit_literal_string (bs_escapes d) v)) /\
              sql_lex d (emit_literal_string (bs_escapes d) v) = [TString v].
Proof.
  intros Ht. exists (34 :: spell v ++ [34]). split; [|split].
  - apply (spell_roundtrip tbl v [] Ht eq_refl).
  - reflexivity.
  - apply literal_string_roundtrip.
Qed.

(* the dialects by NAME: wt = who doubles backslashes (sql/dialect.rs), rt = who reads them as escapes.  Where the two
   tables agree, every string round-trips on that dialect, in every context *)
Theorem string_in_context_by_dialect except wt rt : flags_agree except wt rt = true ->
  forall name w, In (name, w) wt -> existsb (leqb name) except = false ->
  exists d, reader_of rt name = Some d /\ forall s pre suf,
    closed_prefix d pre = true -> starts_with 39 suf = false ->
    sql_lex d (pre ++ emit_literal_string w s ++ suf) = sql_lex d pre ++ TString s :: sql_lex d suf.
Proof.
  intros H name w Hin Hex. unfold flags_agree in H. rewrite forallb_forall in H.
  specialize (H _ Hin). cbn [fst snd] in H. rewrite Hex in H. cbn [orb] in H.
  destruct (reader_of rt name) as [d|]; [|discriminate]. exists d. split; [reflexivity|].
  apply Bool.eqb_prop in H. subst w. intros s pre suf. apply literal_string_in_context.
Qed.

Theorem string_roundtrip_by_dialect except wt rt : flags_agree except wt rt = true ->
  forall name w s, In (name, w) wt -> existsb (leqb name) except = false ->
  exists d, reader_of rt name = Some d /\ sql_lex d (emit_literal_string w s) = [TString s].
Proof.
  intros H name w s Hin Hex.
  destruct (string_in_context_by_dialect except wt rt H name w Hin Hex) as (d & Hd & L).
  exists d. split; [exact Hd|]. pose proof (L s [] [] eq_refl eq_refl) as E.
  cbn [app] in E. rewrite app_nil_r in E. exact E.
Qed.

Theorem int_literal_end_to_end d n : n <= I64_MAX ->
  lex_number (digits_of n) = Some (NInt n, []) /\
  (forall sq bs, emit_literal sq bs (LInt n) = Some (emit_int (Z.of_N n))) /\
  int_of_tokens (sql_lex d (emit_int (Z.of_N n))) = Some (Z.of_N n).
Proof.
  intro H. split; [|split].
  - pose proof (lex_number_int n [] H eq_refl) as E. rewrite app_nil_r in E. exact E.
  - reflexivity.
  - apply int_roundtrip.
Qed.

Theorem date_literal_preserved d s v r : date_inner s = Some (v, r) ->
  sql_lex d (emit_string v) = [TString v].
Proof.
  intro H. apply string_roundtrip_ok, safe_chars_ok. exact (date_inner_safe s v r H).
Qed.

Lemma bool_roundtrip d b : sql_lex d (emit_bool b) = [TWord (emit_bool b)].
Proof. destruct b; reflexivity. Qed.

(* the documented escape table (book, reference/syntax/strings.md) against the code's table *)
Definition table_agrees (doc code : list (N * N)) : bool :=
  forallb (fun kv => match assoc (fst kv) code with Some v => v =? snd kv | None => false end) doc &&
  forallb (fun kv => match assoc (fst kv) doc with Some v => v =? snd kv | None => (fst kv =? 47) && (snd kv =? 47) end) code.

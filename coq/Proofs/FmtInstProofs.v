(* C14 -- facts about the concrete tables of Gen/GenCodegen.v: witnesses for the statement that is still false of the
   formatter (floats), and the former counterexamples (repaired in /repo) as regression examples. *)
From Coq Require Import List NArith ZArith Bool Arith Lia.
From PV Require Import Lib.ListX Model.FmtLit Model.FmtPratt Model.Fmt Model.FmtTy Model.FmtStmt Model.FmtInst Proofs.FmtPrattProofs Proofs.FmtProofs Proofs.FmtStmtProofs Proofs.FmtLitProofs.
Import ListNotations.
Local Open Scope N_scope.

Definition idn (c : N) : expr := EAtom (AIdent [[c]]).
(* a + ((b ** c)..d)   (BinOp indices: Pow = 4, Add = 5): before commit a318687 it was printed as `a + b ** c..d` *)
Definition leak_witness : expr := EBin 5 (idn 97) (ERng (EBin 4 (idn 98) (idn 99)) (idn 100)).

Lemma leak_witness_parse : parse_prql 40 (fmt_toks leak_witness) = Some leak_witness.
Proof. vm_compute. reflexivity. Qed.

(* ---- identifiers: ASCII-only character classes (enough to exhibit the witnesses, which are ASCII) *)
Definition ascii_alpha_f (c : N) : bool := in_ranges letters c.
Definition ascii_alnum_f (c : N) : bool := in_ranges alnum_ascii c.

(* the wildcard as a name: write_ident_part now puts it in backticks (commit 328740d); before, alias `*` was printed bare *)
Lemma star_witness_lexes :
  write_ident_part I_prql [42] = bt [42] /\
  lex_word ascii_alpha_f ascii_alnum_f I_prql (write_ident_part I_prql [42] ++ [32]) = Some (WIdent [42], [32]).
Proof. vm_compute. split; reflexivity. Qed.

(* positions repaired by commits 95d15ad, 1b7b9df, 2a611aa (BinOp index 5 = Add, UnOp index 0 = Neg) *)
Definition par_atom (c : N) : expr := EAtom (AParam [c]).
(* a + (x = b)   -(x = a)   (x = a)..b   (x = f) a   f n:(x = a) b   ($a)..b   (-$a)..   f ((-$a)..b) *)
Definition alias_witnesses : list expr :=
  [EBin 5 (idn 97) (EAlias [120] (idn 98));
   EUn 0 (EAlias [120] (idn 97));
   ERng (EAlias [120] (idn 97)) (idn 98);
   ECall (EAlias [120] (idn 102)) [idn 97];
   ECall (idn 102) [ENamed [110] (EAlias [120] (idn 97)); idn 98];
   ERng (par_atom 97) (idn 98);
   ERngL (EUn 0 (par_atom 97));
   ECall (idn 102) [ERng (EUn 0 (par_atom 97)) (idn 98)]].

(* lambdas at the positions repaired by commit 95d15ad:
   case [a => (func y -> y)]   func x -> (func y -> x + y)   func k:(g y) -> k   func k:(func y -> y) w:(x = a) -> k
   {f = func x y -> x + y}   (func x -> x) a   a + (func x -> x)   [func x -> f x y]   (al = func x -> x) + a *)
Definition lam (ps : list N) (b : expr) : expr := EFunc (map (fun c => [c]) ps) [] b.
Definition lambda_witnesses : list expr :=
  [EGroup GCase [idn 97; lam [121] (idn 121)];
   lam [120] (lam [121] (EBin 5 (idn 120) (idn 121)));
   EFunc [] [ENamed [107] (ECall (idn 103) [idn 121])] (idn 107);
   EFunc [] [ENamed [107] (lam [121] (idn 121)); ENamed [119] (EAlias [120] (idn 97))] (idn 107);
   EGroup GTup [EAlias [102] (lam [120; 121] (EBin 5 (idn 120) (idn 121)))];
   ECall (lam [120] (idn 120)) [idn 97];
   EBin 5 (idn 97) (lam [120] (idn 120));
   EGroup GArr [lam [120] (ECall (idn 102) [idn 120; idn 121])];
   EBin 5 (EAlias [97; 108] (lam [120] (idn 120))) (idn 97)].

Lemma float_refuted : exists f, flt_wf f = true /\ lex_number (fmt_float f) <> Some (NFloat f, []).
Proof. exists (FFin 1 0). split; [reflexivity|]. vm_compute. discriminate. Qed.

(* the hypotheses on the Unicode classes are satisfiable (by the ASCII-only classes) *)
Lemma ascii_classes_ok :
  (forall c, c < 128 -> ascii_alpha_f c = in_ranges letters c) /\
  (forall c, c < 128 -> ascii_alnum_f c = in_ranges alnum_ascii c) /\
  (forall c, ascii_alpha_f c = true -> ascii_alnum_f c = true).
Proof.
  repeat split; try reflexivity. intros c. unfold ascii_alpha_f, ascii_alnum_f, in_ranges, letters, alnum_ascii.
  cbn [existsb fst snd]. rewrite !orb_false_r. intro H. apply orb_true_iff in H as [H|H]; rewrite H; rewrite ?orb_true_r; reflexivity.
Qed.

(* ---- whole programs: the class on which the formatter changes the program, and a former one *)
Definition call1 (f a : N) : expr := ECall (idn f) [idn a].
(* `f a` / (doc comment) / `g b`: two main pipelines; printed without the doc comment they are one pipeline *)
Definition split_witness : list stmt := [SMain [] (call1 102 97); SMain [] (call1 103 98)].
(* `x = (f a | g b)` as a statement: the alias was dropped before commit e3202e5 *)
Definition alias_pipeline_witness : list stmt := [SMain [] (EAlias [120] (EGroup GPipe [call1 102 97; call1 103 98]))].
(* module m { let a = 1 / module n { let b / f t | s c | into z } } / @(f x) @{a = b} f m / import q = a.`b c` / let g = func x -> x / x = f a *)
Definition program_witness : list stmt :=
  [SModule [] [109] [SLet [] [97] (Some (EAtom (ALit (LInt 1)))); SModule [] [110] [SLet [] [98] None; SInto [] (EGroup GPipe [call1 102 116; call1 115 99]) [122]]];
   SMain [ECall (idn 102) [idn 120]; EGroup GTup [EAlias [97] (idn 98)]] (call1 102 109);
   SImport [] (Some [113]) [[97]; [98; 32; 99]];
   SLet [] [103] (Some (EFunc [[120]] [] (idn 120)));
   SMain [] (EAlias [120] (call1 102 97))].

Lemma prog_never (ss ss' : list stmt) f0 :
  parse_prog_prql f0 (fmt_prog_toks ss) = Some ss' -> ss' <> ss -> forall f, parse_prog_prql f (fmt_prog_toks ss) <> Some ss.
Proof.
  intros H0 Hne f Hf. unfold parse_prog_prql in *.
  pose proof (parse_prog_mono P_prql f (f + f0) _ _ ltac:(lia) Hf) as H1.
  pose proof (parse_prog_mono P_prql f0 (f + f0) _ _ ltac:(lia) H0) as H2.
  rewrite H1 in H2. injection H2 as <-. apply Hne. reflexivity.
Qed.

Lemma split_refuted : wf_prog split_witness = true /\ ops_ok_prog nbin nun split_witness = true /\
  forall f, parse_prog_prql f (fmt_prog_toks split_witness) <> Some split_witness.
Proof.
  split; [reflexivity|]. split; [vm_compute; reflexivity|].
  apply (prog_never _ [SMain [] (EGroup GPipe [call1 102 97; call1 103 98])] 40); [vm_compute; reflexivity | discriminate].
Qed.
(* since commit e3202e5 the aliased pipeline is written as one aliased expression and parses back *)
Lemma alias_pipeline_roundtrips : parse_prog_prql 40 (fmt_prog_toks alias_pipeline_witness) = Some alias_pipeline_witness.
Proof. vm_compute. reflexivity. Qed.

(* ---- type expressions:  {a = int, b = [text], func int m.ty -> bool, c = *, ..}   func func int -> int -> bool   [{..float}] *)
Definition w_int : str := [105;110;116].
Definition w_text : str := [116;101;120;116].
Definition w_bool : str := [98;111;111;108].
Definition w_float : str := [102;108;111;97;116].
Definition type_witnesses : list ty :=
  [TyTuple [TyField (Some [97]) (TyPrim w_int); TyField (Some [98]) (TyArr (TyPrim w_text));
            TyField None (TyFunc [TyPrim w_int; TyIdent [[109]; [116;121]]] (TyPrim w_bool)); TyStar (Some [99]); TyWild0];
   TyFunc [TyFunc [TyPrim w_int] (TyPrim w_int)] (TyPrim w_bool);
   TyArr (TyTuple [TyWild (TyPrim w_float)]);
   TyFunc [] TyFunc0; TyArr0; TyTuple []].
(* a function type whose parameter ends in a bare `func` is not producible: its text is read differently *)
Definition type_nonwitness : ty := TyFunc [TyFunc0] (TyPrim w_int).

(* C14 -- facts about the concrete tables of Gen/GenCodegen.v: the witnesses that refute the full-strength statements. *)
From Coq Require Import List NArith ZArith Bool Arith Lia.
From PV Require Import Lib.ListX Model.FmtLit Model.FmtPratt Model.Fmt Model.FmtInst Proofs.FmtPrattProofs Proofs.FmtProofs Proofs.FmtLitProofs.
Import ListNotations.
Local Open Scope N_scope.

Definition idn (c : N) : expr := EAtom (AIdent [[c]]).
(* a + ((b ** c)..d)   (BinOp indices: Pow = 4, Add = 5) *)
Definition leak_witness : expr := EBin 5 (idn 97) (ERng (EBin 4 (idn 98) (idn 99)) (idn 100)).
(* what its printed form `a + b ** c..d` parses to:  a + (b ** (c..d)) *)
Definition leak_reparse : expr := EBin 5 (idn 97) (EBin 4 (idn 98) (ERng (idn 99) (idn 100))).

Lemma leak_witness_parse : parse_prql 40 (fmt_toks leak_witness) = Some leak_reparse.
Proof. vm_compute. reflexivity. Qed.

Lemma expr_roundtrip_refuted :
  exists e, wf e = true /\ ops_ok nbin nun e = true /\ is_named e = false /\
            forall f, parse_prql f (fmt_toks e) <> Some e.
Proof.
  exists leak_witness. repeat split; try (vm_compute; reflexivity).
  intros f H. unfold parse_prql in *.
  pose proof (parse_mono P_prql f (f + 40) _ _ ltac:(lia) H) as H1.
  pose proof (parse_mono P_prql 40 (f + 40) _ _ ltac:(lia) leak_witness_parse) as H2.
  rewrite H2 in H1. discriminate H1.
Qed.

Lemma idempotent_refuted :
  exists e f e', wf e = true /\ ops_ok nbin nun e = true /\ parse_prql f (fmt_toks e) = Some e' /\ fmt_toks e' <> fmt_toks e.
Proof.
  exists leak_witness, 40%nat, leak_reparse. repeat split; try (vm_compute; reflexivity).
  vm_compute. discriminate.
Qed.

(* ---- identifiers: ASCII-only character classes (enough to exhibit the witnesses, which are ASCII) *)
Definition ascii_alpha_f (c : N) : bool := in_ranges letters c.
Definition ascii_alnum_f (c : N) : bool := in_ranges alnum_ascii c.

Definition s_import : str := [105; 109; 112; 111; 114; 116].

Lemma write_ident_refuted :
  exists s, contains c_backtick s = false /\
    lex_word ascii_alpha_f ascii_alnum_f I_prql (write_ident_part I_prql s ++ [32]) <> Some (WIdent s, [32]).
Proof. exists s_import. split; [reflexivity|]. vm_compute. discriminate. Qed.

Lemma display_ident_refuted :
  exists s, contains c_backtick s = false /\
    lex_word ascii_alpha_f ascii_alnum_f I_prql (display_ident_part I_prql s ++ [32]) <> Some (WIdent s, [32]).
Proof. exists w_true. split; [reflexivity|]. vm_compute. discriminate. Qed.

Lemma float_refuted : exists f, flt_wf f = true /\ lex_number (fmt_float f) <> Some (NFloat f, []).
Proof. exists (FFin 1 0). split; [reflexivity|]. vm_compute. discriminate. Qed.

Lemma string_refuted : exists s, forallb valid_scalar s = true /\ lex_string (fmt_string s) <> Some (s, []).
Proof. exists [c_squote; c_dquote]. exact string_roundtrip_refuted_witness. Qed.

(* the hypotheses on the Unicode classes are satisfiable (by the ASCII-only classes) *)
Lemma ascii_classes_ok :
  (forall c, c < 128 -> ascii_alpha_f c = in_ranges letters c) /\
  (forall c, c < 128 -> ascii_alnum_f c = in_ranges alnum_ascii c) /\
  (forall c, ascii_alpha_f c = true -> ascii_alnum_f c = true).
Proof.
  repeat split; try reflexivity. intros c. unfold ascii_alpha_f, ascii_alnum_f, in_ranges, letters, alnum_ascii.
  cbn [existsb fst snd]. rewrite !orb_false_r. intro H. apply orb_true_iff in H as [H|H]; rewrite H; rewrite ?orb_true_r; reflexivity.
Qed.

(* C14 -- facts about the concrete tables of Gen/GenCodegen.v: the witnesses that refute the full-strength statements. *)
From Coq Require Import List NArith ZArith Bool Arith Lia.
From PV Require Import Lib.ListX Model.FmtLit Model.FmtPratt Model.Fmt Model.FmtInst Proofs.FmtPrattProofs Proofs.FmtProofs.
Import ListNotations.
Local Open Scope N_scope.

Definition idn (c : N) : expr := EAtom (AIdent [[c]]).
(* a + ((b ** c)..d)   (BinOp indices: Pow = 4, Add = 5) *)
Definition leak_witness : expr := EBin 5 (idn 97) (ERng (EBin 4 (idn 98) (idn 99)) (idn 100)).
(* what its printed form `a + b ** c..d` parses to:  a + (b ** (c..d)) *)
Definition leak_reparse : expr := EBin 5 (idn 97) (EBin 4 (idn 98) (ERng (idn 99) (idn 100))).

Lemma leak_witness_parse : parse_prql 40 (fmt_toks leak_witness) = Some leak_reparse.
Proof. vm_compute. reflexivity. Qed.

Lemma expr_roundtrip_refuted :
  exists e, wf e = true /\ ops_ok nbin nun e = true /\ is_named e = false /\
            forall f, parse_prql f (fmt_toks e) <> Some e.
Proof.
  exists leak_witness. repeat split; try (vm_compute; reflexivity).
  intros f H. unfold parse_prql in *.
  pose proof (parse_mono P_prql f (f + 40) _ _ ltac:(lia) H) as H1.
  pose proof (parse_mono P_prql 40 (f + 40) _ _ ltac:(lia) leak_witness_parse) as H2.
  rewrite H2 in H1. discriminate H1.
Qed.

Lemma idempotent_refuted :
  exists e f e', wf e = true /\ ops_ok nbin nun e = true /\ parse_prql f (fmt_toks e) = Some e' /\ fmt_toks e' <> fmt_toks e.
Proof.
  exists leak_witness, 40%nat, leak_reparse. repeat split; try (vm_compute; reflexivity).
  vm_compute. discriminate.
Qed.

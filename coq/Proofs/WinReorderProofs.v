(* C04 -- proofs about Model/WinReorder.v (preprocess.rs reorder). *)
From Coq Require Import List NArith Bool Permutation Lia.
From PV Require Import Lib.ListX Model.WindowFns Model.WinReorder.
Import ListNotations.

(* ---------------------------------------------------------------- congruences of rreach *)
Lemma rstep_app_r pol l m t : rstep pol l m -> rstep pol (l ++ t) (m ++ t).
Proof.
  intros [l1 x y c l2 Hy Hs]. rewrite <- !app_assoc. cbn [app].
  change (rstep pol (l1 ++ x :: y :: (l2 ++ t)) (l1 ++ y :: x :: (l2 ++ t))). econstructor; eassumption.
Qed.

Lemma rstep_app_l pol h l m : rstep pol l m -> rstep pol (h ++ l) (h ++ m).
Proof.
  intros [l1 x y c l2 Hy Hs]. rewrite !app_assoc. econstructor; eassumption.
Qed.

Lemma rreach_app_r pol l m t : rreach pol l m -> rreach pol (l ++ t) (m ++ t).
Proof. induction 1; [constructor | econstructor; [apply rstep_app_r; eassumption | assumption]]. Qed.

Lemma rreach_app_l pol h l m : rreach pol l m -> rreach pol (h ++ l) (h ++ m).
Proof. induction 1; [constructor | econstructor; [apply rstep_app_l; eassumption | assumption]]. Qed.

Lemma rreach_trans pol l m r : rreach pol l m -> rreach pol m r -> rreach pol l r.
Proof. induction 1; intro H'; [assumption | econstructor; [eassumption | auto]]. Qed.

(* ---------------------------------------------------------------- the inner loop *)
Lemma sink_reach pol c x : snd x = RCompute c -> forall s, rreach pol (rev s ++ [x]) (rev (sink pol c x s)).
Proof.
  intros Hx. induction s as [|p rest IH]; [constructor|].
  cbn [sink]. destruct rest as [|q rest'].
  - constructor.
  - destruct (should_swap pol c (snd p)) eqn:E.
    + (* rev (p :: rest) ++ [x] = rev rest ++ [p; x]  --swap-->  rev rest ++ [x; p]  --IH--> rev (sink rest) ++ [p] *)
      set (rest := q :: rest') in *.
      change (rev (p :: rest)) with (rev rest ++ [p]). rewrite <- app_assoc. cbn [app].
      change (rev (p :: sink pol c x rest)) with (rev (sink pol c x rest) ++ [p]).
      econstructor.
      * apply (rstep_swap pol (rev rest) p x c []); assumption.
      * change (rev rest ++ [x; p]) with (rev rest ++ [x] ++ [p]). rewrite app_assoc. apply rreach_app_r. exact IH.
    + constructor.
Qed.

Lemma step_reach pol s x : rreach pol (rev s ++ [x]) (rev (reorder_step pol s x)).
Proof.
  unfold reorder_step. destruct s as [|p rest]; [constructor|].
  destruct (snd x) eqn:E; try constructor. apply sink_reach. exact E.
Qed.

Lemma fold_reach pol : forall p s q, rreach pol q (rev s) ->
  rreach pol (q ++ p) (rev (fold_left (reorder_step pol) p s)).
Proof.
  induction p as [|x p IH]; intros s q H; cbn [fold_left].
  - rewrite app_nil_r. exact H.
  - replace (q ++ x :: p) with ((q ++ [x]) ++ p) by (rewrite <- app_assoc; reflexivity).
    apply IH. eapply rreach_trans; [apply rreach_app_r; exact H | apply step_reach].
Qed.

(* reorder only ever performs swaps "Compute over a left neighbour it may cross" *)
Lemma reorder_reach pol p : rreach pol p (reorder pol p).
Proof. unfold reorder. apply (fold_reach pol p [] []). constructor. Qed.

(* ---------------------------------------------------------------- consequences, for every pipeline *)
Lemma rstep_perm pol l m : rstep pol l m -> Permutation l m.
Proof. intros [l1 x y c l2 _ _]. apply Permutation_app_head. apply perm_swap. Qed.

Lemma reorder_perm pol p : Permutation p (reorder pol p).
Proof.
  generalize (reorder_reach pol p). induction 1; [reflexivity|].
  eapply Permutation_trans; [eapply rstep_perm; eassumption | assumption].
Qed.

(* any meaning that is invariant under the swaps the policy allows is preserved *)
Lemma reorder_preserves (M : Type) (sem : list ritem -> M) pol :
  (forall l1 x y c l2, snd y = RCompute c -> should_swap pol c (snd x) = true ->
     sem (l1 ++ x :: y :: l2) = sem (l1 ++ y :: x :: l2)) ->
  forall p, sem (reorder pol p) = sem p.
Proof.
  intros H p. generalize (reorder_reach pol p). induction 1 as [|l m r [l1 x y c l2 Hy Hs] _ IH]; [reflexivity|].
  rewrite IH. symmetry. apply (H l1 x y c l2); assumption.
Qed.

Lemma in_all_cx c : In c all_cx.
Proof. destruct c; cbn; auto. Qed.
Lemma in_all_rkinds k : In k all_rkinds.
Proof.
  unfold all_rkinds. destruct k; try (cbn; tauto).
  apply in_or_app. right. apply in_map. apply in_all_cx.
Qed.

Lemma policy_respects_spec keep pol : policy_respects keep pol = true ->
  forall x c, should_swap pol c x = true -> keep x = false \/ keep (RCompute c) = false.
Proof.
  unfold policy_respects. intros H x c Hs.
  rewrite forallb_forall in H. specialize (H x (in_all_rkinds x)).
  rewrite forallb_forall in H. specialize (H c (in_all_cx c)). rewrite Hs in H. cbn [implb] in H.
  apply orb_true_iff in H as [H|H]; apply negb_true_iff in H; auto.
Qed.

(* the items a predicate keeps stand in the same order before and after, provided one of every pair the policy lets
   cross is not kept *)
Lemma reorder_projection keep pol : policy_respects keep pol = true ->
  forall p, filter (fun i => keep (snd i)) (reorder pol p) = filter (fun i => keep (snd i)) p.
Proof.
  intros H. apply (reorder_preserves _ (filter (fun i : ritem => keep (snd i))) pol).
  intros l1 x y c l2 Hy Hs. rewrite !filter_app. f_equal. cbn [filter]. rewrite Hy.
  destruct (policy_respects_spec keep pol H (snd x) c Hs) as [E|E]; rewrite E.
  - reflexivity.
  - destruct (keep (snd x)); reflexivity.
Qed.

(* transforms that are not column definitions keep their order; so do the column definitions among themselves *)
Lemma reorder_keeps_transforms pol p :
  filter (fun i => negb (is_compute (snd i))) (reorder pol p) = filter (fun i => negb (is_compute (snd i))) p.
Proof.
  apply (reorder_preserves _ (filter (fun i : ritem => negb (is_compute (snd i)))) pol).
  intros l1 x y c l2 Hy Hs. rewrite !filter_app. f_equal. cbn [filter]. rewrite Hy. cbn [is_compute negb].
  destruct (negb (is_compute (snd x))); reflexivity.
Qed.

Lemma reorder_keeps_computes pol p :
  filter (fun i => is_compute (snd i)) (reorder pol p) = filter (fun i => is_compute (snd i)) p.
Proof.
  apply (reorder_preserves _ (filter (fun i : ritem => is_compute (snd i))) pol).
  intros l1 x y c l2 Hy Hs. rewrite !filter_app. f_equal. cbn [filter]. rewrite Hy. cbn [is_compute].
  destruct (snd x); cbn in Hs |- *; try reflexivity. discriminate.
Qed.

(* the first transform stays where it is *)
Lemma sink_last pol c x : forall s d, last (sink pol c x s) d = last (x :: s) d.
Proof.
  induction s as [|p rest IH]; intro d; [reflexivity|].
  cbn [sink]. destruct rest as [|q rest']; [reflexivity|].
  destruct (should_swap pol c (snd p)); [|reflexivity].
  set (rest := q :: rest') in *.
  assert (N1 : sink pol c x rest <> []) by (subst rest; cbn [sink]; destruct rest'; [discriminate | destruct (should_swap pol c (snd q)); discriminate]).
  transitivity (last (sink pol c x rest) d).
  - destruct (sink pol c x rest); [contradiction | reflexivity].
  - rewrite IH. reflexivity.
Qed.

Lemma reorder_head pol x p : exists t, reorder pol (x :: p) = x :: t.
Proof.
  unfold reorder. cbn [fold_left reorder_step].
  assert (G : forall p s, last s x = x -> s <> [] -> last (fold_left (reorder_step pol) p s) x = x /\ fold_left (reorder_step pol) p s <> []).
  { induction p0 as [|y p0 IH]; intros s Hl Hn; [split; assumption|]. cbn [fold_left]. apply IH.
    - unfold reorder_step. destruct s as [|a s']; [contradiction|]. destruct (snd y); try exact Hl. rewrite sink_last. exact Hl.
    - unfold reorder_step. destruct s as [|a s']; [contradiction|]. destruct (snd y); try discriminate.
      cbn [sink]. destruct s'; [discriminate | destruct (should_swap pol c (snd a)); discriminate]. }
  destruct (G p [x] eq_refl ltac:(discriminate)) as [Hl Hn].
  destruct (exists_last Hn) as [t [z E]]. rewrite E in *. rewrite last_last in Hl. subst z.
  rewrite rev_app_distr. cbn [rev app]. eexists. reflexivity.
Qed.

(* under the modelled policy: whatever changes the row set or defines a column that looks at other rows -- Take, Filter,
   Aggregate, Join, From, set operations, Windowed / Aggregation / NonGroup column definitions -- keeps its relative order;
   only sorts and row-local (Plain) column definitions take part in the swaps *)
Lemma model_policy_respects_order : policy_respects order_matters model_reorder_policy = true.
Proof. vm_compute. reflexivity. Qed.

Lemma reorder_keeps_rowset_order p :
  filter (fun i => order_matters (snd i)) (reorder model_reorder_policy p) = filter (fun i => order_matters (snd i)) p.
Proof. apply reorder_projection. exact model_policy_respects_order. Qed.

(* with equal policies the walk is the same walk *)
Lemma should_swap_ext a b : reorder_policy_eqb a b = true -> forall c k, should_swap a c k = should_swap b c k.
Proof.
  unfold reorder_policy_eqb. intros H c k. apply andb_true_iff in H as [H Ho]. apply andb_true_iff in H as [Ht Hs].
  apply eqb_prop in Ho, Hs. rewrite forallb_forall in Ht. specialize (Ht c (in_all_cx c)). apply eqb_prop in Ht.
  destruct k; cbn [should_swap]; congruence.
Qed.

Lemma sink_ext a b : reorder_policy_eqb a b = true -> forall c x s, sink a c x s = sink b c x s.
Proof.
  intros H c x. induction s as [|p rest IH]; [reflexivity|]. cbn [sink]. destruct rest; [reflexivity|].
  rewrite (should_swap_ext a b H). rewrite IH. reflexivity.
Qed.

Lemma reorder_ext a b : reorder_policy_eqb a b = true -> forall p, reorder a p = reorder b p.
Proof.
  intros H p. unfold reorder. f_equal. generalize (@nil ritem). induction p as [|x p IH]; intro s; [reflexivity|].
  cbn [fold_left]. replace (reorder_step a s x) with (reorder_step b s x); [apply IH|].
  unfold reorder_step. destruct s; [reflexivity|]. destruct (snd x); try reflexivity. symmetry. apply sink_ext. exact H.
Qed.

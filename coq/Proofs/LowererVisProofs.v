(* C16: visibility (clause 2) as an invariant of the strict Lowerer machine (Model/LowererVis.v): every finished run of
   [vstep] yields an RQ with rq_wf = true -- all five clauses, for ALL operation sequences. *)
From Coq Require Import List NArith Bool Lia Arith.
From PV Require Import Lib.ListX Model.Rq Model.RqWf Model.Lowerer Model.RqEq Model.LowererTrace Model.LowererVis
                       Proofs.RqWfProofs Proofs.LowererProofs Proofs.LowererTraceProofs.
Import ListNotations.
Local Open Scope N_scope.

(* ------------------------------------------------------------------ tvok / pvok against RqWf's diagnostics *)

Lemma tvis_indep defs ldefs w decl vis t : snd (transform_diags defs ldefs w decl vis t) = tvis vis t.
Proof. destruct t; reflexivity. Qed.

Lemma subsetb_app a b vis : subsetb (a ++ b) vis = subsetb a vis && subsetb b vis.
Proof. unfold subsetb. apply forallb_app. Qed.

Lemma subsetb_check_uses defs ldefs w vis s cs : subsetb cs vis = true -> check_uses defs ldefs w vis s cs = [].
Proof.
  unfold subsetb, check_uses. induction cs as [|c cs IH]; cbn [forallb flat_map]; [reflexivity|].
  intro H. apply andb_true_iff in H as [H1 H2]. unfold check_use at 1. rewrite H1. cbn [app]. apply IH. exact H2.
Qed.

Lemma check_tid_nil w decl t : In t decl -> check_tid w decl t = [].
Proof. intro H. unfold check_tid. apply memN_In in H. rewrite H. reflexivity. Qed.

Lemma tvok_loop vis p : tvok vis (TLoop p) = pvok vis p.
Proof. reflexivity. Qed.

Section Diags.
  Variables (defs ldefs : list cid) (w : N) (decl : list tid).

  Definition tgood (t : transform) : Prop :=
    forall vis, tvok vis t = true -> incl (transform_trefs t) decl -> fst (transform_diags defs ldefs w decl vis t) = [].

  Lemma pvok_diags_gen p : Forall tgood p -> forall vis,
    pvok vis p = true -> incl (flat_map transform_trefs p) decl -> pipeline_diags defs ldefs w decl vis p = [].
  Proof.
    induction 1 as [|a p Ha _ IH]; intros vis Hv Ht; cbn [pipeline_diags]; [reflexivity|].
    cbn [pvok] in Hv. apply andb_true_iff in Hv as [Hv1 Hv2]. cbn [flat_map] in Ht.
    rewrite (Ha vis Hv1) by (intros x Hx; apply Ht; apply in_or_app; left; exact Hx). cbn [app].
    rewrite tvis_indep. apply IH; [exact Hv2|]. intros x Hx. apply Ht. apply in_or_app. right. exact Hx.
  Qed.

  Lemma window_diags_nil vis ow : subsetb (window_cids ow) vis = true -> window_diags defs ldefs w vis ow = [].
  Proof.
    destruct ow as [x|]; cbn [window_cids window_diags]; [|reflexivity].
    rewrite !subsetb_app. intro H. apply andb_true_iff in H as [H1 H]. apply andb_true_iff in H as [H2 H3].
    rewrite !subsetb_check_uses by assumption. reflexivity.
  Qed.

  Ltac prep Hv Ht := cbn [tvok transform_uses] in Hv; cbn [transform_trefs] in Ht; cbn [transform_diags fst].

  Lemma tvok_diags t : tgood t.
  Proof.
    induction t using transform_ind'; intros vis Hv Ht.
    - prep Hv Ht. apply check_tid_nil. apply Ht. left; reflexivity.
    - prep Hv Ht. rewrite subsetb_app in Hv. apply andb_true_iff in Hv as [Hv1 Hv2].
      rewrite subsetb_check_uses by exact Hv1. rewrite window_diags_nil by exact Hv2. reflexivity.
    - prep Hv Ht. apply subsetb_check_uses. exact Hv.
    - prep Hv Ht. apply subsetb_check_uses. exact Hv.
    - prep Hv Ht. rewrite subsetb_app in Hv. apply andb_true_iff in Hv as [Hv1 Hv2].
      rewrite !subsetb_check_uses by assumption. reflexivity.
    - prep Hv Ht. apply subsetb_check_uses. exact Hv.
    - prep Hv Ht. rewrite !subsetb_app in Hv. apply andb_true_iff in Hv as [Hv1 Hv]. apply andb_true_iff in Hv as [Hv2 Hv3].
      rewrite !subsetb_check_uses by assumption. reflexivity.
    - prep Hv Ht. rewrite check_tid_nil by (apply Ht; left; reflexivity).
      rewrite subsetb_check_uses by exact Hv. reflexivity.
    - prep Hv Ht. apply check_tid_nil. apply Ht. left; reflexivity.
    - rewrite loop_diags. cbn [fst]. rewrite tvok_loop in Hv. rewrite loop_trefs in Ht.
      apply pvok_diags_gen; assumption.
  Qed.

  Lemma pvok_diags p vis :
    pvok vis p = true -> incl (flat_map transform_trefs p) decl -> pipeline_diags defs ldefs w decl vis p = [].
  Proof. apply pvok_diags_gen. apply Forall_forall. intros t _. apply tvok_diags. Qed.

  Lemma relation_diags_nil r :
    relation_vok r = true -> incl (relation_trefs r) decl -> pipeline_shape r -> relation_diags defs ldefs w decl r = [].
  Proof.
    unfold relation_vok, relation_trefs, relation_diags, pipeline_shape. destruct (r_kind r) as [n|n|p|c n|items|n args] eqn:K;
      intros Hv Ht Hs; try reflexivity.
    - destruct (Hs p eq_refl) as [[tr [p' E1]] [p2 [cs [E2 El]]]].
      rewrite pvok_diags by assumption. cbn [app].
      assert (starts_with_from w p = []) as -> by (rewrite E1; reflexivity).
      unfold ends_with_select. rewrite E2, map_app. cbn [map]. rewrite last_last. rewrite El, N.eqb_refl. reflexivity.
    - destruct (exprs_cids items); [reflexivity | discriminate].
    - destruct (exprs_cids args); [reflexivity | discriminate].
  Qed.
End Diags.

Lemma tables_diags_nil defs ts : forall i decl,
  (forall t, In t ts -> relation_vok (t_relation t) = true /\ pipeline_shape (t_relation t)) ->
  (forall k t, nth_error ts k = Some t -> incl (relation_trefs (t_relation t)) (decl ++ firstn k (map t_id ts))) ->
  tables_diags defs i decl ts = [].
Proof.
  induction ts as [|t ts IH]; intros i decl Hok Hord; cbn [tables_diags]; [reflexivity|].
  destruct (Hok t (or_introl eq_refl)) as [Hv Hs].
  rewrite relation_diags_nil; [| exact Hv | | exact Hs].
  - cbn [app]. apply IH.
    + intros t' Ht'. apply Hok. right. exact Ht'.
    + intros k t' Hk. specialize (Hord (S k) t' Hk). cbn [map firstn] in Hord.
      rewrite <- app_assoc. exact Hord.
  - specialize (Hord 0%nat t eq_refl). cbn [firstn] in Hord. rewrite app_nil_r in Hord. exact Hord.
Qed.

(* ------------------------------------------------------------------ the invariant *)

Definition fstart (k : fkind) (rest : list (fkind * list transform)) : list cid :=
  match k with FLoop => fvis rest | _ => [] end.

Fixpoint frames_ok (fs : list (fkind * list transform)) : Prop :=
  match fs with
  | [] => True
  | (k, p) :: rest => pvok (fstart k rest) p = true /\ frames_ok rest
  end.

Definition VInv (s : lstate) : Prop :=
  frames_ok (frames s) /\ forall t, In t (tables s) -> relation_vok (t_relation t) = true.

Lemma fvis_cons k p rest : fvis ((k, p) :: rest) = pvis (fstart k rest) p.
Proof. destruct k; reflexivity. Qed.

Lemma pvis_snoc p : forall vis t, pvis vis (p ++ [t]) = tvis (pvis vis p) t.
Proof. induction p as [|a p IH]; intros vis t; cbn [app pvis]; [reflexivity | apply IH]. Qed.

Lemma pvok_snoc p : forall vis t, pvok vis (p ++ [t]) = pvok vis p && tvok (pvis vis p) t.
Proof.
  induction p as [|a p IH]; intros vis t; cbn [app pvok pvis].
  - rewrite andb_true_r. reflexivity.
  - rewrite IH, andb_assoc. reflexivity.
Qed.

Lemma last_opt_snoc {A} (p : list A) t : last_opt (p ++ [t]) = Some t.
Proof.
  induction p as [|a p IH]; [reflexivity|]. cbn [app]. destruct (p ++ [t]) eqn:E; [destruct p; discriminate|].
  cbn [last_opt]. exact IH.
Qed.

Lemma push_frames_ok t fs fs' :
  frames_ok fs -> push_top t fs = Some fs' -> tvok (fvis fs) t = true -> frames_ok fs'.
Proof.
  intros Hf Hp Hv. apply push_top_some in Hp as [k [p [r [-> ->]]]]. cbn [frames_ok] in *. destruct Hf as [H1 H2].
  split; [|exact H2]. rewrite pvok_snoc, H1. rewrite fvis_cons in Hv. rewrite Hv. reflexivity.
Qed.

Lemma push_top_last t fs fs' :
  push_top t fs = Some fs' -> forall a b c d, top_last (mkL a b c fs' d) = Some t.
Proof.
  intros Hp a b c d. apply push_top_some in Hp as [k [p [r [-> ->]]]]. unfold top_last. cbn [frames]. apply last_opt_snoc.
Qed.

Lemma VInv_init : VInv init.
Proof. split; [exact I | intros t []]. Qed.

Lemma resolve_src_vis s x t cols s2 :
  resolve_src s x = Some (t, cols, s2) -> src_closed x = true ->
  frames s2 = frames s /\ (forall d, In d (tables s2) -> In d (tables s) \/ relation_vok (t_relation d) = true).
Proof.
  destruct x as [t0|l lc]; cbn [resolve_src src_closed].
  - destruct (find_table (tables s) t0); [|discriminate]. intro H; injection H as <- <- <-. intros _. split; [reflexivity | auto].
  - destruct (guard s (leaf_cids l)); [|discriminate]. intro H; injection H as <- <- <-. intro Hc. cbn [frames tables].
    split; [reflexivity|]. intros d Hd. apply in_app_or in Hd as [Hd|[<-|[]]]; [left; exact Hd | right].
    unfold relation_vok. cbn [t_relation r_kind]. destruct l; cbn [leaf_kind leaf_cids] in *; [reflexivity | exact Hc | exact Hc].
Qed.

Lemma mk_instance_frames s node name t cols r s3 :
  mk_instance s node name t cols = (r, s3) -> frames s3 = frames s /\ tables s3 = tables s /\ next_cid s <= next_cid s3.
Proof. unfold mk_instance. intro H; injection H as <- <-. cbn [frames tables next_cid]. repeat split. lia. Qed.

Lemma select_relation_vok p frame :
  pvok [] p = true -> subsetb (map snd frame) (pvis [] p) = true -> relation_vok (select_relation p frame) = true.
Proof.
  intros H1 H2. unfold relation_vok, select_relation. cbn [r_kind]. rewrite pvok_snoc, H1. cbn [tvok transform_uses andb]. exact H2.
Qed.

Theorem vstep_inv s o s' : VInv s -> vstep s o = Some s' -> VInv s'.
Proof.
  intros [HF HT]. unfold vstep. destruct (step s o) as [s1|] eqn:St; [|discriminate].
  destruct (vguard s o s1) eqn:G; [|discriminate]. intro H; injection H as <-. revert St G.
  destruct o; cbn [step vguard].
  - (* ODeclExtern *)
    intros H _; injection H as <-. split; [exact HF|]. cbn [tables]. intros t Ht.
    apply in_app_or in Ht as [Ht|[<-|[]]]; [apply HT; exact Ht | reflexivity].
  - (* OBegin *)
    set (k := if inline then FInline (next_tid s) else FTable).
    set (s0' := if inline then mkL (next_cid s) (next_tid s + 1) (mapping s) (frames s) (tables s) else s).
    assert (frames s0' = frames s /\ tables s0' = tables s) as [Ef0 Et0] by (unfold s0'; destruct inline; split; reflexivity).
    destruct (resolve_src s0' s0) as [[[t cols] s2]|] eqn:R; [|discriminate].
    destruct (mk_instance s2 node name t cols) as [r s3] eqn:M.
    intros H Hc; injection H as <-. destruct (resolve_src_vis _ _ _ _ _ R Hc) as [Ef2 Ht2].
    destruct (mk_instance_frames _ _ _ _ _ _ _ M) as [Ef3 [Et3 _]].
    split; cbn [frames tables].
    + cbn [frames_ok]. split; [|rewrite Ef3, Ef2, Ef0; exact HF].
      assert (fstart k (frames s3) = []) as -> by (unfold k; destruct inline; reflexivity). reflexivity.
    + intros d Hd. rewrite Et3 in Hd. destruct (Ht2 d Hd) as [Hd'|Hd']; [rewrite Et0 in Hd'; apply HT; exact Hd' | exact Hd'].
  - (* OBeginLoop *)
    destruct (frames s) as [|f fs] eqn:Ef; [discriminate|]. intros H _; injection H as <-. split; cbn [frames tables]; [|exact HT].
    cbn [frames_ok pvok]. split; [reflexivity | exact HF].
  - (* OInstance *)
    destruct (resolve_src s s0) as [[[t cols] s2]|] eqn:R; [|discriminate].
    destruct (mk_instance s2 node name t cols) as [r s3] eqn:M.
    destruct (apply_use s3 r u) as [tr|] eqn:U; [|discriminate].
    destruct (push_top tr (frames s3)) as [fs|] eqn:P; [|discriminate].
    intros H G; injection H as <-. apply andb_true_iff in G as [Hc G].
    destruct (resolve_src_vis _ _ _ _ _ R Hc) as [Ef2 Ht2]. destruct (mk_instance_frames _ _ _ _ _ _ _ M) as [Ef3 [Et3 _]].
    unfold top_ok in G. rewrite (push_top_last _ _ _ P) in G.
    split; cbn [frames tables].
    + eapply push_frames_ok; [| exact P |]; rewrite Ef3, Ef2; assumption.
    + intros d Hd. rewrite Et3 in Hd. destruct (Ht2 d Hd) as [Hd'|Hd']; [apply HT; exact Hd' | exact Hd'].
  - (* ODeclare *)
    destruct (lookup_node (mapping s) node) as [[c0|m]|] eqn:L.
    + intros H _; injection H as <-. split; assumption.
    + destruct (guard s (expr_cids e ++ window_cids w)); [|discriminate].
      destruct e; destruct plain_ok; cbv beta iota;
        try (destruct (push_top _ (frames s)) as [fs|] eqn:P; [|discriminate]; intros H G; injection H as <-;
             cbn [next_cid] in G; assert (next_cid s + 1 =? next_cid s = false) as En by (apply N.eqb_neq; lia); rewrite En in G;
             unfold top_ok in G; rewrite (push_top_last _ _ _ P) in G;
             split; cbn [frames tables]; [eapply push_frames_ok; eassumption | exact HT]).
      intros H _; injection H as <-. split; assumption.
    + destruct (guard s (expr_cids e ++ window_cids w)); [|discriminate].
      destruct e; destruct plain_ok; cbv beta iota;
        try (destruct (push_top _ (frames s)) as [fs|] eqn:P; [|discriminate]; intros H G; injection H as <-;
             cbn [next_cid] in G; assert (next_cid s + 1 =? next_cid s = false) as En by (apply N.eqb_neq; lia); rewrite En in G;
             unfold top_ok in G; rewrite (push_top_last _ _ _ P) in G;
             split; cbn [frames tables]; [eapply push_frames_ok; eassumption | exact HT]).
      intros H _; injection H as <-. split; assumption.
  - (* OPush *)
    destruct (simple t && guard s (transform_uses t)); [|discriminate].
    destruct (push_top t (frames s)) as [fs|] eqn:P; [|discriminate]. intros H G; injection H as <-.
    split; cbn [frames tables]; [eapply push_frames_ok; eassumption | exact HT].
  - (* OEndTable *)
    destruct (frames s) as [|[[| |] p] fs] eqn:Ef; try discriminate.
    destruct (guard s (map snd frame)); [|discriminate]. intros H G; injection H as <-.
    cbn [frames_ok fstart] in HF. destruct HF as [Hp Hfs]. rewrite fvis_cons in G. cbn [fstart] in G.
    split; cbn [frames tables]; [exact Hfs|].
    intros d Hd. apply in_app_or in Hd as [Hd|[<-|[]]]; [apply HT; exact Hd|]. cbn [t_relation]. apply select_relation_vok; assumption.
  - (* OEndInline *)
    destruct (frames s) as [|[[|t|] p] fs] eqn:Ef; try discriminate.
    destruct (guard s (map snd frame)); [|discriminate].
    set (s1' := mkL (next_cid s) (next_tid s) (mapping s) fs (tables s ++ [mkTable t None (select_relation p frame)])).
    destruct (mk_instance s1' node None t (map fst frame)) as [r s2] eqn:M.
    destruct (mk_instance_frames _ _ _ _ _ _ _ M) as [Ef2 [Et2 _]].
    set (s3 := mkL (next_cid s2) (next_tid s2) (redirect (combine (map snd frame) (tref_cids r)) (mapping s2)) (frames s2) (tables s2)).
    destruct (apply_use s3 r u) as [tr|] eqn:U; [|discriminate].
    destruct (push_top tr (frames s3)) as [fs'|] eqn:P; [|discriminate].
    intros H G; injection H as <-. apply andb_true_iff in G as [G1 G2].
    cbn [frames_ok fstart] in HF. destruct HF as [Hp Hfs]. rewrite fvis_cons in G1. cbn [fstart] in G1. cbn [tl] in G2.
    unfold top_ok in G2. rewrite (push_top_last _ _ _ P) in G2.
    assert (frames s3 = fs) as E3 by (cbn [s3 frames]; rewrite Ef2; reflexivity).
    split; cbn [frames tables s3].
    + eapply push_frames_ok; [| exact P |]; rewrite E3; assumption.
    + rewrite Et2. cbn [s1' tables]. intros d Hd. apply in_app_or in Hd as [Hd|[<-|[]]]; [apply HT; exact Hd|].
      cbn [t_relation]. apply select_relation_vok; assumption.
  - (* OEndLoop *)
    destruct (frames s) as [|[[| |] p] fs] eqn:Ef; try discriminate.
    destruct (push_top (TLoop p) fs) as [fs'|] eqn:P; [|discriminate]. intros H _; injection H as <-.
    cbn [frames_ok fstart] in HF. destruct HF as [Hp Hfs].
    split; cbn [frames tables]; [|exact HT]. eapply push_frames_ok; [exact Hfs | exact P |]. rewrite tvok_loop. exact Hp.
Qed.

Lemma vstep_step s o s' : vstep s o = Some s' -> step s o = Some s'.
Proof. unfold vstep. destruct (step s o) as [s1|]; [|discriminate]. destruct (vguard s o s1); [auto | discriminate]. Qed.

Lemma vrun_run ops : forall s s', vrun s ops = Some s' -> run s ops = Some s'.
Proof.
  induction ops as [|o ops IH]; intros s s'; cbn [vrun run]; [auto|].
  destruct (vstep s o) as [s1|] eqn:E; [|discriminate]. rewrite (vstep_step _ _ _ E). apply IH.
Qed.

Lemma vrun_inv ops : forall s s', VInv s -> vrun s ops = Some s' -> VInv s'.
Proof.
  induction ops as [|o ops IH]; intros s s' Hi; cbn [vrun].
  - intro H; injection H as <-. exact Hi.
  - destruct (vstep s o) as [s1|] eqn:E; [|discriminate]. intro H. eapply IH; [|exact H]. eapply vstep_inv; eassumption.
Qed.

(* ------------------------------------------------------------------ the statement *)

Lemma closed_vok_wf q :
  rq_closed q -> relation_vok (q_relation q) = true -> (forall t, In t (q_tables q) -> relation_vok (t_relation t) = true) ->
  rq_wf q = true.
Proof.
  intros [C1 C2 C3 C4 C5 [C6 C7]] Hm Ht. unfold rq_wf, rq_diags.
  rewrite (NoDup_dups _ C1), (NoDup_dups _ C3). cbn [map app].
  rewrite tables_diags_nil.
  - cbn [app]. rewrite relation_diags_nil; [reflexivity | exact Hm | exact C5 | exact C6].
  - intros t Hin. split; [apply Ht; exact Hin | apply C7; exact Hin].
  - intros k t Hk. cbn [app]. exact (C4 k t Hk).
Qed.

Theorem strict_runs_emit_wf ops s q : vrun init ops = Some s -> finish s = Some q -> rq_wf q = true.
Proof.
  intros R F. pose proof (vrun_run _ _ _ R) as R'. pose proof (vrun_inv _ _ _ VInv_init R) as [_ HT].
  destruct (lowerer_emits_closed _ _ _ R' F) as [C _].
  unfold finish in F. destruct (frames s); [|discriminate]. destruct (rev (tables s)) as [|main rest] eqn:Er; [discriminate|].
  injection F as <-. assert (tables s = rev rest ++ [main]) as Et by (rewrite <- (rev_involutive (tables s)), Er; reflexivity).
  apply closed_vok_wf; [exact C | |]; cbn [q_relation q_tables].
  - apply HT. rewrite Et. apply in_or_app. right. left. reflexivity.
  - intros t Hin. apply HT. rewrite Et. apply in_or_app. left. exact Hin.
Qed.

(* the strict replay *)
Lemma run_obs_strict_vrun l : forall s k s', run_obs_strict s l k = inl s' -> vrun s (map fst l) = Some s'.
Proof.
  induction l as [|[o bs] l IH]; intros s k s'; cbn [run_obs_strict map fst vrun].
  - intro H; injection H as <-. reflexivity.
  - destruct (vstep s o) as [s1|]; [|discriminate]. destruct (forallb (check_obs s s1 o) bs); [|discriminate]. apply IH.
Qed.

Theorem replay_strict_sound l q :
  replay_strict_ok l q = true -> (exists s, vrun init (map fst l) = Some s /\ finish s = Some q) /\ rq_wf q = true.
Proof.
  unfold replay_strict_ok. destruct (run_obs_strict init l 0) as [s|k] eqn:R; [|discriminate].
  destruct (finish s) as [q'|] eqn:F; [|discriminate]. intro H. apply rq_eqb_sound in H. subst q'.
  pose proof (run_obs_strict_vrun _ _ _ _ R) as V.
  split; [exists s; split; assumption | eapply strict_runs_emit_wf; eassumption].
Qed.

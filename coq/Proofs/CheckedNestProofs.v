From Coq Require Import List NArith Arith Lia.
From PV Require Import Model.CheckedNest.
Import ListNotations.

Lemma depth_open : forall d rest cur best, cur <= best ->
  depth_go (repeat 40%N d ++ rest) cur best = depth_go rest (cur + d) (Nat.max best (cur + d)).
Proof.
  induction d as [|d IH]; intros rest cur best H; cbn [repeat app depth_go].
  - rewrite Nat.add_0_r. f_equal. lia.
  - change (N.eqb 40 40) with true. cbn iota. rewrite IH by lia. f_equal; lia.
Qed.

Lemma depth_close : forall d cur best, depth_go (repeat 41%N d) cur best = best.
Proof.
  induction d as [|d IH]; intros cur best; cbn [repeat depth_go]; [reflexivity|].
  change (N.eqb 41 40) with false. change (N.eqb 41 41) with true. cbn iota. apply IH.
Qed.

Theorem unbounded_depth_lemma : forall d, length (nest d) = 2 * d + 1 /\ bracket_depth (nest d) = d.
Proof.
  intro d. split.
  - unfold nest. rewrite !app_length, !repeat_length. cbn [length]. lia.
  - unfold bracket_depth, nest. rewrite depth_open by lia. cbn [app depth_go].
    change (N.eqb 49 40) with false. change (N.eqb 49 41) with false. cbn iota.
    rewrite depth_close. lia.
Qed.

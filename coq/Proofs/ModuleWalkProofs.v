(* C06 (modules): the relative reference of a declaration that moved into a module together with its target. *)
From Coq Require Import List Bool Lia.
From PV Require Import Lib.ListX Model.Scope Model.ModuleWalk.
Import ListNotations.

(* found_at is the search of Scope.rel_enclosing, with the place added *)
Lemma found_at_first_unique mods sc id paths :
  match find (unique_at mods sc id) paths with
  | Some p => exists x, In p paths /\ mlookup mods sc (p ++ fst id, snd id) = [x] /\ first_unique mods sc paths id = Some x
  | None => first_unique mods sc paths id = None
  end.
Proof.
  induction paths as [|p paths IH]; cbn [find first_unique]; [reflexivity|].
  unfold unique_at at 1. destruct (mlookup mods sc (p ++ fst id, snd id)) as [|x [|y l]] eqn:E.
  - destruct (find (unique_at mods sc id) paths) as [q|]; [|exact IH].
    destruct IH as (x & Hin & Hl & Hf). exists x. split; [right; exact Hin | split; assumption].
  - exists x. split; [left; reflexivity | split; [exact E | reflexivity]].
  - destruct (find (unique_at mods sc id) paths) as [q|]; [|exact IH].
    destruct IH as (x0 & Hin & Hl & Hf). exists x0. split; [right; exact Hin | split; assumption].
Qed.

Theorem found_at_is_rel_enclosing c mods sc cur id :
  match found_at c mods sc cur id with
  | Some p => exists x, In p (walk c cur) /\ mlookup mods sc (p ++ fst id, snd id) = [x] /\ rel_enclosing c mods sc cur id = Some x
  | None => rel_enclosing c mods sc cur id = None
  end.
Proof. unfold found_at, rel_enclosing. apply found_at_first_unique. Qed.

(* the walk starts in the current module itself *)
Lemma inits_ne_head l : l <> [] -> exists r, inits_ne l = l :: r.
Proof.
  intro H. unfold inits_ne. destruct (rev l) as [|x t] eqn:E.
  - exfalso. apply H. apply (f_equal (@rev _)) in E. rewrite rev_involutive in E. exact E.
  - cbn [tails_ne map]. exists (map (@rev str) (tails_ne t)). f_equal. rewrite <- E. apply rev_involutive.
Qed.

Lemma tails_ne_head l : l <> [] -> exists r, tails_ne l = l :: r.
Proof. destruct l as [|x t]; [intro H; contradiction | intros _; eexists; reflexivity]. Qed.

Lemma walk_head c cur : cur <> [] -> exists r, walk c cur = cur :: r.
Proof. intro H. unfold walk. destruct (cfg_parent_walk c); [apply inits_ne_head | apply tails_ne_head]; exact H. Qed.

(* moving a let-table and the let-table it refers to into ONE module: the relative reference is found in that module *)
Theorem sibling_table_found c mods sc cur id x :
  cur <> [] -> mlookup mods sc (cur ++ fst id, snd id) = [x] ->
  found_at c mods sc cur id = Some cur /\ rel_enclosing c mods sc cur id = Some x.
Proof.
  intros Hne Hl. destruct (walk_head c cur Hne) as [r W].
  assert (found_at c mods sc cur id = Some cur) as F.
  { unfold found_at. rewrite W. cbn [find]. unfold unique_at. rewrite Hl. reflexivity. }
  split; [exact F|].
  pose proof (found_at_is_rel_enclosing c mods sc cur id) as R. rewrite F in R.
  destruct R as (y & _ & Hy & Hr). rewrite Hl in Hy. injection Hy as <-. exact Hr.
Qed.

(* the referring let-table in a CHILD module: with the parent walk (7f02b48) the target is found in the parent *)
Theorem parent_table_found c mods sc m n id x :
  cfg_parent_walk c = true ->
  (forall y, mlookup mods sc ([m; n] ++ fst id, snd id) <> [y]) ->
  mlookup mods sc ([m] ++ fst id, snd id) = [x] ->
  found_at c mods sc [m; n] id = Some [m].
Proof.
  intros Hc Hno Hl. unfold found_at, walk. rewrite Hc. cbn [inits_ne rev app tails_ne map find].
  unfold unique_at at 1. destruct (mlookup mods sc ([m; n] ++ fst id, snd id)) as [|a [|b l]] eqn:E.
  - unfold unique_at. cbn [app] in *. rewrite Hl. reflexivity.
  - exfalso. exact (Hno a eq_refl).
  - unfold unique_at. cbn [app] in *. rewrite Hl. reflexivity.
Qed.

(* where the body is resolved makes no difference for a name that no enclosing module of either place declares: e.g. an
   absolute path `m.f` inside a function body (this is why F60b has a workaround) *)
Lemma first_resolved_all_err mods sc id paths :
  (forall p, In p paths -> exists e, resolve_core_m mods sc (p ++ fst id, snd id) = RErr e) ->
  first_resolved mods sc paths id = resolve_core_m mods sc id.
Proof.
  induction paths as [|p paths IH]; intro H; cbn [first_resolved]; [reflexivity|].
  destruct (H p (or_introl eq_refl)) as [e E]. rewrite E. apply IH. intros q Hq. apply H. right. exact Hq.
Qed.

Theorem body_ref_place_irrelevant_partial c mods sc k decl_path caller_path id :
  (forall p, In p (walk c decl_path) -> exists e, resolve_core_m mods sc (p ++ fst id, snd id) = RErr e) ->
  (forall p, In p (walk c caller_path) -> exists e, resolve_core_m mods sc (p ++ fst id, snd id) = RErr e) ->
  body_ref c mods sc k decl_path caller_path id = body_ref c mods sc DLetTable decl_path caller_path id.
Proof.
  intros Hd Hc. unfold body_ref, resolve_enclosing. destruct k; cbn [body_cur]; [reflexivity|].
  rewrite (first_resolved_all_err mods sc id _ Hc), (first_resolved_all_err mods sc id _ Hd). reflexivity.
Qed.

(* a let-table is resolved where it is declared, whoever uses it *)
Theorem let_table_body_independent_of_caller c mods sc decl_path caller1 caller2 id :
  body_ref c mods sc DLetTable decl_path caller1 id = body_ref c mods sc DLetTable decl_path caller2 id.
Proof. reflexivity. Qed.

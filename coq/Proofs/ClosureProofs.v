(* C12 lemmas about Model/Closure.v: the number of arguments that reaches unpack::<N> is N, for every term whose
   built-in functions have the parameter counts of their declarations -- lambdas included, since commit 9639161
   (materialize_function no longer cuts the parameter list of a built-in). *)
From Coq Require Import List NArith Arith Bool Lia.
From PV Require Import Lib.ListX Model.Closure.
Import ListNotations.

Section Proofs.
  Variable arity : str -> option nat.
  Notation lf := (well_declared arity).

  Definition good (rec : expr -> res) : Prop :=
    forall e, lf e = true -> (forall id g, rec e <> BadCast id g) /\ (forall r, rec e = Ok r -> lf r = true).

  Lemma fold_list_good rec : good rec -> forall l, forallb lf l = true ->
    (forall id g, fold_list rec l <> inr (BadCast id g)) /\
    (forall vs, fold_list rec l = inl vs -> length vs = length l /\ forallb lf vs = true).
  Proof.
    intros G. induction l as [|x t IH]; intro H; cbn [fold_list].
    - split; [discriminate|]. intros vs E. injection E as <-. auto.
    - cbn [forallb] in H. apply andb_true_iff in H as [Hx Ht]. destruct (G x Hx) as [Gb Go]. specialize (IH Ht) as [IHb IHo].
      destruct (rec x) as [v| | |i g|] eqn:E.
      + destruct (fold_list rec t) as [vs|e] eqn:E2.
        * split; [discriminate|]. intros vs' E3. injection E3 as <-. destruct (IHo vs eq_refl) as [L F].
          cbn [length forallb]. rewrite L, F, (Go v eq_refl). auto.
        * split; [|discriminate]. intros id g E3. injection E3 as ->. exact (IHb id g eq_refl).
      + split; discriminate.
      + split; discriminate.
      + exfalso. exact (Gb i g eq_refl).
      + split; discriminate.
  Qed.

  Definition body_ok (named np : nat) (b : fbody) : bool :=
    match b with
    | Internal id => match arity id with Some n => Nat.eqb (named + np) n | None => true end
    | StdOp => true
    | Body b' => lf b'
    end.

  Lemma forallb_repeat_val n : forallb lf (repeat Val n) = true.
  Proof. induction n; cbn; auto. Qed.

  Lemma fold_fn_good rec named np args body : good rec ->
    forallb lf args = true -> body_ok named np body = true ->
    (forall id g, fold_fn arity rec named np args body <> BadCast id g) /\
    (forall r, fold_fn arity rec named np args body = Ok r -> lf r = true).
  Proof.
    intros G Ha Hb. unfold fold_fn.
    destruct (np <? length args) eqn:E1; [split; discriminate|].
    destruct (length args <? np) eqn:E2.
    - split; [discriminate|]. intros r E. injection E as <-. cbn [well_declared]. rewrite Ha.
      destruct body; exact Hb.
    - apply Nat.ltb_ge in E1. apply Nat.ltb_ge in E2.
      assert (Hl : forallb lf (args ++ repeat Val named) = true) by (rewrite forallb_app, Ha, forallb_repeat_val; reflexivity).
      destruct (fold_list_good rec G _ Hl) as [Fb Fo].
      destruct (fold_list rec (args ++ repeat Val named)) as [args'|e] eqn:E3.
      + destruct (Fo args' eq_refl) as [L _]. rewrite app_length, repeat_length in L.
        destruct body as [id| |b]; cbn [body_ok] in Hb.
        * destruct (arity id) as [n|].
          -- apply Nat.eqb_eq in Hb. assert (H : length args' = n) by lia.
             apply Nat.eqb_eq in H. rewrite H. split; [discriminate|]. intros r E. injection E as <-. reflexivity.
          -- split; [discriminate|]. intros r E. injection E as <-. reflexivity.
        * split; [discriminate|]. intros r E. injection E as <-. reflexivity.
        * (* materialize_function *)
          destruct (G b Hb) as [Bb Bo]. destruct (rec b) as [r| | |i g|] eqn:Er; try (split; discriminate).
          -- specialize (Bo r eq_refl). destruct r as [|n' np' a' b'|c' g']; try (split; [discriminate|]; intros r E; injection E as <-; exact Bo).
             cbn [well_declared] in Bo. apply andb_true_iff in Bo as [Ba Bb'].
             destruct b' as [id'| |b''].
             ++ split; [discriminate|]. intros r E. injection E as <-. cbn [well_declared]. rewrite Ba. exact Bb'.
             ++ split; [discriminate|]. intros r E. injection E as <-. cbn [well_declared]. rewrite Ba. reflexivity.
             ++ split; [discriminate|]. intros r E. injection E as <-. cbn [well_declared forallb]. rewrite Ba. exact Bb'.
          -- exfalso. exact (Bb i g eq_refl).
      + split; [|intros r E; subst e; exfalso].
        * intros id g E. subst e. exact (Fb id g eq_refl).
        * (* an Ok out of fold_list's error branch cannot happen *)
          clear -E3. revert E3. generalize (args ++ repeat Val named). induction l as [|x t IH]; cbn [fold_list]; [discriminate|].
          destruct (rec x) as [v| | | |] eqn:E; try discriminate.
          destruct (fold_list rec t) as [vs|e']; [discriminate|]. intro H. injection H as ->. apply IH. reflexivity.
  Qed.

  Lemma fold_good fuel : good (fold arity fuel).
  Proof.
    induction fuel as [|k IH]; intros e He; cbn [fold]; [split; discriminate|].
    destruct e as [|named np args body|c given].
    - split; [discriminate|]. intros r E. injection E as <-. reflexivity.
    - cbn [well_declared] in He. apply andb_true_iff in He as [Ha Hb]. apply fold_fn_good; try assumption; destruct body; exact Hb.
    - cbn [well_declared] in He. apply andb_true_iff in He as [Hc Hg]. destruct (IH c Hc) as [Cb Co].
      destruct (fold arity k c) as [r| | |i g|] eqn:E; try (split; discriminate).
      + specialize (Co r eq_refl). destruct r as [|named np args body|c' g']; try (split; discriminate).
        cbn [well_declared] in Co. apply andb_true_iff in Co as [Ha Hb].
        apply fold_fn_good; [exact IH| |].
        * rewrite !forallb_app, Ha, forallb_repeat_val, Hg. reflexivity.
        * destruct body as [id| |b]; cbn [body_ok] in *; try assumption.
          destruct (arity id); [|reflexivity]. rewrite Nat.add_0_l, Nat.add_comm. exact Hb.
      + exfalso. exact (Cb i g eq_refl).
  Qed.

  (* no application, however curried or wrapped in lambdas, reaches unpack with a wrong number of arguments *)
  Theorem well_declared_no_bad_cast fuel e : lf e = true -> forall id g, fold arity fuel e <> BadCast id g.
  Proof. intro H. exact (proj1 (fold_good fuel e H)). Qed.
End Proofs.

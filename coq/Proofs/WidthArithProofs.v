(* C12 lemmas about Model/WidthArith.v: the widening loop of write_or_expand reaches the unlimited width
   u16::MAX after a bounded number of steps from every width >= 2, at u16::MAX consume_width cannot fail,
   and nothing in the arithmetic panics (since b4fb037 the indentation product saturates). *)
From Coq Require Import List ZArith Bool Lia Arith.
From PV Require Import Model.Checked Model.WidthArith Proofs.CheckedProofs.
Import ListNotations.
Local Open Scope Z_scope.

Lemma u16_max_val : u16_max = 65535.
Proof. reflexivity. Qed.

Lemma in_u16_spec z : in_u16 z = true <-> 0 <= z <= u16_max.
Proof. unfold in_u16. rewrite andb_true_iff, !Z.leb_le. tauto. Qed.

(* ---- consume_width ---- *)
Theorem consume_width_unlimited o w : max_width o = u16_max -> consume_width o w = Some o.
Proof. intro H. unfold consume_width. rewrite H, Z.eqb_refl. reflexivity. Qed.

Theorem consume_width_some o w o' : consume_width o w = Some o' ->
  max_width o' = max_width o /\ indent o' = indent o /\
  (max_width o = u16_max /\ o' = o \/ 0 <= w <= rem_width o /\ rem_width o' = rem_width o - w).
Proof.
  unfold consume_width. destruct (Z.eqb_spec (max_width o) u16_max) as [E|E].
  - intro H. injection H as <-. auto.
  - unfold try_from16. destruct (in_u16 w) eqn:Ew; [|discriminate]. apply in_u16_spec in Ew.
    unfold checked_sub16. destruct (Z.leb_spec w (rem_width o)) as [L|L]; [|discriminate].
    intro Hs. injection Hs as <-. cbn [max_width indent rem_width]. repeat split; try reflexivity. right. lia.
Qed.

(* a token wider than any u16 is refused at every limited width (so the loop must reach the unlimited one) *)
Theorem consume_width_too_wide o w : max_width o <> u16_max -> u16_max < w -> consume_width o w = None.
Proof.
  intros H1 H2. unfold consume_width. destruct (Z.eqb_spec (max_width o) u16_max); [contradiction|].
  unfold try_from16. destruct (in_u16 w) eqn:E; [|reflexivity]. apply in_u16_spec in E. lia.
Qed.

(* ---- reset_line ---- *)
Theorem reset_line_total o : reset_line o <> Panic.
Proof. unfold reset_line. discriminate. Qed.

Lemma sat_mul16_le a b : sat_mul16 a b <= u16_max.
Proof. unfold sat_mul16. apply Z.le_min_l. Qed.

(* at the unlimited width the line can always be reset, whatever the indent *)
Theorem reset_line_unlimited o : max_width o = u16_max ->
  exists r, reset_line o = Ret (Some (WOpt u16_max r (indent o))) /\ 0 <= r.
Proof.
  intro Hm. unfold reset_line, checked_sub16. rewrite Hm.
  pose proof (sat_mul16_le tab_len (indent o)) as L.
  destruct (Z.leb_spec (sat_mul16 tab_len (indent o)) u16_max) as [L'|L']; [|lia].
  eexists. split; [reflexivity | lia].
Qed.

(* the indent stays a u16 under the saturating increments / decrements *)
Theorem indent_in_out_range o : 0 <= indent o <= u16_max ->
  0 <= indent (indent_in o) <= u16_max /\ 0 <= indent (indent_out o) <= u16_max.
Proof.
  intro H. unfold indent_in, indent_out, sat_add16. cbn [indent]. rewrite u16_max_val in *. lia.
Qed.

(* ---- widening ---- *)
Lemma widen_width_le w : widen_width w <= u16_max.
Proof. unfold widen_width, sat_add16. apply Z.le_min_l. Qed.

Lemma widen_width_mono a b : 0 <= a <= b -> widen_width a <= widen_width b.
Proof.
  intro H. unfold widen_width, sat_add16. apply Z.min_le_compat_l.
  assert (a / 2 <= b / 2) by (apply Z.div_le_mono; lia). lia.
Qed.

Lemma widen_width_nonneg a : 0 <= a -> a <= widen_width a \/ widen_width a = u16_max.
Proof.
  intro H. unfold widen_width, sat_add16. assert (0 <= a / 2) by (apply Z.div_pos; lia).
  destruct (Z.min_spec u16_max (a + a / 2)) as [[_ E]|[_ E]]; rewrite E; [right; reflexivity | left; lia].
Qed.

Lemma iter_widen_range n : forall a, 0 <= a <= u16_max -> 0 <= iterw n a <= u16_max.
Proof.
  induction n as [|n IH]; intros a H; cbn [iterw]; [exact H|].
  specialize (IH a H). split; [|apply widen_width_le].
  destruct (widen_width_nonneg (iterw n a)) as [L|L]; [lia | lia | rewrite L, u16_max_val; lia].
Qed.

Lemma iter_widen_mono n : forall a b, 0 <= a <= b -> b <= u16_max ->
  iterw n a <= iterw n b.
Proof.
  induction n as [|n IH]; intros a b H Hb; cbn [iterw]; [lia|].
  apply widen_width_mono. split; [|apply IH; assumption].
  apply (iter_widen_range n a). lia.
Qed.

Lemma iter_widen_2 : iterw 27 2 = u16_max.
Proof. vm_compute. reflexivity. Qed.

(* from every width >= 2 the loop is at the unlimited width after at most 27 widenings *)
Theorem widen_reaches_unlimited w : 2 <= w <= u16_max -> iterw 27 w = u16_max.
Proof.
  intro H. apply Z.le_antisymm; [apply (iter_widen_range 27 w); lia|].
  rewrite <- iter_widen_2 at 1. apply iter_widen_mono; lia.
Qed.

(* from the default width 50: exactly 18 widenings *)
Theorem widen_from_default :
  iterw 18 50 = u16_max /\ iterw 17 50 <> u16_max.
Proof. split; vm_compute; [reflexivity | discriminate]. Qed.

(* widths 0 and 1 never grow: max_width / 2 = 0 (not reachable: every WriteOpt starts from 50 or u16::MAX) *)
Theorem widen_stuck_below_2 n : iterw n 1 = 1 /\ iterw n 0 = 0.
Proof. induction n as [|n [IH1 IH0]]; cbn [iterw]; [auto|]. rewrite IH1, IH0. split; reflexivity. Qed.

Lemma widen_ret o :
  exists o', widen o = Ret o' /\ max_width o' = widen_width (max_width o) /\ indent o' = indent o.
Proof.
  unfold widen, reset_line. cbn [indent max_width bind].
  destruct (checked_sub16 (widen_width (max_width o)) (sat_mul16 tab_len (indent o))); eexists; (split; [reflexivity|]); cbn; auto.
Qed.

Lemma iter_succ_r n (a : Z) : iterw (S n) a = iterw n (widen_width a).
Proof. induction n as [|n IH]; [reflexivity|]. cbn [iterw] in *. rewrite IH. reflexivity. Qed.

Section ExpandProofs.
  Variable T : Type.
  Variable write : wopt -> option T.
  (* what is NOT proved here: that the layout succeeds once the width is unlimited *)
  Hypothesis write_unlimited : forall o, max_width o = u16_max -> write o <> None.

  Lemma expand_within n : forall o,
    iterw n (max_width o) = u16_max -> exists s, expand write (S n) o = Ret (Some s).
  Proof.
    induction n as [|n IH]; intros o Hw; cbn [expand].
    - cbn [iterw] in Hw. specialize (write_unlimited o Hw). destruct (write o) as [s|]; [eauto | congruence].
    - destruct (write o) as [s|] eqn:E; [eauto|].
      destruct (widen_ret o) as (o' & Eo & Em & Ei). rewrite Eo. cbn [bind].
      apply IH. rewrite Em. rewrite <- iter_succ_r. exact Hw.
  Qed.

  (* write_or_expand returns after at most 28 calls of `write` (19 from the default width) *)
  Theorem expand_terminates o : 2 <= max_width o <= u16_max -> exists s, expand write 28 o = Ret (Some s).
  Proof. intros Hw. apply expand_within. apply widen_reaches_unlimited; exact Hw. Qed.

  Theorem expand_terminates_default o : max_width o = 50 -> exists s, expand write 19 o = Ret (Some s).
  Proof. intros Hw. apply expand_within. rewrite Hw; apply widen_from_default. Qed.
End ExpandProofs.

(* C14 -- s-/f-strings: the text display_interpolation writes lexes (string lexer model of Model/FmtLit.v) to the content
   `interp_content parts`, and the interpolation parser (C17's model of parser/interpolation.rs, Model/LexerInterp.v,
   read-only here) splits that content into exactly the parts that were printed. *)
From Coq Require Import List NArith Bool Arith Lia.
From PV Require Import Lib.ListX Model.FmtLit Model.FmtPratt Model.Fmt Model.Lexer Model.LexerInterp Proofs.FmtLitProofs.
Import ListNotations.
Local Open Scope N_scope.

Local Arguments N.eqb : simpl never.

(* an item of the interpolation parser, without its positions *)
Definition item_part (it : iitem) : ipart :=
  match it with
  | IString s => IStr s
  | LexerInterp.IExpr path _ _ f => FmtPratt.IExpr path f
  end.

Definition is_nil {A} (l : list A) : bool := match l with [] => true | _ => false end.

(* part lists the parser can produce: strings are non-empty and maximal (no two in a row), paths are non-empty and
   their parts contain no backtick, a format specifier contains no closing brace *)
Fixpoint canon (parts : list ipart) : bool :=
  match parts with
  | [] => true
  | IStr s :: t => negb (is_nil s) && (match t with IStr _ :: _ => false | _ => true end) && canon t
  | FmtPratt.IExpr path f :: t =>
      negb (is_nil path) && forallb (fun p => negb (contains c_backtick p)) path &&
      (match f with Some x => negb (contains c_rbrace x) | None => true end) && canon t
  end.

(* ------------------------------------------------------------------ the string level *)
Lemma in_string_step c rest fuel acc :
  lex_content (S fuel) c_dquote 1 (in_string c ++ rest) acc = lex_content fuel c_dquote 1 rest (c :: acc).
Proof.
  rewrite lex_content_S. unfold in_string.
  destruct (N.eqb_spec c c_bslash) as [->|Hb].
  { cbn [app FmtLit.count_prefix]. change (c_bslash =? c_dquote) with false. cbn [Nat.leb]. rewrite N.eqb_refl, lex_escape_b. reflexivity. }
  destruct (N.eqb_spec c c_dquote) as [->|Hq].
  { cbn [app FmtLit.count_prefix]. change (c_bslash =? c_dquote) with false. cbn [Nat.leb]. rewrite N.eqb_refl, lex_escape_dq. reflexivity. }
  cbn [app FmtLit.count_prefix]. destruct (N.eqb_spec c c_dquote); [contradiction|]. cbn [Nat.leb].
  destruct (N.eqb_spec c c_bslash); [contradiction | reflexivity].
Qed.

Lemma in_string_content s : forall acc fuel, (length s < fuel)%nat ->
  lex_content fuel c_dquote 1 (flat_map in_string s ++ [c_dquote]) acc = Some (rev acc ++ s, []).
Proof.
  induction s as [|c t IH]; intros acc fuel Hf.
  - destruct fuel; [cbn in Hf; lia|]. cbn. rewrite app_nil_r. reflexivity.
  - destruct fuel; [cbn in Hf; lia|]. cbn [flat_map]. rewrite <- app_assoc. rewrite in_string_step.
    rewrite IH by (cbn [length] in Hf; lia). cbn [rev]. rewrite <- app_assoc. reflexivity.
Qed.

Lemma in_string_head c : match in_string c with x :: _ => x <> c_dquote | [] => False end.
Proof.
  unfold in_string. destruct (N.eqb_spec c c_bslash); [discriminate|]. destruct (N.eqb_spec c c_dquote); [discriminate | assumption].
Qed.

Lemma in_string_length s : (length s <= length (flat_map in_string s))%nat.
Proof.
  induction s as [|c t IH]; [cbn; lia|]. cbn [flat_map]. rewrite app_length. cbn [length].
  pose proof (in_string_head c). destruct (in_string c); [contradiction|]. cbn [length]. lia.
Qed.

(* a double-quoted string whose content is written with `in_string` lexes to that content *)
Theorem in_string_lexes s : lex_string (c_dquote :: flat_map in_string s ++ [c_dquote]) = Some (s, []).
Proof.
  unfold lex_string, lex_quoted. destruct s as [|c t].
  - reflexivity.
  - assert (Hcp : FmtLit.count_prefix c_dquote (c_dquote :: flat_map in_string (c :: t) ++ [c_dquote]) = 1%nat).
    { cbn [FmtLit.count_prefix flat_map]. rewrite N.eqb_refl. pose proof (in_string_head c) as Hh.
      destruct (in_string c) as [|x r]; [contradiction|]. cbn [app FmtLit.count_prefix]. destruct (N.eqb_spec x c_dquote); [contradiction | reflexivity]. }
    rewrite Hcp. cbn [Nat.eqb Nat.even skipn].
    rewrite in_string_content; [reflexivity|]. cbn [length]. rewrite app_length. cbn [length].
    pose proof (in_string_length (c :: t)) as HL. cbn [length] in HL. lia.
Qed.

(* ------------------------------------------------------------------ text = in_string (content) *)
Section Content.
  Variable R : ttab.

  Lemma interp_escape_split c : interp_escape c = flat_map in_string (brace_escape c).
  Proof.
    unfold interp_escape, brace_escape, in_string.
    destruct (N.eqb_spec c c_bslash) as [->|]; [reflexivity|].
    destruct (N.eqb_spec c c_dquote) as [->|]; [reflexivity|].
    destruct (N.eqb_spec c c_lbrace) as [->|]; [reflexivity|].
    destruct (N.eqb_spec c c_rbrace) as [->|]; [reflexivity|].
    cbn [flat_map app]. destruct (N.eqb_spec c c_bslash); [contradiction|]. destruct (N.eqb_spec c c_dquote); [contradiction | reflexivity].
  Qed.

  Lemma flat_map_flat_map {A B C} (f : A -> list B) (g : B -> list C) l :
    flat_map g (flat_map f l) = flat_map (fun a => flat_map g (f a)) l.
  Proof. induction l as [|a t IH]; [reflexivity|]. cbn [flat_map]. rewrite flat_map_app, IH. reflexivity. Qed.

  Lemma ipart_text_split p : ipart_text R p = flat_map in_string (ipart_content R p).
  Proof.
    destruct p as [s|path f]; cbn [ipart_text ipart_content].
    - rewrite flat_map_flat_map. apply flat_map_ext. intro c. apply interp_escape_split.
    - cbn [flat_map]. unfold in_string at 3. change (c_lbrace =? c_bslash) with false. change (c_lbrace =? c_dquote) with false. cbn [app].
      f_equal. rewrite !flat_map_app. f_equal. destruct f as [x|]; cbn [flat_map app]; [|reflexivity].
      unfold in_string at 3. reflexivity.
  Qed.

  Lemma interp_text_split parts : flat_map (ipart_text R) parts = flat_map in_string (interp_content R parts).
  Proof.
    unfold interp_content. rewrite flat_map_flat_map. apply flat_map_ext. intro p. apply ipart_text_split.
  Qed.

  (* display_interpolation, then the string lexer: the content *)
  Theorem interp_text_lexes sql parts :
    exists p, interp_text R sql parts = p :: c_dquote :: flat_map in_string (interp_content R parts) ++ [c_dquote] /\
              lex_string (tl (interp_text R sql parts)) = Some (interp_content R parts, []).
  Proof.
    unfold interp_text. rewrite interp_text_split. eexists. split; [reflexivity|]. cbn [tl]. apply in_string_lexes.
  Qed.
End Content.

(* ------------------------------------------------------------------ the interpolation parser on the content *)
Section Parser.
  Variable is_alpha is_alnum : N -> bool.
  Hypothesis ascii_alpha : forall c, c < 128 -> is_alpha c = in_ranges letters c.
  Hypothesis ascii_alnum : forall c, c < 128 -> is_alnum c = in_ranges alnum_ascii c.
  Hypothesis alpha_alnum : forall c, is_alpha c = true -> is_alnum c = true.
  Variable I : idtab.
  Hypothesis TOK : idtab_ok I = true.

  Notation ident_part := (p_ident_part is_alpha is_alnum).
  Notation cont := (is_ident_cont is_alnum).

  Lemma span_while_app (p : N -> bool) (a b : list N) : forallb p a = true -> match b with [] => True | d :: _ => p d = false end ->
    span_while p (@app N a b) = (a, b).
  Proof.
    intros Ha Hb. induction a as [|c t IH]; cbn [app].
    - destruct b as [|d r]; [reflexivity|]. cbn [span_while]. rewrite Hb. reflexivity.
    - cbn [forallb] in Ha. apply andb_true_iff in Ha as [Hc Ht]. cbn [span_while]. rewrite Hc, (IH Ht). reflexivity.
  Qed.

  (* what follows an identifier part inside `{...}`: `.`, `:` or `}` *)
  Definition after_ident (rest : str) : Prop := exists d r, rest = d :: r /\ (d = 46 \/ d = 58 \/ d = 125).

  Lemma after_not_cont rest : after_ident rest -> match rest with [] => True | d :: _ => cont d = false end.
  Proof.
    intros [d [r [-> H]]]. unfold is_ident_cont. rewrite ascii_alnum by (destruct H as [ -> | [ -> | -> ] ]; reflexivity).
    destruct H as [ -> | [ -> | -> ] ]; reflexivity.
  Qed.

  Lemma disp_part_lexes p rest : contains c_backtick p = false -> after_ident rest ->
    ident_part (display_ident_part I p ++ rest) = Some (p, rest).
  Proof.
    intros Hb Ha. unfold display_ident_part.
    assert (BT : ident_part (bt p ++ rest) = Some (p, rest)).
    { unfold p_ident_part, p_ident_plain, bt. cbn [app]. unfold is_ident_start.
      rewrite (ascii_alpha c_backtick) by reflexivity. change (in_ranges letters c_backtick || (c_backtick =? 95)) with false. cbn [orelse].
      unfold p_ident_bt. cbn [eat]. rewrite N.eqb_refl. rewrite <- app_assoc. cbn [app].
      rewrite (span_while_app not_backtick p (c_backtick :: rest)).
      - cbn [eat]. rewrite N.eqb_refl. reflexivity.
      - clear - Hb. induction p as [|c t IH]; [reflexivity|]. cbn [contains existsb forallb] in *.
        apply orb_false_iff in Hb as [Hc Ht]. unfold not_backtick.
        assert ((c =? 96) = false) as -> by (rewrite N.eqb_sym; exact Hc). cbn [negb andb]. apply IH. exact Ht.
      - unfold not_backtick. rewrite N.eqb_refl. reflexivity. }
    destruct p as [|c t]; [exact BT|].
    destruct (in_ranges (it_disp_start I) c && forallb (in_ranges (it_disp_rest I)) t && negb (existsb (leqb (c :: t)) (it_disp_reserved I))) eqn:B;
      [|exact BT].
    apply andb_true_iff in B as [B _]. apply andb_true_iff in B as [Hc Ht].
    pose proof TOK as TK. unfold idtab_ok in TK. repeat (apply andb_true_iff in TK as [TK ?]).
    unfold p_ident_part, p_ident_plain. cbn [app].
    assert (Hs : is_ident_start is_alpha c = true).
    { unfold is_ident_start. apply (in_start_ok is_alpha ascii_alpha). eapply ranges_sub_in; eassumption. }
    rewrite Hs. rewrite (span_while_app cont t rest).
    - reflexivity.
    - apply (forallb_imp (in_ranges (it_disp_rest I))); [|exact Ht]. intros x Hx.
      pose proof (in_rest_ok is_alnum ascii_alnum x ltac:(eapply ranges_sub_in; eassumption)) as Hw. exact Hw.
    - apply after_not_cont. exact Ha.
  Qed.

  (* the parts of a path after the first: `.` part, repeated *)
  Definition dot_parts (ps : list str) : str := flat_map (fun p => 46 :: display_ident_part I p) ps.

  Lemma join_dot_cons p ps : join_dot (map (display_ident_part I) (p :: ps)) = display_ident_part I p ++ dot_parts ps.
  Proof.
    revert p. induction ps as [|q t IH]; intro p.
    - cbn [map join_dot dot_parts flat_map]. rewrite app_nil_r. reflexivity.
    - change (join_dot (map (display_ident_part I) (p :: q :: t)))
        with (display_ident_part I p ++ c_dot :: join_dot (map (display_ident_part I) (q :: t))).
      rewrite (IH q). reflexivity.
  Qed.

  Definition ends_path (rest : str) : Prop := exists d r, rest = d :: r /\ (d = 58 \/ d = 125).

  Lemma ends_after rest : ends_path rest -> after_ident rest.
  Proof. intros [d [r [-> H]]]. exists d, r. split; [reflexivity | right; exact H]. Qed.

  Lemma dot_after ps rest : ends_path rest -> after_ident (dot_parts ps ++ rest).
  Proof.
    intro H. destruct ps as [|p t]; [apply ends_after; exact H|].
    cbn [dot_parts flat_map app]. eexists _, _. split; [reflexivity | left; reflexivity].
  Qed.

  Lemma path_rest_lexes ps rest : forallb (fun p => negb (contains c_backtick p)) ps = true -> ends_path rest ->
    forall fuel, (length ps <= fuel)%nat -> p_path_rest is_alpha is_alnum fuel (dot_parts ps ++ rest) = (ps, rest).
  Proof.
    intros Hb He. induction ps as [|p t IH]; intros fuel Hf.
    - cbn [dot_parts flat_map app]. destruct fuel; [reflexivity|]. cbn [p_path_rest].
      destruct He as [d [r [-> H]]]. cbn [eat]. destruct H as [ -> | -> ]; reflexivity.
    - destruct fuel; [cbn in Hf; lia|]. cbn [forallb] in Hb. apply andb_true_iff in Hb as [Hp Ht]. apply negb_true_iff in Hp.
      cbn [dot_parts flat_map]. fold (dot_parts t). rewrite <- app_assoc. cbn [app p_path_rest eat]. rewrite N.eqb_refl.
      rewrite (disp_part_lexes p _ Hp (dot_after t rest He)).
      rewrite (IH Ht fuel ltac:(cbn [length] in Hf; lia)). reflexivity.
  Qed.

  Lemma dot_parts_length ps rest : (length ps <= length (dot_parts ps ++ rest))%nat.
  Proof.
    induction ps as [|p t IH]; [cbn; lia|]. cbn [dot_parts flat_map]. fold (dot_parts t). rewrite <- app_assoc.
    cbn [app length]. rewrite app_length. lia.
  Qed.

  Lemma path_lexes path rest : path <> [] -> forallb (fun p => negb (contains c_backtick p)) path = true -> ends_path rest ->
    p_path is_alpha is_alnum (display_ident I path ++ rest) = Some (path, rest).
  Proof.
    intros Hne Hb He. destruct path as [|p ps]; [contradiction Hne; reflexivity|].
    cbn [forallb] in Hb. apply andb_true_iff in Hb as [Hp Hps]. apply negb_true_iff in Hp.
    unfold display_ident. rewrite join_dot_cons, <- app_assoc. unfold p_path.
    rewrite (disp_part_lexes p _ Hp (dot_after ps rest He)).
    rewrite (path_rest_lexes ps rest Hps He _ (dot_parts_length ps rest)). reflexivity.
  Qed.

  (* ---- one `{path:format}` *)
  Lemma expr_lexes pos path f rest : path <> [] -> forallb (fun p => negb (contains c_backtick p)) path = true ->
    match f with Some x => contains c_rbrace x = false | None => True end ->
    exists a b, p_iexpr is_alpha is_alnum pos (ipart_content {| sym_text := fun _ => []; ids := I |} (FmtPratt.IExpr path f) ++ rest)
                = Some (LexerInterp.IExpr path a b f, rest).
  Proof.
    intros Hne Hb Hf. cbn [ipart_content ids]. unfold p_iexpr. cbn [app eat]. change (c_lbrace =? 123) with true. cbv iota.
    rewrite <- !app_assoc.
    destruct f as [x|].
    - cbn [app]. rewrite (path_lexes path (58 :: x ++ c_rbrace :: rest) Hne Hb ltac:(eexists _, _; split; [reflexivity | left; reflexivity])).
      unfold p_fmt. cbn [eat]. change (58 =? 58) with true. cbv iota.
      rewrite (span_while_app not_rbrace x (c_rbrace :: rest)).
      + cbn [eat]. change (c_rbrace =? 125) with true. cbv iota. eexists _, _. reflexivity.
      + clear - Hf. induction x as [|c t IH]; [reflexivity|]. cbn [contains existsb forallb] in *.
        apply orb_false_iff in Hf as [Hc Ht]. unfold not_rbrace.
        assert ((c =? 125) = false) as -> by (rewrite N.eqb_sym; exact Hc). cbn [negb andb]. apply IH. exact Ht.
      + reflexivity.
    - cbn [app]. rewrite (path_lexes path (c_rbrace :: rest) Hne Hb ltac:(eexists _, _; split; [reflexivity | right; reflexivity])).
      unfold p_fmt. cbn [eat]. change (c_rbrace =? 58) with false. cbv iota. cbn [eat]. change (c_rbrace =? 125) with true. cbv iota.
      eexists _, _. reflexivity.
  Qed.

  (* ---- one string chunk *)
  (* what may follow a chunk: the end, or the `{` of an expression (followed by the first character of an identifier part) *)
  Definition chunk_stop (rest : str) : Prop :=
    rest = [] \/ exists d r, rest = c_lbrace :: d :: r /\ d <> c_lbrace.

  Lemma chunk_stop_spec rest : chunk_stop rest -> p_ichunk rest = ([], rest).
  Proof.
    intros [->|[d [r [-> Hd]]]]; [reflexivity|]. cbn [p_ichunk]. change (is_brace c_lbrace) with true. cbv iota.
    destruct (N.eqb_spec d c_lbrace); [contradiction | reflexivity].
  Qed.

  Lemma chunk_lexes s rest : chunk_stop rest -> p_ichunk (flat_map brace_escape s ++ rest) = (s, rest).
  Proof.
    intro Hr. induction s as [|c t IH]; [cbn [flat_map app]; apply chunk_stop_spec; exact Hr|].
    cbn [flat_map]. rewrite <- app_assoc. unfold brace_escape at 1.
    destruct (N.eqb_spec c c_lbrace) as [->|Hl].
    { cbn [app p_ichunk]. change (is_brace c_lbrace) with true. cbv iota. rewrite N.eqb_refl, IH. reflexivity. }
    destruct (N.eqb_spec c c_rbrace) as [->|Hr2].
    { cbn [app p_ichunk]. change (is_brace c_rbrace) with true. cbv iota. rewrite N.eqb_refl, IH. reflexivity. }
    cbn [app p_ichunk]. assert (is_brace c = false) as ->.
    { unfold is_brace. change 123 with c_lbrace. change 125 with c_rbrace.
      destruct (N.eqb_spec c c_lbrace); [contradiction|]. destruct (N.eqb_spec c c_rbrace); [contradiction | reflexivity]. }
    rewrite IH. reflexivity.
  Qed.

  (* a chunk is not mistaken for an expression *)
  Lemma chunk_not_expr pos s rest : s <> [] -> p_iexpr is_alpha is_alnum pos (flat_map brace_escape s ++ rest) = None.
  Proof.
    intro Hne. destruct s as [|c t]; [contradiction Hne; reflexivity|]. cbn [flat_map]. rewrite <- app_assoc. unfold brace_escape at 1, p_iexpr.
    destruct (N.eqb_spec c c_lbrace) as [->|Hl].
    - cbn [app eat]. change (c_lbrace =? 123) with true. cbv iota.
      unfold p_path, p_ident_part, p_ident_plain, is_ident_start. rewrite (ascii_alpha c_lbrace) by reflexivity. cbn [orelse].
      unfold p_ident_bt. cbn [eat]. reflexivity.
    - destruct (N.eqb_spec c c_rbrace) as [->|Hr].
      + reflexivity.
      + cbn [app eat]. change 123 with c_lbrace. destruct (N.eqb_spec c c_lbrace); [contradiction | reflexivity].
  Qed.

  (* ---- the whole content *)
  Notation R0 := {| sym_text := fun _ : nat => @nil N; ids := I |}.

  Lemma disp_part_head p : exists d r, display_ident_part I p = d :: r /\ d <> c_lbrace.
  Proof.
    unfold display_ident_part. destruct p as [|c t]; [eexists _, _; split; [reflexivity | discriminate]|].
    destruct (in_ranges (it_disp_start I) c && forallb (in_ranges (it_disp_rest I)) t && negb (existsb (leqb (c :: t)) (it_disp_reserved I))) eqn:B.
    - eexists _, _; split; [reflexivity|]. intros ->.
      apply andb_true_iff in B as [B _]. apply andb_true_iff in B as [Hc _].
      pose proof TOK as TK. unfold idtab_ok in TK. repeat (apply andb_true_iff in TK as [TK ?]).
      pose proof (in_start_ok is_alpha ascii_alpha c_lbrace ltac:(eapply ranges_sub_in; eassumption)) as Hs.
      rewrite (ascii_alpha c_lbrace) in Hs by reflexivity. discriminate Hs.
    - eexists _, _; split; [reflexivity | discriminate].
  Qed.

  Lemma content_stop parts : canon parts = true ->
    match parts with IStr _ :: _ => True | _ => chunk_stop (interp_content R0 parts) end.
  Proof.
    intro Hc. destruct parts as [|[s|path f] t]; [left; reflexivity | exact Logic.I|].
    right. cbn [canon] in Hc. repeat (apply andb_true_iff in Hc as [Hc ?]). destruct path as [|p ps]; [discriminate Hc|].
    unfold interp_content. cbn [flat_map ipart_content ids]. unfold display_ident. rewrite join_dot_cons.
    destruct (disp_part_head p) as [d [r [E Hd]]]. rewrite E. cbn [app]. eexists _, _. split; [reflexivity | exact Hd].
  Qed.

  Lemma content_length parts : canon parts = true -> (length parts <= length (interp_content R0 parts))%nat.
  Proof.
    induction parts as [|p t IH]; intro Hc; [cbn; lia|]. unfold interp_content. cbn [flat_map]. fold (interp_content R0 t).
    rewrite app_length. cbn [length].
    destruct p as [s|path f]; cbn [canon] in Hc; repeat (apply andb_true_iff in Hc as [Hc ?]); specialize (IH ltac:(assumption)).
    - destruct s as [|c s']; [discriminate Hc|]. cbn [ipart_content flat_map]. rewrite app_length.
      assert (1 <= length (brace_escape c))%nat; [|lia]. unfold brace_escape. destruct (c =? c_lbrace); [cbn; lia|]. destruct (c =? c_rbrace); cbn; lia.
    - cbn [ipart_content length]. lia.
  Qed.

  Lemma interp_loop_step fuel pos s : s <> [] ->
    interp_loop is_alpha is_alnum (S fuel) pos s =
    match p_iitem is_alpha is_alnum pos s with
    | Some (it, r) =>
        let e := pos + (blen s - blen r) in
        match interp_loop is_alpha is_alnum fuel e r with
        | Some l => Some ({| ikind := it; istart := pos; iend := e |} :: l)
        | None => None
        end
    | None => None
    end.
  Proof. intro H. destruct s; [contradiction H; reflexivity | reflexivity]. Qed.

  Theorem content_parses parts : canon parts = true ->
    forall fuel pos, (length parts < fuel)%nat ->
    exists items, interp_loop is_alpha is_alnum fuel pos (interp_content R0 parts) = Some items /\
                  map (fun t => item_part (ikind t)) items = parts.
  Proof.
    induction parts as [|p t IH]; intros Hc fuel pos Hf.
    - destruct fuel; [lia|]. exists []. split; reflexivity.
    - destruct fuel; [lia|]. pose proof (content_stop t) as Hstop.
      unfold interp_content. cbn [flat_map]. fold (interp_content R0 t).
      destruct p as [s|path f]; cbn [canon] in Hc; repeat (apply andb_true_iff in Hc as [Hc ?]).
      + (* a string chunk *)
        destruct s as [|c s']; [discriminate Hc|].
        assert (Hst : chunk_stop (interp_content R0 t)).
        { specialize (Hstop ltac:(assumption)). destruct t as [|[s2|path2 f2] t2]; try exact Hstop. discriminate. }
        rewrite interp_loop_step.
        2: { cbn [ipart_content flat_map]. unfold brace_escape at 1. destruct (c =? c_lbrace); [discriminate|]. destruct (c =? c_rbrace); discriminate. }
        unfold p_iitem. cbn [ipart_content].
        rewrite (chunk_not_expr pos (c :: s') _ ltac:(discriminate)).
        rewrite (chunk_lexes (c :: s') _ Hst). cbv zeta.
        destruct (IH ltac:(assumption) fuel (pos + (blen (flat_map brace_escape (c :: s') ++ interp_content R0 t) - blen (interp_content R0 t)))
                    ltac:(cbn [length] in Hf; lia)) as [items [E Em]].
        rewrite E. eexists. split; [reflexivity|]. cbn [map ikind item_part]. rewrite Em. reflexivity.
      + (* an expression *)
        destruct path as [|p0 ps]; [discriminate Hc|].
        destruct (expr_lexes pos (p0 :: ps) f (interp_content R0 t) ltac:(discriminate) ltac:(assumption)
                    ltac:(destruct f as [x|]; [apply negb_true_iff; assumption | exact Logic.I])) as [a [b Ee]].
        rewrite interp_loop_step by (cbn [ipart_content app]; discriminate).
        unfold p_iitem. rewrite Ee. cbv zeta.
        destruct (IH ltac:(assumption) fuel (pos + (blen (ipart_content R0 (FmtPratt.IExpr (p0 :: ps) f) ++ interp_content R0 t) - blen (interp_content R0 t)))
                    ltac:(cbn [length] in Hf; lia)) as [items [E Em]].
        rewrite E. eexists. split; [reflexivity|]. cbn [map ikind item_part]. rewrite Em. reflexivity.
  Qed.

  Theorem interp_content_parses parts : canon parts = true ->
    option_map (map (fun t => item_part (ikind t))) (interp_lex is_alpha is_alnum (interp_content R0 parts)) = Some parts.
  Proof.
    intro Hc. unfold interp_lex.
    destruct (content_parses parts Hc (S (length (interp_content R0 parts))) 0 ltac:(pose proof (content_length parts Hc); lia)) as [items [E Em]].
    rewrite E. cbn [option_map]. rewrite Em. reflexivity.
  Qed.
End Parser.
